(* C16 / C03 / C15 facts stated directly about what the terms translated from the Rust SOURCE
   (Generated/ElementRs.v, Generated/ParserRs.v) return when run in the RustElem evaluator.
   Each is "rewrite with the correctness lemma of the source term, apply the model theorem". *)
From XSG.Model Require Import Strings Necessity Element Parser RustElem.
From XSG.Generated Require Import ElementRs ParserRs.
From XSG.Proofs Require Import StringsProofs NecessityProofs ElementProofs DemoteProofs
                               ElementRsProofs ParserRsProofs.
From Coq Require Import String List NArith Permutation.
Import ListNotations.
Open Scope string_scope.
Open Scope list_scope.

(* ================= 1. C16: uniqueness is preserved by every construction operation ================= *)

Lemma src_new_uniq : forall n a,
  exists e, run_fn (call_of level0) new_rs (VName n) (VNames a) = Some (VElem e, VName n) /\ Uniq e.
Proof.
  intros n a. exists (new_element n a). split; [apply new_rs_correct|apply Uniq_new_element].
Qed.

Lemma src_add_unique_child_uniq : forall e c, Uniq e -> Uniq c ->
  exists e', run_fn (call_of level0) add_unique_child_rs (VElem e) (VElem c) = Some (VUnit, VElem e')
             /\ Uniq e'.
Proof.
  intros e c He Hc. exists (add_unique_child e c).
  split; [apply add_unique_child_rs_correct|apply Uniq_add_unique_child; assumption].
Qed.

Lemma src_set_child_optional_uniq : forall e n, Uniq e ->
  exists e', run_fn (call_of level0) set_child_optional_rs (VElem e) (VName n) = Some (VUnit, VElem e')
             /\ Uniq e'.
Proof.
  intros e n He. exists (set_child_optional e n).
  split; [apply set_child_optional_rs_correct|apply Uniq_set_child_optional; assumption].
Qed.

Lemma src_merge_attr_uniq : forall e l, Uniq e ->
  exists e', run_fn no_call merge_attr_rs (VElem e) (VAttrs l) = Some (VElem e', VElem e') /\ Uniq e'.
Proof.
  intros e l He. exists (merge_attr e l).
  split; [apply merge_attr_rs_correct|apply Uniq_merge_attr; assumption].
Qed.

Lemma src_set_multiple_uniq : forall e, Uniq e ->
  exists e', run_fn no_call set_multiple_rs (VElem e) VUnit = Some (VUnit, VElem e') /\ Uniq e'.
Proof.
  intros e He. exists (set_multiple e).
  split; [apply set_multiple_rs_correct|apply Uniq_set_multiple; assumption].
Qed.

Lemma src_increment_uniq : forall e, Uniq e ->
  exists e', run_fn no_call increment_rs (VElem e) VUnit = Some (VUnit, VElem e') /\ Uniq e'.
Proof.
  intros e He. exists (increment e).
  split; [apply increment_rs_correct|apply Uniq_increment; assumption].
Qed.

(* removal: the element that remains is Uniq (and, names being unique, no longer has that child) *)
Lemma Uniq_remove_child : forall e n, Uniq e ->
  Uniq (set_children e (snd (remove_child (echildren e) n))).
Proof.
  intros e n He. destruct (Uniq_inv _ He) as (Ha & Hn & Hf).
  apply Uniq_set_children; [exact He|apply remove_child_nodup; exact Hn|apply remove_child_Forall; exact Hf].
Qed.

Lemma src_remove_child_uniq : forall e n, Uniq e ->
  exists e', run_fn no_call remove_child_rs (VElem e) (VName n)
             = Some (opt_child (get_child (echildren e) n), VElem e')
             /\ Uniq e' /\ get_child (echildren e') n = None.
Proof.
  intros e n He. exists (set_children e (snd (remove_child (echildren e) n))).
  split; [|split].
  - rewrite remove_child_rs_correct, remove_child_fst. reflexivity.
  - apply Uniq_remove_child. exact He.
  - rewrite echildren_set_children. apply remove_child_absent.
    destruct (Uniq_inv _ He) as (_ & Hn & _). exact Hn.
Qed.

(* ================= 2. C16: look-up after add ================= *)

Lemma src_get_after_add : forall e c, get_child (echildren e) (ename c) = None ->
  exists e' c',
    run_fn (call_of level0) add_unique_child_rs (VElem e) (VElem c) = Some (VUnit, VElem e') /\
    run_fn no_call get_child_rs (VElem e') (VName (ename c)) = Some (VSomeChild (Mand, c'), VElem e') /\
    ename c' = ename c.
Proof.
  intros e c H. exists (add_unique_child e c), (with_pos e c).
  split; [apply add_unique_child_rs_correct|]. split; [|apply ename_with_pos].
  rewrite get_child_rs_correct. rewrite (add_unique_child_fresh _ _ H), echildren_set_children.
  rewrite get_child_last.
  - reflexivity.
  - apply get_child_none. exact H.
  - unfold cname. cbn [snd]. apply ename_with_pos.
Qed.

(* ================= 3. C03: the demotion rule at source level ================= *)

Lemma get_child_update_first : forall l n f c,
  get_child l n = Some c -> ename (f (snd c)) = ename (snd c) ->
  get_child (update_first l n f) n = Some (fst c, f (snd c)).
Proof.
  induction l as [|d r IH]; intros n f c H Hf; cbn [get_child] in H; [discriminate|].
  cbn [update_first]. destruct (str_eqb (ename (snd d)) n) eqn:E.
  - injection H as <-. cbn [get_child snd]. rewrite Hf, E. reflexivity.
  - cbn [get_child]. rewrite E. apply IH; assumption.
Qed.

Lemma src_demotion : forall root n cc c,
  Uniq root -> get_child (echildren root) n = Some c ->
  exists root',
    run_fn3 (call_of2 level0 level1) tag_optional_children_rs (VElem root) (VName n) (VMap cc)
    = Some (VElem root') /\
    exists c', get_child (echildren root') n = Some c' /\ fst c' = fst c /\
               Permutation (echildren (snd c')) (map (retag (to_optional (snd c) cc)) (echildren (snd c))).
Proof.
  intros root n cc c Hu G.
  set (f := fun p => fold_left set_child_optional (rev (to_optional (snd c) cc)) p).
  exists (set_children root (update_first (echildren root) n f)).
  split; [apply tag_optional_children_rs_demotes; exact G|].
  destruct (Uniq_inv _ Hu) as (_ & _ & Hf).
  destruct (get_child_some _ _ _ G) as [Hin _].
  rewrite Forall_forall in Hf. specialize (Hf c Hin).
  destruct (Uniq_inv _ Hf) as (_ & Hnd & _).
  destruct (demote_spec (rev (to_optional (snd c) cc)) (snd c) Hnd) as [Hs Hp].
  exists (fst c, f (snd c)). split; [|split].
  - rewrite echildren_set_children. apply get_child_update_first; [exact G|].
    unfold f. unfold shell in Hs. congruence.
  - reflexivity.
  - cbn [snd]. unfold f. eapply perm_trans; [exact Hp|].
    apply Permutation_refl'. apply map_ext. intros d. apply retag_rev.
Qed.

(* ================= 4. C15 for the source of merge_attr ================= *)

Lemma src_merge_attr_mandatory_iff : forall e l,
  NoDup (map snd (eattrs e)) -> NoDup (map snd l) ->
  exists e', run_fn no_call merge_attr_rs (VElem e) (VAttrs l) = Some (VElem e', VElem e') /\
             forall x, In (Mand, x) (eattrs e') <-> In (Mand, x) (eattrs e) /\ In (Mand, x) l.
Proof.
  intros e l He Hl. exists (merge_attr e l). split; [apply merge_attr_rs_correct|].
  intros x. rewrite eattrs_merge_attr.
  apply (merge_mandatory_iff str_eqb str_eqb_spec); assumption.
Qed.

(* ================= non-vacuity ================= *)

(* names of the example tree are pairwise distinct *)
Ltac nodup_names :=
  repeat (constructor; [vm_compute; intuition discriminate|]); constructor.

(* the example tree of Properties/C03rs.v satisfies the hypotheses of src_demotion, with a
   non-empty work list *)
Example src_demotion_example :
  let k1 := Elem (s "b") false true 2 [] [] (Some 0%nat) in
  let k3 := Elem (s "d") true false 3 [] [] (Some 2%nat) in
  let par := Elem (s "p") false true 2 [] [(Mand, k1); (Mand, k3)] (Some 0%nat) in
  let rt := Elem (s "root") false true 1 [] [(Mand, par)] None in
  Uniq rt /\ get_child (echildren rt) (s "p") = Some (Mand, par) /\
  to_optional par [(s "b", 2%N)] = [s "b"; s "d"].
Proof.
  cbv zeta. split; [|vm_compute; split; reflexivity].
  assert (U : forall n t x k p, Uniq (Elem n t x k [] [] p)).
  { intros. constructor; constructor. }
  constructor; [constructor|nodup_names|].
  constructor; [|constructor]. cbn [snd].
  constructor; [constructor|nodup_names|].
  repeat (constructor; [apply U|]). constructor.
Qed.

(* hypotheses of the Uniq-preservation statements: a Uniq parent with a child and unique attributes *)
Example src_uniq_example :
  let c1 := Elem (s "b") false true 1 [(Mand, s "x")] [] (Some 0%nat) in
  let c2 := Elem (s "c") false true 1 [] [] None in
  let e0 := Elem (s "a") false true 1 [(Mand, s "x"); (Opt, s "y")] [(Mand, c1)] None in
  Uniq e0 /\ Uniq c2 /\ get_child (echildren e0) (ename c2) = None /\
  run_fn (call_of level0) add_unique_child_rs (VElem e0) (VElem c2)
  = Some (VUnit, VElem (Elem (s "a") false true 1 [(Mand, s "x"); (Opt, s "y")]
                          [(Mand, c1); (Mand, set_pos c2 (Some 1%nat))] None)) /\
  run_fn no_call remove_child_rs (VElem e0) (VName (s "b"))
  = Some (VSomeChild (Mand, c1), VElem (Elem (s "a") false true 1 [(Mand, s "x"); (Opt, s "y")] [] None)).
Proof.
  cbv zeta. split; [|split; [|vm_compute; repeat split; reflexivity]].
  - constructor; [nodup_names|nodup_names|].
    constructor; [|constructor]. cbn [snd]. constructor; [nodup_names|constructor|constructor].
  - constructor; constructor.
Qed.

(* hypotheses of src_merge_attr_mandatory_iff, and what the source returns *)
Example src_merge_attr_example :
  let e0 := Elem (s "a") false true 1 [(Mand, s "x"); (Mand, s "y")] [] None in
  let l := [(Mand, s "x"); (Opt, s "y"); (Mand, s "z")] in
  NoDup (map snd (eattrs e0)) /\ NoDup (map snd l) /\
  run_fn no_call merge_attr_rs (VElem e0) (VAttrs l)
  = Some (VElem (Elem (s "a") false true 1 [(Mand, s "x"); (Opt, s "y"); (Opt, s "z")] [] None),
          VElem (Elem (s "a") false true 1 [(Mand, s "x"); (Opt, s "y"); (Opt, s "z")] [] None)).
Proof.
  cbv zeta. split; [nodup_names|split; [nodup_names|vm_compute; reflexivity]].
Qed.
