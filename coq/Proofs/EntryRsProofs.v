(* into_struct / extend_struct of src/parser.rs as translated by bin/translate_entry.py
   (Generated/EntryRs.v) are `take_root` around the event loop, whatever the event loop is. *)
From XSG.Model Require Import Strings Necessity Element Parser.
From XSG.Generated Require Import EntryRs.
From Coq Require Import String List.
Import ListNotations.
Open Scope list_scope.

Lemma into_struct_rs_take_root (bs : element -> outcome (element * list event)) :
  into_struct_rs bs = take_root (bs wrapper).
Proof.
  unfold into_struct_rs, take_root, wrapper. cbv zeta.
  destruct (bs (new_element (s "root") [])) as [[w rest]| |]; try reflexivity.
  destruct (echildren w) as [|c r] eqn:E; [reflexivity|].
  cbn [hd_error]. destruct (remove_child (c :: r) (ename (snd c))) as [[x|] others]; reflexivity.
Qed.

Lemma extend_struct_rs_take_root (bs : element -> outcome (element * list event)) root :
  extend_struct_rs bs root = take_root (bs (add_unique_child wrapper root)).
Proof.
  unfold extend_struct_rs, take_root, wrapper. cbv zeta.
  destruct (bs (add_unique_child (new_element (s "root") []) root)) as [[w rest]| |]; try reflexivity.
  destruct (echildren w) as [|c r] eqn:E; [reflexivity|].
  cbn [hd_error]. destruct (remove_child (c :: r) (ename (snd c))) as [[x|] others]; reflexivity.
Qed.

(* with the model's event loop on the reader's events: the model's entry points *)
Lemma into_struct_rs_model evs :
  into_struct_rs (fun r => build_struct (fuel_for evs) evs r []) = into_struct_ev evs.
Proof. now rewrite into_struct_rs_take_root. Qed.

Lemma extend_struct_rs_model root evs :
  extend_struct_rs (fun r => build_struct (fuel_for evs) evs r []) root = extend_struct_ev root evs.
Proof. now rewrite extend_struct_rs_take_root. Qed.

Lemma extend_struct_rs_error (bs : element -> outcome (element * list event)) root e :
  bs (add_unique_child wrapper root) = Err e -> extend_struct_rs bs root = Err e.
Proof. intros H. rewrite extend_struct_rs_take_root, H. reflexivity. Qed.

Lemma entry_source_example :
  let loop evs := fun r => build_struct (fuel_for evs) evs r [] in
  let d1 := [EStart (ROk (s "a")) [AOk (ROk (s "k"))]; EText (ROk tt); EEnd] in
  let d2 := [EStart (ROk (s "a")) []; EEmpty (ROk (s "b")) []; EEnd] in
  (exists e, into_struct_rs (loop d1) = Ok e /\ ename e = s "a" /\ eattrs e = [(Mand, s "k")]
             /\ exists e2, extend_struct_rs (loop d2) e = Ok e2 /\ eattrs e2 = [(Opt, s "k")]
                           /\ List.length (echildren e2) = 1%nat
                           /\ extend_struct_rs (loop [EErr 3 7]) e = Err (QuickXmlError 3 7))
  /\ into_struct_rs (loop [EMisc]) = Err NoRootError.
Proof.
  vm_compute. split; [|reflexivity].
  eexists. split; [reflexivity|]. split; [reflexivity|]. split; [reflexivity|].
  eexists. repeat split.
Qed.
