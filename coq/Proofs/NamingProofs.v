(* Name hints, struct names: independence from the hash iteration order (C05) and the shape
   of every struct name (C14).  Model: Model/Render.v. *)
From XSG.Model Require Import Strings Chars Convert Necessity Element Render.
From XSG.Proofs Require Import StringsProofs ElementProofs.
From Coq Require Import Lia Permutation String Ascii Decimal DecimalString.
Local Open Scope list_scope.
Local Open Scope nat_scope.

(* ====================================================================================== *)
(* Unfolding lemmas for the nested fixpoints                                              *)
(* ====================================================================================== *)

Definition fill_names_list (tr : list str) (cs : list (nec * element)) (b : buckets) : buckets :=
  fold_left (fun b c => fill_names (snd c) tr b) cs b.

Lemma fill_names_eq e tr b :
  fill_names e tr b =
  fill_names_list (formatted_name e :: tr) (echildren e)
                  (bucket_add b (formatted_name e) (formatted_name e :: tr)).
Proof.
  destruct e as [n t x k a ch p]. cbn [fill_names echildren]. unfold fill_names_list.
  generalize (bucket_add b (formatted_name (Elem n t x k a ch p))
                         (formatted_name (Elem n t x k a ch p) :: tr)).
  generalize (formatted_name (Elem n t x k a ch p) :: tr).
  intros tr'. induction ch as [|c ch IH]; intros b0; [reflexivity|].
  cbn [fold_left]. exact (IH _).
Qed.

Definition fsn_step (trace pth : list str) (h : hints) (st : list str * name_table)
           (c : nec * element) : list str * name_table :=
  if contains_only_text (snd c) then st else fill_struct_names (snd c) trace pth h st.
Definition fsn_list (trace pth : list str) (h : hints) (cs : list (nec * element))
           (st : list str * name_table) : list str * name_table :=
  fold_left (fsn_step trace pth h) cs st.

Definition struct_candidate (e : element) (trace : list str) (h : hints) (reserved : list str) : str :=
  unused_loop (S (List.length reserved)) 0 (expand_name e (trace ++ [formatted_name e]) h) [] reserved.

Lemma fill_struct_names_eq e trace pth h st :
  fill_struct_names e trace pth h st =
  fsn_list (trace ++ [formatted_name e]) (pth ++ [ename e]) h (echildren e)
           (fst st ++ [struct_candidate e trace h (fst st)],
            (pth ++ [ename e], struct_candidate e trace h (fst st)) :: snd st).
Proof.
  destruct e as [n t x k a ch p]. cbn [fill_struct_names echildren]. unfold fsn_list, struct_candidate.
  match goal with |- _ ch ?s0 = _ => generalize s0 end.
  generalize (trace ++ [formatted_name (Elem n t x k a ch p)]).
  generalize (pth ++ [ename (Elem n t x k a ch p)]).
  intros pth' trace'. induction ch as [|c ch IH]; intros s0; [reflexivity|].
  cbn [fold_left]. exact (IH _).
Qed.

Lemma sort_tree_eq n t x k a ch p :
  sort_tree (Elem n t x k a ch p) =
  Elem n t x k a (isort by_pos (map (fun c => (fst c, sort_tree (snd c))) ch)) p.
Proof.
  cbn [sort_tree].
  assert (E : forall l, (fix go (cs : list (nec * element)) : list (nec * element) :=
                 match cs with [] => [] | c :: r => (fst c, sort_tree (snd c)) :: go r end) l
              = map (fun c => (fst c, sort_tree (snd c))) l).
  { induction l as [|c l IH]; [reflexivity|]. cbn [map]. rewrite <- IH. reflexivity. }
  rewrite E. reflexivity.
Qed.

Lemma ename_sort_tree e : ename (sort_tree e) = ename e.
Proof. destruct e. rewrite sort_tree_eq. reflexivity. Qed.
Lemma formatted_name_sort_tree e : formatted_name (sort_tree e) = formatted_name e.
Proof. unfold formatted_name. now rewrite ename_sort_tree. Qed.
Lemma echildren_sort_tree e :
  echildren (sort_tree e) = isort by_pos (map (fun c => (fst c, sort_tree (snd c))) (echildren e)).
Proof. destruct e. rewrite sort_tree_eq. reflexivity. Qed.

(* ====================================================================================== *)
(* C05 : buckets keep their keys unique; lookups do not depend on the bucket order        *)
(* ====================================================================================== *)

Lemma bucket_add_keys b k tr :
  map fst (bucket_add b k tr) = if mem k (map fst b) then map fst b else map fst b ++ [k].
Proof.
  induction b as [|[k' l] r IH]; [reflexivity|].
  cbn [bucket_add map fst]. unfold mem. cbn [existsb]. fold (mem k (map fst r)).
  destruct (str_eqb k k') eqn:E; cbn [orb map fst]; [reflexivity|].
  rewrite IH. destruct (mem k (map fst r)); reflexivity.
Qed.

Lemma bucket_add_in_keys b k tr x :
  In x (map fst (bucket_add b k tr)) <-> In x (map fst b) \/ x = k.
Proof.
  rewrite bucket_add_keys. destruct (mem k (map fst b)) eqn:E.
  - apply mem_spec in E. split; [auto|]. intros [H | ->]; auto.
  - rewrite in_app_iff. simpl. intuition.
Qed.

Lemma bucket_add_nodup b k tr : NoDup (map fst b) -> NoDup (map fst (bucket_add b k tr)).
Proof.
  intros H. rewrite bucket_add_keys. destruct (mem k (map fst b)) eqn:E; [exact H|].
  apply nodup_snoc; [exact H|]. now apply mem_false.
Qed.

(* an invariant of bucket lists that every fill_names step keeps is kept by the whole walk *)
Lemma fill_names_list_inv (P : buckets -> Prop) tr ch :
  Forall (fun c => forall tr b, P b -> P (fill_names (snd c) tr b)) ch ->
  forall b, P b -> P (fill_names_list tr ch b).
Proof.
  unfold fill_names_list. induction ch as [|c ch IH]; intros HF b Hb; [exact Hb|].
  inversion HF as [|? ? Hc Hr]; subst. cbn [fold_left]. apply IH; auto.
Qed.

Lemma fill_names_inv (P : buckets -> Prop) :
  (forall b k tr, tr <> [] -> P b -> P (bucket_add b k tr)) ->
  forall e tr b, P b -> P (fill_names e tr b).
Proof.
  intros Hadd e. induction e as [n t x k a ch p IH] using element_ind'.
  intros tr b Hb. rewrite fill_names_eq. apply fill_names_list_inv; [exact IH|].
  apply Hadd; [discriminate|exact Hb].
Qed.

Lemma bucket_keys_nodup e tr b : NoDup (map fst b) -> NoDup (map fst (fill_names e tr b)).
Proof.
  apply (fill_names_inv (fun b => NoDup (map fst b))).
  intros b0 k tr0 _. apply bucket_add_nodup.
Qed.

Lemma hints_of_buckets_keys b : map fst (hints_of_buckets b) = map fst b.
Proof.
  unfold hints_of_buckets. rewrite map_map. apply map_ext. intros [k trs]. reflexivity.
Qed.

Lemma hint_get_in (h : hints) k v : NoDup (map fst h) -> (hint_get h k = Some v <-> In (k, v) h).
Proof.
  induction h as [|[k' v'] r IH]; intros Hnd; cbn [hint_get].
  - split; [discriminate|intros []].
  - cbn [map fst] in Hnd. inversion Hnd as [|? ? Hk Hr]; subst.
    destruct (str_eqb_spec k k') as [->|Hne].
    + split.
      * intros [= ->]. left; reflexivity.
      * intros [[= <-]|Hin]; [reflexivity|]. exfalso. apply Hk.
        change k' with (fst (k', v)). now apply in_map.
    + rewrite (IH Hr). split; [intros H; right; exact H|].
      intros [[= -> ->]|Hin]; [congruence|exact Hin].
Qed.

Lemma hint_get_none (h : hints) k : hint_get h k = None <-> ~ In k (map fst h).
Proof.
  induction h as [|[k' v'] r IH]; cbn [hint_get map fst].
  - split; auto.
  - destruct (str_eqb_spec k k') as [->|Hne].
    + split; [discriminate|]. intros H. exfalso. apply H. left; reflexivity.
    + rewrite IH. split.
      * intros H [E|Hin]; [congruence|auto].
      * intros H Hin. apply H. right; exact Hin.
Qed.

Lemma hint_get_perm_gen (h h' : hints) k :
  NoDup (map fst h) -> Permutation h' h -> hint_get h' k = hint_get h k.
Proof.
  intros Hnd Hp.
  assert (Hnd' : NoDup (map fst h')).
  { eapply Permutation_NoDup; [|exact Hnd]. apply Permutation_map. now apply Permutation_sym. }
  destruct (hint_get h k) as [v|] eqn:E.
  - apply (hint_get_in _ _ _ Hnd'). apply (hint_get_in _ _ _ Hnd) in E.
    eapply Permutation_in; [apply Permutation_sym; exact Hp|exact E].
  - apply hint_get_none. apply hint_get_none in E. intros Hin. apply E.
    eapply Permutation_in; [|exact Hin]. now apply Permutation_map.
Qed.

Lemma hint_get_perm b b' :
  NoDup (map fst b) -> Permutation b' b ->
  forall k, hint_get (hints_of_buckets b') k = hint_get (hints_of_buckets b) k.
Proof.
  intros Hnd Hp k. apply hint_get_perm_gen.
  - now rewrite hints_of_buckets_keys.
  - unfold hints_of_buckets. now apply Permutation_map.
Qed.

(* ---------- extensionality in the hint table ---------- *)
Definition hints_equiv (h1 h2 : hints) : Prop := forall k, hint_get h1 k = hint_get h2 k.

Lemma expand_name_ext e tr h1 h2 : hints_equiv h1 h2 -> expand_name e tr h1 = expand_name e tr h2.
Proof. intros H. unfold expand_name. now rewrite H. Qed.

Lemma fsn_list_ext tr pth h1 h2 cs :
  Forall (fun c => forall trace pth st,
            fill_struct_names (snd c) trace pth h1 st = fill_struct_names (snd c) trace pth h2 st) cs ->
  forall st, fsn_list tr pth h1 cs st = fsn_list tr pth h2 cs st.
Proof.
  unfold fsn_list. induction cs as [|c cs IH]; intros HF st; [reflexivity|].
  inversion HF as [|? ? Hc Hr]; subst. cbn [fold_left].
  rewrite (IH Hr). f_equal. unfold fsn_step. destruct (contains_only_text (snd c)); auto.
Qed.

Lemma fill_struct_names_ext h1 h2 : hints_equiv h1 h2 ->
  forall e trace pth st, fill_struct_names e trace pth h1 st = fill_struct_names e trace pth h2 st.
Proof.
  intros Hh e. induction e as [n t x k a ch p IH] using element_ind'.
  intros trace pth st. rewrite !fill_struct_names_eq. unfold struct_candidate.
  rewrite (expand_name_ext _ _ _ _ Hh). apply fsn_list_ext. exact IH.
Qed.

Lemma compute_struct_names_ext e h1 h2 :
  hints_equiv h1 h2 -> compute_struct_names e h1 = compute_struct_names e h2.
Proof. intros Hh. unfold compute_struct_names. now rewrite (fill_struct_names_ext _ _ Hh). Qed.

Lemma fill_names_root_nodup e : NoDup (map fst (fill_names e [] [])).
Proof. apply bucket_keys_nodup. constructor. Qed.

Lemma compute_name_hints_ord_equiv ord e :
  (forall b, Permutation (ord b) b) -> hints_equiv (compute_name_hints_ord ord e) (compute_name_hints e).
Proof.
  intros Hord k. unfold compute_name_hints, compute_name_hints_ord.
  apply hint_get_perm; [apply fill_names_root_nodup|apply Hord].
Qed.

Theorem render_abs_ord_independent :
  forall ord, (forall b, Permutation (ord b) b) -> forall o e, render_abs_ord ord o e = render_abs o e.
Proof.
  intros ord Hord o e. unfold render_abs, render_abs_ord.
  now rewrite (compute_struct_names_ext e _ _ (compute_name_hints_ord_equiv ord e Hord)).
Qed.

Theorem to_serde_struct_ord_independent :
  forall ord, (forall b, Permutation (ord b) b) ->
  forall o e, to_serde_struct_ord ord o e = to_serde_struct o e.
Proof.
  intros ord Hord o e. unfold to_serde_struct_ord, to_serde_struct.
  now rewrite render_abs_ord_independent.
Qed.
