(* The Coq re-parser of the rendered source (Model/Reparse.v, a transcription of
   harness/src/outp.rs `parse_output`) inverts the printer (Model/Render.v `print`):
     printable ds = true -> reparse (print ds) = Some (map erase' ds)
   under explicit, boolean side conditions `printable` on the strings of the struct
   definitions, which are exact (`printable_necessary`: the round trip holds ONLY IF they hold),
   and which hold of everything the renderer emits (`render_printable`).
   1. str primitives   2. the printed text as lines   3. one type / one field line
   4. fields, structs, the whole text   5. conversions to Corr/Oracles.v
   6. the renderer's output is printable   7. examples: satisfiable, and each condition needed
   8. the conditions are exact: reparse (print ds) = Some (map erase' ds) <-> printable ds = true
   9. the fuel of the parser never runs out; the string tests in words; split_lines is split at 10. *)
From Coq Require Import String Lia.
From XSG.Model Require Import Strings Chars Convert Necessity Element Render Reparse.
From XSG.Corr Require Import Common Oracles.
From XSG.Proofs Require Import StringsProofs ElementProofs RenderProofs ConvertProofs StructTableProofs WfProofs.
Open Scope list_scope.

(* ====================================================================== *)
(* 1. str primitives                                                       *)
(* ====================================================================== *)
Lemma strip_prefix_app p x : strip_prefix p (p ++ x) = Some x.
Proof.
  induction p as [|a p IH]; cbn [strip_prefix app]; [reflexivity|].
  now rewrite N.eqb_refl.
Qed.

Lemma strip_prefix_spec p : forall x r, strip_prefix p x = Some r <-> x = p ++ r.
Proof.
  induction p as [|a p IH]; intros x r; cbn [strip_prefix app].
  - split; [intros H; now injection H|intros ->; reflexivity].
  - destruct x as [|b x]; [split; discriminate|].
    destruct (N.eqb_spec a b) as [->|Hne].
    + rewrite IH. split; [intros ->; reflexivity|intros H; now injection H].
    + split; [discriminate|intros H; injection H as H _; congruence].
Qed.

(* a prefix common to pattern and text can be dropped *)
Lemma strip_prefix_app_l a b y : strip_prefix (a ++ b) (a ++ y) = strip_prefix b y.
Proof.
  induction a as [|c a IH]; cbn [strip_prefix app]; [reflexivity|].
  now rewrite N.eqb_refl.
Qed.

Lemma strip_suffix_app q x : strip_suffix q (x ++ q) = Some x.
Proof. unfold strip_suffix. now rewrite rev_app_distr, strip_prefix_app, rev_involutive. Qed.

Lemma strip_suffix_spec q x r : strip_suffix q x = Some r <-> x = r ++ q.
Proof.
  split; [|intros ->; apply strip_suffix_app].
  unfold strip_suffix. destruct (strip_prefix (rev q) (rev x)) as [r0|] eqn:E; [|discriminate].
  intros H. injection H as <-. apply strip_prefix_spec in E.
  rewrite <- (rev_involutive x), E, rev_app_distr, rev_involutive. reflexivity.
Qed.

Lemma and_then_hit p q x : and_then (strip_prefix p (p ++ x ++ q)) (strip_suffix q) = Some x.
Proof. rewrite strip_prefix_app. cbn [and_then]. apply strip_suffix_app. Qed.

(* x = p ++ m ++ q for some m: what `x.strip_prefix(p).and_then(|r| r.strip_suffix(q))` tests *)
Definition is_wrapped (p q x : str) : bool :=
  match and_then (strip_prefix p x) (strip_suffix q) with Some _ => true | None => false end.

Lemma is_wrapped_spec p q x : is_wrapped p q x = true <-> exists m, x = p ++ m ++ q.
Proof.
  unfold is_wrapped. split.
  - destruct (strip_prefix p x) as [r|] eqn:E; cbn [and_then]; [|discriminate].
    destruct (strip_suffix q r) as [m|] eqn:F; [|discriminate]. intros _.
    apply strip_prefix_spec in E. apply strip_suffix_spec in F. exists m. now rewrite E, F.
  - intros [m ->]. now rewrite and_then_hit.
Qed.

Lemma not_wrapped p q x : is_wrapped p q x = false -> and_then (strip_prefix p x) (strip_suffix q) = None.
Proof. unfold is_wrapped. destruct (and_then _ _); [discriminate|reflexivity]. Qed.

(* ---------- lines ---------- *)
Definition no_nl (x : str) : bool := forallb (fun c => negb (c =? 10)%N) x.

Lemma no_nl_app a b : no_nl (a ++ b) = no_nl a && no_nl b.
Proof. apply forallb_app. Qed.

Lemma split_lines_nonnil x : split_lines x <> [].
Proof.
  induction x as [|c x IH]; cbn [split_lines]; [discriminate|].
  destruct (c =? 10)%N; [discriminate|]. destruct (split_lines x); [congruence|discriminate].
Qed.

Lemma split_lines_line a : forall b, no_nl a = true -> split_lines (a ++ 10%N :: b) = a :: split_lines b.
Proof.
  induction a as [|c a IH]; intros b H.
  - reflexivity.
  - cbn [no_nl forallb] in H. apply andb_true_iff in H. destruct H as [Hc Ha].
    apply negb_true_iff in Hc. cbn [app split_lines]. rewrite Hc, (IH b Ha). reflexivity.
Qed.

(* the text of a list of lines, each terminated by a newline *)
Definition unlines (ls : list str) : str := flat_map (fun l => l ++ nl) ls.

Lemma unlines_app a b : unlines (a ++ b) = unlines a ++ unlines b.
Proof. apply flat_map_app. Qed.

Lemma unlines_nil : unlines [] = [].
Proof. reflexivity. Qed.
Lemma unlines_cons l ls : unlines (l :: ls) = l ++ nl ++ unlines ls.
Proof. unfold unlines. cbn [flat_map]. now rewrite <- app_assoc. Qed.

Lemma split_lines_unlines ls : forall rest,
  forallb no_nl ls = true -> split_lines (unlines ls ++ rest) = ls ++ split_lines rest.
Proof.
  induction ls as [|l ls IH]; intros rest H; [reflexivity|].
  cbn [forallb] in H. apply andb_true_iff in H. destruct H as [Hl Hls].
  unfold unlines. cbn [flat_map]. fold (unlines ls). unfold nl.
  rewrite <- !app_assoc. cbn [app]. rewrite (split_lines_line l _ Hl), (IH rest Hls). reflexivity.
Qed.

(* what a parsed line can contain *)
Lemma split_lines_no_nl x : forallb no_nl (split_lines x) = true.
Proof.
  induction x as [|c x IH]; cbn [split_lines]; [reflexivity|].
  destruct (c =? 10)%N eqn:E; [cbn [forallb no_nl]; exact IH|].
  destruct (split_lines x) as [|l ls]; cbn [forallb no_nl] in *; rewrite E; cbn [negb andb]; [reflexivity|exact IH].
Qed.

(* ====================================================================== *)
(* 2. the printed text as lines                                            *)
(* ====================================================================== *)
Definition field_lines (f : pfield') : list str :=
  (match pf_rename' f with Some r => [k_rename_open ++ r ++ k_rename_close] | None => [] end)
  ++ [k_pub ++ (pf_ident' f ++ k_colon ++ print_ty (pf_wrap' f) (pf_ty' f)) ++ k_comma].
Definition struct_lines (d : pstruct') : list str :=
  (match ps_derive' d with Some x => [k_derive_open ++ x ++ k_attr_close] | None => [] end)
  ++ [k_struct_open ++ ps_name' d ++ k_brace_open]
  ++ flat_map field_lines (ps_fields' d) ++ [k_brace_close; []].

Lemma print_field_lines f : print_field' f = unlines (field_lines f).
Proof.
  unfold print_field', field_lines, unlines, k_rename_open, k_rename_close, k_pub, k_colon, k_comma.
  destruct (pf_rename' f) as [r|]; cbn [flat_map app]; rewrite ?app_nil_r, <- ?app_assoc; reflexivity.
Qed.

Lemma print_fields_lines fs : flat_map print_field' fs = unlines (flat_map field_lines fs).
Proof.
  induction fs as [|f fs IH]; [reflexivity|].
  cbn [flat_map]. now rewrite unlines_app, IH, print_field_lines.
Qed.

Lemma print_struct_lines d : print_struct' d = unlines (struct_lines d).
Proof.
  unfold print_struct', struct_lines. rewrite print_fields_lines, !unlines_app.
  unfold k_derive_open, k_attr_close, k_struct_open, k_brace_open, k_brace_close.
  destruct (ps_derive' d) as [x|]; rewrite ?unlines_cons, ?unlines_nil;
    cbn [app]; rewrite ?app_nil_r, <- ?app_assoc; reflexivity.
Qed.

Lemma print_lines ps : print' ps = unlines (flat_map struct_lines ps).
Proof.
  unfold print'. induction ps as [|d ps IH]; [reflexivity|].
  cbn [flat_map]. now rewrite unlines_app, IH, print_struct_lines.
Qed.

(* the printer of Render.v prints the erased definitions *)
Lemma print_fields_erase fs : flat_map print_field fs = flat_map print_field' (map erase_field' fs).
Proof. induction fs as [|f fs IH]; [reflexivity|]. cbn [flat_map map]. now rewrite IH. Qed.

Lemma print_struct_erase d : print_struct d = print_struct' (erase' d).
Proof.
  unfold print_struct, print_struct', erase'. cbn [ps_derive' ps_name' ps_fields'].
  now rewrite print_fields_erase.
Qed.

Lemma print_erase ds : print ds = print' (map erase' ds).
Proof.
  unfold print, print'. induction ds as [|d ds IH]; [reflexivity|].
  cbn [flat_map map]. now rewrite IH, print_struct_erase.
Qed.

(* ====================================================================== *)
(* 3. the side conditions; one type, one field line                        *)
(* ====================================================================== *)
(* x contains the two characters `: ` in a row *)
Fixpoint has_colon_space (x : str) : bool :=
  match x with
  | [] => false
  | c :: r => ((c =? 58)%N && match r with d :: _ => (d =? 32)%N | [] => false end) || has_colon_space r
  end.

(* a struct name x used as the type of a field wrapped by w: it is not `String`, and it does not
   itself look like a wrapped type that the parser tries before (or instead of) the right one *)
Definition ty_printable (w : wrap) (t : tyname) : bool :=
  match t with
  | TyString => true
  | TyStruct x =>
      no_nl x && negb (str_eqb x (s "String"))
      && match w with
         | WPlain => negb (is_wrapped (s "Option<") (s ">") x) && negb (is_wrapped (s "Vec<") (s ">") x)
         | WOption => negb (is_wrapped (s "Vec<") (s ">") x)
         | WVec | WOptionVec => true
         end
  end.
Definition opt_no_nl (x : option str) : bool := match x with Some r => no_nl r | None => true end.
Definition field_printable (f : pfield') : bool :=
  opt_no_nl (pf_rename' f) && no_nl (pf_ident' f) && negb (has_colon_space (pf_ident' f))
  && ty_printable (pf_wrap' f) (pf_ty' f).
Definition struct_printable (d : pstruct') : bool :=
  opt_no_nl (ps_derive' d) && no_nl (ps_name' d) && forallb field_printable (ps_fields' d).
Definition printable' (ps : list pstruct') : bool := forallb struct_printable ps.
Definition printable (ds : list structdef) : bool := printable' (map erase' ds).

(* ---------- split_once at the first `: ` ---------- *)
Lemma split_once_first ident ty :
  has_colon_space ident = false -> split_once k_colon (ident ++ k_colon ++ ty) = Some (ident, ty).
Proof.
  induction ident as [|c r IH]; intros H.
  - cbn [app]. destruct (k_colon ++ ty) as [|c0 r0] eqn:E; [discriminate|]. cbn [split_once].
    rewrite <- E, strip_prefix_app. reflexivity.
  - cbn [has_colon_space] in H. apply orb_false_iff in H. destruct H as [H1 H2].
    cbn [app split_once]. rewrite (IH H2).
    replace (strip_prefix k_colon (c :: r ++ k_colon ++ ty)) with (@None str); [reflexivity|].
    change k_colon with [58%N; 32%N]. cbn [strip_prefix].
    destruct (N.eqb_spec 58 c) as [<-|Hc]; [|reflexivity].
    rewrite N.eqb_refl in H1. cbn [andb] in H1.
    destruct r as [|d r']; cbn [app]; [reflexivity|].
    rewrite (N.eqb_sym 32 d), H1. reflexivity.
Qed.

(* ---------- one type ---------- *)
Lemma wrapped_option_vec x :
  is_wrapped (s "Option<") (s ">") x = false -> is_wrapped (s "Option<Vec<") (s ">>") x = false.
Proof.
  intros H. destruct (is_wrapped (s "Option<Vec<") (s ">>") x) eqn:E; [|reflexivity].
  apply is_wrapped_spec in E. destruct E as [m ->].
  assert (W : is_wrapped (s "Option<") (s ">") (s "Option<Vec<" ++ m ++ s ">>") = true).
  { apply is_wrapped_spec. exists (s "Vec<" ++ m ++ s ">").
    change (s "Option<Vec<") with (s "Option<" ++ s "Vec<"). change (s ">>") with (s ">" ++ s ">").
    now rewrite <- !app_assoc. }
  congruence.
Qed.

Lemma option_not_option_vec x :
  is_wrapped (s "Vec<") (s ">") x = false ->
  and_then (strip_prefix (s "Option<Vec<") (s "Option<" ++ x ++ s ">")) (strip_suffix (s ">>")) = None.
Proof.
  intros H. change (s "Option<Vec<") with (s "Option<" ++ s "Vec<"). rewrite strip_prefix_app_l.
  destruct (strip_prefix (s "Vec<") (x ++ s ">")) as [r|] eqn:E; cbn [and_then]; [|reflexivity].
  destruct (strip_suffix (s ">>") r) as [m|] eqn:F; [|reflexivity]. exfalso.
  apply strip_prefix_spec in E. apply strip_suffix_spec in F. subst r.
  change (s ">>") with (s ">" ++ [62%N]) in E. change (s ">") with [62%N] in E.
  rewrite !app_assoc in E. apply app_inj_tail in E. destruct E as [E _].
  assert (W : is_wrapped (s "Vec<") (s ">") x = true).
  { apply is_wrapped_spec. exists m. rewrite E. change (s ">") with [62%N]. now rewrite !app_assoc. }
  congruence.
Qed.

Lemma vec_not_option_vec y : strip_prefix (s "Option<Vec<") (s "Vec<" ++ y) = None.
Proof. reflexivity. Qed.
Lemma vec_not_option y : strip_prefix (s "Option<") (s "Vec<" ++ y) = None.
Proof. reflexivity. Qed.

Theorem parse_ty_print w t : ty_printable w t = true -> parse_ty (print_ty w t) = (w, t).
Proof.
  destruct t as [|x]; [intros _; destruct w; reflexivity|].
  cbn [ty_printable]. intros H. apply andb_true_iff in H. destruct H as [H Hw].
  apply andb_true_iff in H. destruct H as [_ Hne]. apply negb_true_iff in Hne.
  destruct w; cbn [print_ty]; unfold parse_ty.
  - apply andb_true_iff in Hw. destruct Hw as [H1 H2]. apply negb_true_iff in H1, H2.
    rewrite (not_wrapped _ _ _ (wrapped_option_vec x H1)), (not_wrapped _ _ _ H1), (not_wrapped _ _ _ H2).
    now rewrite Hne.
  - apply negb_true_iff in Hw. rewrite (option_not_option_vec x Hw), and_then_hit. now rewrite Hne.
  - rewrite vec_not_option_vec, vec_not_option. cbn [and_then]. rewrite and_then_hit. now rewrite Hne.
  - rewrite and_then_hit. now rewrite Hne.
Qed.

(* ---------- one field line ---------- *)
Lemma parse_field_line_print f :
  field_printable f = true ->
  parse_field_line (k_pub ++ (pf_ident' f ++ k_colon ++ print_ty (pf_wrap' f) (pf_ty' f)) ++ k_comma)
  = Some (pf_ident' f, (pf_wrap' f, pf_ty' f)).
Proof.
  unfold field_printable. intros H. apply andb_true_iff in H. destruct H as [H Ht].
  apply andb_true_iff in H. destruct H as [_ Hc]. apply negb_true_iff in Hc.
  unfold parse_field_line. rewrite and_then_hit, (split_once_first _ _ Hc), (parse_ty_print _ _ Ht).
  reflexivity.
Qed.

(* ====================================================================== *)
(* 4. fields, structs, the whole text                                      *)
(* ====================================================================== *)
Lemma rename_line_not_close y : str_eqb (k_rename_open ++ y) k_brace_close = false.
Proof. reflexivity. Qed.
Lemma field_line_not_close y : str_eqb (k_pub ++ y) k_brace_close = false.
Proof. reflexivity. Qed.
Lemma field_line_not_rename y : strip_prefix k_rename_open (k_pub ++ y) = None.
Proof. reflexivity. Qed.
Lemma derive_line_not_nil y : is_nil (k_derive_open ++ y) = false.
Proof. reflexivity. Qed.
Lemma header_line_not_nil y : is_nil (k_struct_open ++ y) = false.
Proof. reflexivity. Qed.
Lemma header_line_not_derive y : strip_prefix k_derive_open (k_struct_open ++ y) = None.
Proof. reflexivity. Qed.

Lemma pfield_eta f : PF' (pf_rename' f) (pf_ident' f) (pf_wrap' f) (pf_ty' f) = f.
Proof. destruct f; reflexivity. Qed.
Lemma pstruct_eta d : PS' (ps_derive' d) (ps_name' d) (ps_fields' d) = d.
Proof. destruct d; reflexivity. Qed.

Lemma parse_fields_print fs : forall rest,
  forallb field_printable fs = true ->
  parse_fields (flat_map field_lines fs ++ k_brace_close :: rest) = Some (fs, rest).
Proof.
  induction fs as [|f fs IH]; intros rest H.
  - cbn [flat_map app parse_fields]. now rewrite str_eqb_refl.
  - cbn [forallb] in H. apply andb_true_iff in H. destruct H as [Hf Hfs].
    cbn [flat_map]. unfold field_lines at 1.
    destruct (pf_rename' f) as [r|] eqn:Er; cbn [app parse_fields].
    + rewrite rename_line_not_close, strip_prefix_app, strip_suffix_app.
      rewrite (parse_field_line_print f Hf), (IH rest Hfs), <- Er, pfield_eta. reflexivity.
    + rewrite field_line_not_close, field_line_not_rename.
      rewrite (parse_field_line_print f Hf), (IH rest Hfs), <- Er, pfield_eta. reflexivity.
Qed.

(* one struct costs one unit of fuel *)
Lemma parse_structs_step d rest fuel :
  struct_printable d = true ->
  parse_structs (S fuel) (struct_lines d ++ rest)
  = match parse_structs fuel rest with Some ps => Some (d :: ps) | None => None end.
Proof.
  unfold struct_printable. intros H. apply andb_true_iff in H. destruct H as [_ Hfs].
  unfold struct_lines. rewrite <- !app_assoc.
  destruct (ps_derive' d) as [x|] eqn:Ed; cbn [app parse_structs].
  - rewrite derive_line_not_nil. cbn [andb]. unfold parse_derive.
    rewrite strip_prefix_app, strip_suffix_app, and_then_hit, (parse_fields_print _ _ Hfs).
    rewrite <- Ed, pstruct_eta. reflexivity.
  - rewrite header_line_not_nil. cbn [andb]. unfold parse_derive.
    rewrite header_line_not_derive, and_then_hit, (parse_fields_print _ _ Hfs).
    rewrite <- Ed, pstruct_eta. reflexivity.
Qed.

Lemma parse_structs_print ps :
  printable' ps = true ->
  forall fuel, (List.length ps < fuel)%nat -> parse_structs fuel (flat_map struct_lines ps ++ [[]]) = Some ps.
Proof.
  induction ps as [|d ps IH]; intros H fuel Hf; (destruct fuel as [|fuel]; [inversion Hf|]).
  - reflexivity.
  - cbn [printable' forallb] in H. apply andb_true_iff in H. destruct H as [Hd Hps].
    cbn [flat_map]. rewrite <- app_assoc, (parse_structs_step d _ fuel Hd).
    rewrite (IH Hps fuel); [reflexivity|]. cbn [List.length] in Hf. lia.
Qed.

(* every struct is at least one line (in fact three) *)
Lemma struct_lines_count ps : (List.length ps <= List.length (flat_map struct_lines ps))%nat.
Proof.
  induction ps as [|d ps IH]; [apply le_n|].
  cbn [flat_map]. rewrite app_length. unfold struct_lines at 1. rewrite !app_length.
  cbn [List.length]. lia.
Qed.

(* ---------- the lines contain no newline ---------- *)
Lemma print_ty_no_nl w t : ty_printable w t = true -> no_nl (print_ty w t) = true.
Proof.
  destruct t as [|x]; [intros _; destruct w; reflexivity|].
  cbn [ty_printable]. intros H. apply andb_true_iff in H. destruct H as [H _].
  apply andb_true_iff in H. destruct H as [Hx _].
  destruct w; cbn [print_ty]; rewrite ?no_nl_app, Hx; reflexivity.
Qed.

Lemma field_lines_no_nl f : field_printable f = true -> forallb no_nl (field_lines f) = true.
Proof.
  unfold field_printable. intros H. apply andb_true_iff in H. destruct H as [H Ht].
  apply andb_true_iff in H. destruct H as [H _]. apply andb_true_iff in H. destruct H as [Hr Hi].
  unfold field_lines. rewrite forallb_app. cbn [forallb].
  rewrite !no_nl_app, Hi, (print_ty_no_nl _ _ Ht).
  destruct (pf_rename' f) as [r|]; cbn [forallb opt_no_nl] in *; rewrite ?no_nl_app, ?Hr; reflexivity.
Qed.

Lemma struct_lines_no_nl d : struct_printable d = true -> forallb no_nl (struct_lines d) = true.
Proof.
  unfold struct_printable. intros H. apply andb_true_iff in H. destruct H as [H Hfs].
  apply andb_true_iff in H. destruct H as [Hd Hn].
  unfold struct_lines. rewrite !forallb_app. cbn [forallb].
  rewrite !no_nl_app, Hn.
  assert (F : forallb no_nl (flat_map field_lines (ps_fields' d)) = true).
  { induction (ps_fields' d) as [|f fs IH]; [reflexivity|].
    cbn [forallb] in Hfs. apply andb_true_iff in Hfs. destruct Hfs as [Hf Hfs].
    cbn [flat_map]. now rewrite forallb_app, (field_lines_no_nl f Hf), (IH Hfs). }
  rewrite F.
  destruct (ps_derive' d) as [x|]; cbn [forallb opt_no_nl] in *; rewrite ?no_nl_app, ?Hd; reflexivity.
Qed.

Lemma lines_no_nl ps : printable' ps = true -> forallb no_nl (flat_map struct_lines ps) = true.
Proof.
  induction ps as [|d ps IH]; intros H; [reflexivity|].
  cbn [printable' forallb] in H. apply andb_true_iff in H. destruct H as [Hd Hps].
  cbn [flat_map]. now rewrite forallb_app, (struct_lines_no_nl d Hd), (IH Hps).
Qed.

(* ---------- the round trip ---------- *)
Theorem reparse_raw_print' ps : printable' ps = true -> reparse_raw (print' ps) = Some ps.
Proof.
  intros H. unfold reparse_raw.
  rewrite print_lines, <- (app_nil_r (unlines _)), (split_lines_unlines _ _ (lines_no_nl ps H)).
  cbn [split_lines]. apply (parse_structs_print ps H).
  rewrite app_length. cbn [List.length]. pose proof (struct_lines_count ps). lia.
Qed.

Theorem reparse_print' ps : printable' ps = true -> reparse (print' ps) = Some ps.
Proof. intros H. unfold reparse. now rewrite (reparse_raw_print' ps H), str_eqb_refl. Qed.

(* MAIN THEOREM: the parser inverts the printer of Render.v *)
Theorem reparse_print ds : printable ds = true -> reparse (print ds) = Some (map erase' ds).
Proof. intros H. rewrite print_erase. now apply reparse_print'. Qed.

Theorem reparse_raw_print ds : printable ds = true -> reparse_raw (print ds) = Some (map erase' ds).
Proof. intros H. rewrite print_erase. now apply reparse_raw_print'. Qed.

(* conversely, whatever `reparse` accepts is the printed form of what it returns (this is the
   final test of parse_output): the parser is injective, with the printer as its inverse *)
Theorem reparse_sound x ps : reparse x = Some ps -> print' ps = x.
Proof.
  unfold reparse. destruct (reparse_raw x) as [ps'|]; [|discriminate].
  destruct (str_eqb_spec (print' ps') x) as [E|_]; [|discriminate].
  intros H. injection H as <-. exact E.
Qed.

Corollary reparse_injective x y ps : reparse x = Some ps -> reparse y = Some ps -> x = y.
Proof. intros Hx Hy. now rewrite <- (reparse_sound x ps Hx), <- (reparse_sound y ps Hy). Qed.

(* ====================================================================== *)
(* 5. conversions to / from the records of Corr/Oracles.v                  *)
(* ====================================================================== *)
Definition to_oracle_field (f : pfield') : pfield :=
  PF (pf_rename' f) (pf_ident' f) (pf_wrap' f) (pf_ty' f).
Definition to_oracle (d : pstruct') : pstruct :=
  PS (ps_derive' d) (ps_name' d) (map to_oracle_field (ps_fields' d)).
Definition of_oracle_field (f : pfield) : pfield' :=
  PF' (pf_rename f) (pf_ident f) (pf_wrap f) (pf_ty f).
Definition of_oracle (d : pstruct) : pstruct' :=
  PS' (ps_derive d) (ps_name d) (map of_oracle_field (ps_fields d)).

Lemma of_to_oracle d : of_oracle (to_oracle d) = d.
Proof.
  destruct d as [dv n fs]. unfold of_oracle, to_oracle. cbn [ps_derive ps_name ps_fields ps_derive' ps_name' ps_fields'].
  f_equal. rewrite map_map. rewrite <- (map_id fs) at 2. apply map_ext. intros [r i w t]. reflexivity.
Qed.
Lemma to_of_oracle d : to_oracle (of_oracle d) = d.
Proof.
  destruct d as [dv n fs]. unfold of_oracle, to_oracle. cbn [ps_derive ps_name ps_fields ps_derive' ps_name' ps_fields'].
  f_equal. rewrite map_map. rewrite <- (map_id fs) at 2. apply map_ext. intros [r i w t]. reflexivity.
Qed.

Lemma to_oracle_erase d : to_oracle (erase' d) = erase d.
Proof.
  unfold to_oracle, erase', erase. cbn [ps_derive' ps_name' ps_fields']. f_equal.
  rewrite map_map. apply map_ext. reflexivity.
Qed.
Lemma of_oracle_erase d : of_oracle (erase d) = erase' d.
Proof. now rewrite <- to_oracle_erase, of_to_oracle. Qed.

Lemma map_to_oracle_erase ds : map to_oracle (map erase' ds) = map erase ds.
Proof. rewrite map_map. apply map_ext. exact to_oracle_erase. Qed.

(* the form in which the check uses the parser: structs for the oracles of Corr/Oracles.v *)
Definition reparse_oracle (x : str) : option (list pstruct) :=
  match reparse x with Some ps => Some (map to_oracle ps) | None => None end.

Theorem reparse_oracle_print ds : printable ds = true -> reparse_oracle (print ds) = Some (map erase ds).
Proof. intros H. unfold reparse_oracle. now rewrite (reparse_print ds H), map_to_oracle_erase. Qed.

(* ====================================================================== *)
(* 6. what the renderer emits is printable                                 *)
(* ====================================================================== *)
(* not a newline, space, double quote, colon or `<` *)
Definition plain_char (c : chr) : bool :=
  negb (c =? 10)%N && negb (c =? 32)%N && negb (c =? 34)%N && negb (c =? 58)%N && negb (c =? 60)%N.

(* identifier characters are plain; xid_continue / xid_start are false outside Sigma in the model,
   so no hypothesis on the alphabet is needed *)
Lemma xid_continue_plain c : xid_continue c = true -> plain_char c = true.
Proof.
  intros H. unfold plain_char.
  destruct (N.eqb_spec c 10) as [->|_]; [vm_compute in H; discriminate|].
  destruct (N.eqb_spec c 32) as [->|_]; [vm_compute in H; discriminate|].
  destruct (N.eqb_spec c 34) as [->|_]; [vm_compute in H; discriminate|].
  destruct (N.eqb_spec c 58) as [->|_]; [vm_compute in H; discriminate|].
  destruct (N.eqb_spec c 60) as [->|_]; [vm_compute in H; discriminate|].
  reflexivity.
Qed.

Lemma xid_start_plain c : xid_start c || (c =? us)%N = true -> plain_char c = true.
Proof.
  intros H. unfold plain_char.
  destruct (N.eqb_spec c 10) as [->|_]; [vm_compute in H; discriminate|].
  destruct (N.eqb_spec c 32) as [->|_]; [vm_compute in H; discriminate|].
  destruct (N.eqb_spec c 34) as [->|_]; [vm_compute in H; discriminate|].
  destruct (N.eqb_spec c 58) as [->|_]; [vm_compute in H; discriminate|].
  destruct (N.eqb_spec c 60) as [->|_]; [vm_compute in H; discriminate|].
  reflexivity.
Qed.

Lemma forallb_impl {A} (P Q : A -> bool) l :
  (forall a, P a = true -> Q a = true) -> forallb P l = true -> forallb Q l = true.
Proof.
  intros HPQ H. apply forallb_forall. intros a Ha. apply HPQ. rewrite forallb_forall in H. now apply H.
Qed.

Lemma ident_chars_plain x : Oracles.ident_chars_ok x = true -> forallb plain_char x = true.
Proof.
  destruct x as [|c r]; [discriminate|]. cbn [Oracles.ident_chars_ok forallb]. intros H.
  apply andb_true_iff in H. destruct H as [Hc Hr].
  rewrite (xid_start_plain c Hc). cbn [andb]. exact (forallb_impl _ _ r xid_continue_plain Hr).
Qed.

Lemma ident_ok_plain x : Oracles.ident_ok x = true -> forallb plain_char x = true.
Proof.
  unfold Oracles.ident_ok. intros H. apply andb_true_iff in H. destruct H as [H _].
  apply andb_true_iff in H. destruct H as [H _]. now apply ident_chars_plain.
Qed.

Lemma plain_no_nl x : forallb plain_char x = true -> no_nl x = true.
Proof.
  apply forallb_impl. intros c H. unfold plain_char in H.
  destruct (c =? 10)%N; [discriminate|reflexivity].
Qed.

Lemma plain_no_colon_space x : forallb plain_char x = true -> has_colon_space x = false.
Proof.
  induction x as [|c r IH]; [reflexivity|]. cbn [forallb has_colon_space]. intros H.
  apply andb_true_iff in H. destruct H as [Hc Hr]. rewrite (IH Hr).
  unfold plain_char in Hc. destruct (c =? 58)%N; [|reflexivity].
  rewrite !andb_true_iff in Hc. cbn [negb] in Hc. destruct Hc as [[_ Hc] _]. discriminate.
Qed.

Lemma plain_not_wrapped p q x :
  In 60%N p -> forallb plain_char x = true -> is_wrapped p q x = false.
Proof.
  intros Hp Hx. destruct (is_wrapped p q x) eqn:E; [|reflexivity].
  apply is_wrapped_spec in E. destruct E as [m ->].
  rewrite forallb_forall in Hx. specialize (Hx 60%N (in_or_app _ _ _ (or_introl Hp))). discriminate.
Qed.

Lemma literal_no_nl x : literal_ok x = true -> no_nl x = true.
Proof.
  apply forallb_impl. intros c H. destruct (c =? 10)%N; [|reflexivity].
  rewrite !andb_true_iff in H. destruct H as [_ H]. discriminate.
Qed.

Lemma struct_name_ty_printable w x : Oracles.struct_name_ok x = true -> ty_printable w (TyStruct x) = true.
Proof.
  unfold Oracles.struct_name_ok. intros H. apply andb_true_iff in H. destruct H as [Hi Hs].
  pose proof (ident_ok_plain x Hi) as Hp.
  apply negb_true_iff, mem_false in Hs.
  assert (Hne : str_eqb x (s "String") = false).
  { apply str_eqb_neq. intros ->. apply Hs. left. reflexivity. }
  cbn [ty_printable]. rewrite (plain_no_nl x Hp), Hne. cbn [negb andb].
  assert (HO : is_wrapped (s "Option<") (s ">") x = false).
  { apply plain_not_wrapped; [|exact Hp]. vm_compute. tauto. }
  assert (HV : is_wrapped (s "Vec<") (s ">") x = false).
  { apply plain_not_wrapped; [|exact Hp]. vm_compute. tauto. }
  destruct w; rewrite ?HO, ?HV; reflexivity.
Qed.

(* ---------- renames: prefix / text identifier / XML names without newline ---------- *)
Definition rename_no_nl (f : field) : Prop := opt_no_nl (f_rename f) = true.

Lemma name_ok_no_nl x : name_ok x = true -> no_nl x = true.
Proof. intros H. apply literal_no_nl, name_ok_literal, H. Qed.

Lemma remove_namespace_no_nl x : no_nl x = true -> no_nl (remove_namespace x) = true.
Proof. apply remove_namespace_forallb. Qed.

Lemma head_renames_no_nl o tbl e pth :
  tree_names_ok e = true ->
  no_nl (attribute_prefix o) = true -> no_nl (text_identifier o) = true ->
  Forall rename_no_nl (sd_fields (head_struct o tbl e pth)).
Proof.
  intros He Hp Ht. destruct (tree_names_ok_inv e He) as (_ & Ha & Hc).
  rewrite head_struct_fields. apply Forall_app; split; [|apply Forall_app; split].
  - apply Forall_forall. intros f Hf. apply in_map_iff in Hf. destruct Hf as [a [<- Hin]].
    apply (Permutation.Permutation_in _ (sorted_attrs_perm o e)) in Hin.
    pose proof (name_ok_no_nl _ (Ha a Hin)) as Hl.
    unfold rename_no_nl, attr_field. cbn [f_rename].
    match goal with |- opt_no_nl (if ?b then _ else _) = true => destruct b end; [reflexivity|].
    cbn [opt_no_nl]. rewrite no_nl_app, Hp. cbn [andb].
    destruct (starts_with_xmlns (snd a)); [exact Hl|now apply remove_namespace_no_nl].
  - unfold text_fields. destruct (etext e); constructor; [|constructor].
    unfold rename_no_nl. cbn [f_rename opt_no_nl]. exact Ht.
  - apply Forall_forall. intros f Hf. apply in_map_iff in Hf. destruct Hf as [c [<- Hin]].
    apply (Permutation.Permutation_in _ (sorted_children_perm o e)) in Hin.
    destruct (tree_names_ok_inv _ (Hc c Hin)) as (Hn & _).
    unfold rename_no_nl, child_field. cbn [f_rename].
    match goal with |- opt_no_nl (if ?b then _ else _) = true => destruct b end; [reflexivity|].
    cbn [opt_no_nl]. apply remove_namespace_no_nl, name_ok_no_nl, Hn.
Qed.

Lemma renames_no_nl o e :
  tree_names_ok e = true ->
  no_nl (attribute_prefix o) = true -> no_nl (text_identifier o) = true ->
  Forall (fun d => Forall rename_no_nl (sd_fields d)) (render_abs o e).
Proof.
  intros He Hp Ht. unfold render_abs, render_abs_ord. generalize (@nil str).
  apply (render_Forall_her (fun x => tree_names_ok x = true)); [|intros x pth Hx|exact He].
  - intros x c Hx Hc. exact (tree_names_ok_child x c Hx Hc).
  - now apply head_renames_no_nl.
Qed.

(* the three strings of the options that are copied into the text contain no newline *)
Definition options_printable (o : options) : bool :=
  no_nl (attribute_prefix o) && no_nl (text_identifier o) && no_nl (derive o).

Theorem render_printable o e :
  tree_names_ok e = true -> options_printable o = true -> printable (render_abs o e) = true.
Proof.
  intros He Ho. unfold options_printable in Ho. apply andb_true_iff in Ho. destruct Ho as [Ho Hd].
  apply andb_true_iff in Ho. destruct Ho as [Hp Ht].
  unfold printable, printable'. apply forallb_forall. intros p Hin.
  apply in_map_iff in Hin. destruct Hin as [d [<- Hin]].
  pose proof (render_derive o e) as Dd. rewrite Forall_forall in Dd. specialize (Dd d Hin). cbv beta in Dd.
  pose proof (wf_struct_names_legal o e He) as Dn. rewrite Forall_forall in Dn.
  pose proof (wf_field_idents_legal o e He) as Di. rewrite Forall_forall in Di. specialize (Di d Hin).
  pose proof (renames_no_nl o e He Hp Ht) as Dr. rewrite Forall_forall in Dr. specialize (Dr d Hin).
  unfold struct_printable, erase'. cbn [ps_derive' ps_name' ps_fields'].
  rewrite !andb_true_iff. split; [split|].
  - rewrite Dd. destruct (is_nil (derive o)); [reflexivity|exact Hd].
  - specialize (Dn d Hin). cbv beta in Dn. unfold Oracles.struct_name_ok in Dn.
    apply andb_true_iff in Dn. destruct Dn as [Dn _]. exact (plain_no_nl _ (ident_ok_plain _ Dn)).
  - apply forallb_forall. intros pf Hpf. apply in_map_iff in Hpf. destruct Hpf as [f [<- Hf]].
    rewrite Forall_forall in Di, Dr. specialize (Di f Hf). specialize (Dr f Hf). cbv beta in Di.
    unfold field_printable, erase_field'. cbn [pf_rename' pf_ident' pf_wrap' pf_ty'].
    pose proof (ident_ok_plain _ Di) as Pi.
    rewrite (plain_no_nl _ Pi), (plain_no_colon_space _ Pi). cbn [negb]. rewrite !andb_true_r.
    apply andb_true_iff. split; [exact Dr|].
    destruct (f_ty f) as [|n] eqn:Ty; [reflexivity|].
    apply struct_name_ty_printable.
    pose proof (wf_types_defined o e d f n Hin Hf Ty) as Hn.
    apply in_map_iff in Hn. destruct Hn as [d' [<- Hd']]. exact (Dn d' Hd').
Qed.

(* the hypotheses of C04 (render_wf) on the options, and a derive string without newline, suffice *)
Lemma options_printable_literal o :
  literal_ok (attribute_prefix o) = true -> literal_ok (text_identifier o) = true -> no_nl (derive o) = true ->
  options_printable o = true.
Proof. intros Hp Ht Hd. unfold options_printable. now rewrite (literal_no_nl _ Hp), (literal_no_nl _ Ht), Hd. Qed.

(* MAIN THEOREM 2: re-parsing the renderer's output gives the erased struct definitions *)
Theorem reparse_to_serde_struct o e :
  tree_names_ok e = true -> options_printable o = true ->
  reparse (to_serde_struct o e) = Some (map erase' (render_abs o e)).
Proof. intros He Ho. apply reparse_print. now apply render_printable. Qed.

Theorem reparse_oracle_to_serde_struct o e :
  tree_names_ok e = true -> options_printable o = true ->
  reparse_oracle (to_serde_struct o e) = Some (map erase (render_abs o e)).
Proof. intros He Ho. apply reparse_oracle_print. now apply render_printable. Qed.

(* so every boolean oracle of Corr/Oracles.v gives the same verdict on the re-parsed text of the
   model's output as on the erased struct definitions; e.g. with C04 (render_wf): *)
Corollary reparse_oracle_wf o e :
  Uniq e -> tree_names_ok e = true ->
  literal_ok (attribute_prefix o) = true -> literal_ok (text_identifier o) = true -> no_nl (derive o) = true ->
  exists ps, reparse_oracle (to_serde_struct o e) = Some ps /\ wf_b ps = true.
Proof.
  intros U He Hp Ht Hd. exists (map erase (render_abs o e)). split.
  - apply reparse_oracle_to_serde_struct; [exact He|now apply options_printable_literal].
  - now apply render_wf.
Qed.

(* ====================================================================== *)
(* 7. examples: the hypotheses are satisfiable; every condition is needed   *)
(* ====================================================================== *)
Definition mk_field (r : option str) (i : str) (w : wrap) (t : tyname) : field :=
  {| f_kind := FChild; f_xml := i; f_rename := r; f_ident := i; f_wrap := w; f_ty := t |}.
Definition mk_struct (dv : option str) (n : str) (fs : list field) : structdef :=
  {| sd_derive := dv; sd_name := n; sd_fields := fs |}.

(* a concrete tree (WfProofs.wf_ex_tree: prefixed names, keywords, colliding names, a struct
   called String1, attribute `text` next to character data) rendered, printed, re-parsed *)
Example reparse_example_tree :
  tree_names_ok wf_ex_tree = true
  /\ options_printable quick_xml_de = true /\ options_printable serde_xml_rs = true
  /\ printable (render_abs quick_xml_de wf_ex_tree) = true
  /\ reparse (to_serde_struct quick_xml_de wf_ex_tree) = Some (map erase' (render_abs quick_xml_de wf_ex_tree))
  /\ List.length (split_lines (to_serde_struct quick_xml_de wf_ex_tree)) = 44%nat
  /\ option_map (map (fun p => (ps_name' p, map pf_ident' (ps_fields' p))))
                (reparse (to_serde_struct quick_xml_de wf_ex_tree))
     = Some [ (s "XsSelf", [s "xmlns_xs"; s "xs_type_attr"; s "xs_self_type_attr"; s "text"; s "text_content";
                            s "foo"; s "foo_1"; s "xs_self_type"; s "xs_type"]);
              (s "XsSelfFoo", [s "foo_fn"; s "string"]);
              (s "String1", [s "text"]);
              (s "XsSelfFoo1", [s "a_b"; s "text"]) ].
Proof. repeat split; vm_compute; reflexivity. Qed.

(* a small one in full: the text and what is read back *)
Definition small_tree : element :=
  Elem (s "a") false true 1 [(Opt, s "k")]
       [(Mand, Elem (s "b") true false 2 [] [] (Some 0%nat));
        (Opt, Elem (s "c") false false 1 [(Mand, s "x")] [] (Some 1%nat))] None.

Example reparse_example_small :
  to_serde_struct quick_xml_de small_tree
  = s "#[derive(Serialize, Deserialize)]" ++ nl
    ++ s "pub struct A {" ++ nl
    ++ s "    #[serde(rename = " ++ quote ++ s "@k" ++ quote ++ s ")]" ++ nl
    ++ s "    pub k: Option<String>," ++ nl
    ++ s "    pub b: Vec<String>," ++ nl
    ++ s "    pub c: Option<Vec<C>>," ++ nl
    ++ s "}" ++ nl ++ nl
    ++ s "#[derive(Serialize, Deserialize)]" ++ nl
    ++ s "pub struct C {" ++ nl
    ++ s "    #[serde(rename = " ++ quote ++ s "@x" ++ quote ++ s ")]" ++ nl
    ++ s "    pub x: String," ++ nl
    ++ s "}" ++ nl ++ nl
  /\ reparse (to_serde_struct quick_xml_de small_tree)
     = Some [ PS' (Some (s "Serialize, Deserialize")) (s "A")
                  [ PF' (Some (s "@k")) (s "k") WOption TyString;
                    PF' None (s "b") WVec TyString;
                    PF' None (s "c") WOptionVec (TyStruct (s "C")) ];
              PS' (Some (s "Serialize, Deserialize")) (s "C")
                  [ PF' (Some (s "@x")) (s "x") WPlain TyString ] ].
Proof. split; vm_compute; reflexivity. Qed.

(* damaged text is refused *)
Example reparse_refuses :
  reparse (s "pub struct A {" ++ nl ++ s "}" ++ nl) = None                       (* no blank line *)
  /\ reparse (s "pub struct A {" ++ nl ++ s "    pub a String," ++ nl ++ s "}" ++ nl ++ nl) = None
  /\ reparse (s "pub struct A {" ++ nl ++ s "}" ++ nl ++ nl ++ nl) = None        (* trailing text *)
  /\ reparse [] = Some [].
Proof. repeat split; vm_compute; reflexivity. Qed.

(* ---------- each condition of `printable` is needed ---------- *)
(* no newline in: the struct name, the derive string, a rename, an identifier, a type name *)
Example printable_needs_no_newline :
  let d1 := [mk_struct None (s "A" ++ nl ++ s "B") []] in
  let d2 := [mk_struct (Some (s "X" ++ nl)) (s "A") []] in
  let d3 := [mk_struct None (s "A") [mk_field (Some (s "r" ++ nl)) (s "a") WPlain TyString]] in
  let d4 := [mk_struct None (s "A") [mk_field None (s "a" ++ nl) WPlain TyString]] in
  let d5 := [mk_struct None (s "A") [mk_field None (s "a") WVec (TyStruct (nl ++ s "B"))]] in
  (printable d1 = false /\ reparse (print d1) = None)
  /\ (printable d2 = false /\ reparse (print d2) = None)
  /\ (printable d3 = false /\ reparse (print d3) = None)
  /\ (printable d4 = false /\ reparse (print d4) = None)
  /\ (printable d5 = false /\ reparse (print d5) = None).
Proof. cbv zeta. repeat split; vm_compute; reflexivity. Qed.

(* an identifier must not contain `: `: the text `pub a: b: String,` is read as the field `a` of
   type `b: String` *)
Example printable_needs_no_colon_space :
  let d := [mk_struct None (s "A") [mk_field None (s "a: b") WPlain TyString]] in
  printable d = false
  /\ reparse (print d) = Some [PS' None (s "A") [PF' None (s "a") WPlain (TyStruct (s "b: String"))]]
  /\ reparse (print d) <> Some (map erase' d).
Proof. cbv zeta. repeat split; try (vm_compute; reflexivity). vm_compute. discriminate. Qed.

(* a struct called `String` is read back as the type String *)
Example printable_needs_not_String :
  let d := [mk_struct None (s "A") [mk_field None (s "a") WVec (TyStruct (s "String"))]] in
  printable d = false
  /\ reparse (print d) = Some [PS' None (s "A") [PF' None (s "a") WVec TyString]]
  /\ reparse (print d) <> Some (map erase' d).
Proof. cbv zeta. repeat split; try (vm_compute; reflexivity). vm_compute. discriminate. Qed.

(* a bare struct name of the form Option<..> or Vec<..> is read as a wrapped type, and one of the
   form Vec<..> under Option as Option<Vec<..>> *)
Example printable_needs_not_wrapped :
  let d1 := [mk_struct None (s "A") [mk_field None (s "a") WPlain (TyStruct (s "Option<B>"))]] in
  let d2 := [mk_struct None (s "A") [mk_field None (s "a") WPlain (TyStruct (s "Vec<B>"))]] in
  let d3 := [mk_struct None (s "A") [mk_field None (s "a") WOption (TyStruct (s "Vec<B>"))]] in
  (printable d1 = false
   /\ reparse (print d1) = Some [PS' None (s "A") [PF' None (s "a") WOption (TyStruct (s "B"))]]
   /\ reparse (print d1) <> Some (map erase' d1))
  /\ (printable d2 = false
      /\ reparse (print d2) = Some [PS' None (s "A") [PF' None (s "a") WVec (TyStruct (s "B"))]]
      /\ reparse (print d2) <> Some (map erase' d2))
  /\ (printable d3 = false
      /\ reparse (print d3) = Some [PS' None (s "A") [PF' None (s "a") WOptionVec (TyStruct (s "B"))]]
      /\ reparse (print d3) <> Some (map erase' d3)).
Proof. cbv zeta. repeat split; try (vm_compute; reflexivity); vm_compute; discriminate. Qed.

(* what is NOT needed (the format is line based and the parser strips fixed prefixes and suffixes):
   spaces and braces in a struct name, double quotes and the closing pattern of the rename line in a rename, `)]` in the derive string,
   a colon at the end of an identifier, `<` `>` in a type under Vec / Option<Vec>, an unclosed
   `Vec<` / `Option<` prefix *)
Example printable_liberal :
  let d := [mk_struct (Some (s "X)]")) (s "A { B {")
              [mk_field (Some (quote ++ s ")]" ++ quote)) (s "a :") WVec (TyStruct (s "Vec<B>"));
               mk_field None (s "b") WOptionVec (TyStruct (s "Option<Vec<B>>"));
               mk_field None (s "c") WPlain (TyStruct (s "Vec<B"));
               mk_field None (s "d") WOption (TyStruct (s "Option<B>"))]] in
  printable d = true /\ reparse (print d) = Some (map erase' d).
Proof. cbv zeta. split; vm_compute; reflexivity. Qed.

(* the hypotheses of render_printable are needed: a newline in one of the three option strings,
   or in a name of the tree (which no XML name has) *)
Example render_needs_options_printable :
  let o1 := {| text_identifier := s "$text"; attribute_prefix := s "@"; derive := s "A" ++ nl; sort := Unsorted |} in
  let o2 := {| text_identifier := s "$text"; attribute_prefix := nl; derive := []; sort := Unsorted |} in
  let o3 := {| text_identifier := nl; attribute_prefix := s "@"; derive := []; sort := Unsorted |} in
  let e3 := Elem (s "a") true true 1 [] [] None in
  tree_names_ok small_tree = true /\ tree_names_ok e3 = true
  /\ (options_printable o1 = false /\ reparse (to_serde_struct o1 small_tree) = None)
  /\ (options_printable o2 = false /\ reparse (to_serde_struct o2 small_tree) = None)
  /\ (options_printable o3 = false /\ reparse (to_serde_struct o3 e3) = None).
Proof. cbv zeta. repeat split; vm_compute; reflexivity. Qed.

Example render_needs_names :
  let e := Elem (s "a") false true 1 [(Mand, s "k" ++ nl ++ s "j")] [] None in
  tree_names_ok e = false /\ options_printable quick_xml_de = true
  /\ reparse (to_serde_struct quick_xml_de e) = None.
Proof. cbv zeta. repeat split; vm_compute; reflexivity. Qed.

(* ====================================================================== *)
(* 8. the conditions are exact                                             *)
(* ====================================================================== *)
(* `printable` splits into: no newline in any string, and the shape conditions *)
Definition ty_nl_free (t : tyname) : bool := match t with TyString => true | TyStruct x => no_nl x end.
Definition ty_shape (w : wrap) (t : tyname) : bool :=
  match t with
  | TyString => true
  | TyStruct x =>
      negb (str_eqb x (s "String"))
      && match w with
         | WPlain => negb (is_wrapped (s "Option<") (s ">") x) && negb (is_wrapped (s "Vec<") (s ">") x)
         | WOption => negb (is_wrapped (s "Vec<") (s ">") x)
         | WVec | WOptionVec => true
         end
  end.
Definition field_nl_free (f : pfield') : bool :=
  opt_no_nl (pf_rename' f) && no_nl (pf_ident' f) && ty_nl_free (pf_ty' f).
Definition field_shape (f : pfield') : bool :=
  negb (has_colon_space (pf_ident' f)) && ty_shape (pf_wrap' f) (pf_ty' f).
Definition struct_nl_free (d : pstruct') : bool :=
  opt_no_nl (ps_derive' d) && no_nl (ps_name' d) && forallb field_nl_free (ps_fields' d).
Definition struct_shape (d : pstruct') : bool := forallb field_shape (ps_fields' d).

Lemma ty_printable_split w t : ty_printable w t = ty_nl_free t && ty_shape w t.
Proof. destruct t as [|x]; [reflexivity|]. cbn [ty_printable ty_nl_free ty_shape]. now rewrite andb_assoc. Qed.

Lemma field_printable_split f : field_printable f = field_nl_free f && field_shape f.
Proof.
  unfold field_printable, field_nl_free, field_shape. rewrite ty_printable_split.
  destruct (opt_no_nl (pf_rename' f)), (no_nl (pf_ident' f)), (has_colon_space (pf_ident' f)),
    (ty_nl_free (pf_ty' f)), (ty_shape (pf_wrap' f) (pf_ty' f)); reflexivity.
Qed.

Lemma forallb_ext' {A} (P Q : A -> bool) l : (forall a, P a = Q a) -> forallb P l = forallb Q l.
Proof. intros H. induction l as [|a l IH]; [reflexivity|]. cbn [forallb]. now rewrite H, IH. Qed.

Lemma forallb_andb {A} (P Q : A -> bool) l :
  forallb (fun a => P a && Q a) l = forallb P l && forallb Q l.
Proof.
  induction l as [|a l IH]; [reflexivity|]. cbn [forallb]. rewrite IH.
  destruct (P a), (Q a), (forallb P l); reflexivity.
Qed.

Lemma struct_printable_split d : struct_printable d = struct_nl_free d && struct_shape d.
Proof.
  unfold struct_printable, struct_nl_free, struct_shape.
  rewrite (forallb_ext' field_printable (fun f => field_nl_free f && field_shape f)) by (intros f; apply field_printable_split).
  rewrite forallb_andb. now rewrite !andb_assoc.
Qed.

Lemma printable_split ps : printable' ps = forallb struct_nl_free ps && forallb struct_shape ps.
Proof.
  unfold printable'. rewrite <- forallb_andb. apply forallb_ext'. intros d. apply struct_printable_split.
Qed.

(* ---------- 8a. whatever is parsed out of lines contains no newline ---------- *)
Lemma strip_prefix_no_nl p x r : strip_prefix p x = Some r -> no_nl x = true -> no_nl r = true.
Proof.
  intros E H. apply strip_prefix_spec in E. subst x. rewrite no_nl_app in H.
  apply andb_true_iff in H. tauto.
Qed.
Lemma strip_suffix_no_nl q x r : strip_suffix q x = Some r -> no_nl x = true -> no_nl r = true.
Proof.
  intros E H. apply strip_suffix_spec in E. subst x. rewrite no_nl_app in H.
  apply andb_true_iff in H. tauto.
Qed.
Lemma and_then_no_nl p q x r :
  and_then (strip_prefix p x) (strip_suffix q) = Some r -> no_nl x = true -> no_nl r = true.
Proof.
  destruct (strip_prefix p x) as [y|] eqn:E; cbn [and_then]; [|discriminate].
  intros F H. exact (strip_suffix_no_nl _ _ _ F (strip_prefix_no_nl _ _ _ E H)).
Qed.

Lemma split_once_spec p x : forall a b, split_once p x = Some (a, b) -> x = a ++ p ++ b.
Proof.
  induction x as [|c x IH]; intros a b; cbn [split_once].
  - destruct (strip_prefix p []) as [r|] eqn:E; [|discriminate].
    intros H. injection H as <- <-. now apply strip_prefix_spec in E.
  - destruct (strip_prefix p (c :: x)) as [r|] eqn:E.
    + intros H. injection H as <- <-. now apply strip_prefix_spec in E.
    + destruct (split_once p x) as [[a' b']|]; [|discriminate].
      intros H. injection H as <- <-. cbn [app]. f_equal. now apply IH.
Qed.

Lemma parse_ty_no_nl ty w t : parse_ty ty = (w, t) -> no_nl ty = true -> ty_nl_free t = true.
Proof.
  unfold parse_ty. intros H Hn.
  assert (K : forall (w0 : wrap) (x : str), no_nl x = true ->
              (w0, if str_eqb x (s "String") then TyString else TyStruct x) = (w, t) -> ty_nl_free t = true).
  { intros w0 x Hx E. injection E as _ <-. destruct (str_eqb x (s "String")); [reflexivity|exact Hx]. }
  destruct (and_then (strip_prefix (s "Option<Vec<") ty) (strip_suffix (s ">>"))) as [x|] eqn:E1.
  { exact (K _ x (and_then_no_nl _ _ _ _ E1 Hn) H). }
  destruct (and_then (strip_prefix (s "Option<") ty) (strip_suffix (s ">"))) as [x|] eqn:E2.
  { exact (K _ x (and_then_no_nl _ _ _ _ E2 Hn) H). }
  destruct (and_then (strip_prefix (s "Vec<") ty) (strip_suffix (s ">"))) as [x|] eqn:E3.
  { exact (K _ x (and_then_no_nl _ _ _ _ E3 Hn) H). }
  exact (K _ ty Hn H).
Qed.

Lemma parse_field_line_no_nl l i w t :
  parse_field_line l = Some (i, (w, t)) -> no_nl l = true -> no_nl i = true /\ ty_nl_free t = true.
Proof.
  unfold parse_field_line. intros H Hn.
  destruct (and_then (strip_prefix k_pub l) (strip_suffix k_comma)) as [r|] eqn:E; [|discriminate].
  pose proof (and_then_no_nl _ _ _ _ E Hn) as Hr.
  destruct (split_once k_colon r) as [[a b]|] eqn:F; [|discriminate].
  injection H as -> H. apply split_once_spec in F. subst r.
  rewrite !no_nl_app, !andb_true_iff in Hr. destruct Hr as (Hi & _ & Hb).
  split; [exact Hi|]. exact (parse_ty_no_nl b w t H Hb).
Qed.

Lemma parse_fields_no_nl n : forall ls fs rest,
  (List.length ls <= n)%nat -> forallb no_nl ls = true -> parse_fields ls = Some (fs, rest) ->
  forallb field_nl_free fs = true /\ forallb no_nl rest = true.
Proof.
  induction n as [|n IH]; intros ls fs rest Hlen Hn H.
  - destruct ls; [discriminate|cbn [List.length] in Hlen; lia].
  - destruct ls as [|l r]; [discriminate|]. cbn [parse_fields] in H.
    cbn [forallb] in Hn. apply andb_true_iff in Hn. destruct Hn as [Hl Hr].
    cbn [List.length] in Hlen.
    destruct (str_eqb l k_brace_close).
    { injection H as <- <-. split; [reflexivity|exact Hr]. }
    destruct (strip_prefix k_rename_open l) as [x|] eqn:E.
    + destruct (strip_suffix k_rename_close x) as [rn|] eqn:F; [|discriminate].
      pose proof (strip_suffix_no_nl _ _ _ F (strip_prefix_no_nl _ _ _ E Hl)) as Hrn.
      destruct r as [|l2 r2]; [discriminate|].
      cbn [forallb] in Hr. apply andb_true_iff in Hr. destruct Hr as [Hl2 Hr2].
      destruct (parse_field_line l2) as [[i [w t]]|] eqn:G; [|discriminate].
      destruct (parse_fields r2) as [[fs' rest']|] eqn:R; [|discriminate].
      injection H as <- <-.
      destruct (parse_field_line_no_nl _ _ _ _ G Hl2) as [Hi Ht].
      cbn [List.length] in Hlen.
      destruct (IH r2 fs' rest' ltac:(lia) Hr2 R) as [H1 H2]. split; [|exact H2].
      cbn [forallb]. rewrite H1. unfold field_nl_free. cbn [pf_rename' pf_ident' pf_ty' opt_no_nl].
      now rewrite Hrn, Hi, Ht.
    + destruct (parse_field_line l) as [[i [w t]]|] eqn:G; [|discriminate].
      destruct (parse_fields r) as [[fs' rest']|] eqn:R; [|discriminate].
      injection H as <- <-.
      destruct (parse_field_line_no_nl _ _ _ _ G Hl) as [Hi Ht].
      destruct (IH r fs' rest' ltac:(lia) Hr R) as [H1 H2]. split; [|exact H2].
      cbn [forallb]. rewrite H1. unfold field_nl_free. cbn [pf_rename' pf_ident' pf_ty' opt_no_nl].
      now rewrite Hi, Ht.
Qed.

Lemma parse_derive_no_nl l r d hl r1 :
  parse_derive l r = Some (d, hl, r1) -> no_nl l = true -> forallb no_nl r = true ->
  opt_no_nl d = true /\ no_nl hl = true /\ forallb no_nl r1 = true.
Proof.
  unfold parse_derive. intros H Hl Hr.
  destruct (strip_prefix k_derive_open l) as [x|] eqn:E.
  - destruct (strip_suffix k_attr_close x) as [dv|] eqn:F; [|discriminate].
    destruct r as [|l2 r2]; [discriminate|]. injection H as <- <- <-.
    cbn [forallb] in Hr. apply andb_true_iff in Hr. destruct Hr as [Hl2 Hr2].
    split; [|split; assumption].
    exact (strip_suffix_no_nl _ _ _ F (strip_prefix_no_nl _ _ _ E Hl)).
  - injection H as <- <- <-. split; [reflexivity|split; assumption].
Qed.

Lemma parse_structs_no_nl fuel : forall ls ps,
  forallb no_nl ls = true -> parse_structs fuel ls = Some ps -> forallb struct_nl_free ps = true.
Proof.
  induction fuel as [|fuel IH]; intros ls ps Hn H; [discriminate|].
  cbn [parse_structs] in H. destruct ls as [|l r]; [injection H as <-; reflexivity|].
  destruct (is_nil l && is_nil r); [injection H as <-; reflexivity|].
  cbn [forallb] in Hn. apply andb_true_iff in Hn. destruct Hn as [Hl Hr].
  destruct (parse_derive l r) as [[[d hl] r1]|] eqn:D; [|discriminate].
  destruct (parse_derive_no_nl _ _ _ _ _ D Hl Hr) as (Hd & Hhl & Hr1).
  destruct (and_then (strip_prefix k_struct_open hl) (strip_suffix k_brace_open)) as [name|] eqn:N; [|discriminate].
  pose proof (and_then_no_nl _ _ _ _ N Hhl) as Hname.
  destruct (parse_fields r1) as [[fs r2]|] eqn:F; [|discriminate].
  destruct (parse_fields_no_nl _ r1 fs r2 (le_n _) Hr1 F) as [Hfs Hr2].
  destruct r2 as [|[|c l3] r3]; try discriminate.
  destruct (parse_structs fuel r3) as [ps'|] eqn:R; [|discriminate].
  injection H as <-. cbn [forallb] in Hr2 |- *.
  rewrite (IH r3 ps' Hr2 R). unfold struct_nl_free. cbn [ps_derive' ps_name' ps_fields'].
  now rewrite Hd, Hname, Hfs.
Qed.

Theorem reparse_raw_nl_free x ps : reparse_raw x = Some ps -> forallb struct_nl_free ps = true.
Proof. unfold reparse_raw. apply parse_structs_no_nl, split_lines_no_nl. Qed.

(* ---------- 8b. the lines of nl-free definitions ---------- *)
Lemma print_ty_nl_free w t : ty_nl_free t = true -> no_nl (print_ty w t) = true.
Proof.
  destruct t as [|x]; [intros _; destruct w; reflexivity|].
  cbn [ty_nl_free]. intros Hx. destruct w; cbn [print_ty]; rewrite ?no_nl_app, Hx; reflexivity.
Qed.

Lemma field_lines_nl_free f : field_nl_free f = true -> forallb no_nl (field_lines f) = true.
Proof.
  unfold field_nl_free. intros H. apply andb_true_iff in H. destruct H as [H Ht].
  apply andb_true_iff in H. destruct H as [Hr Hi].
  unfold field_lines. rewrite forallb_app. cbn [forallb].
  rewrite !no_nl_app, Hi, (print_ty_nl_free _ _ Ht).
  destruct (pf_rename' f) as [r|]; cbn [forallb opt_no_nl] in *; rewrite ?no_nl_app, ?Hr; reflexivity.
Qed.

Lemma struct_lines_nl_free d : struct_nl_free d = true -> forallb no_nl (struct_lines d) = true.
Proof.
  unfold struct_nl_free. intros H. apply andb_true_iff in H. destruct H as [H Hfs].
  apply andb_true_iff in H. destruct H as [Hd Hn].
  unfold struct_lines. rewrite !forallb_app. cbn [forallb].
  rewrite !no_nl_app, Hn.
  assert (F : forallb no_nl (flat_map field_lines (ps_fields' d)) = true).
  { induction (ps_fields' d) as [|f fs IH]; [reflexivity|].
    cbn [forallb] in Hfs. apply andb_true_iff in Hfs. destruct Hfs as [Hf Hfs].
    cbn [flat_map]. now rewrite forallb_app, (field_lines_nl_free f Hf), (IH Hfs). }
  rewrite F.
  destruct (ps_derive' d) as [x|]; cbn [forallb opt_no_nl] in *; rewrite ?no_nl_app, ?Hd; reflexivity.
Qed.

Lemma lines_nl_free ps : forallb struct_nl_free ps = true -> forallb no_nl (flat_map struct_lines ps) = true.
Proof.
  induction ps as [|d ps IH]; intros H; [reflexivity|].
  cbn [forallb] in H. apply andb_true_iff in H. destruct H as [Hd Hps].
  cbn [flat_map]. now rewrite forallb_app, (struct_lines_nl_free d Hd), (IH Hps).
Qed.

(* ---------- 8c. reading the right field back forces the shape conditions ---------- *)
(* with `: ` inside the identifier the split comes too early *)
Lemma split_once_early x : has_colon_space x = true ->
  forall y, exists a b, split_once k_colon (x ++ y) = Some (a, b) /\ (List.length a < List.length x)%nat.
Proof.
  induction x as [|c r IH]; intros H y; [discriminate|].
  cbn [app split_once]. destruct (strip_prefix k_colon (c :: r ++ y)) as [r0|] eqn:E.
  - exists [], r0. split; [reflexivity|cbn [List.length]; lia].
  - cbn [has_colon_space] in H. apply orb_true_iff in H. destruct H as [H|H].
    + exfalso. apply andb_true_iff in H. destruct H as [Hc Hd].
      apply N.eqb_eq in Hc. subst c. destruct r as [|d r']; [discriminate|].
      apply N.eqb_eq in Hd. subst d. discriminate E.
    + destruct (IH H y) as (a & b & Es & Hl). rewrite Es. exists (c :: a), b.
      split; [reflexivity|cbn [List.length]; lia].
Qed.

Lemma parse_ty_exact w t : parse_ty (print_ty w t) = (w, t) -> ty_shape w t = true.
Proof.
  destruct t as [|x]; [reflexivity|]. intros H. cbn [ty_shape].
  apply andb_true_iff. split.
  - apply negb_true_iff. destruct (str_eqb_spec x (s "String")) as [->|_]; [|reflexivity].
    destruct w; vm_compute in H; discriminate H.
  - destruct w; cbn [print_ty] in H; try reflexivity.
    + (* WPlain *)
      unfold parse_ty in H. apply andb_true_iff. split; apply negb_true_iff.
      * destruct (is_wrapped (s "Option<") (s ">") x) eqn:E; [|reflexivity]. unfold is_wrapped in E.
        destruct (and_then (strip_prefix (s "Option<Vec<") x) (strip_suffix (s ">>"))); [discriminate H|].
        destruct (and_then (strip_prefix (s "Option<") x) (strip_suffix (s ">"))); [discriminate H|discriminate E].
      * destruct (is_wrapped (s "Vec<") (s ">") x) eqn:E; [|reflexivity]. unfold is_wrapped in E.
        destruct (and_then (strip_prefix (s "Option<Vec<") x) (strip_suffix (s ">>"))); [discriminate H|].
        destruct (and_then (strip_prefix (s "Option<") x) (strip_suffix (s ">"))); [discriminate H|].
        destruct (and_then (strip_prefix (s "Vec<") x) (strip_suffix (s ">"))); [discriminate H|discriminate E].
    + (* WOption *)
      apply negb_true_iff. destruct (is_wrapped (s "Vec<") (s ">") x) eqn:E; [|reflexivity].
      apply is_wrapped_spec in E. destruct E as [m ->]. exfalso.
      replace (s "Option<" ++ (s "Vec<" ++ m ++ s ">") ++ s ">") with (s "Option<Vec<" ++ m ++ s ">>") in H.
      * unfold parse_ty in H. rewrite and_then_hit in H. discriminate H.
      * change (s "Option<Vec<") with (s "Option<" ++ s "Vec<"). change (s ">>") with (s ">" ++ s ">").
        now rewrite <- !app_assoc.
Qed.

Lemma parse_field_line_exact f :
  parse_field_line (k_pub ++ (pf_ident' f ++ k_colon ++ print_ty (pf_wrap' f) (pf_ty' f)) ++ k_comma)
  = Some (pf_ident' f, (pf_wrap' f, pf_ty' f)) -> field_shape f = true.
Proof.
  unfold parse_field_line. rewrite and_then_hit. intros H.
  destruct (split_once k_colon (pf_ident' f ++ k_colon ++ print_ty (pf_wrap' f) (pf_ty' f))) as [[a b]|] eqn:E;
    [|discriminate].
  injection H as Ha Hb. subst a. unfold field_shape. apply andb_true_iff. split.
  - apply negb_true_iff. destruct (has_colon_space (pf_ident' f)) eqn:C; [|reflexivity]. exfalso.
    destruct (split_once_early _ C (k_colon ++ print_ty (pf_wrap' f) (pf_ty' f))) as (a' & b' & E' & Hl).
    rewrite E in E'. injection E' as <- _. lia.
  - apply split_once_spec in E. apply app_inv_head in E. apply app_inv_head in E. subst b.
    now apply parse_ty_exact.
Qed.

Lemma parse_fields_exact fs : forall rest fs2 r2,
  parse_fields (flat_map field_lines fs ++ k_brace_close :: rest) = Some (fs2, r2) ->
  r2 = rest /\ (fs2 = fs -> forallb field_shape fs = true).
Proof.
  induction fs as [|f fs IH]; intros rest fs2 r2 H.
  - cbn [flat_map app parse_fields] in H. rewrite str_eqb_refl in H. injection H as <- <-. auto.
  - cbn [flat_map] in H. unfold field_lines at 1 in H.
    destruct (pf_rename' f) as [r|] eqn:Er; cbn [app parse_fields] in H.
    + rewrite rename_line_not_close, strip_prefix_app, strip_suffix_app in H.
      destruct (parse_field_line _) as [[i [w t]]|] eqn:G in H; [|discriminate].
      destruct (parse_fields _) as [[fs' r']|] eqn:R in H; [|discriminate].
      injection H as <- <-. destruct (IH _ _ _ R) as [-> Hs]. split; [reflexivity|].
      intros E. injection E as Ef Efs. cbn [forallb]. rewrite (Hs Efs), andb_true_r.
      apply parse_field_line_exact. rewrite G, <- Ef. reflexivity.
    + rewrite field_line_not_close, field_line_not_rename in H.
      destruct (parse_field_line _) as [[i [w t]]|] eqn:G in H; [|discriminate].
      destruct (parse_fields _) as [[fs' r']|] eqn:R in H; [|discriminate].
      injection H as <- <-. destruct (IH _ _ _ R) as [-> Hs]. split; [reflexivity|].
      intros E. injection E as Ef Efs. cbn [forallb]. rewrite (Hs Efs), andb_true_r.
      apply parse_field_line_exact. rewrite G, <- Ef. reflexivity.
Qed.

(* one struct, whatever its fields are read as *)
Lemma parse_structs_step_gen d rest fuel :
  parse_structs (S fuel) (struct_lines d ++ rest)
  = match parse_fields (flat_map field_lines (ps_fields' d) ++ k_brace_close :: [] :: rest) with
    | None => None
    | Some (fs, r2) =>
        match r2 with
        | [] :: r3 => match parse_structs fuel r3 with
                      | None => None
                      | Some ps => Some (PS' (ps_derive' d) (ps_name' d) fs :: ps)
                      end
        | _ => None
        end
    end.
Proof.
  unfold struct_lines. rewrite <- !app_assoc.
  destruct (ps_derive' d) as [x|] eqn:Ed; cbn [app parse_structs].
  - rewrite derive_line_not_nil. cbn [andb]. unfold parse_derive.
    rewrite strip_prefix_app, strip_suffix_app, and_then_hit. reflexivity.
  - rewrite header_line_not_nil. cbn [andb]. unfold parse_derive.
    rewrite header_line_not_derive, and_then_hit. reflexivity.
Qed.

Lemma parse_structs_exact ps : forall fuel,
  parse_structs fuel (flat_map struct_lines ps ++ [[]]) = Some ps -> forallb struct_shape ps = true.
Proof.
  induction ps as [|d ps IH]; intros fuel H; [reflexivity|].
  destruct fuel as [|fuel]; [discriminate|].
  cbn [flat_map] in H. rewrite <- app_assoc, parse_structs_step_gen in H.
  destruct (parse_fields _) as [[fs r2]|] eqn:F in H; [|discriminate].
  destruct (parse_fields_exact _ _ _ _ F) as [-> Hs].
  destruct (parse_structs fuel _) as [ps'|] eqn:R in H; [|discriminate].
  injection H as Hd Hps. subst ps'. cbn [forallb]. rewrite (IH fuel R), andb_true_r.
  unfold struct_shape. apply Hs. rewrite <- Hd. reflexivity.
Qed.

(* ---------- 8d. exactness ---------- *)
Theorem printable_necessary' ps : reparse_raw (print' ps) = Some ps -> printable' ps = true.
Proof.
  intros H. pose proof (reparse_raw_nl_free _ _ H) as Hn.
  rewrite printable_split, Hn. cbn [andb].
  unfold reparse_raw in H.
  rewrite print_lines, <- (app_nil_r (unlines _)), (split_lines_unlines _ _ (lines_nl_free ps Hn)) in H.
  cbn [split_lines] in H. exact (parse_structs_exact ps _ H).
Qed.

Lemma reparse_raw_of_reparse x ps : reparse x = Some ps -> reparse_raw x = Some ps.
Proof.
  unfold reparse. destruct (reparse_raw x) as [ps'|]; [|discriminate].
  destruct (str_eqb (print' ps') x); [exact (fun H => H)|discriminate].
Qed.

Theorem printable_exact' ps : reparse (print' ps) = Some ps <-> printable' ps = true.
Proof.
  split; [|apply reparse_print']. intros H. apply printable_necessary', reparse_raw_of_reparse, H.
Qed.

Theorem printable_exact ds : reparse (print ds) = Some (map erase' ds) <-> printable ds = true.
Proof. rewrite print_erase. apply printable_exact'. Qed.

(* ====================================================================== *)
(* 9. the fuel never runs out; the predicates in words                     *)
(* ====================================================================== *)
Lemma parse_fields_shorter n : forall ls fs rest,
  (List.length ls <= n)%nat -> parse_fields ls = Some (fs, rest) -> (List.length rest < List.length ls)%nat.
Proof.
  induction n as [|n IH]; intros ls fs rest Hlen H.
  - destruct ls; [discriminate|cbn [List.length] in Hlen; lia].
  - destruct ls as [|l r]; [discriminate|]. cbn [parse_fields] in H. cbn [List.length] in Hlen |- *.
    destruct (str_eqb l k_brace_close); [injection H as _ <-; lia|].
    destruct (strip_prefix k_rename_open l) as [x|].
    + destruct (strip_suffix k_rename_close x) as [rn|]; [|discriminate].
      destruct r as [|l2 r2]; [discriminate|].
      destruct (parse_field_line l2) as [[i [w t]]|]; [|discriminate].
      destruct (parse_fields r2) as [[fs' rest']|] eqn:R; [|discriminate].
      injection H as _ <-. cbn [List.length] in Hlen |- *.
      pose proof (IH r2 fs' rest' ltac:(lia) R). lia.
    + destruct (parse_field_line l) as [[i [w t]]|]; [|discriminate].
      destruct (parse_fields r) as [[fs' rest']|] eqn:R; [|discriminate].
      injection H as _ <-. pose proof (IH r fs' rest' ltac:(lia) R). lia.
Qed.

Lemma parse_derive_shorter l r d hl r1 :
  parse_derive l r = Some (d, hl, r1) -> (List.length r1 <= List.length r)%nat.
Proof.
  unfold parse_derive. destruct (strip_prefix k_derive_open l) as [x|].
  - destruct (strip_suffix k_attr_close x); [|discriminate]. destruct r as [|l2 r2]; [discriminate|].
    intros H. injection H as _ _ <-. cbn [List.length]. lia.
  - intros H. injection H as _ _ <-. lia.
Qed.

(* any fuel above the number of lines gives the same result: `reparse_raw` never fails for lack of fuel *)
Lemma parse_structs_fuel f1 : forall f2 ls,
  (List.length ls < f1)%nat -> (List.length ls < f2)%nat -> parse_structs f1 ls = parse_structs f2 ls.
Proof.
  induction f1 as [|f1 IH]; intros f2 ls H1 H2; [lia|]. destruct f2 as [|f2]; [lia|].
  cbn [parse_structs]. destruct ls as [|l r]; [reflexivity|].
  destruct (is_nil l && is_nil r); [reflexivity|].
  destruct (parse_derive l r) as [[[d hl] r1]|] eqn:D; [|reflexivity].
  pose proof (parse_derive_shorter _ _ _ _ _ D) as L1.
  destruct (and_then (strip_prefix k_struct_open hl) (strip_suffix k_brace_open)) as [name|]; [|reflexivity].
  destruct (parse_fields r1) as [[fs r2]|] eqn:F; [|reflexivity].
  pose proof (parse_fields_shorter _ r1 fs r2 (le_n _) F) as L2.
  destruct r2 as [|[|c l3] r3]; try reflexivity.
  cbn [List.length] in H1, H2, L2. rewrite (IH f2 r3); [reflexivity|lia|lia].
Qed.

Theorem reparse_raw_fuel x fuel :
  (List.length (split_lines x) < fuel)%nat -> parse_structs fuel (split_lines x) = reparse_raw x.
Proof. intros H. unfold reparse_raw. apply parse_structs_fuel; [exact H|lia]. Qed.

(* the two string tests used by `printable`, in words *)
Lemma has_colon_space_spec x : has_colon_space x = true <-> exists a b, x = a ++ 58%N :: 32%N :: b.
Proof.
  split.
  - induction x as [|c r IH]; [discriminate|]. cbn [has_colon_space]. intros H.
    apply orb_true_iff in H. destruct H as [H|H].
    + apply andb_true_iff in H. destruct H as [Hc Hd]. apply N.eqb_eq in Hc. subst c.
      destruct r as [|d r']; [discriminate|]. apply N.eqb_eq in Hd. subst d. exists [], r'. reflexivity.
    + destruct (IH H) as (a & b & ->). exists (c :: a), b. reflexivity.
  - intros (a & b & ->). induction a as [|c a IH]; [reflexivity|].
    cbn [app has_colon_space]. rewrite IH. apply orb_true_r.
Qed.

Lemma no_nl_spec x : no_nl x = true <-> ~ In 10%N x.
Proof.
  unfold no_nl. rewrite forallb_forall. split.
  - intros H Hin. specialize (H _ Hin). discriminate.
  - intros H c Hc. apply negb_true_iff, N.eqb_neq. intros ->. exact (H Hc).
Qed.

(* split_lines is `split('\n')`: pieces without newline whose join is the text *)
Fixpoint join_nl (ls : list str) : str :=
  match ls with
  | [] => []
  | l :: r => match r with [] => l | _ :: _ => l ++ 10%N :: join_nl r end
  end.

Lemma join_split_lines x : join_nl (split_lines x) = x.
Proof.
  induction x as [|c x IH]; [reflexivity|]. cbn [split_lines].
  pose proof (split_lines_nonnil x) as Hne.
  destruct (N.eqb_spec c 10) as [->|_].
  - destruct (split_lines x) as [|l ls]; [congruence|]. cbn [join_nl app] in *. now rewrite IH.
  - destruct (split_lines x) as [|l ls]; [congruence|].
    cbn [join_nl] in *. destruct ls as [|l2 ls]; cbn [app]; now rewrite IH.
Qed.
