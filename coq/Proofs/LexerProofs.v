(* Proofs about the byte-level lexer Model/Lexer.v: the stream it delivers never contains an end
   tag that closes nothing (the hypothesis of the C08 "error exactly when" theorems), which makes
   those theorems statements about every BYTE STRING; totality; compositionality. *)
From XSG.Model Require Import Strings Necessity Element Parser Lexer.
From XSG.Proofs Require Import ElementProofs ParserFaults ParserTotal.
From Coq Require Import String Lia.

Definition neutral (ev : event) : bool :=
  match ev with EStart _ _ | EEnd => false | _ => true end.

Lemma nse_neutral : forall evs d r,
  forallb neutral evs = true ->
  no_stray_end_strict d (evs ++ r) = no_stray_end_strict d r.
Proof.
  induction evs as [|ev evs IH]; intros d r H; [reflexivity|].
  cbn [forallb] in H. apply andb_prop in H. destruct H as [H1 H2].
  cbn [app]. destruct ev; cbn [neutral] in H1; try discriminate; cbn [no_stray_end_strict]; auto.
Qed.

(* ---------- one run of bytes ---------- *)
Fixpoint lex_run (x : lstate) (bs : list byte) : lstate * list event :=
  match bs with
  | [] => (x, [])
  | b :: r => let '(x', evs) := lex_step x b in
              let '(x'', evs') := lex_run x' r in (x'', evs ++ evs')
  end.

Lemma lex_from_run : forall bs x,
  lex_from x bs = snd (lex_run x bs) ++ lex_eof (fst (lex_run x bs)).
Proof.
  induction bs as [|b r IH]; intros x; cbn [lex_from lex_run].
  - reflexivity.
  - destruct (lex_step x b) as [x' evs]. rewrite IH.
    destruct (lex_run x' r) as [x'' evs']. cbn [fst snd]. now rewrite app_assoc.
Qed.

Lemma lex_run_app : forall a b x,
  lex_run x (a ++ b) =
  let '(x1, e1) := lex_run x a in let '(x2, e2) := lex_run x1 b in (x2, e1 ++ e2).
Proof.
  induction a as [|c a IH]; intros b x; cbn [app lex_run].
  - destruct (lex_run x b). reflexivity.
  - destruct (lex_step x c) as [x' evs]. rewrite IH.
    destruct (lex_run x' a) as [x1 e1]. destruct (lex_run x1 b) as [x2 e2].
    now rewrite app_assoc.
Qed.

Lemma lex_from_app : forall a b x,
  lex_from x (a ++ b) = snd (lex_run x a) ++ lex_from (fst (lex_run x a)) b.
Proof.
  induction a as [|c a IH]; intros b x; cbn [app lex_from lex_run].
  - reflexivity.
  - destruct (lex_step x c) as [x' evs]. rewrite IH.
    destruct (lex_run x' a) as [x1 e1]. cbn [fst snd]. now rewrite app_assoc.
Qed.

(* ---------- the events of the closers ---------- *)
Lemma close_pi_neutral c p : forallb neutral (fst (close_pi c p)) = true.
Proof. unfold close_pi. destruct (rev c) as [|l [|? ?]]; try reflexivity. destruct (l =? B_q); reflexivity. Qed.
Lemma close_comment_neutral c p : forallb neutral (fst (close_comment c p)) = true.
Proof. unfold close_comment. destruct (starts_with _ _); reflexivity. Qed.
Lemma close_cdata_neutral c p : forallb neutral (fst (close_cdata c p)) = true.
Proof. unfold close_cdata. destruct (starts_with _ _); reflexivity. Qed.
Lemma close_doctype_neutral c p : forallb neutral (fst (close_doctype c p)) = true.
Proof.
  unfold close_doctype. destruct (starts_with_uncased _ _); [|reflexivity].
  destruct (drop_ws _); reflexivity.
Qed.

(* depth bookkeeping of close_tag *)
Lemma close_tag_nse : forall c p op r,
  no_stray_end_strict (List.length (snd (close_tag c p op))) r = true ->
  no_stray_end_strict (List.length op) (fst (fst (close_tag c p op)) ++ r) = true.
Proof.
  intros c p op r. unfold close_tag.
  destruct c as [|b c']; cbn [fst snd].
  - cbn [List.length app no_stray_end_strict]. auto.
  - destruct (b =? B_slash).
    + destruct op as [|expected op']; cbn [fst snd app no_stray_end_strict]; auto.
      destruct (bytes_eqb _ _); cbn [fst snd app no_stray_end_strict List.length]; auto.
    + destruct (strip_slash _); cbn [fst snd app no_stray_end_strict List.length]; auto.
Qed.

Lemma step_nse : forall x b r,
  no_stray_end_strict (List.length (opened (fst (lex_step x b)))) r = true ->
  no_stray_end_strict (List.length (opened x)) (snd (lex_step x b) ++ r) = true.
Proof.
  intros [m p op] b r. unfold lex_step. cbn [md pos opened].
  pose proof (close_tag_nse [] (p + 1) op r) as Hct0.
  destruct m as [acc| |q acc|acc| |acc|acc|bal acc|].
  - destruct (b =? B_lt); cbn [fst snd opened st]; [|auto].
    destruct acc; cbn [app no_stray_end_strict]; auto.
  - destruct (b =? B_bang); [cbn; auto|]. destruct (b =? B_q); [cbn; auto|].
    destruct (b =? B_gt); [|cbn; auto].
    destruct (close_tag [] (p + 1) op) as [[evs m'] op'] eqn:E. cbn [fst snd opened st] in *. exact Hct0.
  - pose proof (close_tag_nse (rev acc) (p + 1) op r) as Hct.
    destruct q; try (cbn; auto; fail).
    destruct (b =? B_gt); [|cbn; auto].
    destruct (close_tag (rev acc) (p + 1) op) as [[evs m'] op'] eqn:E. cbn [fst snd opened st] in *. exact Hct.
  - destruct acc as [|l acc']; [cbn; auto|].
    destruct ((b =? B_gt) && (l =? B_q))%bool; [|cbn; auto].
    pose proof (close_pi_neutral (rev (l :: acc')) (p + 1)) as Hn.
    destruct (close_pi (rev (l :: acc')) (p + 1)) as [evs m'] eqn:E. cbn [fst snd opened st] in *.
    intros H. now rewrite nse_neutral.
  - destruct (b =? B_lbr); [cbn; auto|]. destruct (b =? B_dash); [cbn; auto|].
    destruct ((b =? 68) || (b =? 100))%bool; cbn; auto.
  - destruct (b =? B_gt); [|cbn; auto].
    destruct acc as [|d1 [|d2 acc']]; try (cbn; auto; fail).
    destruct ((d1 =? B_dash) && (d2 =? B_dash) && (5 <=? List.length (d1 :: d2 :: acc'))%nat)%bool; [|cbn; auto].
    pose proof (close_comment_neutral (rev (d1 :: d2 :: acc')) (p + 1)) as Hn.
    destruct (close_comment (rev (d1 :: d2 :: acc')) (p + 1)) as [evs m'] eqn:E. cbn [fst snd opened st] in *.
    intros H. now rewrite nse_neutral.
  - destruct (b =? B_gt); [|cbn; auto].
    destruct acc as [|d1 [|d2 acc']]; try (cbn; auto; fail).
    destruct ((d1 =? B_rbr) && (d2 =? B_rbr))%bool; [|cbn; auto].
    pose proof (close_cdata_neutral (rev (d1 :: d2 :: acc')) (p + 1)) as Hn.
    destruct (close_cdata (rev (d1 :: d2 :: acc')) (p + 1)) as [evs m'] eqn:E. cbn [fst snd opened st] in *.
    intros H. now rewrite nse_neutral.
  - destruct (b =? B_lt); [cbn; auto|]. destruct (b =? B_gt); [|cbn; auto].
    destruct (bal =? 0); [|cbn; auto].
    pose proof (close_doctype_neutral (rev acc) (p + 1)) as Hn.
    destruct (close_doctype (rev acc) (p + 1)) as [evs m'] eqn:E. cbn [fst snd opened st] in *.
    intros H. now rewrite nse_neutral.
  - cbn; auto.
Qed.

Lemma eof_neutral x : forallb neutral (lex_eof x) = true.
Proof. unfold lex_eof. destruct (md x) as [[|? ?]| | | | | | | |]; reflexivity. Qed.

Lemma lex_from_nse : forall bs x,
  no_stray_end_strict (List.length (opened x)) (lex_from x bs) = true.
Proof.
  induction bs as [|b r IH]; intros x; cbn [lex_from].
  - rewrite <- (app_nil_r (lex_eof x)). rewrite nse_neutral by apply eof_neutral. reflexivity.
  - pose proof (step_nse x b (lex_from (fst (lex_step x b)) r)) as H.
    destruct (lex_step x b) as [x' evs]. cbn [fst snd] in H. apply H, IH.
Qed.

Lemma lex_nse_strict : forall bs, no_stray_end_strict 0 (lex bs) = true.
Proof. intros bs. unfold lex. apply (lex_from_nse _ lex_init). Qed.

Lemma lex_nse : forall bs, no_stray_end 0 (lex bs) = true.
Proof. intros bs. apply no_stray_end_of_strict, lex_nse_strict. Qed.

(* ---------- consequences for the library on bytes ---------- *)
Lemma bytes_parse_err_iff : forall bs x,
  into_struct_bytes bs = Err x <->
  first_fault (lex bs) = Some x
  \/ (first_fault (lex bs) = None /\ has_element (lex bs) = false /\ x = NoRootError).
Proof. intros bs x. unfold into_struct_bytes. apply parse_err_iff, lex_nse. Qed.

Lemma bytes_parse_total : forall bs, into_struct_bytes bs <> OutOfFuel.
Proof. intros bs. apply parse_total. Qed.
Lemma bytes_extend_total : forall root bs, extend_struct_bytes root bs <> OutOfFuel.
Proof. intros root bs. apply extend_total. Qed.
Lemma bytes_run_ok_or_err : forall docs,
  (exists e, run_bytes docs = Ok e) \/ (exists x, run_bytes docs = Err x).
Proof. intros docs. apply run_ok_or_err. Qed.

Lemma bytes_extend_err_iff : forall root bs x,
  extend_struct_bytes root bs = Err x <-> first_fault (lex bs) = Some x.
Proof. intros root bs x. unfold extend_struct_bytes. apply extend_err_iff, lex_nse. Qed.
Lemma bytes_parse_ok : forall bs,
  first_fault (lex bs) = None -> has_element (lex bs) = true ->
  exists e, into_struct_bytes bs = Ok e.
Proof. intros bs H1 H2. unfold into_struct_bytes. apply parse_ok; auto using lex_nse. Qed.

(* ---------- a comment where character data may stand ---------- *)
Definition no_gt (c : list byte) : bool := forallb (fun b => negb (b =? B_gt)) c.

Lemma run_comment_body : forall c acc p op,
  no_gt c = true ->
  lex_run (st (MComment acc) p op) c =
  (st (MComment (rev c ++ acc)) (p + N.of_nat (List.length c)) op, []).
Proof.
  induction c as [|b c IH]; intros acc p op H.
  - cbn [lex_run rev app List.length N.of_nat]. now rewrite N.add_0_r.
  - cbn [no_gt forallb] in H. apply andb_prop in H. destruct H as [Hb Hc].
    cbn [lex_run]. unfold lex_step at 1. cbn [md pos opened st].
    destruct (b =? B_gt); [discriminate|].
    fold (no_gt c) in Hc. rewrite (IH (b :: acc) (p + 1) op Hc).
    cbn [rev app]. rewrite <- app_assoc. cbn [app].
    f_equal. f_equal. cbn [List.length]. lia.
Qed.

Lemma starts_with_app pre x : starts_with (pre ++ x) pre = true.
Proof. induction pre as [|a pre IH]; cbn [app starts_with]; [destruct x; reflexivity|]. now rewrite N.eqb_refl. Qed.

Lemma run_comment : forall c p op,
  no_gt c = true ->
  lex_run (st (MText []) p op) (lit "<!--" ++ c ++ lit "-->") =
  (st (MText []) (p + N.of_nat (List.length c) + 7) op, [EMisc]).
Proof.
  intros c p op H.
  change (lit "<!--") with [B_lt; B_bang; B_dash; B_dash].
  change (lit "-->") with [B_dash; B_dash; B_gt].
  cbn [app lex_run]. unfold lex_step at 1. cbn [md pos opened st]. rewrite N.eqb_refl.
  unfold lex_step at 1. cbn [md pos opened st].
  change (B_bang =? B_bang) with true. cbv iota.
  unfold lex_step at 1. cbn [md pos opened st].
  change (B_dash =? B_lbr) with false. change (B_dash =? B_dash) with true. cbv iota.
  unfold lex_step at 1. cbn [md pos opened st].
  change (B_dash =? B_gt) with false. cbv iota.
  rewrite lex_run_app.
  rewrite (run_comment_body c [B_dash; B_dash; B_bang] (p + 1 + 1 + 1 + 1) op H).
  cbn [lex_run]. unfold lex_step at 1. cbn [md pos opened st].
  change (B_dash =? B_gt) with false. cbv iota.
  unfold lex_step at 1. cbn [md pos opened st].
  change (B_dash =? B_gt) with false. cbv iota.
  unfold lex_step at 1. cbn [md pos opened st].
  change (B_gt =? B_gt) with true. cbv iota.
  change (B_dash =? B_dash) with true. cbn [andb].
  assert (Hlen : (5 <=? List.length (B_dash :: B_dash :: rev c ++ [B_dash; B_dash; B_bang]))%nat = true).
  { apply Nat.leb_le. cbn [List.length]. rewrite app_length. cbn [List.length]. lia. }
  rewrite Hlen.
  assert (Hrev : rev (B_dash :: B_dash :: rev c ++ [B_dash; B_dash; B_bang])
                 = [B_bang; B_dash; B_dash] ++ (c ++ [B_dash; B_dash])).
  { cbn [rev]. rewrite rev_app_distr, rev_involutive. cbn [rev app]. rewrite <- !app_assoc. reflexivity. }
  rewrite Hrev. unfold close_comment.
  change (lit "!--") with [B_bang; B_dash; B_dash]. rewrite starts_with_app.
  cbn [app]. f_equal. f_equal. lia.
Qed.

Lemma comment_insert : forall a c b,
  no_gt c = true ->
  md (fst (lex_run lex_init a)) = MText [] ->
  exists x', md x' = MText [] /\ opened x' = opened (fst (lex_run lex_init a)) /\
  lex_from lex_init (a ++ (lit "<!--" ++ c ++ lit "-->") ++ b) =
  snd (lex_run lex_init a) ++ EMisc :: lex_from x' b.
Proof.
  intros a c b Hc Hm.
  rewrite lex_from_app. destruct (lex_run lex_init a) as [[m p op] ea]. cbn [fst snd md opened] in *.
  subst m. rewrite lex_from_app. change {| md := MText []; pos := p; opened := op |} with (st (MText []) p op).
  rewrite (run_comment c p op Hc). cbn [fst snd].
  eexists. split; [|split]; [| |reflexivity]; reflexivity.
Qed.

(* ---------- examples ---------- *)
Lemma example_empty_vs_pair :
  lex (s "<a><b/></a>") = [EStart (ROk (s "a")) []; EEmpty (ROk (s "b")) []; EEnd]
  /\ lex (s "<a><b></b></a>") = [EStart (ROk (s "a")) []; EStart (ROk (s "b")) []; EEnd; EEnd]
  /\ into_struct_bytes (s "<a><b/></a>") = into_struct_bytes (s "<a><b></b></a>").
Proof. repeat split; vm_compute; reflexivity. Qed.
Lemma example_stream :
  lex (s "<?xml version='1.0'?><!DOCTYPE a><a x='1' y=""2""><!--c-->t<![CDATA[d]]><b/></a>")
  = [EMisc; EMisc; EStart (ROk (s "a")) [AOk (ROk (s "x")); AOk (ROk (s "y"))]; EMisc; EText (ROk tt);
     ECData (ROk tt); EEmpty (ROk (s "b")) []; EEnd].
Proof. vm_compute. reflexivity. Qed.
Lemma example_errors :
  lex (s "<a></b>") = [EStart (ROk (s "a")) []; EErr 7 E_MismatchedEnd]
  /\ lex (s "</a>") = [EErr 4 E_UnmatchedEnd]
  /\ lex (s "<a x=1>") = [EStart (ROk (s "a")) [AErr A_UnquotedValue]]
  /\ lex (s "<a x='1' x='2'/>") = [EEmpty (ROk (s "a")) [AOk (ROk (s "x")); AErr A_Duplicated]]
  /\ lex (s "<a") = [EErr 2 E_UnclosedTag]
  /\ lex (s "<!x>") = [EErr 1 E_InvalidBang]
  /\ lex [60; 255; 62] = [EStart (RBad 0) []].
Proof. repeat split; vm_compute; reflexivity. Qed.
Lemma bytes_example :
  (exists x, into_struct_bytes (s "<a></b>") = Err x)
  /\ into_struct_bytes (s "<!--only a comment-->") = Err NoRootError
  /\ (exists e, into_struct_bytes (s "<?xml version='1.0'?><a/>") = Ok e).
Proof. split; [|split]; [eexists| |eexists]; vm_compute; reflexivity. Qed.
