(* The command-line program, source terms only: `main` / `run` of src/main.rs (Generated/CliRs.v)
   does what the composition of the translated parser and the translated renderer
   (`library_src`, Proofs/LibraryProofs.v) says, plus the header and the effects. *)
From XSG.Model Require Import Strings Necessity Element Parser Render Cli RustRender RustLoop.
From XSG.Generated Require Import LoopRs EntryRs RenderRs CliRs.
From XSG.Proofs Require Import NamesRsProofs RenderRsProofs CliRsProofs LoopRsProofs LibraryProofs.
From Coq Require Import String List NArith.
Import ListNotations.
Open Scope list_scope.

Lemma program_ok mk a evs create_ok e fuel :
  into_struct_src mk evs = Ok e -> esize e <= fuel ->
  exists bytes,
    library_src mk fuel [evs] (opts_of a) = Some bytes
    /\ main_rs (resolve a) (RText evs) create_ok =
       if a_output a then
         if create_ok then ([CreateTruncate; WriteFile (header ++ bytes)], 0%N) else ([Stderr], 1%N)
       else ([Stdout ((header ++ bytes) ++ [10%N])], 0%N).
Proof.
  intros He Hf. exists (to_serde_struct (opts_of a) e). split.
  - unfold library_src, run_src. cbn [fold_left]. rewrite He.
    now apply to_serde_struct_rs_spec.
  - rewrite main_rs_correct. unfold cli_run. rewrite <- (into_struct_src_model mk evs), He. reflexivity.
Qed.

Lemma program_parse_error mk a evs create_ok x :
  into_struct_src mk evs = Err x ->
  library_src mk 0 [evs] (opts_of a) = None
  /\ main_rs (resolve a) (RText evs) create_ok = ([Stderr], 1%N).
Proof.
  intros He. split.
  - unfold library_src, run_src. cbn [fold_left]. now rewrite He.
  - rewrite main_rs_correct. unfold cli_run. rewrite <- (into_struct_src_model mk evs), He. reflexivity.
Qed.

Lemma program_read_error a create_ok :
  main_rs (resolve a) RFail create_ok = ([Stderr], 1%N).
Proof. rewrite main_rs_correct. reflexivity. Qed.

Lemma program_example :
  let mk := fun _ : nat => KComment in
  let evs := [EMisc; EStart (ROk (s "a")) [AOk (ROk (s "k"))]; EText (ROk tt); EEnd] in
  let a := {| a_parser := None; a_derive := Some (s "Debug"); a_sort := None; a_output := false |} in
  exists e bytes, into_struct_src mk evs = Ok e
    /\ library_src mk (esize e) [evs] (opts_of a) = Some bytes
    /\ main_rs (resolve a) (RText evs) true = ([Stdout ((header ++ bytes) ++ [10%N])], 0%N)
    /\ List.length bytes = 143%nat.
Proof.
  intros mk evs a. eexists. eexists.
  split. { vm_compute. reflexivity. }
  split. { vm_compute. reflexivity. }
  split. { vm_compute. reflexivity. }
  vm_compute. reflexivity.
Qed.
