(* C03, source level: running the terms GENERATED from src/parser.rs (Generated/ParserRs.v:
   `count_children`, `tag_optional_children`) in the RustElem evaluator computes the model
   functions `snapshot` and `tag_optional_children` of Model/Parser.v, for every input. *)
From XSG.Model Require Import Strings Necessity Element Parser RustElem.
From XSG.Generated Require Import ElementRs ParserRs.
From XSG.Proofs Require Import ElementProofs ElementRsProofs.
From Coq Require Import String List Arith NArith Lia.
Import ListNotations.
Open Scope string_scope.
Open Scope list_scope.

Ltac lk := cbn [lookup String.eqb Ascii.eqb Bool.eqb].
Ltac st :=
  cbn [exec eval lookup update read_place write_place get_field set_field push_val
       String.eqb Ascii.eqb Bool.eqb fst snd].

(* the variables in `ys` have the same value in `en'` as in `en` *)
Definition keep (ys : list string) (en en' : env) : Prop :=
  forall y, In y ys -> lookup y en' = lookup y en.

(* closes `keep ys en en'` from K : keep ys (.. :: .. :: en1) en' and
   U : forall y, String.eqb x y = false -> lookup y en1 = lookup y en *)
Ltac keep_upd K U :=
  let y := fresh "y" in let Hy := fresh "Hy" in
  intros y Hy; rewrite (K y Hy); cbn [In] in Hy;
  repeat (destruct Hy as [<- | Hy]; [lk; try (apply U; reflexivity); reflexivity|]);
  contradiction.
(* the same when the environment was only extended *)
Ltac keep_ext K :=
  let y := fresh "y" in let Hy := fresh "Hy" in
  intros y Hy; rewrite (K y Hy); cbn [In] in Hy;
  repeat (destruct Hy as [<- | Hy]; [reflexivity|]);
  contradiction.

(* ================= count_children ================= *)

Definition cc_body : stmt :=
  SIfLetMand "c" (EVar "child")
    (SMapInsert (PVar "children_count") (EField (EVar "c") "name") (ECountOf (EVar "c"))).
Definition cc_for : stmt :=
  SFor "child" (EField (EInner (EVar "current_tag")) "children") cc_body.

Definition snap_item (ch : nec * element) : list (str * N) :=
  match fst ch with Mand => [(ename (snd ch), ecount (snd ch))] | Opt => [] end.

Lemma cc_loop call : forall l en acc,
  lookup "children_count" en = Some (VMap acc) ->
  exists en',
    for_loop_ch call "child" cc_body l en = Some (en', Normal) /\
    lookup "children_count" en' = Some (VMap (acc ++ flat_map snap_item l)) /\
    lookup "check_optional_tags" en' = lookup "check_optional_tags" en.
Proof.
  induction l as [|i l IH]; intros en acc Hm.
  - exists en. cbn [for_loop_ch flat_map]. rewrite app_nil_r. repeat split; assumption.
  - cbn [for_loop_ch flat_map]. unfold cc_body at 1. destruct i as [[|] c]; st.
    + (* Optional: skipped *)
      fold cc_body.
      destruct (IH (("child", VChild (Opt, c)) :: en) acc Hm) as [en' [L1 [L2 L3]]].
      exists en'. split; [exact L1|]. split; [exact L2|]. exact L3.
    + (* Mandatory: inserted *)
      rewrite Hm.
      destruct (update_spec "children_count" (VMap (acc ++ [(ename c, ecount c)])) en _ Hm)
        as [en1 [U1 [U2 U3]]].
      rewrite U1. fold cc_body.
      destruct (IH (("c", VElem c) :: ("child", VChild (Mand, c)) :: en1)
                   (acc ++ [(ename c, ecount c)]) U2) as [en' [L1 [L2 L3]]].
      exists en'. split; [exact L1|]. split.
      * rewrite L2. unfold snap_item at 2. cbn [fst snd]. rewrite <- app_assoc. reflexivity.
      * rewrite L3. lk. apply U3. reflexivity.
Qed.

Lemma count_children_rs_correct : forall tag,
  run_fn3 no_call count_children_rs (opt_child tag) VUnit VUnit
  = Some (VSnap (fst (snapshot tag)) (snd (snapshot tag))).
Proof.
  intros [c|]; [|reflexivity].
  unfold run_fn3, count_children_rs. cbn [fn_body fn_p1 fn_p2 fn_p3 fn_result opt_child].
  fold cc_body. fold cc_for. st.
  unfold cc_for. rewrite exec_for. st.
  destruct (cc_loop no_call (echildren (snd c))
              [("current_tag", VChild c); ("check_optional_tags", VBool true);
               ("children_count", VMap []); ("tag", VSomeChild c); ("_", VUnit); ("_", VUnit)]
              [] eq_refl) as [en' [L1 [L2 L3]]].
  rewrite L1. cbn [eval]. rewrite L2, L3. reflexivity.
Qed.

(* ================= tag_optional_children ================= *)

Definition body1 : stmt :=
  SSeq (SLet "c" (EInner (EVar "child")))
       (SIf (EEq (EMapGet (EVar "children_count") (EField (EVar "c") "name"))
                 (ESome (ECountOf (EVar "c"))))
            (SPush (PVar "to_optional") (EField (EVar "c") "name")) SSkip).
Definition body2 : stmt :=
  SIfLetMand "c" (EVar "child")
    (SIf (ENot (EMapContains (EVar "children_count") (EField (EVar "c") "name")))
         (SPush (PVar "to_optional") (EField (EVar "c") "name")) SSkip).
Definition for1 : stmt := SFor "child" (EField (EVar "parent") "children") body1.
Definition for2 : stmt := SFor "child" (EField (EVar "parent") "children") body2.
Definition pop_body : stmt := SExpr (ECall "set_child_optional" (PVar "parent") (EVar "name")).
Definition while_stmt : stmt := SWhilePop "name" (PVar "to_optional") pop_body.

(* what each loop appends to `to_optional` for one child *)
Definition opt1 (cc : list (str * N)) (ch : nec * element) : list str :=
  match snap_get cc (ename (snd ch)) with
  | Some k => if N.eqb k (ecount (snd ch)) then [ename (snd ch)] else []
  | None => [] end.
Definition opt2 (cc : list (str * N)) (ch : nec * element) : list str :=
  match fst ch with
  | Mand => match snap_get cc (ename (snd ch)) with None => [ename (snd ch)] | Some _ => [] end
  | Opt => [] end.

Lemma to_optional_eq p cc :
  to_optional p cc = flat_map (opt1 cc) (echildren p) ++ flat_map (opt2 cc) (echildren p).
Proof. reflexivity. Qed.

(* the vector `to_optional`: `Vec::new()` until the first push *)
Definition nv (l : list str) (v : val) : Prop := v = VNames l \/ (l = [] /\ v = VEmptyVec).

Lemma push_nv l v n : nv l v -> push_val v (VName n) = Some (VNames (l ++ [n])).
Proof. intros [-> | [-> ->]]; reflexivity. Qed.

Lemma loop1 call cc : forall l en v acc,
  nv acc v -> lookup "to_optional" en = Some v -> lookup "children_count" en = Some (VMap cc) ->
  exists en' v',
    for_loop_ch call "child" body1 l en = Some (en', Normal) /\
    lookup "to_optional" en' = Some v' /\ nv (acc ++ flat_map (opt1 cc) l) v' /\
    keep ["root"; "e"; "children_count"; "parent"] en en'.
Proof.
  induction l as [|i l IH]; intros en v acc Hv Ht Hm.
  - exists en, v. cbn [for_loop_ch flat_map]. rewrite app_nil_r.
    split; [reflexivity|]. split; [exact Ht|]. split; [exact Hv|]. intros y _. reflexivity.
  - cbn [for_loop_ch flat_map]. unfold body1 at 1. st. rewrite Hm. st. unfold opt1 at 1.
    destruct (snap_get cc (ename (snd i))) as [k|]; st;
      [destruct (N.eqb k (ecount (snd i)))|]; st.
    + (* pushed *)
      rewrite Ht. rewrite (push_nv acc v (ename (snd i)) Hv).
      destruct (update_spec "to_optional" (VNames (acc ++ [ename (snd i)])) en _ Ht)
        as [en1 [U1 [U2 U3]]].
      rewrite U1. fold body1.
      assert (Hm1 : lookup "children_count"
                      (("c", VElem (snd i)) :: ("child", VChild i) :: en1) = Some (VMap cc)).
      { lk. rewrite (U3 "children_count" eq_refl). exact Hm. }
      destruct (IH (("c", VElem (snd i)) :: ("child", VChild i) :: en1)
                   (VNames (acc ++ [ename (snd i)])) (acc ++ [ename (snd i)])
                   (or_introl eq_refl) U2 Hm1) as [en' [v' [L1 [L2 [L3 L4]]]]].
      exists en', v'. split; [exact L1|]. split; [exact L2|]. split.
      * rewrite <- app_assoc in L3. exact L3.
      * keep_upd L4 U3.
    + (* count differs *)
      fold body1.
      destruct (IH (("c", VElem (snd i)) :: ("child", VChild i) :: en) v acc Hv Ht Hm)
        as [en' [v' [L1 [L2 [L3 L4]]]]].
      exists en', v'. split; [exact L1|]. split; [exact L2|]. split; [exact L3|]. keep_ext L4.
    + (* not in the snapshot *)
      fold body1.
      destruct (IH (("c", VElem (snd i)) :: ("child", VChild i) :: en) v acc Hv Ht Hm)
        as [en' [v' [L1 [L2 [L3 L4]]]]].
      exists en', v'. split; [exact L1|]. split; [exact L2|]. split; [exact L3|]. keep_ext L4.
Qed.

Lemma loop2 call cc : forall l en v acc,
  nv acc v -> lookup "to_optional" en = Some v -> lookup "children_count" en = Some (VMap cc) ->
  exists en' v',
    for_loop_ch call "child" body2 l en = Some (en', Normal) /\
    lookup "to_optional" en' = Some v' /\ nv (acc ++ flat_map (opt2 cc) l) v' /\
    keep ["root"; "e"; "children_count"; "parent"] en en'.
Proof.
  induction l as [|i l IH]; intros en v acc Hv Ht Hm.
  - exists en, v. cbn [for_loop_ch flat_map]. rewrite app_nil_r.
    split; [reflexivity|]. split; [exact Ht|]. split; [exact Hv|]. intros y _. reflexivity.
  - cbn [for_loop_ch flat_map]. unfold body2 at 1. unfold opt2 at 1. destruct i as [[|] c]; st.
    + (* Optional child *)
      fold body2.
      destruct (IH (("child", VChild (Opt, c)) :: en) v acc Hv Ht Hm)
        as [en' [v' [L1 [L2 [L3 L4]]]]].
      exists en', v'. split; [exact L1|]. split; [exact L2|]. split; [exact L3|]. keep_ext L4.
    + rewrite Hm. st. destruct (snap_get cc (ename c)) as [k|]; cbn [negb]; st.
      * (* Mandatory, in the snapshot *)
        fold body2.
        destruct (IH (("c", VElem c) :: ("child", VChild (Mand, c)) :: en) v acc Hv Ht Hm)
          as [en' [v' [L1 [L2 [L3 L4]]]]].
        exists en', v'. split; [exact L1|]. split; [exact L2|]. split; [exact L3|]. keep_ext L4.
      * (* Mandatory, not in the snapshot: pushed *)
        rewrite Ht. rewrite (push_nv acc v (ename c) Hv).
        destruct (update_spec "to_optional" (VNames (acc ++ [ename c])) en _ Ht)
          as [en1 [U1 [U2 U3]]].
        rewrite U1. fold body2.
        assert (Hm1 : lookup "children_count"
                        (("c", VElem c) :: ("child", VChild (Mand, c)) :: en1) = Some (VMap cc)).
        { lk. rewrite (U3 "children_count" eq_refl). exact Hm. }
        destruct (IH (("c", VElem c) :: ("child", VChild (Mand, c)) :: en1)
                     (VNames (acc ++ [ename c])) (acc ++ [ename c])
                     (or_introl eq_refl) U2 Hm1) as [en' [v' [L1 [L2 [L3 L4]]]]].
        exists en', v'. split; [exact L1|]. split; [exact L2|]. split.
        -- rewrite <- app_assoc in L3. exact L3.
        -- keep_upd L4 U3.
Qed.

(* ---------- the callees ---------- *)

Definition call2 := call_of2 level0 level1.

Lemma call2_get_child a b : call2 "get_child" a b = run_fn no_call get_child_rs a b.
Proof. reflexivity. Qed.
Lemma call2_set_child_optional a b :
  call2 "set_child_optional" a b = run_fn (call_of level0) set_child_optional_rs a b.
Proof. reflexivity. Qed.

(* ---------- `while let Some(name) = to_optional.pop()` ---------- *)

Definition pop_loop (call : string -> val -> val -> option (val * val)) (x : string) (p : place)
  (body : stmt) : nat -> env -> option (env * flow) :=
  fix loop (fuel : nat) (en : env) {struct fuel} : option (env * flow) :=
    match read_place p en with
    | Some VEmptyVec => Some (en, Normal)
    | Some (VNames l') =>
        match rev l' with
        | [] => Some (en, Normal)
        | lst :: rest_rev =>
            match fuel with
            | O => None
            | S f =>
                match write_place p (VNames (rev rest_rev)) en with
                | Some en1 =>
                    match exec call body ((x, VName lst) :: en1) with
                    | Some (en2, Normal) => loop f en2
                    | r => r end
                | None => None end
            end
        end
    | _ => None end.

Lemma exec_whilepop call x p body en :
  exec call (SWhilePop x p body) en =
  match read_place p en with
  | Some VEmptyVec => Some (en, Normal)
  | Some (VNames l) => pop_loop call x p body (List.length l) en
  | _ => None end.
Proof. reflexivity. Qed.

Lemma while_loop : forall fuel l en p,
  (List.length l <= fuel)%nat ->
  lookup "to_optional" en = Some (VNames l) -> lookup "parent" en = Some (VElem p) ->
  exists en',
    pop_loop call2 "name" (PVar "to_optional") pop_body fuel en = Some (en', Normal) /\
    lookup "parent" en' = Some (VElem (fold_left set_child_optional (rev l) p)) /\
    keep ["root"; "e"] en en'.
Proof.
  induction fuel as [|f IH]; intros l en p Hlen Ht Hp.
  - destruct l as [|a l]; [|cbn [List.length] in Hlen; lia].
    exists en. cbn [pop_loop read_place]. rewrite Ht. cbn [rev fold_left].
    split; [reflexivity|]. split; [exact Hp|]. intros y _. reflexivity.
  - cbn [pop_loop read_place]. rewrite Ht.
    destruct (rev l) as [|lst rr] eqn:R.
    + exists en. cbn [fold_left]. split; [reflexivity|]. split; [exact Hp|]. intros y _. reflexivity.
    + cbn [write_place].
      destruct (update_spec "to_optional" (VNames (rev rr)) en _ Ht) as [en1 [U1 [U2 U3]]].
      rewrite U1. unfold pop_body at 1. st.
      assert (Hp1 : lookup "parent" en1 = Some (VElem p)).
      { rewrite (U3 "parent" eq_refl). exact Hp. }
      rewrite Hp1. fold call2. rewrite call2_set_child_optional, set_child_optional_rs_correct.
      destruct (update_spec "parent" (VElem (set_child_optional p lst)) en1 _ Hp1)
        as [en2 [W1 [W2 W3]]].
      rewrite W1. fold pop_body.
      assert (Hlen' : (List.length (rev rr) <= f)%nat).
      { assert (E : List.length (rev l) = S (List.length rr)) by (rewrite R; reflexivity).
        rewrite rev_length in *. lia. }
      assert (Ht2 : lookup "to_optional" (("name", VName lst) :: en2) = Some (VNames (rev rr))).
      { lk. rewrite (W3 "to_optional" eq_refl). exact U2. }
      assert (Hp2 : lookup "parent" (("name", VName lst) :: en2)
                    = Some (VElem (set_child_optional p lst))).
      { lk. exact W2. }
      destruct (IH (rev rr) (("name", VName lst) :: en2) (set_child_optional p lst) Hlen' Ht2 Hp2)
        as [en' [L1 [L2 L3]]].
      exists en'. split; [exact L1|]. split.
      * rewrite L2, rev_involutive. reflexivity.
      * intros y Hy. rewrite (L3 y Hy). cbn [In] in Hy.
        destruct Hy as [<- | [<- | []]]; lk.
        -- rewrite (W3 "root" eq_refl). apply U3. reflexivity.
        -- rewrite (W3 "e" eq_refl). apply U3. reflexivity.
Qed.

Lemma exec_while : forall l v en p,
  nv l v -> lookup "to_optional" en = Some v -> lookup "parent" en = Some (VElem p) ->
  exists en',
    exec call2 while_stmt en = Some (en', Normal) /\
    lookup "parent" en' = Some (VElem (fold_left set_child_optional (rev l) p)) /\
    keep ["root"; "e"] en en'.
Proof.
  intros l v en p Hv Ht Hp. unfold while_stmt. rewrite exec_whilepop. cbn [read_place]. rewrite Ht.
  destruct Hv as [-> | [-> ->]].
  - apply while_loop; [apply le_n|exact Ht|exact Hp].
  - exists en. cbn [rev fold_left]. split; [reflexivity|]. split; [exact Hp|]. intros y _. reflexivity.
Qed.

(* ---------- get_child_mut: the first child with that name ---------- *)

Lemma update_first_const : forall l n f c,
  get_child l n = Some c ->
  update_first l n f = update_first l n (fun _ => f (snd c)).
Proof.
  induction l as [|d r IH]; intros n f c H; cbn [get_child] in H; [discriminate|].
  cbn [update_first]. destruct (str_eqb (ename (snd d)) n).
  - injection H as <-. reflexivity.
  - rewrite (IH n f c H). reflexivity.
Qed.

Lemma tag_optional_children_some root n cc c :
  get_child (echildren root) n = Some c ->
  tag_optional_children root n cc
  = set_children root (update_first (echildren root) n
      (fun p => fold_left set_child_optional (rev (to_optional (snd c) cc)) p)).
Proof. intros H. unfold tag_optional_children. rewrite H. reflexivity. Qed.

(* ---------- the whole function ---------- *)

Lemma tag_optional_children_rs_correct : forall root n cc,
  run_fn3 (call_of2 level0 level1) tag_optional_children_rs (VElem root) (VName n) (VMap cc)
  = Some (VElem (tag_optional_children root n cc)).
Proof.
  intros root n cc. fold call2.
  unfold run_fn3, tag_optional_children_rs. cbn [fn_body fn_p1 fn_p2 fn_p3 fn_result].
  fold body1 body2. fold for1 for2. fold pop_body. fold while_stmt.
  st. rewrite call2_get_child, get_child_rs_correct. st.
  destruct (get_child (echildren root) n) as [c|] eqn:G; cbn [opt_child]; st.
  - (* the tag has a child of that name *)
    unfold for1 at 1. rewrite exec_for. st.
    set (en0 := [("parent", VElem (snd c)); ("current_tag", VChild c); ("to_optional", VEmptyVec);
                 ("root", VElem root); ("e", VName n); ("children_count", VMap cc)]).
    destruct (loop1 call2 cc (echildren (snd c)) en0 VEmptyVec []
                (or_intror (conj eq_refl eq_refl)) eq_refl eq_refl)
      as [en1 [v1 [A1 [A2 [A3 A4]]]]].
    rewrite A1. unfold for2 at 1. rewrite exec_for. cbn [eval].
    rewrite (A4 "parent") by (cbn [In]; tauto). subst en0. lk. cbn [get_field String.eqb Ascii.eqb Bool.eqb].
    assert (Hm1 : lookup "children_count" en1 = Some (VMap cc)).
    { rewrite (A4 "children_count") by (cbn [In]; tauto). reflexivity. }
    destruct (loop2 call2 cc (echildren (snd c)) en1 v1 _ A3 A2 Hm1)
      as [en2 [v2 [B1 [B2 [B3 B4]]]]].
    rewrite B1. cbn [app] in B3. rewrite <- to_optional_eq in B3.
    assert (He2 : lookup "e" en2 = Some (VName n)).
    { rewrite (B4 "e"), (A4 "e") by (cbn [In]; tauto). reflexivity. }
    assert (Hr2 : lookup "root" en2 = Some (VElem root)).
    { rewrite (B4 "root"), (A4 "root") by (cbn [In]; tauto). reflexivity. }
    cbn [exec eval read_place]. rewrite He2, Hr2, G.
    destruct (exec_while (to_optional (snd c) cc) v2 (("parent", VElem (snd c)) :: en2) (snd c)
                B3 B2 eq_refl) as [en3 [C1 [C2 C3]]].
    rewrite C1, C2. cbn [write_place].
    assert (Hr3 : lookup "root" en3 = Some (VElem root)).
    { rewrite (C3 "root") by (cbn [In]; tauto). exact Hr2. }
    destruct (update_spec "root"
                (VElem (set_children root (update_first (echildren root) n
                   (fun _ => fold_left set_child_optional (rev (to_optional (snd c) cc)) (snd c)))))
                en3 _ Hr3) as [en4 [U1 [U2 U3]]].
    rewrite U1. cbn [eval]. rewrite U2.
    rewrite (tag_optional_children_some root n cc c G).
    rewrite (update_first_const (echildren root) n
               (fun p => fold_left set_child_optional (rev (to_optional (snd c) cc)) p) c G).
    reflexivity.
  - (* no such child: both blocks are skipped *)
    rewrite G. cbn [eval lookup String.eqb Ascii.eqb Bool.eqb].
    unfold tag_optional_children. rewrite G. reflexivity.
Qed.

(* ---------- transported corollary: the unfolding when the child exists ---------- *)

Lemma tag_optional_children_rs_demotes : forall root n cc c,
  get_child (echildren root) n = Some c ->
  run_fn3 (call_of2 level0 level1) tag_optional_children_rs (VElem root) (VName n) (VMap cc)
  = Some (VElem (set_children root (update_first (echildren root) n
       (fun p => fold_left set_child_optional (rev (to_optional (snd c) cc)) p)))).
Proof.
  intros root n cc c H. rewrite tag_optional_children_rs_correct.
  rewrite (tag_optional_children_some root n cc c H). reflexivity.
Qed.

(* ---------- non-vacuity / concrete runs ---------- *)

(* count_children on a tag with a Mandatory and an Optional child *)
Example count_children_rs_example :
  let k1 := Elem (s "b") false true 2 [] [] (Some 0%nat) in
  let k3 := Elem (s "d") true false 3 [] [] (Some 2%nat) in
  let par := Elem (s "p") false true 2 [] [(Mand, k1); (Opt, k3)] (Some 0%nat) in
  run_fn3 no_call count_children_rs (VSomeChild (Mand, par)) VUnit VUnit
  = Some (VSnap [(s "b", 2%N)] true).
Proof. vm_compute. reflexivity. Qed.

(* `b`: count unchanged (absent from this occurrence); `d`: Mandatory but not in the snapshot *)
Example tag_optional_children_rs_example :
  let k1 := Elem (s "b") false true 2 [] [] (Some 0%nat) in
  let k3 := Elem (s "d") true false 3 [] [] (Some 2%nat) in
  let par := Elem (s "p") false true 2 [] [(Mand, k1); (Mand, k3)] (Some 0%nat) in
  let rt := Elem (s "root") false true 1 [] [(Mand, par)] None in
  let cc := [(s "b", 2%N)] in
  run_fn3 (call_of2 level0 level1) tag_optional_children_rs (VElem rt) (VName (s "p")) (VMap cc)
  = Some (VElem (Elem (s "root") false true 1 []
       [(Mand, Elem (s "p") false true 2 [] [(Opt, k3); (Opt, k1)] (Some 0%nat))] None)).
Proof. vm_compute. reflexivity. Qed.

(* the hypothesis of tag_optional_children_rs_demotes is satisfiable, with a non-empty work list *)
Example tag_optional_children_rs_demotes_example :
  let k1 := Elem (s "b") false true 2 [] [] (Some 0%nat) in
  let k3 := Elem (s "d") true false 3 [] [] (Some 2%nat) in
  let par := Elem (s "p") false true 2 [] [(Mand, k1); (Mand, k3)] (Some 0%nat) in
  let rt := Elem (s "root") false true 1 [] [(Mand, par)] None in
  get_child (echildren rt) (s "p") = Some (Mand, par) /\
  to_optional par [(s "b", 2%N)] = [s "b"; s "d"].
Proof. vm_compute. split; reflexivity. Qed.
