(* Event-level corollaries and the recursion-depth bound.
   Part 1: the document theorems of C06 / C01 / C11 / C02, proved on the DOM presentation
           (`run_dom`), restated for the event-level parser `run_evs` (the function tied to the
           Rust code) through `run_dom_ev` of Proofs/DomEquiv.v.
   Part 2: C07 ("recursion per nesting level, bounded only by the stack"): an instrumented copy
           `build_depth` of the recursion of `build_struct`, the bound
           call depth <= 1 + maximal number of simultaneously open elements, for EVERY stream,
           and the tie of `build_depth` to `build_struct`. *)
From Coq Require Import String.
From XSG.Model Require Import Strings Convert Necessity Element Parser Dom Spec Render Deser.
From XSG.Proofs Require Import StringsProofs NecessityProofs ElementProofs SkelProofs DomEquiv
                               SpecProofs ReprDefs ParserFaults UnionProofs AdmitProofs DeserProofs.
From XSG.Corr Require Import Common Oracles.
From Coq Require Import List Lia Permutation Arith.
Local Open Scope list_scope.

(* ====================================================================== *)
(* ---------- Part 1. transport to the event level ---------- *)

(* the bridge: an event-level success on the events of document trees is a DOM-level success *)
Lemma run_evs_ok_iff docs e :
  run_evs (map events_of_forest docs) = Ok e <-> run_dom docs = Some e.
Proof.
  rewrite run_dom_ev. destruct (run_dom docs) as [x|]; split; intros H;
    try discriminate H; now (injection H as ->).
Qed.

Lemma run_evs_of_dom docs e :
  run_dom docs = Some e -> run_evs (map events_of_forest docs) = Ok e.
Proof. apply run_evs_ok_iff. Qed.

Lemma run_dom_of_evs docs e :
  run_evs (map events_of_forest docs) = Ok e -> run_dom docs = Some e.
Proof. apply run_evs_ok_iff. Qed.

(* the event-level run never yields anything but Ok / NoRootError on document trees *)
Lemma run_evs_docs_cases docs :
  (exists e, run_evs (map events_of_forest docs) = Ok e)
  \/ run_evs (map events_of_forest docs) = Err NoRootError.
Proof. rewrite run_dom_ev. destruct (run_dom docs) as [x|]; [left; now exists x|now right]. Qed.

(* ---------- C06 ---------- *)
Theorem ev_order : forall docs docs' m,
  docs <> [] -> Forall (Forall wf_node) docs -> Forall (fun p => elem_names p = [m]) docs ->
  Permutation docs docs' ->
  exists e e', run_evs (map events_of_forest docs) = Ok e
               /\ run_evs (map events_of_forest docs') = Ok e' /\ same_schema e e'.
Proof.
  intros docs docs' m Hne Hwf Hm Hp.
  destruct (run_dom_order docs docs' m Hne Hwf Hm Hp) as (e & e' & H1 & H2 & Hs).
  exists e, e'. repeat split; auto using run_evs_of_dom.
Qed.

Theorem ev_idem : forall docs d m,
  docs <> [] -> Forall (Forall wf_node) docs -> Forall (fun p => elem_names p = [m]) docs ->
  In d docs ->
  exists e e', run_evs (map events_of_forest docs) = Ok e
               /\ run_evs (map events_of_forest (docs ++ [d])) = Ok e' /\ same_schema e e'.
Proof.
  intros docs d m Hne Hwf Hm Hin.
  destruct (run_dom_idem docs d m Hne Hwf Hm Hin) as (e & e' & H1 & H2 & Hs).
  exists e, e'. repeat split; auto using run_evs_of_dom.
Qed.

Theorem ev_monotone : forall docs more m,
  docs <> [] ->
  Forall (Forall wf_node) (docs ++ more) -> Forall (fun p => elem_names p = [m]) (docs ++ more) ->
  exists e e', run_evs (map events_of_forest docs) = Ok e
               /\ run_evs (map events_of_forest (docs ++ more)) = Ok e' /\ le_schema e e'.
Proof.
  intros docs more m Hne Hwf Hm.
  destruct (run_dom_mono docs more m Hne Hwf Hm) as (e & e' & H1 & H2 & Hs).
  exists e, e'. repeat split; auto using run_evs_of_dom.
Qed.

(* ---------- C01 ---------- *)
Theorem ev_render_admits_quick_xml : forall docs m e,
  docs <> [] -> Forall (Forall wf_node) docs -> Forall (fun p => elem_names p = [m]) docs ->
  run_evs (map events_of_forest docs) = Ok e ->
  clash_free_tree e = true -> names_plain e = true ->
  forall d, In d docs -> admits_b quick_xml_de (map erase (render_abs quick_xml_de e)) d = true.
Proof.
  intros docs m e Hne Hwf Hm Hrun. apply run_dom_of_evs in Hrun.
  now apply (render_admits_quick_xml docs m e).
Qed.

(* ---------- C02 ---------- *)
Theorem ev_accepts : forall vdocs m e,
  vdocs <> [] -> Forall (Forall wf_vnode) vdocs ->
  Forall (fun p => elem_names (map erase_v p) = [m]) vdocs ->
  run_evs (map events_of_forest (map (map erase_v) vdocs)) = Ok e ->
  clash_free_tree e = true -> names_plain e = true ->
  Forall (Forall data_oriented) vdocs ->
  Forall (Forall (fun v => known_k3_b v = false)) vdocs ->
  forall deny vd, In vd vdocs ->
    exists v, de_doc qx_flavour (render_abs quick_xml_de e) deny vd = Some v.
Proof.
  intros vdocs m e Hne Hwf Hm Hrun. apply run_dom_of_evs in Hrun.
  now apply (qx_accepts vdocs m e).
Qed.

(* ---------- C11 ---------- *)
(* two documents have the same structure: same skeleton once every `<x/>` is written `<x></x>` *)
Definition same_structure (d d' : list node) : Prop :=
  skel_forest (map unempty d) = skel_forest (map unempty d').

Lemma structure_only_absorb_forest d d' r k :
  Uniq r -> same_structure d d' -> absorb_forest d r k = absorb_forest d' r k.
Proof.
  intros Hr H. rewrite <- (unempty_absorb_forest d), <- (unempty_absorb_forest d') by assumption.
  now apply skeleton_absorb_forest.
Qed.

Lemma same_structure_into d d' : same_structure d d' -> into_struct_dom d = into_struct_dom d'.
Proof.
  intros H. unfold into_struct_dom.
  now rewrite (structure_only_absorb_forest d d' wrapper []) by (exact Uniq_wrapper || exact H).
Qed.

Lemma same_structure_extend e d d' :
  Uniq e -> same_structure d d' -> extend_struct_dom e d = extend_struct_dom e d'.
Proof.
  intros He H. unfold extend_struct_dom.
  rewrite (structure_only_absorb_forest d d' (add_unique_child wrapper e) []); auto.
  apply Uniq_add_unique_child; [apply Uniq_wrapper|assumption].
Qed.

Definition ext_dom (acc : option element) (x : list node) : option element :=
  match acc with Some e => extend_struct_dom e x | None => None end.

Lemma same_structure_fold docs docs' :
  Forall2 same_structure docs docs' ->
  forall o, (forall e, o = Some e -> Uniq e) ->
  fold_left ext_dom docs o = fold_left ext_dom docs' o.
Proof.
  induction 1 as [|d d' docs docs' Hd Hds IH]; intros o Ho; [reflexivity|].
  cbn [fold_left]. destruct o as [e|]; cbn [ext_dom].
  - rewrite (same_structure_extend e d d') by auto. apply IH.
    intros e' He'. eapply extend_struct_dom_Uniq; [|exact He']. auto.
  - apply IH. intros e' He'. discriminate He'.
Qed.

Theorem structure_only_run_dom docs docs' :
  Forall2 same_structure docs docs' -> run_dom docs = run_dom docs'.
Proof.
  intros H. destruct H as [|d d' docs docs' Hd Hds]; [reflexivity|].
  cbn [run_dom]. rewrite (same_structure_into d d' Hd).
  apply (same_structure_fold docs docs' Hds). intros e He. now apply into_struct_dom_Uniq in He.
Qed.

Theorem ev_structure_only : forall docs docs',
  Forall2 same_structure docs docs' ->
  run_evs (map events_of_forest docs) = run_evs (map events_of_forest docs').
Proof.
  intros docs docs' H. rewrite !run_dom_ev. now rewrite (structure_only_run_dom docs docs' H).
Qed.

(* hence the same rendering under every option value (and the same error otherwise) *)
Definition render_outcome (o : options) (r : outcome element) : outcome str :=
  match r with Ok e => Ok (to_serde_struct o e) | Err x => Err x | OutOfFuel => OutOfFuel end.

Theorem ev_structure_only_render : forall docs docs' o,
  Forall2 same_structure docs docs' ->
  render_outcome o (run_evs (map events_of_forest docs))
  = render_outcome o (run_evs (map events_of_forest docs')).
Proof. intros docs docs' o H. now rewrite (ev_structure_only docs docs' H). Qed.

Theorem ev_structure_only_render_ok : forall docs docs' o e,
  Forall2 same_structure docs docs' ->
  run_evs (map events_of_forest docs) = Ok e ->
  exists e', run_evs (map events_of_forest docs') = Ok e'
             /\ to_serde_struct o e' = to_serde_struct o e.
Proof.
  intros docs docs' o e H He. exists e. split; [|reflexivity].
  now rewrite <- (ev_structure_only docs docs' H).
Qed.

(* ---------- Part 1: the hypotheses are satisfiable ---------- *)
(* the two supply orders: hypotheses hold, both event-level runs succeed with the same schema,
   and the two trees are different *)
Example ex_ev_order :
  [u_d1; u_d2] <> [] /\ Forall (Forall wf_node) [u_d1; u_d2]
  /\ Forall (fun p => elem_names p = [s "a"]) [u_d1; u_d2]
  /\ Permutation [u_d1; u_d2] [u_d2; u_d1]
  /\ run_evs (map events_of_forest [u_d1; u_d2]) <> run_evs (map events_of_forest [u_d2; u_d1])
  /\ exists e e', run_evs (map events_of_forest [u_d1; u_d2]) = Ok e
                  /\ run_evs (map events_of_forest [u_d2; u_d1]) = Ok e' /\ same_schema e e'.
Proof.
  destruct u_hyps12 as (H1 & H2 & H3).
  split; [exact H1|]. split; [exact H2|]. split; [exact H3|]. split; [apply perm_swap|].
  split; [vm_compute; discriminate|].
  apply (ev_order [u_d1; u_d2] [u_d2; u_d1] (s "a") H1 H2 H3). apply perm_swap.
Qed.

Example ex_ev_idem_mono :
  (exists e e', run_evs (map events_of_forest [u_d1; u_d2]) = Ok e
                /\ run_evs (map events_of_forest ([u_d1; u_d2] ++ [u_d1])) = Ok e'
                /\ same_schema e e')
  /\ (exists e e', run_evs (map events_of_forest [u_d1]) = Ok e
                   /\ run_evs (map events_of_forest ([u_d1] ++ [u_d2])) = Ok e'
                   /\ le_schema e e').
Proof.
  destruct u_hyps12 as (H1 & H2 & H3). split.
  - apply (ev_idem [u_d1; u_d2] u_d1 (s "a") H1 H2 H3). now left.
  - apply (ev_monotone [u_d1] [u_d2] (s "a")); [discriminate|exact H2|exact H3].
Qed.

(* C01: the documents of AdmitProofs.v; the event-level hypothesis holds and every document is admitted *)
Example ex_ev_admits :
  exists e, run_evs (map events_of_forest ex_docs) = Ok e
            /\ clash_free_tree e = true /\ names_plain e = true
            /\ forall d, In d ex_docs ->
                 admits_b quick_xml_de (map erase (render_abs quick_xml_de e)) d = true.
Proof.
  destruct ex_hypotheses as (H1 & H2 & H3 & e & He & Hc & Hp).
  exists e. apply run_evs_of_dom in He. repeat split; auto.
  exact (ev_render_admits_quick_xml ex_docs (s "r") e H1 H2 H3 He Hc Hp).
Qed.

(* C02: the documents of DeserProofs.v *)
Example ex_ev_accepts :
  exists e, run_evs (map events_of_forest (map (map erase_v) vx_docs)) = Ok e
            /\ forall deny vd, In vd vx_docs ->
                 exists v, de_doc qx_flavour (render_abs quick_xml_de e) deny vd = Some v.
Proof.
  destruct vx_hypotheses as (H1 & H2 & H3 & H4 & K3 & e & He & Hc & Hp).
  exists e. apply run_evs_of_dom in He. split; [exact He|].
  exact (ev_accepts vx_docs (s "r") e H1 H2 H3 He Hc Hp H4 K3).
Qed.

(* C11: two different document lists with pairwise the same structure (text vs CDATA, comments,
   prolog, `<b/>` vs `<b></b>`, position of the character data); different event streams, same
   event-level result, which is a tree *)
Definition sx_docs : list (list node) :=
  [ [NMisc; NElem (s "a") false [s "k"]
              [NText; NElem (s "b") true [] []; NMisc; NElem (s "b") false [s "x"] [NCData]]];
    [NElem (s "a") true [] []; NMisc] ].
Definition sx_docs' : list (list node) :=
  [ [NElem (s "a") false [s "k"]
       [NMisc; NElem (s "b") false [] []; NElem (s "b") false [s "x"] [NText; NMisc]; NCData; NText]; NMisc];
    [NMisc; NMisc; NElem (s "a") false [] [NMisc]] ].

Example ex_ev_structure_only :
  map events_of_forest sx_docs <> map events_of_forest sx_docs'
  /\ Forall2 same_structure sx_docs sx_docs'
  /\ run_evs (map events_of_forest sx_docs) = run_evs (map events_of_forest sx_docs')
  /\ exists e, run_evs (map events_of_forest sx_docs) = Ok e /\ ecount e = 2.
Proof.
  split; [vm_compute; discriminate|].
  assert (H : Forall2 same_structure sx_docs sx_docs').
  { repeat constructor; vm_compute; reflexivity. }
  split; [exact H|]. split; [exact (ev_structure_only _ _ H)|].
  eexists. split; vm_compute; reflexivity.
Qed.

(* the premise is needed: a child more is a different structure and a different result *)
Example ex_ev_structure_needed :
  let d  := [[NElem (s "a") false [] [NElem (s "b") true [] []]]] in
  let d' := [[NElem (s "a") false [] []]] in
  ~ Forall2 same_structure d d'
  /\ run_evs (map events_of_forest d) <> run_evs (map events_of_forest d').
Proof.
  cbv zeta. split.
  - intros H. inversion H as [|x y l l' Hxy Hl]; subst. vm_compute in Hxy. discriminate Hxy.
  - vm_compute. discriminate.
Qed.

Lemma same_structure_unfold d d' :
  same_structure d d' <-> skel_forest (map unempty d) = skel_forest (map unempty d').
Proof. reflexivity. Qed.

(* ====================================================================== *)
(* ---------- Part 2. recursion depth ---------- *)

(* the outcome of build_struct without the tree: what is left of the stream, or the error *)
Definition proj_rest (o : outcome (element * list event)) : outcome (list event) :=
  match o with Ok (_, r) => Ok r | Err e => Err e | OutOfFuel => OutOfFuel end.

(* The recursion of build_struct, instrumented.  `d` is the number of calls active when this
   call runs, itself included.  The content of an EStart is read by a new call (d + 1 active);
   the events after it (siblings) are handled by the same call: in the model that is the second,
   tail, call of build_struct on `rest'`, in the Rust code the `loop` of build_struct.
   Result: the maximal number of simultaneously active calls reached, and the outcome. *)
Fixpoint build_depth (fuel : nat) (evs : list event) (d : nat) {struct fuel}
  : nat * outcome (list event) :=
  match fuel with
  | O => (d, OutOfFuel)
  | S fuel' =>
      match evs with
      | [] => (d, Ok [])
      | ev :: rest =>
          let tag (n : res str) (attrs : list attr_res) (empty : bool) :=
            match n with
            | RBad id => (d, Err (FromUtf8Error id))
            | ROk _ =>
                match attr_keys attrs with
                | inl e => (d, Err e)
                | inr _ =>
                    if empty then build_depth fuel' rest d
                    else match build_depth fuel' rest (S d) with
                         | (m1, Ok rest') =>
                             let (m2, o) := build_depth fuel' rest' d in (Nat.max m1 m2, o)
                         | (m1, Err e) => (m1, Err e)
                         | (m1, OutOfFuel) => (m1, OutOfFuel)
                         end
                end
            end in
          match ev with
          | EStart n attrs => tag n attrs false
          | EEmpty n attrs => tag n attrs true
          | EEnd => (d, Ok rest)
          | EText (ROk _) | ECData (ROk _) => build_depth fuel' rest d
          | EText (RBad id) | ECData (RBad id) => (d, Err (FromUtf8Error id))
          | EMisc => build_depth fuel' rest d
          | EErr p id => (d, Err (QuickXmlError p id))
          end
      end
  end.

(* running number of open elements, from `cur`: the maximum reached over the stream *)
Fixpoint max_open_from (cur : nat) (evs : list event) : nat :=
  match evs with
  | [] => cur
  | EStart _ _ :: r => max_open_from (S cur) r
  | EEnd :: r => Nat.max cur (max_open_from (Nat.pred cur) r)
  | _ :: r => max_open_from cur r
  end.
Definition max_open (evs : list event) : nat := max_open_from 0 evs.

(* the call depth of build_struct on a stream, as the entry points call it *)
Definition call_depth (evs : list event) : nat := fst (build_depth (fuel_for evs) evs 1).

(* ---------- the unfolded step ---------- *)
Definition depth_tag (fuel' : nat) (rest : list event) (d : nat)
           (n : res str) (attrs : list attr_res) (empty : bool) : nat * outcome (list event) :=
  match n with
  | RBad id => (d, Err (FromUtf8Error id))
  | ROk _ =>
      match attr_keys attrs with
      | inl e => (d, Err e)
      | inr _ =>
          if empty then build_depth fuel' rest d
          else match build_depth fuel' rest (S d) with
               | (m1, Ok rest') =>
                   let (m2, o) := build_depth fuel' rest' d in (Nat.max m1 m2, o)
               | (m1, Err e) => (m1, Err e)
               | (m1, OutOfFuel) => (m1, OutOfFuel)
               end
      end
  end.

Lemma build_depth_S f evs d :
  build_depth (S f) evs d =
  match evs with
  | [] => (d, Ok [])
  | ev :: rest =>
      match ev with
      | EStart n attrs => depth_tag f rest d n attrs false
      | EEmpty n attrs => depth_tag f rest d n attrs true
      | EEnd => (d, Ok rest)
      | EText (ROk _) | ECData (ROk _) => build_depth f rest d
      | EText (RBad id) | ECData (RBad id) => (d, Err (FromUtf8Error id))
      | EMisc => build_depth f rest d
      | EErr p id => (d, Err (QuickXmlError p id))
      end
  end.
Proof.
  destruct evs as [|ev rest]; [reflexivity|].
  destruct ev as [n attrs|n attrs| |t|t| |p id]; reflexivity.
Qed.

(* ---------- the tie: build_depth is the recursion of build_struct ---------- *)
(* same outcome (Ok with the same remaining events / same error / out of fuel), for every
   stream, every fuel, every depth and every tree state *)
Theorem build_depth_tie f : forall evs d root known,
  snd (build_depth f evs d) = proj_rest (build_struct f evs root known).
Proof.
  induction f as [|f IH]; intros evs d root known; [reflexivity|].
  rewrite build_depth_S, SkelProofs.build_struct_S.
  destruct evs as [|ev rest]; [reflexivity|].
  assert (Htag : forall n attrs empty,
             snd (depth_tag f rest d n attrs empty)
             = proj_rest (SkelProofs.tag_step f rest root known n attrs empty)).
  { intros n attrs empty. unfold depth_tag, SkelProofs.tag_step.
    destruct n as [name|id]; [|reflexivity].
    destruct (attr_keys attrs) as [e|keys]; [reflexivity|].
    destruct empty; [apply IH|].
    pose proof (IH rest (S d) (open_c0 root name keys known) []) as H1.
    destruct (build_depth f rest (S d)) as [m1 o1].
    destruct (build_struct f rest (open_c0 root name keys known) []) as [[child rest']|e|];
      cbn [snd proj_rest] in H1; subst o1; try reflexivity.
    pose proof (IH rest' d (tag_close (open_root1 root name) name child
                              (snapshot (get_child (echildren root) name)))
                   (known_add known name)) as H2.
    destruct (build_depth f rest' d) as [m2 o2]. exact H2. }
  destruct ev as [n attrs|n attrs| |t|t| |p id]; try reflexivity.
  - apply Htag.
  - apply Htag.
  - destruct t as [u|id]; [apply IH|reflexivity].
  - destruct t as [u|id]; [apply IH|reflexivity].
  - apply IH.
Qed.

(* the form asked for: build_depth succeeds exactly when build_struct returns Ok, on the same
   fuel and events, and the remaining events are the same (no hypothesis on the stream) *)
Corollary build_depth_ok_of_struct f evs d root known r rest :
  build_struct f evs root known = Ok (r, rest) -> snd (build_depth f evs d) = Ok rest.
Proof. intros H. now rewrite (build_depth_tie f evs d root known), H. Qed.

Corollary build_struct_ok_of_depth f evs d root known rest :
  snd (build_depth f evs d) = Ok rest -> exists r, build_struct f evs root known = Ok (r, rest).
Proof.
  rewrite (build_depth_tie f evs d root known).
  destruct (build_struct f evs root known) as [[r rest0]|e|]; cbn [proj_rest]; intros H;
    try discriminate H.
  injection H as ->. now exists r.
Qed.

Corollary build_depth_ok_iff f evs d root known rest :
  snd (build_depth f evs d) = Ok rest <-> exists r, build_struct f evs root known = Ok (r, rest).
Proof.
  split; [apply build_struct_ok_of_depth|]. intros [r H]. eapply build_depth_ok_of_struct; exact H.
Qed.

Corollary build_depth_err_iff f evs d root known x :
  snd (build_depth f evs d) = Err x <-> build_struct f evs root known = Err x.
Proof.
  rewrite (build_depth_tie f evs d root known).
  destruct (build_struct f evs root known) as [[r rest0]|e|]; cbn [proj_rest]; split; intros H;
    try discriminate H; injection H as ->; reflexivity.
Qed.

(* fault-free streams with the fuel of the entry points: both succeed, same remaining events *)
Corollary build_depth_faultfree evs d root known :
  first_fault evs = None ->
  exists r rest, build_struct (fuel_for evs) evs root known = Ok (r, rest)
                 /\ snd (build_depth (fuel_for evs) evs d) = Ok rest.
Proof.
  intros Hff.
  destruct (build_struct (fuel_for evs) evs root known) as [[r rest]|x|] eqn:E.
  - exists r, rest. split; [reflexivity|]. eapply build_depth_ok_of_struct; exact E.
  - exfalso. pose proof (build_scan (fuel_for evs) evs root known) as Hs.
    assert (L : (length evs < fuel_for evs)%nat) by (unfold fuel_for; lia).
    specialize (Hs L). rewrite E in Hs.
    destruct (scan O evs) as [y|rest1|] eqn:Sc.
    + now apply (no_fault_scan evs Hff y).
    + destruct Hs as [e0 Hs]. discriminate Hs.
    + destruct Hs as [e0 Hs]. discriminate Hs.
  - exfalso. revert E. apply ParserTotal.fuel_enough. unfold fuel_for. lia.
Qed.

(* ---------- the bound ---------- *)
Lemma max_open_from_ge evs : forall c, (c <= max_open_from c evs)%nat.
Proof.
  induction evs as [|ev evs IH]; intros c; [cbn; lia|].
  destruct ev as [n attrs|n attrs| |t|t| |p id]; cbn [max_open_from]; try apply IH.
  - specialize (IH (S c)). lia.
  - lia.
Qed.

Lemma build_depth_ge f : forall evs d, (d <= fst (build_depth f evs d))%nat.
Proof.
  induction f as [|f IH]; intros evs d; [cbn; lia|].
  rewrite build_depth_S. destruct evs as [|ev rest]; [cbn; lia|].
  assert (Htag : forall n attrs empty, (d <= fst (depth_tag f rest d n attrs empty))%nat).
  { intros n attrs empty. unfold depth_tag.
    destruct n as [name|id]; [|cbn; lia].
    destruct (attr_keys attrs) as [e|keys]; [cbn; lia|].
    destruct empty; [apply IH|].
    pose proof (IH rest (S d)) as H1.
    destruct (build_depth f rest (S d)) as [m1 [rest'|e|]]; cbn [fst] in H1 |- *; try lia.
    pose proof (IH rest' d) as H2.
    destruct (build_depth f rest' d) as [m2 o2]. cbn [fst] in H2 |- *. lia. }
  destruct ev as [n attrs|n attrs| |t|t| |p id]; try apply Htag; try apply IH; try (cbn; lia).
  - destruct t as [u|id]; [apply IH|cbn; lia].
  - destruct t as [u|id]; [apply IH|cbn; lia].
Qed.

(* the invariant: `c` elements are open when the call at depth `d` starts on `evs`.
   (a) the depth reached exceeds d by no more than the running count exceeds c;
   (b) when the call returns (end tag or end of stream) the rest of the stream, read from c - 1,
       does not reach higher than the whole stream read from c. *)
Lemma depth_inv f : forall evs d c,
  (fst (build_depth f evs d) + c <= d + max_open_from c evs)%nat
  /\ forall rest, snd (build_depth f evs d) = Ok rest ->
       (max_open_from (Nat.pred c) rest <= max_open_from c evs)%nat.
Proof.
  induction f as [|f IH]; intros evs d c.
  - cbn [build_depth fst snd]. pose proof (max_open_from_ge evs c). split; [lia|discriminate].
  - rewrite build_depth_S. destruct evs as [|ev rest].
    + cbn [fst snd max_open_from]. split; [lia|]. intros r H. injection H as <-. cbn. lia.
    + pose proof (max_open_from_ge (ev :: rest) c) as Hge.
      assert (Hskip : max_open_from c (ev :: rest) = max_open_from c rest ->
                (fst (build_depth f rest d) + c <= d + max_open_from c (ev :: rest))%nat
                /\ forall r, snd (build_depth f rest d) = Ok r ->
                     (max_open_from (Nat.pred c) r <= max_open_from c (ev :: rest))%nat).
      { intros ->. apply IH. }
      assert (Herr : forall x,
                (fst (d, @Err (list event) x) + c <= d + max_open_from c (ev :: rest))%nat
                /\ forall r, snd (d, @Err (list event) x) = Ok r ->
                     (max_open_from (Nat.pred c) r <= max_open_from c (ev :: rest))%nat).
      { intros x. cbn [fst snd]. split; [lia|discriminate]. }
      destruct ev as [n attrs|n attrs| |t|t| |p id].
      * (* EStart *)
        unfold depth_tag. destruct n as [name|id]; [|apply Herr].
        destruct (attr_keys attrs) as [e|keys]; [apply Herr|].
        cbn [max_open_from] in Hge |- *.
        destruct (IH rest (S d) (S c)) as [Ha Hb].
        destruct (build_depth f rest (S d)) as [m1 [rest'|e|]]; cbn [fst snd] in Ha, Hb |- *.
        -- specialize (Hb rest' eq_refl). cbn [Nat.pred] in Hb.
           destruct (IH rest' d c) as [Ha2 Hb2].
           destruct (build_depth f rest' d) as [m2 o2]. cbn [fst snd] in Ha2, Hb2 |- *.
           split; [lia|]. intros r Hr. specialize (Hb2 r Hr). lia.
        -- split; [lia|discriminate].
        -- split; [lia|discriminate].
      * (* EEmpty *)
        unfold depth_tag. destruct n as [name|id]; [|apply Herr].
        destruct (attr_keys attrs) as [e|keys]; [apply Herr|].
        now apply Hskip.
      * (* EEnd *)
        cbn [fst snd max_open_from]. split; [lia|]. intros r H. injection H as <-. lia.
      * destruct t as [u|id]; [now apply Hskip|apply Herr].
      * destruct t as [u|id]; [now apply Hskip|apply Herr].
      * now apply Hskip.
      * apply Herr.
Qed.

(* every stream, balanced or not, faulty or not; every fuel; every starting depth *)
Theorem depth_bound_gen f evs d : (fst (build_depth f evs d) <= d + max_open evs)%nat.
Proof. destruct (depth_inv f evs d 0) as [H _]. unfold max_open. lia. Qed.

Theorem depth_bound evs : (call_depth evs <= 1 + max_open evs)%nat.
Proof. apply depth_bound_gen. Qed.

Corollary depth_bound_200 evs : (max_open evs <= 200)%nat -> (call_depth evs <= 201)%nat.
Proof. intros H. pose proof (depth_bound evs). lia. Qed.

Corollary depth_bound_limit evs k : (max_open evs <= k)%nat -> (call_depth evs <= S k)%nat.
Proof. intros H. pose proof (depth_bound evs). lia. Qed.

(* ---------- enough fuel: the measure does not depend on the amount ---------- *)
Lemma build_depth_rest_length f evs d rest :
  snd (build_depth f evs d) = Ok rest -> (length rest <= length evs)%nat.
Proof.
  intros H. destruct (build_struct_ok_of_depth f evs d wrapper [] rest H) as [r Hr].
  now apply build_struct_rest_length in Hr.
Qed.

Lemma build_depth_fuel f1 : forall f2 evs d,
  (length evs < f1)%nat -> (length evs < f2)%nat -> build_depth f1 evs d = build_depth f2 evs d.
Proof.
  induction f1 as [|f1 IH]; intros f2 evs d H1 H2; [lia|].
  destruct f2 as [|f2]; [lia|]. rewrite !build_depth_S.
  destruct evs as [|ev evs]; [reflexivity|]. cbn [length] in H1, H2.
  assert (Htag : forall n attrs empty,
             depth_tag f1 evs d n attrs empty = depth_tag f2 evs d n attrs empty).
  { intros n attrs empty. unfold depth_tag.
    destruct n as [name|id]; [|reflexivity].
    destruct (attr_keys attrs) as [e|keys]; [reflexivity|].
    destruct empty; [apply IH; lia|].
    rewrite (IH f2 evs (S d)) by lia.
    destruct (build_depth f2 evs (S d)) as [m1 [rest'|e|]] eqn:Hs; try reflexivity.
    assert (Hl : (length rest' <= length evs)%nat).
    { apply (build_depth_rest_length f2 evs (S d)). now rewrite Hs. }
    rewrite (IH f2 rest' d) by lia. reflexivity. }
  destruct ev as [n attrs|n attrs| |t|t| |p id]; auto.
  - destruct t as [u|id]; [|reflexivity]. apply IH; lia.
  - destruct t as [u|id]; [|reflexivity]. apply IH; lia.
  - apply IH; lia.
Qed.

(* with the fuel of the entry points the instrumented recursion never runs out either *)
Lemma build_depth_fuel_enough f evs d :
  (length evs < f)%nat -> snd (build_depth f evs d) <> OutOfFuel.
Proof.
  intros L H. rewrite (build_depth_tie f evs d wrapper []) in H.
  pose proof (ParserTotal.fuel_enough f evs wrapper [] L) as Hne.
  destruct (build_struct f evs wrapper []) as [[r rest]|e|]; cbn [proj_rest] in H;
    try discriminate H. now apply Hne.
Qed.

(* ---------- document trees: the bound is reached ---------- *)
(* nesting depth of the start-tag elements of a node (an `<x/>` has no content to recurse into) *)
Fixpoint nest (nd : node) : nat :=
  match nd with
  | NElem _ false _ kids =>
      S ((fix go (ks : list node) : nat :=
            match ks with [] => O | k :: r => Nat.max (nest k) (go r) end) kids)
  | _ => O
  end.
Fixpoint nest_forest (ks : list node) : nat :=
  match ks with [] => O | k :: r => Nat.max (nest k) (nest_forest r) end.

Lemma nest_elem n a ks : nest (NElem n false a ks) = S (nest_forest ks).
Proof. reflexivity. Qed.

Definition bump (x : nat) (r : nat * outcome (list event)) : nat * outcome (list event) :=
  (Nat.max x (fst r), snd r).

Definition node_depth_ok (k : node) : Prop :=
  forall rest f d, (length (events_of k ++ rest) < f)%nat ->
    build_depth f (events_of k ++ rest) d = bump (d + nest k) (build_depth f rest d).
Definition forest_depth_ok (ks : list node) : Prop :=
  forall rest f d, (length (events_of_forest ks ++ rest) < f)%nat ->
    build_depth f (events_of_forest ks ++ rest) d = bump (d + nest_forest ks) (build_depth f rest d).

Lemma bump_ge x r : (x <= fst r)%nat -> bump x r = r.
Proof. destruct r as [m o]. unfold bump. cbn [fst snd]. intros H. f_equal. lia. Qed.

Lemma forest_depth_ok_of_Forall ks : Forall node_depth_ok ks -> forest_depth_ok ks.
Proof.
  induction 1 as [|k ks Hk Hks IH]; intros rest f d Hlen.
  - cbn [events_of_forest flat_map app nest_forest]. rewrite bump_ge; [reflexivity|].
    rewrite Nat.add_0_r. apply build_depth_ge.
  - rewrite events_of_forest_cons, <- app_assoc in Hlen |- *.
    rewrite Hk by exact Hlen. rewrite IH by (rewrite app_length in Hlen; lia).
    unfold bump. cbn [fst snd nest_forest]. f_equal. lia.
Qed.

Lemma node_depth_all : forall k, node_depth_ok k.
Proof.
  induction k as [n ef a ks IH| | |] using node_ind'; intros rest f d Hlen.
  - apply forest_depth_ok_of_Forall in IH.
    destruct f as [|f]; [lia|].
    destruct ef.
    + rewrite events_of_empty in Hlen |- *. cbn [app length] in Hlen |- *.
      rewrite build_depth_S. unfold depth_tag. rewrite attr_keys_ok.
      cbn [nest]. rewrite bump_ge by (rewrite Nat.add_0_r; apply build_depth_ge).
      apply build_depth_fuel; lia.
    + rewrite events_of_elem in Hlen |- *.
      rewrite <- app_comm_cons, <- app_assoc in Hlen |- *. cbn [length] in Hlen.
      rewrite build_depth_S. unfold depth_tag. rewrite attr_keys_ok.
      rewrite IH by lia.
      destruct f as [|f']; [lia|].
      rewrite (build_depth_S f' ([EEnd] ++ rest)). cbn [app]. unfold bump at 1. cbn [fst snd].
      rewrite (build_depth_fuel (S f') (S (S f')) rest d)
        by (rewrite !app_length in Hlen; cbn [length] in Hlen; lia).
      destruct (build_depth (S (S f')) rest d) as [m2 o2]. unfold bump. cbn [fst snd].
      rewrite nest_elem. f_equal. lia.
  - destruct f as [|f]; [lia|]. cbn [events_of app length nest] in Hlen |- *.
    rewrite build_depth_S. rewrite bump_ge by (rewrite Nat.add_0_r; apply build_depth_ge).
    apply build_depth_fuel; lia.
  - destruct f as [|f]; [lia|]. cbn [events_of app length nest] in Hlen |- *.
    rewrite build_depth_S. rewrite bump_ge by (rewrite Nat.add_0_r; apply build_depth_ge).
    apply build_depth_fuel; lia.
  - destruct f as [|f]; [lia|]. cbn [events_of app length nest] in Hlen |- *.
    rewrite build_depth_S. rewrite bump_ge by (rewrite Nat.add_0_r; apply build_depth_ge).
    apply build_depth_fuel; lia.
Qed.

(* a document (forest of top-level nodes), any continuation *)
Theorem build_depth_forest ks rest f d :
  (length (events_of_forest ks ++ rest) < f)%nat ->
  build_depth f (events_of_forest ks ++ rest) d = bump (d + nest_forest ks) (build_depth f rest d).
Proof.
  revert rest f d. apply forest_depth_ok_of_Forall. apply Forall_forall. intros k _. apply node_depth_all.
Qed.

Theorem build_depth_dom ks f d :
  (length (events_of_forest ks) < f)%nat ->
  build_depth f (events_of_forest ks) d = (d + nest_forest ks, Ok [])%nat.
Proof.
  intros Hlen. pose proof (build_depth_forest ks [] f d) as H. rewrite app_nil_r in H.
  rewrite H by exact Hlen. destruct f as [|f]; [lia|]. rewrite build_depth_S.
  unfold bump. cbn [fst snd]. f_equal. lia.
Qed.

(* the stream of a document opens exactly `nest` elements at once *)
Lemma max_open_from_forest_aux ks :
  Forall (fun k => forall rest c, max_open_from c (events_of k ++ rest)
                                  = Nat.max (c + nest k) (max_open_from c rest)) ks ->
  forall rest c, max_open_from c (events_of_forest ks ++ rest)
                 = Nat.max (c + nest_forest ks) (max_open_from c rest).
Proof.
  induction 1 as [|k ks Hk Hks IH]; intros rest c.
  - cbn [events_of_forest flat_map app nest_forest].
    pose proof (max_open_from_ge rest c). lia.
  - rewrite events_of_forest_cons, <- app_assoc, Hk, IH. cbn [nest_forest]. lia.
Qed.

Lemma max_open_from_node : forall k rest c,
  max_open_from c (events_of k ++ rest) = Nat.max (c + nest k) (max_open_from c rest).
Proof.
  induction k as [n ef a ks IH| | |] using node_ind'; intros rest c.
  - destruct ef.
    + rewrite events_of_empty. cbn [app max_open_from nest].
      pose proof (max_open_from_ge rest c). lia.
    + rewrite events_of_elem, nest_elem. rewrite <- app_comm_cons, <- app_assoc.
      cbn [max_open_from].
      rewrite (max_open_from_forest_aux ks IH). cbn [app max_open_from Nat.pred].
      pose proof (max_open_from_ge rest c). lia.
  - cbn [events_of app max_open_from nest]. pose proof (max_open_from_ge rest c). lia.
  - cbn [events_of app max_open_from nest]. pose proof (max_open_from_ge rest c). lia.
  - cbn [events_of app max_open_from nest]. pose proof (max_open_from_ge rest c). lia.
Qed.

Lemma max_open_from_forest ks rest c :
  max_open_from c (events_of_forest ks ++ rest)
  = Nat.max (c + nest_forest ks) (max_open_from c rest).
Proof.
  apply max_open_from_forest_aux. apply Forall_forall. intros k _. apply max_open_from_node.
Qed.

Lemma max_open_forest ks : max_open (events_of_forest ks) = nest_forest ks.
Proof.
  unfold max_open. pose proof (max_open_from_forest ks [] 0) as H. rewrite app_nil_r in H.
  rewrite H. cbn [max_open_from]. lia.
Qed.

(* on the events of a document the call depth is exactly 1 + nesting depth = 1 + max_open *)
Theorem call_depth_dom ks : call_depth (events_of_forest ks) = S (nest_forest ks).
Proof.
  unfold call_depth, fuel_for. rewrite build_depth_dom by lia. reflexivity.
Qed.

Theorem call_depth_dom_max_open ks :
  call_depth (events_of_forest ks) = S (max_open (events_of_forest ks)).
Proof. now rewrite call_depth_dom, max_open_forest. Qed.

(* ---------- Part 2: examples ---------- *)
(* <a><a><a><a><a>..</a></a></a></a></a> as a stream, k deep *)
Fixpoint nested_evs (k : nat) (inner : list event) : list event :=
  match k with
  | O => inner
  | S k' => EStart (ROk (s "a")) [] :: nested_evs k' inner ++ [EEnd]
  end.

(* a stream nested 5 deep: 5 open elements at once, 6 active calls; the instrumented recursion
   and build_struct both consume everything *)
Example ex_depth_5 :
  let evs := nested_evs 5 [EText (ROk tt); EEmpty (ROk (s "b")) []] in
  max_open evs = 5%nat /\ call_depth evs = 6%nat
  /\ build_depth (fuel_for evs) evs 1 = (6%nat, Ok [])
  /\ proj_rest (build_struct (fuel_for evs) evs wrapper []) = Ok [].
Proof. cbv zeta. repeat split; vm_compute; reflexivity. Qed.

(* siblings do not add to the depth: 3 siblings, each 2 deep, with empty elements in between *)
Example ex_depth_siblings :
  let one := nested_evs 2 [EEmpty (ROk (s "b")) []] in
  let evs := EStart (ROk (s "r")) [] :: one ++ EMisc :: one ++ one ++ [EEnd] in
  max_open evs = 3%nat /\ call_depth evs = 4%nat /\ length evs = 18%nat.
Proof. cbv zeta. repeat split; vm_compute; reflexivity. Qed.

(* unbalanced streams.  Missing end tags (Eof inside 3 open elements): depth 4.  A stray end tag
   makes the top call return: what follows it is not read, and the bound is not reached
   (max_open counts the whole stream: 2, depth 2 <= 3). *)
Example ex_depth_unbalanced :
  let open3 := [EStart (ROk (s "a")) []; EStart (ROk (s "b")) []; EStart (ROk (s "c")) []] in
  let stray := [EStart (ROk (s "a")) []; EEnd; EEnd; EStart (ROk (s "b")) []; EStart (ROk (s "c")) []] in
  (max_open open3 = 3%nat /\ build_depth (fuel_for open3) open3 1 = (4%nat, Ok []))
  /\ (max_open stray = 2%nat
      /\ build_depth (fuel_for stray) stray 1
         = (2%nat, Ok [EStart (ROk (s "b")) []; EStart (ROk (s "c")) []])
      /\ proj_rest (build_struct (fuel_for stray) stray wrapper [])
         = Ok [EStart (ROk (s "b")) []; EStart (ROk (s "c")) []]).
Proof. cbv zeta. repeat split; vm_compute; reflexivity. Qed.

(* a faulty stream: the reader error arrives 2 elements deep; depth 3, same error on both sides *)
Example ex_depth_fault :
  let evs := [EStart (ROk (s "a")) []; EStart (ROk (s "b")) []; EErr 7 3; EEnd; EEnd] in
  max_open evs = 2%nat
  /\ build_depth (fuel_for evs) evs 1 = (3%nat, Err (QuickXmlError 7 3))
  /\ build_struct (fuel_for evs) evs wrapper [] = Err (QuickXmlError 7 3).
Proof. cbv zeta. repeat split; vm_compute; reflexivity. Qed.

(* a document tree nested 5 deep (ex_doc of DomEquiv.v is 2 deep) *)
Fixpoint nested_doc (k : nat) : node :=
  match k with
  | O => NText
  | S k' => NElem (s "a") false [s "x"] [NElem (s "b") true [] []; nested_doc k'; NMisc]
  end.
Example ex_depth_dom :
  nest_forest [NMisc; nested_doc 5] = 5%nat
  /\ call_depth (events_of_forest [NMisc; nested_doc 5]) = 6%nat
  /\ max_open (events_of_forest [NMisc; nested_doc 5]) = 5%nat
  /\ call_depth (events_of_forest ex_doc) = 3%nat.
Proof. repeat split; vm_compute; reflexivity. Qed.

(* the 200 bound is not vacuous: a stream nested exactly 200 deep has 201 active calls *)
Example ex_depth_200 :
  let evs := nested_evs 200 [] in
  max_open evs = 200%nat /\ call_depth evs = 201%nat.
Proof. cbv zeta. split; vm_compute; reflexivity. Qed.

(* ---------- the definitions, unfolded (for the Properties file) ---------- *)
Lemma depth_tag_unfold f rest d n attrs empty :
  depth_tag f rest d n attrs empty =
  match n with
  | RBad id => (d, Err (FromUtf8Error id))
  | ROk _ =>
      match attr_keys attrs with
      | inl e => (d, Err e)
      | inr _ =>
          if empty then build_depth f rest d
          else match build_depth f rest (S d) with
               | (m1, Ok rest') =>
                   let (m2, o) := build_depth f rest' d in (Nat.max m1 m2, o)
               | (m1, Err e) => (m1, Err e)
               | (m1, OutOfFuel) => (m1, OutOfFuel)
               end
      end
  end.
Proof. reflexivity. Qed.

Lemma max_open_from_unfold cur evs :
  max_open_from cur evs =
  match evs with
  | [] => cur
  | EStart _ _ :: r => max_open_from (S cur) r
  | EEnd :: r => Nat.max cur (max_open_from (Nat.pred cur) r)
  | _ :: r => max_open_from cur r
  end.
Proof. destruct evs as [|[]]; reflexivity. Qed.

Lemma call_depth_unfold evs :
  call_depth evs = fst (build_depth (fuel_for evs) evs 1) /\ max_open evs = max_open_from 0 evs.
Proof. split; reflexivity. Qed.

Lemma nest_unfold n a ks :
  nest (NElem n false a ks) = S (nest_forest ks) /\ nest (NElem n true a ks) = O
  /\ nest NText = O /\ nest NCData = O /\ nest NMisc = O
  /\ nest_forest [] = O
  /\ forall k, nest_forest (k :: ks) = Nat.max (nest k) (nest_forest ks).
Proof. repeat split. Qed.
