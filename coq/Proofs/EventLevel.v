(* Event-level corollaries and the recursion-depth bound.
   Part 1: the document theorems of C06 / C01 / C11 / C02, proved on the DOM presentation
           (`run_dom`), restated for the event-level parser `run_evs` (the function tied to the
           Rust code) through `run_dom_ev` of Proofs/DomEquiv.v.
   Part 2: C07 ("recursion per nesting level, bounded only by the stack"): an instrumented copy
           `build_depth` of the recursion of `build_struct`, the bound
           call depth <= 1 + maximal number of simultaneously open elements, for EVERY stream,
           and the tie of `build_depth` to `build_struct`. *)
From Coq Require Import String.
From XSG.Model Require Import Strings Convert Necessity Element Parser Dom Spec Render Deser.
From XSG.Proofs Require Import StringsProofs NecessityProofs ElementProofs SkelProofs DomEquiv
                               SpecProofs ReprDefs ParserFaults UnionProofs AdmitProofs DeserProofs.
From XSG.Corr Require Import Common Oracles.
From Coq Require Import List Lia Permutation Arith.
Local Open Scope list_scope.

(* ====================================================================== *)
(* ---------- Part 1. transport to the event level ---------- *)

(* the bridge: an event-level success on the events of document trees is a DOM-level success *)
Lemma run_evs_ok_iff docs e :
  run_evs (map events_of_forest docs) = Ok e <-> run_dom docs = Some e.
Proof.
  rewrite run_dom_ev. destruct (run_dom docs) as [x|]; split; intros H;
    try discriminate H; now (injection H as ->).
Qed.

Lemma run_evs_of_dom docs e :
  run_dom docs = Some e -> run_evs (map events_of_forest docs) = Ok e.
Proof. apply run_evs_ok_iff. Qed.

Lemma run_dom_of_evs docs e :
  run_evs (map events_of_forest docs) = Ok e -> run_dom docs = Some e.
Proof. apply run_evs_ok_iff. Qed.

(* the event-level run never yields anything but Ok / NoRootError on document trees *)
Lemma run_evs_docs_cases docs :
  (exists e, run_evs (map events_of_forest docs) = Ok e)
  \/ run_evs (map events_of_forest docs) = Err NoRootError.
Proof. rewrite run_dom_ev. destruct (run_dom docs) as [x|]; [left; now exists x|now right]. Qed.

(* ---------- C06 ---------- *)
Theorem ev_order : forall docs docs' m,
  docs <> [] -> Forall (Forall wf_node) docs -> Forall (fun p => elem_names p = [m]) docs ->
  Permutation docs docs' ->
  exists e e', run_evs (map events_of_forest docs) = Ok e
               /\ run_evs (map events_of_forest docs') = Ok e' /\ same_schema e e'.
Proof.
  intros docs docs' m Hne Hwf Hm Hp.
  destruct (run_dom_order docs docs' m Hne Hwf Hm Hp) as (e & e' & H1 & H2 & Hs).
  exists e, e'. repeat split; auto using run_evs_of_dom.
Qed.

Theorem ev_idem : forall docs d m,
  docs <> [] -> Forall (Forall wf_node) docs -> Forall (fun p => elem_names p = [m]) docs ->
  In d docs ->
  exists e e', run_evs (map events_of_forest docs) = Ok e
               /\ run_evs (map events_of_forest (docs ++ [d])) = Ok e' /\ same_schema e e'.
Proof.
  intros docs d m Hne Hwf Hm Hin.
  destruct (run_dom_idem docs d m Hne Hwf Hm Hin) as (e & e' & H1 & H2 & Hs).
  exists e, e'. repeat split; auto using run_evs_of_dom.
Qed.

Theorem ev_monotone : forall docs more m,
  docs <> [] ->
  Forall (Forall wf_node) (docs ++ more) -> Forall (fun p => elem_names p = [m]) (docs ++ more) ->
  exists e e', run_evs (map events_of_forest docs) = Ok e
               /\ run_evs (map events_of_forest (docs ++ more)) = Ok e' /\ le_schema e e'.
Proof.
  intros docs more m Hne Hwf Hm.
  destruct (run_dom_mono docs more m Hne Hwf Hm) as (e & e' & H1 & H2 & Hs).
  exists e, e'. repeat split; auto using run_evs_of_dom.
Qed.

(* ---------- C01 ---------- *)
Theorem ev_render_admits_quick_xml : forall docs m e,
  docs <> [] -> Forall (Forall wf_node) docs -> Forall (fun p => elem_names p = [m]) docs ->
  run_evs (map events_of_forest docs) = Ok e ->
  clash_free_tree e = true -> names_plain e = true ->
  forall d, In d docs -> admits_b quick_xml_de (map erase (render_abs quick_xml_de e)) d = true.
Proof.
  intros docs m e Hne Hwf Hm Hrun. apply run_dom_of_evs in Hrun.
  now apply (render_admits_quick_xml docs m e).
Qed.

(* ---------- C02 ---------- *)
Theorem ev_accepts : forall vdocs m e,
  vdocs <> [] -> Forall (Forall wf_vnode) vdocs ->
  Forall (fun p => elem_names (map erase_v p) = [m]) vdocs ->
  run_evs (map events_of_forest (map (map erase_v) vdocs)) = Ok e ->
  clash_free_tree e = true -> names_plain e = true ->
  Forall (Forall data_oriented) vdocs ->
  forall deny vd, In vd vdocs ->
    exists v, de_doc qx_flavour (render_abs quick_xml_de e) deny vd = Some v.
Proof.
  intros vdocs m e Hne Hwf Hm Hrun. apply run_dom_of_evs in Hrun.
  now apply (qx_accepts vdocs m e).
Qed.

(* ---------- C11 ---------- *)
(* two documents have the same structure: same skeleton once every `<x/>` is written `<x></x>` *)
Definition same_structure (d d' : list node) : Prop :=
  skel_forest (map unempty d) = skel_forest (map unempty d').

Lemma structure_only_absorb_forest d d' r k :
  Uniq r -> same_structure d d' -> absorb_forest d r k = absorb_forest d' r k.
Proof.
  intros Hr H. rewrite <- (unempty_absorb_forest d), <- (unempty_absorb_forest d') by assumption.
  now apply skeleton_absorb_forest.
Qed.

Lemma same_structure_into d d' : same_structure d d' -> into_struct_dom d = into_struct_dom d'.
Proof.
  intros H. unfold into_struct_dom.
  now rewrite (structure_only_absorb_forest d d' wrapper []) by (exact Uniq_wrapper || exact H).
Qed.

Lemma same_structure_extend e d d' :
  Uniq e -> same_structure d d' -> extend_struct_dom e d = extend_struct_dom e d'.
Proof.
  intros He H. unfold extend_struct_dom.
  rewrite (structure_only_absorb_forest d d' (add_unique_child wrapper e) []); auto.
  apply Uniq_add_unique_child; [apply Uniq_wrapper|assumption].
Qed.

Definition ext_dom (acc : option element) (x : list node) : option element :=
  match acc with Some e => extend_struct_dom e x | None => None end.

Lemma same_structure_fold docs docs' :
  Forall2 same_structure docs docs' ->
  forall o, (forall e, o = Some e -> Uniq e) ->
  fold_left ext_dom docs o = fold_left ext_dom docs' o.
Proof.
  induction 1 as [|d d' docs docs' Hd Hds IH]; intros o Ho; [reflexivity|].
  cbn [fold_left]. destruct o as [e|]; cbn [ext_dom].
  - rewrite (same_structure_extend e d d') by auto. apply IH.
    intros e' He'. eapply extend_struct_dom_Uniq; [|exact He']. auto.
  - apply IH. intros e' He'. discriminate He'.
Qed.

Theorem structure_only_run_dom docs docs' :
  Forall2 same_structure docs docs' -> run_dom docs = run_dom docs'.
Proof.
  intros H. destruct H as [|d d' docs docs' Hd Hds]; [reflexivity|].
  cbn [run_dom]. rewrite (same_structure_into d d' Hd).
  apply (same_structure_fold docs docs' Hds). intros e He. now apply into_struct_dom_Uniq in He.
Qed.

Theorem ev_structure_only : forall docs docs',
  Forall2 same_structure docs docs' ->
  run_evs (map events_of_forest docs) = run_evs (map events_of_forest docs').
Proof.
  intros docs docs' H. rewrite !run_dom_ev. now rewrite (structure_only_run_dom docs docs' H).
Qed.

(* hence the same rendering under every option value (and the same error otherwise) *)
Definition render_outcome (o : options) (r : outcome element) : outcome str :=
  match r with Ok e => Ok (to_serde_struct o e) | Err x => Err x | OutOfFuel => OutOfFuel end.

Theorem ev_structure_only_render : forall docs docs' o,
  Forall2 same_structure docs docs' ->
  render_outcome o (run_evs (map events_of_forest docs))
  = render_outcome o (run_evs (map events_of_forest docs')).
Proof. intros docs docs' o H. now rewrite (ev_structure_only docs docs' H). Qed.

Theorem ev_structure_only_render_ok : forall docs docs' o e,
  Forall2 same_structure docs docs' ->
  run_evs (map events_of_forest docs) = Ok e ->
  exists e', run_evs (map events_of_forest docs') = Ok e'
             /\ to_serde_struct o e' = to_serde_struct o e.
Proof.
  intros docs docs' o e H He. exists e. split; [|reflexivity].
  now rewrite <- (ev_structure_only docs docs' H).
Qed.

(* ---------- Part 1: the hypotheses are satisfiable ---------- *)
Example ex_ev_order :
  [u_d1; u_d2] <> [] /\ Forall (Forall wf_node) [u_d1; u_d2]
  /\ Forall (fun p => elem_names p = [s "a"]) [u_d1; u_d2]
  /\ Permutation [u_d1; u_d2] [u_d2; u_d1]
  /\ run_evs (map events_of_forest [u_d1; u_d2]) <> run_evs (map events_of_forest [u_d2; u_d1]).
Proof.
  split; [discriminate|]. split; [repeat constructor; vm_compute; intuition discriminate|].
  split; [repeat constructor|]. split; [apply perm_swap|]. vm_compute. discriminate.
Qed.
