(* Struct names (C14): every entry of the struct-name table is the concatenation of the
   PascalCase names of the last m components of its path, followed by a decimal suffix or
   nothing; m = 1 for a name that occurs once in the tree and for the root; the root's entry is
   the name of the first struct.  Model: Model/Render.v (fill_names, hints_of_buckets,
   expand_name, unused_loop, fill_struct_names, compute_struct_names, render_abs). *)
From XSG.Model Require Import Strings Chars Convert Necessity Element Render.
From XSG.Proofs Require Import StringsProofs ElementProofs NamingProofs.
From Coq Require Import Lia Permutation String Ascii Decimal DecimalString.
Local Open Scope list_scope.
Local Open Scope nat_scope.

(* ====================================================================================== *)
(* 0. small list facts                                                                    *)
(* ====================================================================================== *)

(* the last m elements of a list *)
Definition lastn {A} (m : nat) (l : list A) : list A := skipn (List.length l - m) l.

Lemma lastn_min {A} n (l : list A) : lastn (Nat.min n (List.length l)) l = lastn n l.
Proof. unfold lastn. f_equal. lia. Qed.

Lemma lastn_one {A} (l : list A) d : l <> [] -> lastn 1 l = [last l d].
Proof.
  intros Hne. destruct (exists_last Hne) as [q [a ->]]. unfold lastn.
  rewrite last_last, app_length. cbn [List.length].
  replace (List.length q + 1 - 1) with (List.length q) by lia.
  rewrite skipn_app, skipn_all, Nat.sub_diag. reflexivity.
Qed.

Lemma lastn_single {A} n (a : A) : 1 <= n -> lastn n [a] = [a].
Proof. intros Hn. unfold lastn. cbn [List.length]. replace (1 - n) with 0 by lia. reflexivity. Qed.

Lemma last_cons_nonnil {A} (a : A) q d : q <> [] -> last (a :: q) d = last q d.
Proof. destruct q as [|b q]; [congruence|reflexivity]. Qed.

Lemma last_app_nonnil {A} (p q : list A) d : q <> [] -> last (p ++ q) d = last q d.
Proof.
  intros Hq. induction p as [|a p IH]; [reflexivity|].
  cbn [Datatypes.app]. rewrite last_cons_nonnil; [exact IH|].
  destruct p; destruct q; cbn; congruence.
Qed.

(* ====================================================================================== *)
(* 1. the renaming loop returns the name or the name followed by a positive decimal       *)
(* ====================================================================================== *)

Lemma unused_loop_cand fuel : forall i name sep reserved,
  exists k, i <= k /\
    unused_loop fuel i name sep reserved = match k with O => name | S _ => name ++ sep ++ dec k end.
Proof.
  induction fuel as [|f IH]; intros i name sep reserved; cbn [unused_loop].
  - exists i. split; [lia|reflexivity].
  - destruct (mem _ reserved).
    + destruct (IH (S i) name sep reserved) as [k [Hk E]]. exists k. split; [lia|exact E].
    + exists i. split; [lia|reflexivity].
Qed.

Lemma unused_loop_shape fuel i name sep reserved :
  unused_loop fuel i name sep reserved = name \/
  exists j, 1 <= j /\ unused_loop fuel i name sep reserved = name ++ sep ++ dec j.
Proof.
  destruct (unused_loop_cand fuel i name sep reserved) as [[|k] [_ E]].
  - left; exact E.
  - right. exists (S k). split; [lia|exact E].
Qed.

(* nothing, or the decimal representation of a positive number *)
Definition suffix_ok (sfx : str) : Prop := sfx = [] \/ exists j, 1 <= j /\ sfx = dec j.

Lemma unused_loop_suffix fuel i name reserved :
  exists sfx, unused_loop fuel i name [] reserved = name ++ sfx /\ suffix_ok sfx.
Proof.
  destruct (unused_loop_shape fuel i name [] reserved) as [E|[j [Hj E]]].
  - exists []. split; [now rewrite app_nil_r|left; reflexivity].
  - exists (dec j). split; [exact E|right; exists j; auto].
Qed.

(* ---------- the decimal printer produces ASCII digits only ---------- *)
Lemma string_of_uint_digits d : forallb a_digit (s (NilEmpty.string_of_uint d)) = true.
Proof.
  unfold s. induction d as [|d IH|d IH|d IH|d IH|d IH|d IH|d IH|d IH|d IH|d IH];
    cbn [NilEmpty.string_of_uint list_ascii_of_string map forallb]; [reflexivity|..];
    rewrite IH; reflexivity.
Qed.

Lemma dec_digits j : forallb a_digit (dec j) = true.
Proof.
  unfold dec, NilZero.string_of_uint.
  destruct (Nat.to_uint j) eqn:E; try (rewrite <- E); try apply string_of_uint_digits.
  reflexivity.
Qed.

Lemma suffix_ok_digits sfx : suffix_ok sfx -> forallb a_digit sfx = true.
Proof. intros [->|[j [_ ->]]]; [reflexivity|apply dec_digits]. Qed.

(* ====================================================================================== *)
(* 2. how often a PascalCase name occurs in a tree                                        *)
(* ====================================================================================== *)

(* same definition as the checker's (Corr/Oracles.v) *)
Fixpoint count_formatted (x : str) (e : element) : nat :=
  match e with
  | Elem _ _ _ _ _ ch _ =>
      (if str_eqb (formatted_name e) x then 1 else 0)
      + (fix go (cs : list (nec * element)) : nat :=
           match cs with [] => O | c :: r => count_formatted x (snd c) + go r end) ch
  end.

Fixpoint csum (x : str) (cs : list (nec * element)) : nat :=
  match cs with [] => 0 | c :: r => count_formatted x (snd c) + csum x r end.

Lemma count_formatted_eq x e :
  count_formatted x e = (if str_eqb (formatted_name e) x then 1 else 0) + csum x (echildren e).
Proof.
  destruct e as [n t y k a ch p]. cbn [count_formatted echildren]. f_equal.
  induction ch as [|c ch IH]; [reflexivity|]. cbn [csum]. now rewrite IH.
Qed.

Lemma count_self e : 1 <= count_formatted (formatted_name e) e.
Proof. rewrite count_formatted_eq, str_eqb_refl. lia. Qed.

Lemma csum_le_count x e : csum x (echildren e) <= count_formatted x e.
Proof. rewrite count_formatted_eq. lia. Qed.

Lemma csum_list_sum x cs : csum x cs = list_sum (map (fun c => count_formatted x (snd c)) cs).
Proof. induction cs as [|c cs IH]; [reflexivity|]. cbn [csum map]. rewrite IH. reflexivity. Qed.

Lemma list_sum_perm (l l' : list nat) : Permutation l l' -> list_sum l = list_sum l'.
Proof.
  intros H. induction H as [|a l l' _ IH|a b l|l l' l'' _ IH1 _ IH2].
  - reflexivity.
  - change (a + list_sum l = a + list_sum l'). lia.
  - change (b + (a + list_sum l) = a + (b + list_sum l)). lia.
  - lia.
Qed.

Lemma csum_perm x cs cs' : Permutation cs cs' -> csum x cs = csum x cs'.
Proof. intros H. rewrite !csum_list_sum. apply list_sum_perm. now apply Permutation_map. Qed.

Lemma insert_perm' {A} (leb : A -> A -> bool) a l : Permutation (insert leb a l) (a :: l).
Proof.
  induction l as [|b l IH]; cbn [insert]; [apply Permutation_refl|].
  destruct (leb a b); [apply Permutation_refl|].
  eapply perm_trans; [apply perm_skip, IH|apply perm_swap].
Qed.

Lemma isort_perm' {A} (leb : A -> A -> bool) l : Permutation (isort leb l) l.
Proof.
  induction l as [|a l IH]; [apply perm_nil|].
  unfold isort. cbn [fold_right]. fold (isort leb l).
  eapply perm_trans; [apply insert_perm'|]. now apply perm_skip.
Qed.

(* the table is filled along the position-sorted tree: same names, same multiplicities *)
Lemma count_formatted_sort_tree x e : count_formatted x (sort_tree e) = count_formatted x e.
Proof.
  induction e as [n t y k a ch p IH] using element_ind'.
  rewrite (count_formatted_eq x (sort_tree _)), formatted_name_sort_tree, echildren_sort_tree.
  rewrite (count_formatted_eq x (Elem n t y k a ch p)). cbn [echildren]. f_equal.
  rewrite (csum_perm _ _ _ (isort_perm' by_pos _)).
  induction ch as [|c ch IHch]; [reflexivity|].
  inversion IH as [|? ? Hc Hr]; subst. cbn [map csum snd]. rewrite Hc, (IHch Hr). reflexivity.
Qed.

(* ====================================================================================== *)
(* 3. buckets and hints: the bucket of a name holds one trace per occurrence              *)
(* ====================================================================================== *)

Fixpoint bucket_get (b : buckets) (k : str) : option (list (list str)) :=
  match b with [] => None | (k', l) :: r => if str_eqb k k' then Some l else bucket_get r k end.

Definition hint_val (trs : list (list str)) : nat :=
  match trs with [_] => 1 | _ => minimal_different_lengths trs end.

Lemma hint_get_buckets b k : hint_get (hints_of_buckets b) k = option_map hint_val (bucket_get b k).
Proof.
  induction b as [|[k' l] r IH]; [reflexivity|].
  cbn [hints_of_buckets map hint_get bucket_get]. fold (hints_of_buckets r). fold (hint_val l).
  destruct (str_eqb k k'); [reflexivity|exact IH].
Qed.

Lemma bucket_get_add b k tr k' :
  bucket_get (bucket_add b k tr) k' =
  if str_eqb k' k then Some (match bucket_get b k with Some l => l ++ [tr] | None => [tr] end)
  else bucket_get b k'.
Proof.
  induction b as [|[k0 l] r IH]; cbn [bucket_add bucket_get].
  - destruct (str_eqb k' k); reflexivity.
  - destruct (str_eqb_spec k k0) as [->|Hne]; cbn [bucket_get].
    + destruct (str_eqb k' k0); reflexivity.
    + rewrite IH. destruct (str_eqb_spec k' k0) as [->|Hne'].
      * destruct (str_eqb_spec k0 k) as [E|_]; [congruence|reflexivity].
      * reflexivity.
Qed.

Definition bucket_len (b : buckets) (k : str) : nat :=
  match bucket_get b k with Some l => List.length l | None => 0 end.

Lemma bucket_len_add b k tr k' :
  bucket_len (bucket_add b k tr) k' = bucket_len b k' + (if str_eqb k k' then 1 else 0).
Proof.
  unfold bucket_len. rewrite bucket_get_add, (str_eqb_sym k k').
  destruct (str_eqb_spec k' k) as [->|Hne]; [|lia].
  destruct (bucket_get b k) as [l|]; [rewrite app_length|]; cbn [List.length]; lia.
Qed.

Lemma fill_names_len k e : forall tr b,
  bucket_len (fill_names e tr b) k = bucket_len b k + count_formatted k e.
Proof.
  induction e as [n t y c a ch p IH] using element_ind'. intros tr b.
  rewrite fill_names_eq, count_formatted_eq. cbn [echildren].
  set (tr' := formatted_name (Elem n t y c a ch p) :: tr).
  rewrite Nat.add_assoc, <- (bucket_len_add b _ tr').
  generalize (bucket_add b (formatted_name (Elem n t y c a ch p)) tr'). clearbody tr'.
  unfold fill_names_list. induction ch as [|d ch IHch]; intros b0; cbn [fold_left csum]; [lia|].
  inversion IH as [|? ? Hd Hr]; subst. rewrite (IHch Hr), Hd. lia.
Qed.

(* every recorded trace is non-empty *)
Definition bwf (b : buckets) : Prop :=
  forall k l, bucket_get b k = Some l -> Forall (fun t => t <> []) l.

Lemma bwf_fill_names e tr b : bwf b -> bwf (fill_names e tr b).
Proof.
  apply (fill_names_inv bwf). clear. intros b k tr Htr Hb k' l.
  rewrite bucket_get_add. destruct (str_eqb k' k); [|apply Hb].
  intros [= <-]. destruct (bucket_get b k) as [l0|] eqn:E.
  - apply Forall_app. split; [exact (Hb _ _ E)|constructor; [exact Htr|constructor]].
  - constructor; [exact Htr|constructor].
Qed.

Lemma mdl_loop_pos fuel : forall i vecs buffer maxlen,
  1 <= maxlen -> 1 <= mdl_loop fuel i vecs buffer maxlen.
Proof.
  induction fuel as [|f IH]; intros i vecs buffer maxlen Hm; cbn [mdl_loop]; [exact Hm|].
  destruct (all_distinct _); [lia|now apply IH].
Qed.

Lemma hint_val_pos l : l <> [] -> Forall (fun t : list str => t <> []) l -> 1 <= hint_val l.
Proof.
  intros Hne Hl. unfold hint_val.
  assert (Hm : 1 <= minimal_different_lengths l).
  { unfold minimal_different_lengths. apply mdl_loop_pos.
    destruct l as [|t l]; [congruence|]. inversion Hl as [|? ? Ht _]; subst.
    cbn [map fold_right]. destruct t; [congruence|]. cbn [List.length]. lia. }
  destruct l as [|t [|t' l]]; auto.
Qed.

Lemma compute_name_hints_eq e : compute_name_hints e = hints_of_buckets (fill_names e [] []).
Proof. reflexivity. Qed.

Lemma root_bucket_len e k : bucket_len (fill_names e [] []) k = count_formatted k e.
Proof. rewrite fill_names_len. reflexivity. Qed.

(* every name of the tree has a hint, and it is at least 1 *)
Lemma hint_of_count e k :
  1 <= count_formatted k e -> exists n, hint_get (compute_name_hints e) k = Some n /\ 1 <= n.
Proof.
  intros Hc. rewrite compute_name_hints_eq, hint_get_buckets.
  pose proof (root_bucket_len e k) as Hl. unfold bucket_len in Hl.
  destruct (bucket_get (fill_names e [] []) k) as [l|] eqn:E; [|lia].
  exists (hint_val l). split; [reflexivity|]. apply hint_val_pos.
  - destruct l; [cbn in Hl; lia|discriminate].
  - refine (bwf_fill_names e [] [] _ _ _ E). intros k0 l0. discriminate.
Qed.

(* a name that occurs at a single position has hint 1 *)
Lemma hint_of_count_one e k :
  count_formatted k e = 1 -> hint_get (compute_name_hints e) k = Some 1.
Proof.
  intros Hc. rewrite compute_name_hints_eq, hint_get_buckets.
  pose proof (root_bucket_len e k) as Hl. unfold bucket_len in Hl.
  destruct (bucket_get (fill_names e [] []) k) as [l|] eqn:E; [|lia].
  destruct l as [|t [|t' l]]; cbn [List.length] in Hl; try lia. reflexivity.
Qed.

(* ====================================================================================== *)
(* 4. the walk that fills the table                                                       *)
(* ====================================================================================== *)

(* what expand_name yields at the node whose path (root first, own name last) is p *)
Definition expand_at (h : hints) (p : path) : str :=
  match hint_get h (to_pascal_case (last p [])) with
  | Some n => List.concat (map to_pascal_case (lastn n p))
  | None => []
  end.

(* = expand_name_shape of the task description, with the trace written as the image of the path *)
Lemma expand_name_at e pth h :
  expand_name e (map to_pascal_case pth ++ [formatted_name e]) h = expand_at h (pth ++ [ename e]).
Proof.
  unfold expand_name, expand_at, lastn. rewrite last_last. fold (formatted_name e).
  destruct (hint_get h (formatted_name e)) as [n|]; [|reflexivity].
  change [formatted_name e] with (map to_pascal_case [ename e]).
  rewrite <- map_app, map_length, skipn_map. reflexivity.
Qed.

Lemma expand_name_shape e trace h n :
  hint_get h (formatted_name e) = Some n ->
  expand_name e trace h = List.concat (lastn n trace).
Proof. intros H. unfold expand_name, lastn. now rewrite H. Qed.

Definition entry_ok (h : hints) (pe : path * str) : Prop :=
  exists sfx, snd pe = expand_at h (fst pe) ++ sfx /\ suffix_ok sfx.

(* an entry created below the node at path `pre`: well-formed, strictly below, and its last
   component is the name of one of the nodes counted by `cnt` *)
Definition new_ok (h : hints) (pre : path) (cnt : str -> nat) (pe : path * str) : Prop :=
  entry_ok h pe /\
  exists q, q <> [] /\ fst pe = pre ++ q /\ 1 <= cnt (to_pascal_case (last q [])).

Lemma new_ok_weaken h pre (cnt cnt' : str -> nat) l :
  (forall k, cnt k <= cnt' k) -> Forall (new_ok h pre cnt) l -> Forall (new_ok h pre cnt') l.
Proof.
  intros Hle. apply Forall_impl. intros pe [Hok [q [Hq [Hp Hc]]]].
  split; [exact Hok|]. exists q. repeat split; auto. specialize (Hle (to_pascal_case (last q []))). lia.
Qed.

Definition fsn_spec (h : hints) (e : element) : Prop :=
  forall pth st, exists u new,
    snd (fill_struct_names e (map to_pascal_case pth) pth h st)
    = new ++ (pth ++ [ename e], u) :: snd st
    /\ entry_ok h (pth ++ [ename e], u)
    /\ Forall (new_ok h (pth ++ [ename e]) (fun k => csum k (echildren e))) new.

Lemma fsn_list_spec h cs :
  Forall (fun c => fsn_spec h (snd c)) cs ->
  forall pth st, exists new,
    snd (fsn_list (map to_pascal_case pth) pth h cs st) = new ++ snd st
    /\ Forall (new_ok h pth (fun k => csum k cs)) new.
Proof.
  unfold fsn_list. induction cs as [|c cs IH]; intros HF pth st.
  - exists []. split; [reflexivity|constructor].
  - inversion HF as [|? ? Hc Hr]; subst. cbn [fold_left].
    destruct (IH Hr pth (fsn_step (map to_pascal_case pth) pth h st c)) as [new_r [Er Fr]].
    assert (Hstep : exists new_c,
               snd (fsn_step (map to_pascal_case pth) pth h st c) = new_c ++ snd st
               /\ Forall (new_ok h pth (fun k => count_formatted k (snd c))) new_c).
    { unfold fsn_step. destruct (contains_only_text (snd c)).
      - exists []. split; [reflexivity|constructor].
      - destruct (Hc pth st) as [u [new [E [Hu Hnew]]]].
        exists (new ++ [(pth ++ [ename (snd c)], u)]). split.
        + rewrite E, <- app_assoc. reflexivity.
        + apply Forall_app. split.
          * revert Hnew. apply Forall_impl. intros pe [Hok [q [Hq [Hp Hcnt]]]].
            split; [exact Hok|]. exists (ename (snd c) :: q). split; [discriminate|].
            split; [rewrite Hp, <- app_assoc; reflexivity|].
            rewrite last_cons_nonnil by exact Hq.
            pose proof (csum_le_count (to_pascal_case (last q [])) (snd c)). lia.
          * constructor; [|constructor]. split; [exact Hu|].
            exists [ename (snd c)]. split; [discriminate|]. split; [reflexivity|].
            cbn [last]. apply count_self. }
    destruct Hstep as [new_c [Ec Fc]].
    exists (new_r ++ new_c). split.
    + rewrite Er, Ec, app_assoc. reflexivity.
    + apply Forall_app. split.
      * apply (new_ok_weaken h pth (fun k => csum k cs)); [|exact Fr]. intros k. cbn [csum]. lia.
      * apply (new_ok_weaken h pth (fun k => count_formatted k (snd c))); [|exact Fc].
        intros k. cbn [csum]. lia.
Qed.

Lemma fsn_spec_all h e : fsn_spec h e.
Proof.
  induction e as [n t y k a ch p IH] using element_ind'. intros pth st.
  rewrite fill_struct_names_eq.
  set (e := Elem n t y k a ch p) in *.
  change [formatted_name e] with (map to_pascal_case [ename e]). rewrite <- map_app.
  set (st1 := (_, _)).
  destruct (fsn_list_spec h (echildren e) IH (pth ++ [ename e]) st1) as [new [E F]].
  exists (struct_candidate e (map to_pascal_case pth) h (fst st)), new.
  split; [exact E|]. split; [|exact F].
  unfold entry_ok, struct_candidate. cbn [fst snd]. rewrite expand_name_at.
  apply unused_loop_suffix.
Qed.

(* ---------- the whole table ---------- *)
Lemma table_split e h :
  exists u new,
    compute_struct_names e h = new ++ [([ename e], u)]
    /\ entry_ok h ([ename e], u)
    /\ Forall (new_ok h [ename e] (fun k => csum k (echildren (sort_tree e)))) new.
Proof.
  unfold compute_struct_names.
  destruct (fsn_spec_all h (sort_tree e) [] (reserved_struct_names, [])) as [u [new [E [Hu F]]]].
  cbn [map Datatypes.app snd] in E, Hu, F. rewrite ename_sort_tree in E, Hu, F.
  exists u, new. auto.
Qed.

Lemma table_entries e h pth u :
  In (pth, u) (compute_struct_names e h) ->
  entry_ok h (pth, u) /\ pth <> [] /\ 1 <= count_formatted (to_pascal_case (last pth [])) e.
Proof.
  destruct (table_split e h) as [u0 [new [E [Hu F]]]]. rewrite E, in_app_iff.
  intros [Hin|[[= <- <-]|[]]].
  - rewrite Forall_forall in F. destruct (F _ Hin) as [Hok [q [Hq [Hp Hc]]]].
    cbn [fst] in Hp. subst pth. split; [exact Hok|]. split; [discriminate|].
    rewrite last_app_nonnil by exact Hq. rewrite <- (count_formatted_sort_tree _ e).
    pose proof (csum_le_count (to_pascal_case (last q [])) (sort_tree e)). lia.
  - split; [exact Hu|]. split; [discriminate|]. cbn [last]. apply count_self.
Qed.

(* ====================================================================================== *)
(* 5. lookups                                                                             *)
(* ====================================================================================== *)

Lemma path_eqb_spec a b : reflect (a = b) (path_eqb a b).
Proof.
  revert b. induction a as [|x a IH]; intros [|y b]; cbn [path_eqb]; try (constructor; congruence).
  destruct (str_eqb_spec x y) as [->|Hne]; cbn [andb].
  - destruct (IH b) as [->|Hne]; constructor; congruence.
  - constructor; congruence.
Qed.

(* the renderer reads the table with table_get: what it finds is an entry *)
Lemma table_get_in t p u : table_get t p = Some u -> In (p, u) t.
Proof.
  induction t as [|[k v] r IH]; cbn [table_get]; [discriminate|].
  destruct (path_eqb_spec k p) as [->|Hne].
  - intros [= ->]. left; reflexivity.
  - intros H. right. exact (IH H).
Qed.

Lemma table_get_last new p u :
  Forall (fun pe : path * str => fst pe <> p) new -> table_get (new ++ [(p, u)]) p = Some u.
Proof.
  induction new as [|[k v] r IH]; intros HF; cbn [Datatypes.app table_get].
  - destruct (path_eqb_spec p p); [reflexivity|congruence].
  - inversion HF as [|? ? Hk Hr]; subst. cbn [fst] in Hk.
    destruct (path_eqb_spec k p); [congruence|exact (IH Hr)].
Qed.

(* the name of the first struct is read at the root path *)
Lemma render_head_name o tbl e pth :
  exists d rest, render_abs_at o tbl e pth = d :: rest
    /\ sd_name d = match table_get tbl (pth ++ [ename e]) with Some x => x | None => [] end.
Proof. destruct e as [n t y k a ch p]. cbn [render_abs_at]. eexists. eexists. split; reflexivity. Qed.

(* ====================================================================================== *)
(* 6. the three statements of C14                                                         *)
(* ====================================================================================== *)

(* Every struct name is the PascalCase form of the names of the last m components of its own
   path (own name last, nearest ancestors before it, in nesting order), 1 <= m, followed by
   nothing or by a positive decimal number. *)
Theorem struct_name_shape e pth u :
  In (pth, u) (compute_struct_names e (compute_name_hints e)) ->
  exists m sfx, 1 <= m <= List.length pth
    /\ u = List.concat (map to_pascal_case (lastn m pth)) ++ sfx
    /\ (sfx = [] \/ exists j, 1 <= j /\ sfx = dec j).
Proof.
  intros Hin. destruct (table_entries _ _ _ _ Hin) as [[sfx [Hu Hs]] [Hne Hc]].
  destruct (hint_of_count e _ Hc) as [n [Hn Hn1]].
  cbn [fst snd] in Hu. unfold expand_at in Hu. rewrite Hn in Hu.
  exists (Nat.min n (List.length pth)), sfx. split; [|split].
  - destruct pth; [congruence|]. cbn [List.length]. lia.
  - rewrite lastn_min. exact Hu.
  - exact Hs.
Qed.

(* A name that occurs at a single position of the whole tree is not qualified. *)
Theorem struct_name_unqualified e pth u :
  In (pth, u) (compute_struct_names e (compute_name_hints e)) ->
  count_formatted (to_pascal_case (last pth [])) e = 1 ->
  exists sfx, u = to_pascal_case (last pth []) ++ sfx
    /\ (sfx = [] \/ exists j, 1 <= j /\ sfx = dec j).
Proof.
  intros Hin Hc. destruct (table_entries _ _ _ _ Hin) as [[sfx [Hu Hs]] [Hne _]].
  cbn [fst snd] in Hu. unfold expand_at in Hu. rewrite (hint_of_count_one e _ Hc) in Hu.
  rewrite (lastn_one pth []) in Hu by exact Hne. cbn [map List.concat] in Hu. rewrite app_nil_r in Hu.
  exists sfx. split; [exact Hu|exact Hs].
Qed.

(* The first struct is the root's; its name is read at the root path and is the root's
   PascalCase name, never qualified. *)
Theorem struct_name_root_first o e :
  exists u sfx d rest,
    table_get (compute_struct_names e (compute_name_hints e)) [ename e] = Some u
    /\ render_abs o e = d :: rest /\ sd_name d = u
    /\ u = to_pascal_case (ename e) ++ sfx
    /\ (sfx = [] \/ exists j, 1 <= j /\ sfx = dec j).
Proof.
  destruct (table_split e (compute_name_hints e)) as [u [new [E [[sfx [Hu Hs]] F]]]].
  assert (Hget : table_get (compute_struct_names e (compute_name_hints e)) [ename e] = Some u).
  { rewrite E. apply table_get_last. revert F. apply Forall_impl.
    intros pe [_ [q [Hq [Hp _]]]] Heq. rewrite Hp in Heq.
    destruct q; [congruence|discriminate]. }
  destruct (render_head_name o (compute_struct_names e (compute_name_hints e)) e []) as [d [rest [Hr Hd]]].
  exists u, sfx, d, rest. split; [exact Hget|]. split; [exact Hr|].
  cbn [Datatypes.app] in Hd. rewrite Hget in Hd. split; [exact Hd|]. split; [|exact Hs].
  destruct (hint_of_count e _ (count_self e)) as [n [Hn Hn1]].
  cbn [fst snd] in Hu. unfold expand_at in Hu. cbn [last] in Hu.
  unfold formatted_name in Hn. rewrite Hn in Hu.
  rewrite (lastn_single n _ Hn1) in Hu. cbn [map List.concat] in Hu. rewrite app_nil_r in Hu.
  exact Hu.
Qed.

(* the suffix is made of ASCII digits *)
Theorem struct_name_suffix_digits sfx :
  (sfx = [] \/ exists j, 1 <= j /\ sfx = dec j) -> forallb a_digit sfx = true.
Proof. exact (suffix_ok_digits sfx). Qed.

(* ====================================================================================== *)
(* 7. every struct that is rendered takes its name from an entry of the table             *)
(* ====================================================================================== *)

(* the name paths (root first) of the nodes that get a struct: a node reached through
   children that are not text-only *)
Inductive spath : element -> path -> Prop :=
| sp_here : forall e, spath e [ename e]
| sp_child : forall e c q,
    In c (echildren e) -> contains_only_text (snd c) = false -> spath (snd c) q ->
    spath e (ename e :: q).

Lemma spath_last_count e q : spath e q -> q <> [] /\ 1 <= count_formatted (to_pascal_case (last q [])) e.
Proof.
  intros H. induction H as [e|e c q Hin Hot Hq [IHne IHc]].
  - split; [discriminate|]. cbn [last]. apply count_self.
  - split; [discriminate|]. rewrite last_cons_nonnil by exact IHne.
    rewrite count_formatted_eq.
    assert (Hle : forall cs, In c cs -> count_formatted (to_pascal_case (last q [])) (snd c)
                                        <= csum (to_pascal_case (last q [])) cs).
    { induction cs as [|c0 cs IH]; intros Hc; [destruct Hc|]. cbn [csum].
      destruct Hc as [->|Hc]; [lia|]. specialize (IH Hc). lia. }
    specialize (Hle _ Hin). lia.
Qed.

(* --- the renderer --- *)
Lemma render_abs_at_subs o tbl e pth d :
  In d (tl (render_abs_at o tbl e pth)) ->
  exists c, In c (echildren e) /\ contains_only_text (snd c) = false
            /\ In d (render_abs_at o tbl (snd c) (pth ++ [ename e])).
Proof.
  destruct e as [n t y k a ch p]. cbn [render_abs_at tl echildren].
  generalize (id_new (Elem n t y k a ch p)) as m.
  generalize (pth ++ [ename (Elem n t y k a ch p)]) as path1.
  intros path1 m Hd. apply in_flat_map in Hd. destruct Hd as [x [Hx Hd]].
  match type of Hx with
  | In _ (match sort o with XmlName => isort _ ?l | Unsorted => _ end) =>
      assert (Hx' : In x l)
        by (destruct (sort o); (eapply Permutation_in; [apply isort_perm'|exact Hx]))
  end.
  clear Hx. induction ch as [|c ch IH]; [destruct Hx'|].
  destruct Hx' as [<-|Hx'].
  - cbn [snd] in Hd. exists c. destruct (contains_only_text (snd c)); [destruct Hd|].
    split; [left; reflexivity|]. split; [reflexivity|exact Hd].
  - destruct (IH Hx') as [c' [Hc' H']]. exists c'. split; [right; exact Hc'|exact H'].
Qed.

Definition name_at (tbl : name_table) (p : path) : str :=
  match table_get tbl p with Some x => x | None => [] end.

Lemma render_names o tbl e : forall pth d,
  In d (render_abs_at o tbl e pth) -> exists q, spath e q /\ sd_name d = name_at tbl (pth ++ q).
Proof.
  induction e as [n t y k a ch p IH] using element_ind'. intros pth d Hd.
  set (e := Elem n t y k a ch p) in *.
  destruct (render_head_name o tbl e pth) as [d0 [rest [E Hd0]]].
  pose proof (render_abs_at_subs o tbl e pth d) as Hsub. rewrite E in Hd, Hsub. cbn [tl] in Hsub.
  destruct Hd as [<-|Hd].
  - exists [ename e]. split; [constructor|exact Hd0].
  - destruct (Hsub Hd) as [c [Hc [Hot Hin]]].
    rewrite Forall_forall in IH. destruct (IH c Hc _ _ Hin) as [q [Hq Hn]].
    exists (ename e :: q). split; [now apply (sp_child e c q)|].
    rewrite Hn, <- app_assoc. reflexivity.
Qed.

(* --- the position-sorted tree has the same struct paths --- *)
Lemma contains_only_text_sort_tree e : contains_only_text (sort_tree e) = contains_only_text e.
Proof.
  destruct e as [n t y k a ch p]. rewrite sort_tree_eq. unfold contains_only_text.
  cbn [etext eattrs echildren]. f_equal.
  destruct ch as [|c ch]; [reflexivity|]. cbn [map is_nil].
  pose proof (isort_perm' by_pos ((fst c, sort_tree (snd c)) :: map (fun c0 => (fst c0, sort_tree (snd c0))) ch)) as Hp.
  destruct (isort by_pos _); [|reflexivity].
  apply Permutation_nil in Hp. discriminate.
Qed.

Lemma spath_sort_tree e q : spath e q -> spath (sort_tree e) q.
Proof.
  intros H. induction H as [e|e c q Hin Hot Hq IH].
  - rewrite <- (ename_sort_tree e). constructor.
  - rewrite <- (ename_sort_tree e).
    apply (sp_child (sort_tree e) (fst c, sort_tree (snd c)) q).
    + rewrite echildren_sort_tree.
      eapply Permutation_in; [apply Permutation_sym, isort_perm'|].
      apply (in_map (fun c0 => (fst c0, sort_tree (snd c0)))). exact Hin.
    + cbn [snd]. now rewrite contains_only_text_sort_tree.
    + exact IH.
Qed.

(* --- the walk creates an entry at every struct path and never removes one --- *)
Lemma fsn_mono h e pth st x :
  In x (snd st) -> In x (snd (fill_struct_names e (map to_pascal_case pth) pth h st)).
Proof.
  intros Hx. destruct (fsn_spec_all h e pth st) as [u [new [E _]]]. rewrite E.
  apply in_or_app. right. right. exact Hx.
Qed.

Lemma fsn_list_mono h pth cs : forall st x,
  In x (snd st) -> In x (snd (fsn_list (map to_pascal_case pth) pth h cs st)).
Proof.
  unfold fsn_list. induction cs as [|c cs IH]; intros st x Hx; [exact Hx|].
  cbn [fold_left]. apply IH. unfold fsn_step.
  destruct (contains_only_text (snd c)); [exact Hx|now apply fsn_mono].
Qed.

Lemma fsn_list_child h pth cs c p :
  In c cs -> contains_only_text (snd c) = false ->
  (forall st, exists u, In (p, u) (snd (fill_struct_names (snd c) (map to_pascal_case pth) pth h st))) ->
  forall st, exists u, In (p, u) (snd (fsn_list (map to_pascal_case pth) pth h cs st)).
Proof.
  intros Hc Hot Hone. induction cs as [|c0 cs IH]; intros st; [destruct Hc|].
  unfold fsn_list. cbn [fold_left].
  destruct Hc as [->|Hc]; [|exact (IH Hc _)].
  assert (Hs : exists u, In (p, u) (snd (fsn_step (map to_pascal_case pth) pth h st c))).
  { unfold fsn_step. rewrite Hot. apply Hone. }
  destruct Hs as [u Hu]. exists u. exact (fsn_list_mono h pth cs _ _ Hu).
Qed.

Lemma spath_entry h e q : spath e q ->
  forall pth st, exists u,
    In (pth ++ q, u) (snd (fill_struct_names e (map to_pascal_case pth) pth h st)).
Proof.
  intros H. induction H as [e|e c q Hin Hot Hq IH]; intros pth st.
  - destruct (fsn_spec_all h e pth st) as [u [new [E _]]]. exists u. rewrite E.
    apply in_or_app. right. left. reflexivity.
  - rewrite fill_struct_names_eq.
    change [formatted_name e] with (map to_pascal_case [ename e]). rewrite <- map_app.
    apply (fsn_list_child h (pth ++ [ename e]) (echildren e) c); [exact Hin|exact Hot|].
    intros st'. destruct (IH (pth ++ [ename e]) st') as [u Hu]. exists u.
    rewrite <- app_assoc in Hu. exact Hu.
Qed.

Lemma table_get_some t p u : In (p, u) t -> exists v, table_get t p = Some v.
Proof.
  induction t as [|[k v] r IH]; intros Hin; [destruct Hin|]. cbn [table_get].
  destruct (path_eqb_spec k p) as [->|Hne]; [exists v; reflexivity|].
  destruct Hin as [[= -> ->]|Hin]; [congruence|exact (IH Hin)].
Qed.

(* every struct of the output is named by the table entry at the path of its node *)
Theorem struct_name_from_table o e d :
  In d (render_abs o e) ->
  exists pth, spath e pth
    /\ table_get (compute_struct_names e (compute_name_hints e)) pth = Some (sd_name d).
Proof.
  intros Hd. unfold render_abs, render_abs_ord in Hd.
  change (compute_name_hints_ord (fun b => b) e) with (compute_name_hints e) in Hd.
  destruct (render_names _ _ _ _ _ Hd) as [q [Hq Hn]]. cbn [Datatypes.app] in Hn.
  exists q. split; [exact Hq|].
  destruct (spath_entry (compute_name_hints e) _ _ (spath_sort_tree _ _ Hq) []
                        (reserved_struct_names, [])) as [u Hu].
  cbn [map Datatypes.app] in Hu. fold (compute_struct_names e (compute_name_hints e)) in Hu.
  destruct (table_get_some _ _ _ Hu) as [v Hv].
  unfold name_at in Hn. rewrite Hv in Hn. rewrite Hn. exact Hv.
Qed.

(* C14 for the output itself: every struct name has the shape, for the path of its own node *)
Theorem every_struct_name_shape o e d :
  In d (render_abs o e) ->
  exists pth m sfx, spath e pth /\ 1 <= m <= List.length pth
    /\ sd_name d = List.concat (map to_pascal_case (lastn m pth)) ++ sfx
    /\ (sfx = [] \/ exists j, 1 <= j /\ sfx = dec j)
    /\ (count_formatted (to_pascal_case (last pth [])) e = 1 -> m = 1).
Proof.
  intros Hd. destruct (struct_name_from_table o e d Hd) as [pth [Hp Hg]].
  apply table_get_in in Hg.
  destruct (table_entries _ _ _ _ Hg) as [[sfx [Hu Hs]] [Hne Hc]].
  destruct (hint_of_count e _ Hc) as [n [Hn Hn1]].
  cbn [fst snd] in Hu. unfold expand_at in Hu. rewrite Hn in Hu.
  exists pth, (Nat.min n (List.length pth)), sfx. split; [exact Hp|]. split; [|split; [|split]].
  - destruct pth; [congruence|]. cbn [List.length]. lia.
  - rewrite lastn_min. exact Hu.
  - exact Hs.
  - intros H1. rewrite (hint_of_count_one e _ H1) in Hn. injection Hn as <-.
    destruct pth; [congruence|]. cbn [List.length]. lia.
Qed.

(* ====================================================================================== *)
(* 8. a concrete tree on which every case of the statements occurs                        *)
(* ====================================================================================== *)

Definition ex_leaf (n : str) (p : nat) : element := Elem n false true 1%N [(Mand, s "id")] [] (Some p).
(* <order-list><buyer><name id/><string id/></buyer><seller><name id/></seller></order-list>,
   seller first in position order *)
Definition ex_tree : element :=
  Elem (s "order-list") false true 1%N []
    [ (Mand, Elem (s "buyer") false true 1%N []
               [(Mand, ex_leaf (s "name") 0); (Opt, ex_leaf (s "string") 1)] (Some 1));
      (Mand, Elem (s "seller") false true 1%N [] [(Mand, ex_leaf (s "name") 0)] (Some 0)) ] None.

Definition ex_table : name_table := compute_struct_names ex_tree (compute_name_hints ex_tree).

Example ex_table_value :
  ex_table =
  [ ([s "order-list"; s "buyer"; s "string"], s "String1");      (* reserved name: suffix *)
    ([s "order-list"; s "buyer"; s "name"], s "BuyerName");      (* two `name`s: m = 2 *)
    ([s "order-list"; s "buyer"], s "Buyer");
    ([s "order-list"; s "seller"; s "name"], s "SellerName");
    ([s "order-list"; s "seller"], s "Seller");
    ([s "order-list"], s "OrderList") ].
Proof. vm_compute. reflexivity. Qed.

(* struct_name_shape: a qualified entry (m = 2, no suffix) and a suffixed one (m = 1, "1") *)
Example ex_shape :
  In ([s "order-list"; s "buyer"; s "name"], s "BuyerName") ex_table
  /\ s "BuyerName" = List.concat (map to_pascal_case (lastn 2 [s "order-list"; s "buyer"; s "name"])) ++ []
  /\ In ([s "order-list"; s "buyer"; s "string"], s "String1") ex_table
  /\ s "String1" = List.concat (map to_pascal_case (lastn 1 [s "order-list"; s "buyer"; s "string"])) ++ dec 1.
Proof.
  rewrite ex_table_value. repeat split; try (vm_compute; reflexivity); cbn [In]; auto.
Qed.

(* struct_name_unqualified: `Seller` occurs once (the premise holds), `Name` twice (it does not) *)
Example ex_unqualified :
  In ([s "order-list"; s "seller"], s "Seller") ex_table
  /\ count_formatted (to_pascal_case (last [s "order-list"; s "seller"] [])) ex_tree = 1
  /\ count_formatted (to_pascal_case (s "name")) ex_tree = 2.
Proof.
  rewrite ex_table_value. repeat split; try (vm_compute; reflexivity); cbn [In]; auto 10.
Qed.

(* struct_name_root_first / struct_name_from_table: the structs in output order *)
Example ex_root_first :
  table_get ex_table [ename ex_tree] = Some (s "OrderList")
  /\ map sd_name (render_abs quick_xml_de ex_tree)
     = [s "OrderList"; s "Seller"; s "SellerName"; s "Buyer"; s "BuyerName"; s "String1"].
Proof. split; vm_compute; reflexivity. Qed.

Example ex_spath : spath ex_tree [s "order-list"; s "buyer"; s "name"].
Proof.
  pose (b := Elem (s "buyer") false true 1%N []
               [(Mand, ex_leaf (s "name") 0); (Opt, ex_leaf (s "string") 1)] (Some 1)).
  change (spath ex_tree (ename ex_tree :: ename b :: [ename (ex_leaf (s "name") 0)])).
  apply (sp_child ex_tree (Mand, b)); [left; reflexivity|reflexivity|]. cbn [snd].
  apply (sp_child b (Mand, ex_leaf (s "name") 0)); [left; reflexivity|reflexivity|]. cbn [snd].
  apply sp_here.
Qed.
