(* The translated event loop (Generated/LoopRs.v: `build_struct` with `parse_tag`, written by
   bin/translate_loop.py from the current src/parser.rs) is the model's `build_struct` of
   Model/Parser.v: same result, same remaining events, for every fuel, every event list, every
   start element, every list of known names and every assignment of kinds to the EMisc events. *)
From XSG.Model Require Import Strings Necessity Element Parser RustLoop.
From XSG.Generated Require Import LoopRs EntryRs.
From XSG.Proofs Require Import EntryRsProofs ParserTotal ParserFaults.
From Coq Require Import String List NArith Lia.
Import ListNotations.
Open Scope list_scope.

Definition keys_outcome {A} (r : perror + list A) : outcome (list A) :=
  match r with inr ks => Ok ks | inl e => Err e end.

Lemma for_try_attrs_mand : forall attrs acc,
  for_try attrs acc (fun v_attributes v_attr =>
    obind (match v_attr with
           | AOk v_attr => obind (to_str v_attr) (fun q3 =>
               let v_attributes := v_attributes ++ [(Mand, q3)] in Ok v_attributes)
           | AErr v_e => Err (AttrError v_e)
           end) (fun v_attributes => Ok v_attributes))
  = match attr_keys attrs with
    | inr ks => Ok (acc ++ map (fun a => (Mand, a)) ks)
    | inl e => Err e
    end.
Proof.
  induction attrs as [|a r IH]; intros acc; cbn [for_try attr_keys].
  - now rewrite app_nil_r.
  - destruct a as [[k|id]|id]; cbn [obind to_str]; try reflexivity.
    rewrite IH. destruct (attr_keys r) as [e|ks]; [reflexivity|].
    cbn [map]. now rewrite <- app_assoc.
Qed.

Lemma for_try_attrs_plain : forall attrs (acc : list str),
  for_try attrs acc (fun v_attributes v_attr =>
    obind (match v_attr with
           | AOk v_attr => obind (to_str v_attr) (fun q5 =>
               let v_attributes := v_attributes ++ [q5] in Ok v_attributes)
           | AErr v_e => Err (AttrError v_e)
           end) (fun v_attributes => Ok v_attributes))
  = match attr_keys attrs with
    | inr ks => Ok (acc ++ ks)
    | inl e => Err e
    end.
Proof.
  induction attrs as [|a r IH]; intros acc; cbn [for_try attr_keys].
  - now rewrite app_nil_r.
  - destruct a as [[k|id]|id]; cbn [obind to_str]; try reflexivity.
    rewrite IH. destruct (attr_keys r) as [e|ks]; [reflexivity|].
    now rewrite <- app_assoc.
Qed.

(* parse_tag of the source, for a tag whose name and attribute keys decode *)
Definition parse_tag_spec (bs : list event -> element -> outcome (element * list event))
  (root : element) (name : str) (keys : list str) (known : list str) (ro : option (list event))
  : outcome (element * list str * option (list event)) :=
  let '(_, root1, c0) := tag_open root name keys known true in
  obind (match ro with
         | Some r => obind (bs r c0) (fun '(c, r') => Ok (c, Some r'))
         | None => Ok (c0, None)
         end) (fun '(child, ro') => Ok (add_unique_child root1 child, known_add known name, ro')).

Lemma parse_tag_rs_spec : forall bs root name attrs keys known ro,
  attr_keys attrs = inr keys ->
  parse_tag_rs bs root (ROk name, attrs) known ro = parse_tag_spec bs root name keys known ro.
Proof.
  intros bs root name attrs keys known ro Hk.
  unfold parse_tag_rs, parse_tag_spec, tag_open, remove_child_of, known_add.
  cbn [fst snd to_str obind].
  destruct (remove_child (echildren root) name) as [found others].
  destruct found as [[[|] child]|]; cbn [snd].
  1,2: rewrite for_try_attrs_mand, Hk; cbn [obind app].
  3: rewrite for_try_attrs_plain, Hk; cbn [obind app].
  all: destruct (mem name known); cbn [obind negb];
    (destruct ro as [r|]; cbn [obind];
     [destruct (bs r _) as [[c r']| |]; cbn [obind negb]; reflexivity|reflexivity]).
Qed.

Lemma parse_tag_rs_bad_name : forall bs root id attrs known ro,
  parse_tag_rs bs root (RBad id, attrs) known ro = Err (FromUtf8Error id).
Proof. reflexivity. Qed.

Lemma parse_tag_rs_bad_attr : forall bs root name attrs e known ro,
  attr_keys attrs = inl e ->
  parse_tag_rs bs root (ROk name, attrs) known ro = Err e.
Proof.
  intros bs root name attrs e known ro Hk.
  unfold parse_tag_rs, remove_child_of. cbn [fst snd to_str obind].
  destruct (remove_child (echildren root) name) as [found others].
  destruct found as [[[|] child]|]; cbn [snd].
  1,2: rewrite for_try_attrs_mand, Hk; reflexivity.
  rewrite for_try_attrs_plain, Hk; reflexivity.
Qed.

Theorem build_struct_rs_model : forall mk fuel evs root known,
  build_struct_rs mk fuel evs root known = build_struct fuel evs root known.
Proof.
  intros mk; induction fuel as [|fuel IH]; intros evs root known; [reflexivity|].
  cbn [build_struct_rs build_struct].
  destruct evs as [|ev rest]; [reflexivity|].
  cbn [read_event_into].
  destruct ev as [n attrs|n attrs| |t|t| |p id].
  - (* Start *)
    destruct n as [name|id]; cbn [fst snd to_str obind]; [|reflexivity].
    destruct (attr_keys attrs) as [e|keys] eqn:Hk.
    + rewrite (parse_tag_rs_bad_attr _ _ _ _ _ _ _ Hk).
      destruct (count_children _); reflexivity.
    + rewrite (parse_tag_rs_spec _ _ _ _ _ _ _ Hk).
      unfold parse_tag_spec, tag_open, count_children. cbn [obind].
      destruct (remove_child (echildren root) name) as [found others].
      rewrite IH.
      destruct (snapshot (get_child (echildren root) name)) as [cc chk] eqn:Hs.
      match goal with |- context [build_struct fuel rest ?c []] =>
        destruct (build_struct fuel rest c []) as [[child rest']| |] end;
        cbn [obind reader_back]; try reflexivity.
      unfold tag_close, tag_optional_children_call. cbn [fst snd to_str obind].
      destruct chk; cbn [obind]; apply IH.
  - (* Empty *)
    destruct n as [name|id]; [|reflexivity].
    destruct (attr_keys attrs) as [e|keys] eqn:Hk.
    + rewrite (parse_tag_rs_bad_attr _ _ _ _ _ _ _ Hk). reflexivity.
    + rewrite (parse_tag_rs_spec _ _ _ _ _ _ _ Hk).
      unfold parse_tag_spec, tag_open. cbn [obind].
      destruct (remove_child (echildren root) name) as [found others].
      cbn [obind].
      unfold tag_close, tag_optional_children_call. cbn [fst snd to_str obind].
      apply IH.
  - reflexivity.
  - destruct t as [[]|id]; cbn [to_str obind set_text_opt]; [apply IH|reflexivity].
  - destruct t as [[]|id]; cbn [to_str obind set_text_opt]; [apply IH|reflexivity].
  - destruct (mk (List.length rest)); cbn [misc_event]; apply IH.
  - reflexivity.
Qed.

(* ---------- the whole library entry, source terms only ---------- *)
(* `into_struct` / `extend_struct` of the source (Generated/EntryRs.v) around the event loop of the
   source (Generated/LoopRs.v), the reader delivering the events `evs` *)
Definition into_struct_src (mk : nat -> misc_kind) (evs : list event) : outcome element :=
  into_struct_rs (fun r => build_struct_rs mk (fuel_for evs) evs r []).
Definition extend_struct_src (mk : nat -> misc_kind) (root : element) (evs : list event) : outcome element :=
  extend_struct_rs (fun r => build_struct_rs mk (fuel_for evs) evs r []) root.
Definition run_src (mk : nat -> misc_kind) (docs : list (list event)) : outcome element :=
  match docs with
  | [] => Err NoRootError
  | d :: r => fold_left (fun acc x => match acc with
                                      | Ok e => extend_struct_src mk e x
                                      | o => o end) r (into_struct_src mk d)
  end.

Lemma into_struct_src_model mk evs : into_struct_src mk evs = into_struct_ev evs.
Proof.
  unfold into_struct_src, into_struct_ev. rewrite into_struct_rs_take_root.
  now rewrite build_struct_rs_model.
Qed.

Lemma extend_struct_src_model mk root evs : extend_struct_src mk root evs = extend_struct_ev root evs.
Proof.
  unfold extend_struct_src, extend_struct_ev. rewrite extend_struct_rs_take_root.
  now rewrite build_struct_rs_model.
Qed.

Lemma run_src_model mk docs : run_src mk docs = run_evs docs.
Proof.
  destruct docs as [|d r]; [reflexivity|]. cbn [run_src run_evs].
  rewrite into_struct_src_model. generalize (into_struct_ev d) as acc.
  induction r as [|x r IH]; intros acc; [reflexivity|]. cbn [fold_left].
  destruct acc as [e| |]; rewrite ?extend_struct_src_model; apply IH.
Qed.

(* which of Comment / Decl / PI / DocType an ignorable event is makes no difference *)
Lemma build_struct_rs_misc_kind mk mk' fuel evs root known :
  build_struct_rs mk fuel evs root known = build_struct_rs mk' fuel evs root known.
Proof. now rewrite !build_struct_rs_model. Qed.

(* the source never runs out of the fuel it is given: one unit per event and one to see the end *)
Lemma into_struct_src_total mk evs : into_struct_src mk evs <> OutOfFuel.
Proof. rewrite into_struct_src_model. apply parse_total. Qed.
Lemma extend_struct_src_total mk root evs : extend_struct_src mk root evs <> OutOfFuel.
Proof. rewrite extend_struct_src_model. apply extend_total. Qed.
Lemma run_src_total mk docs : run_src mk docs <> OutOfFuel.
Proof. rewrite run_src_model. apply run_total. Qed.

(* C08 for the source *)
Lemma into_struct_src_err_iff mk evs x :
  no_stray_end 0 evs = true ->
  (into_struct_src mk evs = Err x <->
   first_fault evs = Some x
   \/ (first_fault evs = None /\ has_element evs = false /\ x = NoRootError)).
Proof. rewrite into_struct_src_model. apply parse_err_iff. Qed.
Lemma extend_struct_src_err_iff mk root evs x :
  no_stray_end 0 evs = true -> (extend_struct_src mk root evs = Err x <-> first_fault evs = Some x).
Proof. rewrite extend_struct_src_model. apply extend_err_iff. Qed.

(* non-vacuity: nested tags, a repeated child, an attribute that becomes optional, text, an empty
   tag, all four kinds of ignorable events, a reader error with its position, a bad attribute *)
Lemma loop_source_example :
  let mk := fun n : nat => match n with 0%nat => KComment | 1%nat => KDecl | 7%nat => KPI | _ => KDocType end in
  let d1 := [EMisc; EStart (ROk (s "a")) [AOk (ROk (s "k"))]; EMisc; EStart (ROk (s "b")) []; EText (ROk tt); EEnd;
             EEmpty (ROk (s "b")) []; EEnd; EMisc; EMisc] in
  let d2 := [EStart (ROk (s "a")) []; EEmpty (ROk (s "c")) [AOk (ROk (s "x"))]; EEnd] in
  (exists e, into_struct_src mk d1 = Ok e /\ ename e = s "a" /\ eattrs e = [(Mand, s "k")]
     /\ map (fun c => (fst c, ename (snd c), estandalone (snd c), etext (snd c))) (echildren e)
        = [(Mand, s "b", false, true)]
     /\ exists e2, extend_struct_src mk e d2 = Ok e2 /\ eattrs e2 = [(Opt, s "k")]
          /\ map (fun c => (fst c, ename (snd c))) (echildren e2) = [(Opt, s "c"); (Opt, s "b")]
          /\ extend_struct_src mk e [EStart (ROk (s "a")) []; EErr 17 4] = Err (QuickXmlError 17 4)
          /\ extend_struct_src mk e [EStart (ROk (s "a")) [AOk (ROk (s "k")); AErr 9]] = Err (AttrError 9))
  /\ into_struct_src mk [EMisc; EText (ROk tt)] = Err NoRootError
  /\ into_struct_src mk [EStart (RBad 5) []] = Err (FromUtf8Error 5).
Proof. vm_compute. repeat (eexists || split || reflexivity). Qed.
