(* C15, source level: running the term GENERATED from src/necessity.rs (Generated/NecessityRs.v)
   in the RustLite evaluator computes the model function `merge_necessity`. *)
From XSG.Model Require Import Strings Necessity RustLite.
From XSG.Generated Require Import NecessityRs.
From XSG.Proofs Require Import NecessityProofs.
From Coq Require Import String.
Open Scope string_scope.

Section Rs.
  Context {A : Type} (eqb : A -> A -> bool).

  (* the loop of `SFor`, named *)
  Definition for_loop (x : string) (body : stmt) : list (nec * A) -> env -> option (env * bool) :=
    fix loop (items : list (nec * A)) (en : env) {struct items} : option (env * bool) :=
      match items with
      | [] => Some (en, false)
      | i :: r =>
          match exec eqb body ((x, VItem i) :: en) with
          | Some (en', true) => Some (en', false)
          | Some (en', false) => loop r en'
          | None => None
          end
      end.

  Lemma exec_for x it body (en : @env A) :
    exec eqb (SFor x it body) en =
    match eval eqb it en with Some (VVec l) => for_loop x body l en | _ => None end.
  Proof. reflexivity. Qed.

  Lemma for_loop_nil x body (en : @env A) : for_loop x body [] en = Some (en, false).
  Proof. reflexivity. Qed.
  Lemma for_loop_cons x body i r (en : @env A) :
    for_loop x body (i :: r) en =
    match exec eqb body ((x, VItem i) :: en) with
    | Some (en', true) => Some (en', false)
    | Some (en', false) => for_loop x body r en'
    | None => None
    end.
  Proof. reflexivity. Qed.

  Lemma exec_if c t f (en : @env A) :
    exec eqb (SIf c t f) en =
    match eval eqb c en with
    | Some (VBool true) => exec eqb t en
    | Some (VBool false) => exec eqb f en
    | _ => None
    end.
  Proof. reflexivity. Qed.
  Lemma exec_seq s1 s2 (en : @env A) :
    exec eqb (SSeq s1 s2) en =
    match exec eqb s1 en with
    | Some (en1, true) => Some (en1, true)
    | Some (en1, false) => exec eqb s2 en1
    | None => None
    end.
  Proof. reflexivity. Qed.
  Lemma exec_let x e (en : @env A) :
    exec eqb (SLet x e) en =
    match eval eqb e en with Some v => Some ((x, v) :: en, false) | None => None end.
  Proof. reflexivity. Qed.
  Lemma exec_skip (en : @env A) : exec eqb SSkip en = Some (en, false).
  Proof. reflexivity. Qed.
  Lemma exec_break (en : @env A) : exec eqb SBreak en = Some (en, true).
  Proof. reflexivity. Qed.

  Lemma update_spec x v (en : @env A) w :
    lookup x en = Some w ->
    exists en', update x v en = Some en' /\ lookup x en' = Some v /\
                forall y, String.eqb x y = false -> lookup y en' = lookup y en.
  Proof.
    induction en as [|[y u] en IH]; cbn [lookup update]; [discriminate|].
    destruct (String.eqb y x) eqn:E.
    - intros _. exists ((y, v) :: en). split; [reflexivity|]. cbn [lookup]. rewrite E.
      split; [reflexivity|]. intros z Hz. apply String.eqb_eq in E. subst y. rewrite Hz. reflexivity.
    - intros H. destruct (IH H) as [en' [H1 [H2 H3]]]. rewrite H1.
      exists ((y, u) :: en'). split; [reflexivity|]. cbn [lookup]. rewrite E.
      split; [exact H2|]. intros z Hz. rewrite (H3 z Hz). reflexivity.
  Qed.

  Lemma exec_assign x e (en : @env A) v w :
    eval eqb e en = Some v -> lookup x en = Some w ->
    exists en', exec eqb (SAssign x e) en = Some (en', false) /\ lookup x en' = Some v /\
                forall y, String.eqb x y = false -> lookup y en' = lookup y en.
  Proof.
    intros He Hx. destruct (update_spec x v en w Hx) as [en' [H1 H2]].
    exists en'. cbn [exec]. rewrite He, H1. split; [reflexivity|exact H2].
  Qed.

  Lemma exec_push x e (en : @env A) l i :
    lookup x en = Some (VVec l) -> eval eqb e en = Some (VItem i) ->
    exists en', exec eqb (SPush x e) en = Some (en', false) /\ lookup x en' = Some (VVec (l ++ [i])) /\
                forall y, String.eqb x y = false -> lookup y en' = lookup y en.
  Proof.
    intros Hx He. destruct (update_spec x (VVec (l ++ [i])) en _ Hx) as [en' [H1 H2]].
    exists en'. cbn [exec]. rewrite Hx, He, H1. split; [reflexivity|exact H2].
  Qed.

  (* the pieces of the generated body *)
  Definition inner1 : stmt :=
    SIf (EInnerEq (EVar "other_item") (EVar "vec_item"))
      (SSeq (SAssign "found" (EBool true))
         (SSeq (SIf (EBothMandatory (EVar "other_item") (EVar "vec_item")) (SAssign "optional" (EBool false)) SSkip)
            SBreak))
      SSkip.
  Definition tail1 : stmt :=
    SIf (EVar "found")
      (SIf (EVar "optional") (SPush "result" (EOptionalOf (EVar "vec_item")))
         (SPush "result" (EMandatoryOf (EVar "vec_item"))))
      (SPush "result" (EOptionalOf (EVar "vec_item"))).
  Definition body1 : stmt :=
    SSeq (SLet "found" (EBool false)) (SSeq (SLet "optional" (EBool true))
      (SSeq (SFor "other_item" (EVar "other") inner1) tail1)).
  Definition inner2 : stmt :=
    SIf (EInnerEq (EVar "other_item") (EVar "result_item")) (SSeq (SAssign "found" (EBool true)) SBreak) SSkip.
  Definition body2 : stmt :=
    SSeq (SLet "found" (EBool false))
      (SSeq (SFor "result_item" (EVar "result") inner2)
         (SIf (EVar "found") SSkip (SPush "result" (EOptionalOf (EVar "other_item"))))).

  (* fails as soon as the translated source changes shape *)
  Lemma body_shape :
    merge_necessity_rs =
    {| fn_params := ["vec"; "other"];
       fn_body := SSeq (SLet "result" ENewVec)
                    (SSeq (SFor "vec_item" (EVar "vec") body1) (SFor "other_item" (EVar "other") body2));
       fn_result := EVar "result" |}.
  Proof. reflexivity. Qed.

  Ltac lk := cbn [lookup String.eqb Ascii.eqb Bool.eqb].

  Lemma inner1_loop : forall l (en : @env A) it,
    lookup "vec_item" en = Some (VItem it) ->
    lookup "found" en = Some (VBool false) ->
    lookup "optional" en = Some (VBool true) ->
    exists en', for_loop "other_item" inner1 l en = Some (en', false) /\
      lookup "result" en' = lookup "result" en /\
      lookup "other" en' = lookup "other" en /\
      lookup "vec_item" en' = Some (VItem it) /\
      lookup "found" en' = Some (VBool (match find_nec eqb (snd it) l with Some _ => true | None => false end)) /\
      lookup "optional" en' =
        Some (VBool (match find_nec eqb (snd it) l, fst it with Some Mand, Mand => false | _, _ => true end)).
  Proof.
    induction l as [|[n y] l IH]; intros en it Hv Hf Ho.
    - exists en. rewrite for_loop_nil. cbn [find_nec]. repeat split; assumption.
    - rewrite for_loop_cons. unfold inner1 at 1. rewrite exec_if. cbn [eval as_item]. lk.
      rewrite Hv. cbn [as_item snd find_nec].
      destruct (eqb y (snd it)) eqn:E.
      + set (en1 := ("other_item", VItem (n, y)) :: en).
        assert (Hf1 : lookup "found" en1 = Some (VBool false)) by exact Hf.
        destruct (exec_assign "found" (EBool true) en1 (VBool true) _ eq_refl Hf1) as [en2 [X1 [X2 X3]]].
        rewrite exec_seq, X1, exec_seq, exec_if. cbn [eval as_item].
        assert (Hi1 : lookup "other_item" en1 = Some (VItem (n, y))) by reflexivity.
        assert (Hv1 : lookup "vec_item" en1 = Some (VItem it)) by exact Hv.
        rewrite (X3 "other_item" eq_refl), (X3 "vec_item" eq_refl), Hi1, Hv1.
        cbn [as_item].
        assert (Ho2 : lookup "optional" en2 = Some (VBool true)) by (rewrite (X3 "optional" eq_refl); exact Ho).
        assert (Hr2 : lookup "result" en2 = lookup "result" en) by (rewrite (X3 "result" eq_refl); reflexivity).
        assert (Ht2 : lookup "other" en2 = lookup "other" en) by (rewrite (X3 "other" eq_refl); reflexivity).
        assert (Hv2 : lookup "vec_item" en2 = Some (VItem it)) by (rewrite (X3 "vec_item" eq_refl); exact Hv).
        destruct n; [|destruct it as [[|] x]]; cbn [fst].
        * destruct it as [m x]. rewrite exec_skip, exec_break. exists en2. repeat split; assumption.
        * rewrite exec_skip, exec_break. exists en2. repeat split; assumption.
        * destruct (exec_assign "optional" (EBool false) en2 (VBool false) _ eq_refl Ho2) as [en3 [Y1 [Y2 Y3]]].
          rewrite Y1, exec_break. exists en3.
          rewrite (Y3 "result" eq_refl), (Y3 "other" eq_refl), (Y3 "vec_item" eq_refl), (Y3 "found" eq_refl).
          repeat split; assumption.
      + rewrite exec_skip.
        destruct (IH (("other_item", VItem (n, y)) :: en) it Hv Hf Ho) as [en' [Z1 [Z2 [Z3 Z4]]]].
        exists en'. split; [exact Z1|]. split; [exact Z2|]. split; [exact Z3|]. exact Z4.
  Qed.

  Lemma outer1_loop o : forall v (en : @env A) acc,
    lookup "other" en = Some (VVec o) ->
    lookup "result" en = Some (VVec acc) ->
    exists en', for_loop "vec_item" body1 v en = Some (en', false) /\
      lookup "other" en' = Some (VVec o) /\
      lookup "result" en' = Some (VVec (acc ++ merge_first eqb v o)).
  Proof.
    induction v as [|it v IH]; intros en acc Ht Hr.
    - exists en. rewrite for_loop_nil. cbn [merge_first map]. rewrite app_nil_r. repeat split; assumption.
    - rewrite for_loop_cons. unfold body1 at 1.
      rewrite exec_seq, exec_let. cbn [eval]. rewrite exec_seq, exec_let. cbn [eval].
      rewrite exec_seq, exec_for. cbn [eval]. lk. rewrite Ht.
      set (en1 := ("optional", VBool true) :: ("found", VBool false) :: ("vec_item", VItem it) :: en).
      destruct (inner1_loop o en1 it eq_refl eq_refl eq_refl) as [en2 [L [Lr [Lt [Lv [Lf Lo]]]]]].
      rewrite L.
      assert (Hr2 : lookup "result" en2 = Some (VVec acc)) by (rewrite Lr; exact Hr).
      assert (Ht2 : lookup "other" en2 = Some (VVec o)) by (rewrite Lt; exact Ht).
      assert (P : exists i, i = (match find_nec eqb (snd it) o, fst it with
                                 | Some Mand, Mand => (Mand, snd it) | _, _ => (Opt, snd it) end) /\
                  exists en3, exec eqb tail1 en2 = Some (en3, false) /\
                    lookup "result" en3 = Some (VVec (acc ++ [i])) /\
                    forall y, String.eqb "result" y = false -> lookup y en3 = lookup y en2).
      { eexists. split; [reflexivity|]. unfold tail1. rewrite exec_if. cbn [eval]. rewrite Lf.
        destruct (find_nec eqb (snd it) o) as [[|]|].
        - rewrite exec_if. cbn [eval]. rewrite Lo.
          apply exec_push; [exact Hr2|]. cbn [eval as_item]. rewrite Lv. reflexivity.
        - rewrite exec_if. cbn [eval]. rewrite Lo. destruct (fst it).
          + apply exec_push; [exact Hr2|]. cbn [eval as_item]. rewrite Lv. reflexivity.
          + apply exec_push; [exact Hr2|]. cbn [eval as_item]. rewrite Lv. reflexivity.
        - apply exec_push; [exact Hr2|]. cbn [eval as_item]. rewrite Lv. reflexivity. }
      destruct P as [i [Hi [en3 [T1 [T2 T3]]]]]. rewrite T1.
      destruct (IH en3 (acc ++ [i])%list) as [en' [I1 [I2 I3]]].
      + rewrite (T3 "other" eq_refl). exact Ht2.
      + exact T2.
      + exists en'. split; [exact I1|]. split; [exact I2|]. rewrite I3. rewrite <- app_assoc.
        cbn [merge_first map app]. rewrite Hi. reflexivity.
  Qed.

  (* the second loop of the source tests `other_item == result_item`, i.e. eqb with the
     arguments the other way round compared with the model's `find_nec y res` *)
  Definition eqb_flip (a b : A) : bool := eqb b a.

  Lemma inner2_loop : forall l (en : @env A) it,
    lookup "other_item" en = Some (VItem it) ->
    lookup "found" en = Some (VBool false) ->
    exists en', for_loop "result_item" inner2 l en = Some (en', false) /\
      lookup "result" en' = lookup "result" en /\
      lookup "other_item" en' = Some (VItem it) /\
      lookup "found" en' =
        Some (VBool (match find_nec eqb_flip (snd it) l with Some _ => true | None => false end)).
  Proof.
    induction l as [|[n y] l IH]; intros en it Hi Hf.
    - exists en. rewrite for_loop_nil. cbn [find_nec]. repeat split; assumption.
    - rewrite for_loop_cons. unfold inner2 at 1. rewrite exec_if. cbn [eval as_item]. lk.
      rewrite Hi. cbn [as_item snd find_nec]. unfold eqb_flip at 1.
      destruct (eqb (snd it) y) eqn:E.
      + set (en1 := ("result_item", VItem (n, y)) :: en).
        assert (Hf1 : lookup "found" en1 = Some (VBool false)) by exact Hf.
        destruct (exec_assign "found" (EBool true) en1 (VBool true) _ eq_refl Hf1) as [en2 [X1 [X2 X3]]].
        rewrite exec_seq, X1, exec_break. exists en2.
        rewrite (X3 "result" eq_refl), (X3 "other_item" eq_refl).
        split; [reflexivity|]. split; [reflexivity|]. split; [exact Hi|exact X2].
      + rewrite exec_skip.
        destruct (IH (("result_item", VItem (n, y)) :: en) it Hi Hf) as [en' [Z1 [Z2 Z3]]].
        exists en'. split; [exact Z1|]. split; [exact Z2|]. exact Z3.
  Qed.

  Lemma outer2_loop : forall o (en : @env A) res,
    lookup "result" en = Some (VVec res) ->
    exists en', for_loop "other_item" body2 o en = Some (en', false) /\
      lookup "result" en' = Some (VVec (merge_second eqb_flip res o)).
  Proof.
    induction o as [|[n y] o IH]; intros en res Hr.
    - exists en. rewrite for_loop_nil. split; [reflexivity|exact Hr].
    - rewrite for_loop_cons. unfold body2 at 1.
      rewrite exec_seq, exec_let. cbn [eval]. rewrite exec_seq, exec_for. cbn [eval]. lk. rewrite Hr.
      set (en1 := ("found", VBool false) :: ("other_item", VItem (n, y)) :: en).
      destruct (inner2_loop res en1 (n, y) eq_refl eq_refl) as [en2 [L [Lr [Li Lf]]]].
      rewrite L, exec_if. cbn [eval]. rewrite Lf. cbn [snd merge_second].
      assert (Hr2 : lookup "result" en2 = Some (VVec res)) by (rewrite Lr; exact Hr).
      destruct (find_nec eqb_flip y res) as [m|].
      + rewrite exec_skip. apply IH. exact Hr2.
      + destruct (exec_push "result" (EOptionalOf (EVar "other_item")) en2 res (Opt, y) Hr2) as [en3 [T1 [T2 T3]]].
        { cbn [eval as_item]. rewrite Li. reflexivity. }
        rewrite T1. apply IH. exact T2.
  Qed.

  (* exact orientations, no hypothesis on eqb *)
  Theorem merge_necessity_rs_exact : forall v o : list (nec * A),
    run_fn eqb merge_necessity_rs [VVec v; VVec o]
    = Some (VVec (merge_second eqb_flip (merge_first eqb v o) o)).
  Proof.
    intros v o. rewrite body_shape. unfold run_fn. cbn [fn_params fn_body fn_result bind_params].
    rewrite exec_seq, exec_let. cbn [eval]. rewrite exec_seq, exec_for. cbn [eval]. lk.
    set (en0 := [("result", VVec []); ("vec", VVec v); ("other", VVec o)] : @env A).
    destruct (outer1_loop o v en0 [] eq_refl eq_refl) as [en1 [L1 [Lt Lr]]].
    rewrite L1, exec_for. cbn [eval]. rewrite Lt. cbn [app] in Lr.
    destruct (outer2_loop o en1 _ Lr) as [en2 [L2 Lr2]].
    rewrite L2. exact Lr2.
  Qed.

  Lemma find_nec_flip : (forall x y, eqb x y = eqb y x) ->
    forall x l, find_nec eqb_flip x l = find_nec eqb x l.
  Proof.
    intros Hs x l. induction l as [|[n y] l IH]; cbn [find_nec]; [reflexivity|].
    unfold eqb_flip at 1. rewrite (Hs x y), IH. reflexivity.
  Qed.

  Lemma merge_second_flip : (forall x y, eqb x y = eqb y x) ->
    forall o res, merge_second eqb_flip res o = merge_second eqb res o.
  Proof.
    intros Hs o. induction o as [|[n y] o IH]; intros res; cbn [merge_second]; [reflexivity|].
    rewrite (find_nec_flip Hs). destruct (find_nec eqb y res); apply IH.
  Qed.

  Theorem merge_necessity_rs_correct :
    (forall x y, eqb x y = eqb y x) ->
    forall v o : list (nec * A),
      run_fn eqb merge_necessity_rs [VVec v; VVec o] = Some (VVec (merge_necessity eqb v o)).
  Proof.
    intros Hs v o. rewrite merge_necessity_rs_exact. unfold merge_necessity.
    rewrite (merge_second_flip Hs). reflexivity.
  Qed.
End Rs.

(* the value the translated source returns satisfies the C15 characterisation; symmetry of eqb
   follows from the reflection hypothesis *)
Lemma reflect_eqb_sym {A : Type} (eqb : A -> A -> bool) :
  (forall x y, reflect (x = y) (eqb x y)) -> forall x y, eqb x y = eqb y x.
Proof.
  intros Hspec x y. destruct (Hspec x y) as [e|ne], (Hspec y x) as [e'|ne']; congruence.
Qed.

Theorem merge_necessity_rs_characterisation {A : Type} (eqb : A -> A -> bool) :
  (forall x y, reflect (x = y) (eqb x y)) ->
  forall v o : list (nec * A), NoDup (items o) ->
    run_fn eqb merge_necessity_rs [VVec v; VVec o]
    = Some (VVec (map (fun it => (conj_tag eqb it o, snd it)) v
                  ++ map (pair Opt) (filter (fun y => negb (memA eqb y (items v))) (items o)))%list).
Proof.
  intros Hspec v o Hnd.
  rewrite (merge_necessity_rs_correct eqb (reflect_eqb_sym eqb Hspec)).
  rewrite (merge_characterisation eqb Hspec v o Hnd). reflexivity.
Qed.

(* non-vacuity: N.eqb is symmetric / reflects equality, and the source runs to the documented value *)
Example merge_necessity_rs_example :
  let v1 := [(Mand, 1); (Mand, 2); (Opt, 4); (Mand, 7)]%N in
  let o1 := [(Mand, 1); (Mand, 3); (Mand, 4); (Opt, 7); (Opt, 9)]%N in
  (forall x y, N.eqb x y = N.eqb y x) /\ NoDup (items o1) /\
  run_fn N.eqb merge_necessity_rs [VVec v1; VVec o1]
  = Some (VVec [(Mand, 1); (Opt, 2); (Opt, 4); (Opt, 7); (Opt, 3); (Opt, 9)]%N).
Proof.
  cbv zeta. split; [exact N.eqb_sym|]. split; [|vm_compute; reflexivity].
  repeat constructor; simpl; intuition discriminate.
Qed.

(* the symmetry hypothesis of merge_necessity_rs_correct cannot be dropped: with the asymmetric
   test N.leb the source and the model differ (the exact theorem still describes the source) *)
Example merge_necessity_rs_needs_symmetry :
  let v := [(Mand, 1)]%N in let o := [(Mand, 2)]%N in
  run_fn N.leb merge_necessity_rs [VVec v; VVec o] = Some (VVec [(Opt, 1); (Opt, 2)]%N) /\
  merge_necessity N.leb v o = [(Opt, 1)]%N.
Proof. vm_compute. split; reflexivity. Qed.
