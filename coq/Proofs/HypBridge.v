(* The hypotheses under which bin/check applies its oracles (Corr/CoreCorr.v: name_ok,
   tree_names_ok = in_hyp_names) imply the hypotheses of the theorems (Proofs/ConvertProofs.v),
   so that the theorem about an oracle covers every case on which the check evaluates it. *)
From XSG.Model Require Import Strings UnicodeTables Chars Convert Necessity Element Parser Dom Spec Render.
From XSG.Proofs Require Import StringsProofs ElementProofs ConvertProofs WfProofs ReprDefs AdmitProofs.
From XSG.Corr Require Import Common Oracles CoreCorr.
From Coq Require Import Lia String.
Open Scope list_scope.

(* Known finding K2: the literal reading of "a letter before any digit" (CoreCorr.name_ok: scanning
   the name, an XID_Start character comes before any ASCII digit) admits names whose FIRST
   alphanumeric character is a combining letter (U+0345, U+0363..U+036F: Alphabetic, XID_Continue,
   not XID_Start).  to_pascal_case starts the struct name with that character: not a legal
   identifier.  Outside that class the two hypotheses coincide. *)
Definition known_k2 (x : str) : bool :=
  match first_alnum x with Some c => negb (xid_start c) | None => false end.

Definition fact_letter (c : chr) : bool :=
  implb (xid_start c) (is_alphanumeric c) && implb (a_digit c) (negb (xid_start c)).
Lemma sweep_letter : forallb fact_letter sigma_points = true.
Proof. vm_compute. reflexivity. Qed.
Lemma letter_facts c : in_sigma c = true ->
  (xid_start c = true -> is_alphanumeric c = true) /\ (a_digit c = true -> xid_start c = false).
Proof.
  intros H. pose proof (sweep fact_letter sweep_letter c H) as F. unfold fact_letter in F.
  apply andb_true_iff in F. destruct F as [F1 F3]. split.
  - intros S. rewrite S in F1. exact F1.
  - intros D. rewrite D in F3. cbn in F3. now apply negb_true_iff in F3.
Qed.

Lemma letter_first x :
  forallb in_sigma x = true -> letter_before_digit x = true -> known_k2 x = false ->
  match first_alnum x with Some c => xid_start c | None => false end = true.
Proof.
  unfold known_k2, first_alnum. induction x as [|c r IH]; cbn [forallb letter_before_digit find];
    intros Hs Hl Hk; [discriminate Hl|].
  apply andb_true_iff in Hs. destruct Hs as [Hs Hsr].
  destruct (letter_facts c Hs) as (L1 & L3).
  destruct (a_digit c) eqn:D; [discriminate Hl|].
  destruct (is_alphanumeric c) eqn:A.
  - now apply negb_false_iff in Hk.
  - destruct (xid_start c) eqn:S; [pose proof (L1 eq_refl) as Q; congruence|]. now apply IH.
Qed.

Lemma corr_name_ok x : CoreCorr.name_ok x = true -> known_k2 x = false -> ConvertProofs.name_ok x = true.
Proof.
  unfold CoreCorr.name_ok. intros H K. apply andb_true_iff in H. destruct H as [H Hl].
  apply andb_true_iff in H. destruct H as [Hn Hs].
  rewrite <- name_ok0_ok. unfold name_ok0. apply andb_true_iff. split; [|now apply letter_first].
  clear Hl K. induction x as [|c r IH]; [reflexivity|]. cbn [forallb] in *.
  apply andb_true_iff in Hn. destruct Hn as [Hn Hnr]. apply andb_true_iff in Hs. destruct Hs as [Hs Hsr].
  rewrite IH by assumption. unfold name_char_ok0. unfold names_ok_char in Hn. now rewrite Hs, Hn.
Qed.

(* no name of the tree is in the known class *)
Fixpoint tree_no_k2 (e : element) : bool :=
  match e with
  | Elem n _ _ _ a ch _ =>
      negb (known_k2 n) && forallb (fun x => negb (known_k2 (snd x))) a
      && (fix go (cs : list (nec * element)) : bool :=
            match cs with [] => true | c :: r => tree_no_k2 (snd c) && go r end) ch
  end.

Lemma corr_tree_names_ok e :
  CoreCorr.tree_names_ok e = true -> tree_no_k2 e = true -> ConvertProofs.tree_names_ok e = true.
Proof.
  induction e as [n t x k a ch p IH] using element_ind'.
  cbn [CoreCorr.tree_names_ok ConvertProofs.tree_names_ok tree_no_k2]. intros H K.
  apply andb_true_iff in H. destruct H as [H Hc]. apply andb_true_iff in H. destruct H as [Hn Ha].
  apply andb_true_iff in K. destruct K as [K Kc]. apply andb_true_iff in K. destruct K as [Kn Ka].
  apply negb_true_iff in Kn.
  rewrite (corr_name_ok n Hn Kn). cbn [andb].
  apply andb_true_iff. split.
  - rewrite forallb_forall in Ha, Ka |- *. intros y Hy. apply corr_name_ok; [now apply Ha|].
    apply negb_true_iff. now apply Ka.
  - clear Hn Ha Kn Ka. induction ch as [|c r IHr]; [reflexivity|].
    inversion IH as [|? ? Hc1 Hr1]; subst.
    apply andb_true_iff in Hc. destruct Hc as [Hc1' Hr']. apply andb_true_iff in Kc. destruct Kc as [Kc1 Kr].
    rewrite (Hc1 Hc1' Kc1). cbn [andb]. now apply IHr.
Qed.

(* the witness: inside the literal hypothesis, in the known class, and the struct name is illegal *)
Example known_k2_witness :
  let x := [95; 867; 97] in        (* "_" U+0363 "a" *)
  CoreCorr.name_ok x = true /\ known_k2 x = true
  /\ Oracles.struct_name_ok (to_pascal_case x) = false
  /\ Oracles.ident_ok (to_valid_key x (s "p")) = true.
Proof. vm_compute. repeat split. Qed.

(* the C04 oracle exactly as bin/check evaluates it: for every tree inside the hypothesis
   in_hyp_names, the well-formedness oracle holds of the model's rendering *)
Theorem oracle_wf o e :
  Uniq e -> CoreCorr.tree_names_ok e = true -> tree_no_k2 e = true ->
  literal_ok (attribute_prefix o) = true -> literal_ok (text_identifier o) = true ->
  wf_b (map erase (render_abs o e)) = true.
Proof. intros U H K. apply render_wf; auto. now apply corr_tree_names_ok. Qed.

(* the C01 oracle's hypothesis names_plain_b is the theorems' names_plain *)
Lemma names_plain_same e : CoreCorr.names_plain_b e = AdmitProofs.names_plain e.
Proof.
  induction e as [n t x k a ch p IH] using element_ind'.
  cbn [CoreCorr.names_plain_b AdmitProofs.names_plain].
  induction ch as [|c r IHr]; [reflexivity|].
  inversion IH as [|? ? Hc Hr]; subst. rewrite Hc, (IHr Hr). reflexivity.
Qed.

(* the C01 oracle under exactly the hypotheses bin/check evaluates it with (in_hyp_admits) *)
Theorem oracle_admits docs m e :
  docs <> [] -> Forall (Forall ReprDefs.wf_node) docs -> Forall (fun p => ReprDefs.elem_names p = [m]) docs ->
  Dom.run_dom docs = Some e ->
  clash_free_tree e = true -> CoreCorr.names_plain_b e = true ->
  forall d, In d docs -> admits_b quick_xml_de (map erase (render_abs quick_xml_de e)) d = true.
Proof.
  intros H1 H2 H3 H4 H5 H6. rewrite names_plain_same in H6.
  now apply (render_admits_quick_xml docs m e).
Qed.
