(* the position an error of the lexer carries lies inside the input (C08: "the error carries the
   reader's byte position") *)
From XSG.Model Require Import Strings Necessity Element Parser Dom Lexer.
From XSG.Proofs Require Import ParserFaults LexerProofs.
From Coq Require Import Lia.

Definition pos_le (q : N) (ev : event) : Prop := match ev with EErr p _ => p <= q | _ => True end.

Lemma close_tag_posle c p op : Forall (pos_le p) (fst (fst (close_tag c p op))).
Proof.
  unfold close_tag. destruct c as [|b c']; [repeat constructor|].
  destruct (b =? B_slash).
  - destruct op as [|e op']; [repeat constructor; cbn; lia|].
    destruct (bytes_eqb _ _); repeat constructor; cbn; lia.
  - destruct (strip_slash _); repeat constructor.
Qed.
Lemma close_pi_posle c p : Forall (pos_le p) (fst (close_pi c p)).
Proof. unfold close_pi. destruct (rev c) as [|l [|? ?]]; try (repeat constructor; cbn; lia). destruct (l =? B_q); repeat constructor; cbn; lia. Qed.
Lemma close_comment_posle c p : Forall (pos_le p) (fst (close_comment c p)).
Proof. unfold close_comment. destruct (starts_with _ _); repeat constructor; cbn; lia. Qed.
Lemma close_cdata_posle c p : Forall (pos_le p) (fst (close_cdata c p)).
Proof. unfold close_cdata. destruct (starts_with _ _); repeat constructor; cbn; lia. Qed.
Lemma close_doctype_posle c p : Forall (pos_le p) (fst (close_doctype c p)).
Proof. unfold close_doctype. destruct (starts_with_uncased _ _); [destruct (drop_ws _)|]; repeat constructor; cbn; lia. Qed.

Lemma pos_le_mono q q' l : q <= q' -> Forall (pos_le q) l -> Forall (pos_le q') l.
Proof. intros H F. eapply Forall_impl; [|exact F]. intros [] ; cbn; auto; lia. Qed.

Lemma step_posle x b :
  pos (fst (lex_step x b)) <= pos x + 1 /\ Forall (pos_le (pos x + 1)) (snd (lex_step x b)).
Proof.
  destruct x as [m p op]. unfold lex_step. cbn [md pos opened].
  destruct m as [acc| |qt acc|acc| |acc|acc|bal acc|].
  - destruct (b =? B_lt); cbn [fst snd pos st]; split; try lia; [destruct acc|]; repeat constructor.
  - destruct (b =? B_bang); [cbn; split; [lia|constructor]|]. destruct (b =? B_q); [cbn; split; [lia|constructor]|].
    destruct (b =? B_gt); [|cbn; split; [lia|constructor]].
    pose proof (close_tag_posle [] (p + 1) op) as H.
    destruct (close_tag [] (p + 1) op) as [[e1 m1] o1]. cbn [fst snd pos st] in *. split; [lia|exact H].
  - destruct qt; try (cbn; split; [lia|constructor]).
    destruct (b =? B_gt); [|cbn; split; [lia|constructor]].
    pose proof (close_tag_posle (rev acc) (p + 1) op) as H.
    destruct (close_tag (rev acc) (p + 1) op) as [[e1 m1] o1]. cbn [fst snd pos st] in *. split; [lia|exact H].
  - destruct acc as [|l acc']; [cbn; split; [lia|constructor]|].
    destruct ((b =? B_gt) && (l =? B_q))%bool; [|cbn; split; [lia|constructor]].
    pose proof (close_pi_posle (rev (l :: acc')) (p + 1)) as H.
    destruct (close_pi (rev (l :: acc')) (p + 1)) as [e1 m1]. cbn [fst snd pos st] in *. split; [lia|exact H].
  - destruct (b =? B_lbr); [cbn; split; [lia|constructor]|]. destruct (b =? B_dash); [cbn; split; [lia|constructor]|].
    destruct ((b =? 68) || (b =? 100))%bool; cbn [fst snd pos st]; split; try lia; repeat constructor. cbn. lia.
  - destruct (b =? B_gt); [|cbn; split; [lia|constructor]].
    destruct acc as [|d1 [|d2 acc']]; try (cbn; split; [lia|constructor]).
    destruct ((d1 =? B_dash) && (d2 =? B_dash) && (5 <=? List.length (d1 :: d2 :: acc'))%nat)%bool; [|cbn; split; [lia|constructor]].
    pose proof (close_comment_posle (rev (d1 :: d2 :: acc')) (p + 1)) as H.
    destruct (close_comment (rev (d1 :: d2 :: acc')) (p + 1)) as [e1 m1]. cbn [fst snd pos st] in *. split; [lia|exact H].
  - destruct (b =? B_gt); [|cbn; split; [lia|constructor]].
    destruct acc as [|d1 [|d2 acc']]; try (cbn; split; [lia|constructor]).
    destruct ((d1 =? B_rbr) && (d2 =? B_rbr))%bool; [|cbn; split; [lia|constructor]].
    pose proof (close_cdata_posle (rev (d1 :: d2 :: acc')) (p + 1)) as H.
    destruct (close_cdata (rev (d1 :: d2 :: acc')) (p + 1)) as [e1 m1]. cbn [fst snd pos st] in *. split; [lia|exact H].
  - destruct (b =? B_lt); [cbn; split; [lia|constructor]|]. destruct (b =? B_gt); [|cbn; split; [lia|constructor]].
    destruct (bal =? 0); [|cbn; split; [lia|constructor]].
    pose proof (close_doctype_posle (rev acc) (p + 1)) as H.
    destruct (close_doctype (rev acc) (p + 1)) as [e1 m1]. cbn [fst snd pos st] in *. split; [lia|exact H].
  - cbn. split; [lia|constructor].
Qed.

Lemma eof_posle x : Forall (pos_le (pos x)) (lex_eof x).
Proof.
  destruct x as [m p op]. unfold lex_eof. cbn [md pos].
  destruct m as [[|? ?]| | | | | | | |]; repeat constructor; cbn; lia.
Qed.

Lemma lex_from_posle : forall bs x,
  Forall (pos_le (pos x + N.of_nat (List.length bs))) (lex_from x bs).
Proof.
  induction bs as [|b r IH]; intros x; cbn [lex_from List.length].
  - rewrite N.add_0_r. apply eof_posle.
  - destruct (step_posle x b) as [H1 H2]. specialize (IH (fst (lex_step x b))).
    destruct (lex_step x b) as [x' evs]. cbn [fst snd] in *.
    apply Forall_app. split.
    + eapply pos_le_mono; [|exact H2]. lia.
    + eapply pos_le_mono; [|exact IH]. lia.
Qed.

Lemma strip_bom_length bs : (List.length (fst (strip_bom bs)) <= List.length bs)%nat.
Proof.
  unfold strip_bom. destruct bs as [|a [|b [|c r]]]; cbn [fst List.length]; try lia;
  repeat (match goal with |- context [match ?v with _ => _ end] => is_var v; destruct v end);
  cbn [fst List.length]; lia.
Qed.

Theorem lex_error_position : forall bs p id,
  In (EErr p id) (lex bs) -> p <= N.of_nat (List.length bs).
Proof.
  intros bs p id H. unfold lex in H.
  pose proof (lex_from_posle (fst (strip_bom bs)) lex_init) as F.
  rewrite Forall_forall in F. apply F in H. cbn [pos_le pos lex_init] in H.
  pose proof (strip_bom_length bs). lia.
Qed.
