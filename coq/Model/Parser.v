(* src/parser.rs at the level of quick_xml reader events.  The tokenizer is not
   modelled: the input of the model is the event stream the reader delivers (the harness
   records it with an independent pass over the same bytes).  Error payloads are opaque
   identifiers supplied with the event. *)
From XSG.Model Require Import Strings Necessity Element.
From Coq Require Import String.

Inductive res (A : Type) := ROk (a : A) | RBad (id : N).   (* String::from_utf8 result *)
Arguments ROk {A} a. Arguments RBad {A} id.

Inductive attr_res :=
| AOk (key : res str)          (* Ok(attr): the key, or the id of its FromUtf8Error *)
| AErr (id : N).               (* Err(AttrError) *)

Inductive event :=
| EStart (n : res str) (attrs : list attr_res)
| EEmpty (n : res str) (attrs : list attr_res)
| EEnd
| EText (t : res unit)
| ECData (t : res unit)
| EMisc                         (* Comment | Decl | PI | DocType *)
| EErr (pos : N) (id : N).      (* Err(e) from read_event_into, with reader.buffer_position() *)
(* exhaustion of the list = Event::Eof (returned forever) *)

Inductive perror :=
| QuickXmlError (pos : N) (id : N)
| FromUtf8Error (id : N)
| AttrError (id : N)
| NoRootError.                  (* ParsingError("invalid XML, no root element found") *)

Inductive outcome (A : Type) := Ok (a : A) | Err (e : perror) | OutOfFuel.
Arguments Ok {A} a. Arguments Err {A} e. Arguments OutOfFuel {A}.

(* attribute keys in order, stopping at the first fault *)
Fixpoint attr_keys (l : list attr_res) : perror + list str :=
  match l with
  | [] => inr []
  | AOk (ROk k) :: r => match attr_keys r with inr ks => inr (k :: ks) | inl e => inl e end
  | AOk (RBad id) :: _ => inl (FromUtf8Error id)
  | AErr id :: _ => inl (AttrError id)
  end.

(* count_children: names and counts of the Mandatory children of the tag, if present *)
Definition snapshot (tag : option (nec * element)) : list (str * N) * bool :=
  match tag with
  | None => ([], false)
  | Some c =>
      (flat_map (fun ch => match fst ch with
                           | Mand => [(ename (snd ch), ecount (snd ch))]
                           | Opt => [] end) (echildren (snd c)), true)
  end.

(* HashMap<String,u32> built by successive `insert`: the last binding of a key wins *)
Fixpoint assoc_last (n : str) (l : list (str * N)) (acc : option N) : option N :=
  match l with
  | [] => acc
  | (k, v) :: r => assoc_last n r (if str_eqb k n then Some v else acc)
  end.
Definition snap_get (cc : list (str * N)) (n : str) : option N := assoc_last n cc None.

(* the two loops of tag_optional_children that fill `to_optional` *)
Definition to_optional (parent : element) (cc : list (str * N)) : list str :=
  flat_map (fun ch => match snap_get cc (ename (snd ch)) with
                      | Some k => if k =? ecount (snd ch) then [ename (snd ch)] else []
                      | None => [] end) (echildren parent)
  ++ flat_map (fun ch => match fst ch with
                         | Mand => match snap_get cc (ename (snd ch)) with
                                   | None => [ename (snd ch)]
                                   | Some _ => [] end
                         | Opt => [] end) (echildren parent).

(* get_child_mut: the first child with that name *)
Fixpoint update_first (l : list (nec * element)) (n : str) (f : element -> element)
  : list (nec * element) :=
  match l with
  | [] => []
  | c :: r => if str_eqb (ename (snd c)) n then (fst c, f (snd c)) :: r
              else c :: update_first r n f
  end.

Definition tag_optional_children (root : element) (n : str) (cc : list (str * N)) : element :=
  match get_child (echildren root) n with
  | None => root
  | Some c =>
      let todo := rev (to_optional (snd c) cc) in          (* `while let Some(name) = pop()` *)
      set_children root
        (update_first (echildren root) n (fun p => fold_left set_child_optional todo p))
  end.

Definition known_add (known : list str) (n : str) : list str :=
  if mem n known then known else known ++ [n].

(* parse_tag up to the point where the tag's content is read: the snapshot taken by
   count_children (an `<x/>` takes none and is always checked against an empty one), the
   parent without the tag, and the child element that will absorb the content *)
Definition tag_open (root : element) (name : str) (keys : list str) (known : list str)
           (empty : bool) : (list (str * N) * bool) * element * element :=
  let snap := if empty then ([], true) else snapshot (get_child (echildren root) name) in
  let '(found, others) := remove_child (echildren root) name in
  let root1 := set_children root others in
  let c0 :=
    match found with
    | Some c =>
        let c1 := merge_attr (snd c) (map (fun a => (Mand, a)) keys) in
        let c2 := if mem name known then set_multiple c1 else c1 in
        increment c2
    | None =>
        let c1 := new_element name keys in
        if mem name known then set_multiple c1 else c1
    end in
  (snap, root1, c0).

(* the rest of parse_tag and tag_optional_children, once the content has been read *)
Definition tag_close (root1 : element) (name : str) (child : element)
           (snap : list (str * N) * bool) : element :=
  let root2 := add_unique_child root1 child in
  if snd snap then tag_optional_children root2 name (fst snap) else root2.

(* build_struct with parse_tag inlined; recursion on fuel, each call consumes an event.
   `count` is an unbounded N here; Proofs/ParserTotal.v bounds it by the number of events,
   which is what excludes the u32 overflow of `count += 1`. *)
Fixpoint build_struct (fuel : nat) (evs : list event) (root : element) (known : list str)
  {struct fuel} : outcome (element * list event) :=
  match fuel with
  | O => OutOfFuel
  | S fuel' =>
      match evs with
      | [] => Ok (root, [])                                   (* Eof *)
      | ev :: rest =>
          let tag (n : res str) (attrs : list attr_res) (empty : bool) :=
            match n with
            | RBad id => Err (FromUtf8Error id)
            | ROk name =>
                match attr_keys attrs with
                | inl e => Err e
                | inr keys =>
                    let '(snap, root1, c0) := tag_open root name keys known empty in
                    let sub := if empty then Ok (c0, rest) else build_struct fuel' rest c0 [] in
                    match sub with
                    | Ok (child, rest') =>
                        build_struct fuel' rest' (tag_close root1 name child snap)
                                     (known_add known name)
                    | Err e => Err e
                    | OutOfFuel => OutOfFuel
                    end
                end
            end in
          match ev with
          | EStart n attrs => tag n attrs false
          | EEmpty n attrs => tag n attrs true
          | EEnd => Ok (root, rest)
          | EText (ROk _) | ECData (ROk _) => build_struct fuel' rest (set_text root true) known
          | EText (RBad id) | ECData (RBad id) => Err (FromUtf8Error id)
          | EMisc => build_struct fuel' rest root known
          | EErr p id => Err (QuickXmlError p id)
          end
      end
  end.

Definition wrapper : element := new_element (s "root"%string) [].

Definition take_root (r : outcome (element * list event)) : outcome element :=
  match r with
  | Ok (w, _) =>
      match echildren w with
      | [] => Err NoRootError
      | c :: _ => match remove_child (echildren w) (ename (snd c)) with
                  | (Some x, _) => Ok (snd x)
                  | (None, _) => Err NoRootError
                  end
      end
  | Err e => Err e
  | OutOfFuel => OutOfFuel
  end.

Definition fuel_for (evs : list event) : nat := S (List.length evs).

Definition into_struct_ev (evs : list event) : outcome element :=
  take_root (build_struct (fuel_for evs) evs wrapper []).

Definition extend_struct_ev (root : element) (evs : list event) : outcome element :=
  take_root (build_struct (fuel_for evs) evs (add_unique_child wrapper root) []).

(* parse(D1), extend(D2), ... extend(Dk) *)
Definition run_evs (docs : list (list event)) : outcome element :=
  match docs with
  | [] => Err NoRootError
  | d :: r => fold_left (fun acc x => match acc with
                                      | Ok e => extend_struct_ev e x
                                      | o => o end) r (into_struct_ev d)
  end.
