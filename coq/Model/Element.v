(* src/element.rs: Element<String> and its public construction operations. *)
From XSG.Model Require Import Strings Necessity.

Inductive element :=
  Elem (name : str) (text : bool) (standalone : bool) (count : N)
       (attrs : list (nec * str)) (children : list (nec * element)) (pos : option nat).

Definition ename e := match e with Elem n _ _ _ _ _ _ => n end.
Definition etext e := match e with Elem _ t _ _ _ _ _ => t end.
Definition estandalone e := match e with Elem _ _ x _ _ _ _ => x end.
Definition ecount e := match e with Elem _ _ _ k _ _ _ => k end.
Definition eattrs e := match e with Elem _ _ _ _ a _ _ => a end.
Definition echildren e := match e with Elem _ _ _ _ _ c _ => c end.
Definition epos e := match e with Elem _ _ _ _ _ _ p => p end.

Definition set_children e c := match e with Elem n t x k a _ p => Elem n t x k a c p end.
Definition set_text e (b : bool) := match e with Elem n _ x k a c p => Elem n b x k a c p end.
Definition set_multiple e := match e with Elem n t _ k a c p => Elem n t false k a c p end.
Definition set_count e k := match e with Elem n t x _ a c p => Elem n t x k a c p end.
Definition set_pos e p := match e with Elem n t x k a c _ => Elem n t x k a c p end.
Definition set_attrs e a := match e with Elem n t x k _ c p => Elem n t x k a c p end.

(* u32 counter *)
Definition u32_max : N := 4294967295.
Definition increment e := set_count e (ecount e + 1).

(* add_unique on a list of Necessity<String>: tag-sensitive equality *)
Definition attr_eqb (a b : nec * str) : bool := nec_eqb (fst a) (fst b) && str_eqb (snd a) (snd b).
Definition add_unique_attr (l : list (nec * str)) (a : nec * str) : list (nec * str) :=
  if existsb (attr_eqb a) l then l else l ++ [a].

Definition new_element (n : str) (a : list str) : element :=
  Elem n false true 1 (fold_left (fun acc x => add_unique_attr acc (Mand, x)) a []) [] None.

Definition merge_attr e (l : list (nec * str)) : element :=
  set_attrs e (merge_necessity str_eqb (eattrs e) l).

Fixpoint get_child (l : list (nec * element)) (n : str) : option (nec * element) :=
  match l with
  | [] => None
  | c :: r => if str_eqb (ename (snd c)) n then Some c else get_child r n
  end.

Fixpoint remove_child (l : list (nec * element)) (n : str)
  : option (nec * element) * list (nec * element) :=
  match l with
  | [] => (None, [])
  | c :: r => if str_eqb (ename (snd c)) n then (Some c, r)
              else let (f, r') := remove_child r n in (f, c :: r')
  end.

(* add_unique on children: Necessity equality is tag-sensitive, Element equality is by name *)
Definition child_eqb (a b : nec * element) : bool :=
  nec_eqb (fst a) (fst b) && str_eqb (ename (snd a)) (ename (snd b)).
Definition add_unique_elem (l : list (nec * element)) (c : nec * element) : list (nec * element) :=
  if existsb (child_eqb c) l then l else l ++ [c].

Definition add_unique_child (e child : element) : element :=
  match get_child (echildren e) (ename child) with
  | Some _ => e
  | None =>
      let child' := match epos child with
                    | None => set_pos child (Some (List.length (echildren e)))
                    | Some _ => child
                    end in
      set_children e (add_unique_elem (echildren e) (Mand, child'))
  end.

Definition set_child_optional (e : element) (n : str) : element :=
  match remove_child (echildren e) n with
  | (Some c, r) => set_children e (add_unique_elem r (Opt, snd c))
  | (None, _) => e
  end.

(* behaviour before the repair F3: no early return on a present name *)
Definition add_unique_child_prefix (e child : element) : element :=
  let child' := match epos child with
                | None => set_pos child (Some (List.length (echildren e)))
                | Some _ => child
                end in
  set_children e (add_unique_elem (echildren e) (Mand, child')).

Definition contains_only_text e : bool := etext e && is_nil (eattrs e) && is_nil (echildren e).
