(* The step from BYTES to reader events: a model of quick_xml 0.37 `Reader::read_event_into` with
   the default configuration (no trimming, empty elements not expanded, end names checked,
   unmatched ends refused, comments not checked, markup names trimmed in closing tags) reading
   from a byte slice, as far as src/parser.rs looks at it: the kind of every event, the name and
   the attribute keys of a tag (decoded as `String::from_utf8` does), whether a text / CDATA is
   valid UTF-8, and for an error its kind and `reader.buffer_position()`.  The stream ends at the
   first error (the consumer returns there).

   quick-xml is a foreign crate and cannot be translated; this model is tied to it by the
   correspondence check of every run (Corr/LexCorr.v: the events recorded from the real reader
   on the same bytes).  The lexer is a byte-at-a-time automaton (`lex_step`, folded over the
   input), so it is total by construction.  Definitions only. *)
From XSG.Model Require Import Strings Necessity Element Parser.
From Coq Require Import String.

Definition byte := N.

(* ---------- String::from_utf8 (strict: no overlong forms, no surrogates, <= U+10FFFF) ---------- *)
Definition cont (b : byte) : bool := (128 <=? b) && (b <=? 191).
Definition in_rng (lo hi b : byte) : bool := (lo <=? b) && (b <=? hi).

Fixpoint utf8_decode (bs : list byte) : option str :=
  match bs with
  | [] => Some []
  | b1 :: r1 =>
      if b1 <? 128 then option_map (cons b1) (utf8_decode r1)
      else if in_rng 194 223 b1 then
        match r1 with
        | b2 :: r2 =>
            if cont b2 then option_map (cons ((b1 - 192) * 64 + (b2 - 128))) (utf8_decode r2)
            else None
        | _ => None
        end
      else if in_rng 224 239 b1 then
        match r1 with
        | b2 :: b3 :: r3 =>
            let ok2 := if b1 =? 224 then in_rng 160 191 b2
                       else if b1 =? 237 then in_rng 128 159 b2 else cont b2 in
            if ok2 && cont b3 then
              option_map (cons ((b1 - 224) * 4096 + (b2 - 128) * 64 + (b3 - 128))) (utf8_decode r3)
            else None
        | _ => None
        end
      else if in_rng 240 244 b1 then
        match r1 with
        | b2 :: b3 :: b4 :: r4 =>
            let ok2 := if b1 =? 240 then in_rng 144 191 b2
                       else if b1 =? 244 then in_rng 128 143 b2 else cont b2 in
            if ok2 && cont b3 && cont b4 then
              option_map (cons ((b1 - 240) * 262144 + (b2 - 128) * 4096 + (b3 - 128) * 64 + (b4 - 128)))
                         (utf8_decode r4)
            else None
        | _ => None
        end
      else None
  end.

(* the payload of FromUtf8Error is not modelled: id 0 *)
Definition dec_str (bs : list byte) : res str :=
  match utf8_decode bs with Some x => ROk x | None => RBad 0 end.
Definition dec_unit (bs : list byte) : res unit :=
  match utf8_decode bs with Some _ => ROk tt | None => RBad 0 end.

(* ---------- bytes ---------- *)
Definition is_ws (b : byte) : bool := (b =? 32) || (b =? 13) || (b =? 10) || (b =? 9).
Definition B_lt : byte := 60.   Definition B_gt : byte := 62.   Definition B_bang : byte := 33.
Definition B_slash : byte := 47. Definition B_q : byte := 63.    Definition B_dash : byte := 45.
Definition B_lbr : byte := 91.   Definition B_rbr : byte := 93.  Definition B_dq : byte := 34.
Definition B_sq : byte := 39.    Definition B_eq : byte := 61.

Fixpoint bytes_eqb (a b : list byte) : bool :=
  match a, b with
  | [], [] => true
  | x :: a', y :: b' => (x =? y) && bytes_eqb a' b'
  | _, _ => false
  end.
Fixpoint starts_with (x pre : list byte) : bool :=
  match pre, x with
  | [], _ => true
  | p :: pre', c :: x' => (p =? c) && starts_with x' pre'
  | _ :: _, [] => false
  end.
Definition upper (b : byte) : byte := if in_rng 97 122 b then b - 32 else b.
Fixpoint starts_with_uncased (x pre : list byte) : bool :=
  match pre, x with
  | [], _ => true
  | p :: pre', c :: x' => (upper p =? upper c) && starts_with_uncased x' pre'
  | _ :: _, [] => false
  end.
Fixpoint drop_ws (l : list byte) : list byte :=
  match l with
  | b :: r => if is_ws b then drop_ws r else l
  | [] => []
  end.
(* up to the first white space (utils::name_len) *)
Fixpoint name_of (l : list byte) : list byte :=
  match l with
  | b :: r => if is_ws b then [] else b :: name_of r
  | [] => []
  end.
Fixpoint after_name (l : list byte) : list byte :=
  match l with
  | b :: r => if is_ws b then l else after_name r
  | [] => []
  end.

(* ---------- error kinds (quick_xml::Error, AttrError); payloads are not modelled ---------- *)
Definition E_UnclosedTag : N := 1.       Definition E_UnclosedPI : N := 2.
Definition E_UnclosedComment : N := 3.   Definition E_UnclosedCData : N := 4.
Definition E_UnclosedDoctype : N := 5.   Definition E_InvalidBang : N := 6.
Definition E_MissingDoctypeName : N := 7. Definition E_MismatchedEnd : N := 8.
Definition E_UnmatchedEnd : N := 9.
Definition A_ExpectedEq : N := 10.       Definition A_ExpectedValue : N := 11.
Definition A_UnquotedValue : N := 12.    Definition A_ExpectedQuote : N := 13.
Definition A_Duplicated : N := 14.

(* ---------- attributes: events::attributes::IterState::next with checks, html = false ----------
   `sl` is what is left of the tag content behind the name resp. the previous attribute; the
   list stops at the first fault, as the consumer does.  Fuel: one unit per attribute. *)
Fixpoint key_span (l : list byte) : list byte * list byte :=   (* up to `=` or white space *)
  match l with
  | b :: r => if (b =? B_eq) || is_ws b then ([], l)
              else let '(k, rest) := key_span r in (b :: k, rest)
  | [] => ([], [])
  end.
Fixpoint until_byte (q : byte) (l : list byte) : option (list byte) :=  (* behind the next q *)
  match l with
  | b :: r => if b =? q then Some r else until_byte q r
  | [] => None
  end.
Definition key_seen (k : list byte) (keys : list (list byte)) : bool := existsb (bytes_eqb k) keys.

Fixpoint attrs_go (fuel : nat) (sl : list byte) (keys : list (list byte)) : list attr_res :=
  match fuel with
  | O => []
  | S fuel' =>
      match drop_ws sl with
      | [] => []
      | b0 :: l0 =>
          (* the first byte of a key is never looked at *)
          let '(k0, rest) := key_span l0 in
          let k := b0 :: k0 in
          (* rest = [] | `=` :: _ | ws :: _ *)
          let after_eq : option (list byte) :=
            match rest with
            | [] => None
            | b :: r => if b =? B_eq then Some r
                        else match drop_ws rest with
                             | b' :: r' => if b' =? B_eq then Some r' else None
                             | [] => None
                             end
            end in
          match after_eq with
          | None => [AErr A_ExpectedEq]
          | Some v =>
              if key_seen k keys then [AErr A_Duplicated]
              else
                match drop_ws v with
                | [] => [AErr A_ExpectedValue]
                | q :: body =>
                    if (q =? B_dq) || (q =? B_sq) then
                      match until_byte q body with
                      | None => [AErr A_ExpectedQuote]
                      | Some next =>
                          match dec_str k with
                          | RBad id => [AOk (RBad id)]
                          | ROk key => AOk (ROk key) :: attrs_go fuel' next (keys ++ [k])
                          end
                      end
                    else [AErr A_UnquotedValue]
                end
          end
      end
  end.
Definition attrs_of (content : list byte) : list attr_res :=
  attrs_go (S (List.length content)) (after_name content) [].

(* ---------- the automaton ---------- *)
Inductive quote := QOut | QSingle | QDouble.
Inductive mode :=
| MText (acc : list byte)                 (* reversed; bytes since the last markup *)
| MLt                                     (* `<` consumed *)
| MTag (q : quote) (acc : list byte)      (* reversed content behind `<`: start, empty or end tag *)
| MPI (acc : list byte)                   (* reversed content, begins with `?` *)
| MBang                                   (* `<!` consumed *)
| MComment (acc : list byte)              (* reversed content, begins with `!` *)
| MCData (acc : list byte)
| MDoctype (bal : N) (acc : list byte)
| MDone.

Record lstate := { md : mode; pos : N; opened : list (list byte) }.
Definition lex_init : lstate := {| md := MText []; pos := 0; opened := [] |}.

Definition quote_step (q : quote) (b : byte) : quote :=
  match q with
  | QOut => if b =? B_sq then QSingle else if b =? B_dq then QDouble else QOut
  | QSingle => if b =? B_sq then QOut else QSingle
  | QDouble => if b =? B_dq then QOut else QDouble
  end.

Definition strip_slash (content : list byte) : option (list byte) :=   (* strip_suffix(b"/") *)
  match rev content with
  | b :: r => if b =? B_slash then Some (rev r) else None
  | [] => None
  end.
Definition trim_end_ws (l : list byte) : list byte :=
  match drop_ws (rev l) with
  | [] => l                         (* only white space: left as it is *)
  | r => rev r
  end.

(* the content between `<` and `>` of a start / empty / end tag is complete; p = offset behind `>` *)
Definition close_tag (content : list byte) (p : N) (op : list (list byte))
  : list event * mode * list (list byte) :=
  match content with
  | b :: r =>
      if b =? B_slash then
        let name := trim_end_ws r in
        match op with
        | expected :: op' =>
            if bytes_eqb name expected then ([EEnd], MText [], op')
            else ([EErr p E_MismatchedEnd], MDone, op)   (* the stream ends here *)
        | [] => ([EErr p E_UnmatchedEnd], MDone, [])
        end
      else
        match strip_slash content with
        | Some c => ([EEmpty (dec_str (name_of c)) (attrs_of c)], MText [], op)
        | None => ([EStart (dec_str (name_of content)) (attrs_of content)], MText [],
                   name_of content :: op)
        end
  | [] => ([EStart (ROk []) []], MText [], [] :: op)
  end.

Definition lit (x : string) : list byte := s x.

Definition close_pi (content : list byte) (p : N) : list event * mode :=
  match rev content with
  | l :: _ :: _ => if l =? B_q then ([EMisc], MText []) else ([EErr p E_UnclosedPI], MDone)
  | _ => ([EErr p E_UnclosedPI], MDone)
  end.
Definition close_comment (content : list byte) (p : N) : list event * mode :=
  if starts_with content (lit "!--") then ([EMisc], MText []) else ([EErr p E_UnclosedComment], MDone).
Definition close_cdata (content : list byte) (p : N) : list event * mode :=
  if starts_with content (lit "![CDATA[") then
    ([ECData (dec_unit (firstn (List.length content - 10) (skipn 8 content)))], MText [])
  else ([EErr p E_UnclosedCData], MDone).
Definition close_doctype (content : list byte) (p : N) : list event * mode :=
  if starts_with_uncased content (lit "!DOCTYPE") then
    match drop_ws (skipn 8 content) with
    | [] => ([EErr p E_MissingDoctypeName], MDone)
    | _ => ([EMisc], MText [])
    end
  else ([EErr p E_UnclosedDoctype], MDone).

Definition st (m : mode) (p : N) (op : list (list byte)) : lstate := {| md := m; pos := p; opened := op |}.

(* one byte; p' = offset behind it *)
Definition lex_step (x : lstate) (b : byte) : lstate * list event :=
  let p' := pos x + 1 in
  let op := opened x in
  match md x with
  | MDone => (x, [])
  | MText acc =>
      if b =? B_lt then
        (st MLt p' op, match acc with [] => [] | _ => [EText (dec_unit (rev acc))] end)
      else (st (MText (b :: acc)) p' op, [])
  | MLt =>
      if b =? B_bang then (st MBang p' op, [])
      else if b =? B_q then (st (MPI [b]) p' op, [])
      else if b =? B_gt then
        let '(evs, m, op') := close_tag [] p' op in (st m p' op', evs)
      else (st (MTag (quote_step QOut b) [b]) p' op, [])
  | MTag q acc =>
      match q with
      | QOut =>
          if b =? B_gt then
            let '(evs, m, op') := close_tag (rev acc) p' op in (st m p' op', evs)
          else (st (MTag (quote_step q b) (b :: acc)) p' op, [])
      | _ => (st (MTag (quote_step q b) (b :: acc)) p' op, [])
      end
  | MPI acc =>
      match acc with
      | l :: _ =>
          if (b =? B_gt) && (l =? B_q) then
            let '(evs, m) := close_pi (rev acc) p' in (st m p' op, evs)
          else (st (MPI (b :: acc)) p' op, [])
      | [] => (st (MPI [b]) p' op, [])
      end
  | MBang =>
      (* the byte is only peeked at: BangType::new; on a mismatch the offset still stands
         behind `<` *)
      if b =? B_lbr then (st (MCData [b; B_bang]) p' op, [])
      else if b =? B_dash then (st (MComment [b; B_bang]) p' op, [])
      else if (b =? 68) || (b =? 100) then (st (MDoctype 0 [b; B_bang]) p' op, [])
      else (st MDone (pos x) op, [EErr (pos x - 1) E_InvalidBang])
  | MComment acc =>
      if b =? B_gt then
        match acc with
        | d1 :: d2 :: _ =>
            if (d1 =? B_dash) && (d2 =? B_dash) && (5 <=? List.length acc)%nat then
              let '(evs, m) := close_comment (rev acc) p' in (st m p' op, evs)
            else (st (MComment (b :: acc)) p' op, [])
        | _ => (st (MComment (b :: acc)) p' op, [])
        end
      else (st (MComment (b :: acc)) p' op, [])
  | MCData acc =>
      if b =? B_gt then
        match acc with
        | d1 :: d2 :: _ =>
            if (d1 =? B_rbr) && (d2 =? B_rbr) then
              let '(evs, m) := close_cdata (rev acc) p' in (st m p' op, evs)
            else (st (MCData (b :: acc)) p' op, [])
        | _ => (st (MCData (b :: acc)) p' op, [])
        end
      else (st (MCData (b :: acc)) p' op, [])
  | MDoctype bal acc =>
      if b =? B_lt then (st (MDoctype (bal + 1) (b :: acc)) p' op, [])
      else if b =? B_gt then
        if bal =? 0 then
          let '(evs, m) := close_doctype (rev acc) p' in (st m p' op, evs)
        else (st (MDoctype (bal - 1) (b :: acc)) p' op, [])
      else (st (MDoctype bal (b :: acc)) p' op, [])
  end.

(* end of input *)
Definition lex_eof (x : lstate) : list event :=
  let p := pos x in
  match md x with
  | MDone => []
  | MText [] => []
  | MText acc => [EText (dec_unit (rev acc))]
  | MLt | MTag _ _ => [EErr p E_UnclosedTag]
  | MPI _ => [EErr p E_UnclosedPI]
  | MBang => [EErr (p - 1) E_InvalidBang]
  | MComment _ => [EErr p E_UnclosedComment]
  | MCData _ => [EErr p E_UnclosedCData]
  | MDoctype _ _ => [EErr p E_UnclosedDoctype]
  end.

Fixpoint lex_from (x : lstate) (bs : list byte) : list event :=
  match bs with
  | [] => lex_eof x
  | b :: r => let '(x', evs) := lex_step x b in evs ++ lex_from x' r
  end.

(* remove_utf8_bom: a slice reader hands over the whole input at once *)
Definition strip_bom (bs : list byte) : list byte * N :=
  match bs with
  | 239 :: 187 :: 191 :: r => (r, 3)
  | _ => (bs, 0)
  end.

(* the offset does not count the byte-order mark *)
Definition lex (bs : list byte) : list event := lex_from lex_init (fst (strip_bom bs)).

(* the library on bytes *)
Definition into_struct_bytes (bs : list byte) : outcome element := into_struct_ev (lex bs).
Definition extend_struct_bytes (root : element) (bs : list byte) : outcome element :=
  extend_struct_ev root (lex bs).
Definition run_bytes (docs : list (list byte)) : outcome element := run_evs (map lex docs).
