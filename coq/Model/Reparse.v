(* harness/src/outp.rs (`parse_output`, `print_output`): the re-parser of the rendered source
   text into struct definitions, moved into Coq.  The boolean oracles of Corr/Oracles.v are
   applied to struct definitions parsed back from the real implementation's output; with this
   file the parsing is done by `reparse` on the real bytes, and Proofs/ReparseProofs.v proves
   that `reparse` inverts the printer `print` of Model/Render.v.
   Definitions only, executable; structural recursion, or fuel = number of lines of the input. *)
From XSG.Model Require Import Strings Render.
From Coq Require Import String.
Open Scope list_scope.

(* ---------- the parsed form (same fields as Corr/Oracles.v pfield / pstruct) ---------- *)
Record pfield' := PF' { pf_rename' : option str; pf_ident' : str; pf_wrap' : wrap; pf_ty' : tyname }.
Record pstruct' := PS' { ps_derive' : option str; ps_name' : str; ps_fields' : list pfield' }.

Definition erase_field' (f : field) : pfield' := PF' (f_rename f) (f_ident f) (f_wrap f) (f_ty f).
Definition erase' (d : structdef) : pstruct' :=
  PS' (sd_derive d) (sd_name d) (map erase_field' (sd_fields d)).

(* ---------- str primitives (Rust: split('\n'), strip_prefix, strip_suffix, split_once) ---------- *)
(* `text.split('\n')`: never empty, "" gives [""], "a\n" gives ["a"; ""] *)
Fixpoint split_lines (x : str) : list str :=
  match x with
  | [] => [[]]
  | c :: r =>
      if c =? 10 then [] :: split_lines r
      else match split_lines r with
           | l :: ls => (c :: l) :: ls
           | [] => [[c]]                      (* unreachable: split_lines is never empty *)
           end
  end.

Fixpoint strip_prefix (p x : str) : option str :=
  match p, x with
  | [], _ => Some x
  | a :: p', b :: x' => if a =? b then strip_prefix p' x' else None
  | _ :: _, [] => None
  end.

Definition strip_suffix (q x : str) : option str :=
  match strip_prefix (rev q) (rev x) with Some r => Some (rev r) | None => None end.

(* `x.split_once(p)`: split at the first occurrence of p *)
Fixpoint split_once (p x : str) : option (str * str) :=
  match strip_prefix p x with
  | Some r => Some ([], r)
  | None =>
      match x with
      | [] => None
      | c :: x' => match split_once p x' with Some (a, b) => Some (c :: a, b) | None => None end
      end
  end.

Definition and_then {A B} (o : option A) (f : A -> option B) : option B :=
  match o with Some x => f x | None => None end.

(* ---------- the fixed pieces of the format ---------- *)
Definition k_derive_open : str := s "#[derive(".
Definition k_attr_close : str := s ")]".
Definition k_struct_open : str := s "pub struct ".
Definition k_brace_open : str := s " {".
Definition k_rename_open : str := s "    #[serde(rename = " ++ quote.
Definition k_rename_close : str := quote ++ s ")]".
Definition k_pub : str := s "    pub ".
Definition k_comma : str := s ",".
Definition k_colon : str := s ": ".
Definition k_brace_close : str := s "}".

(* ---------- one type ---------- *)
(* `Option<Vec<..>>` is tried before `Option<..>` before `Vec<..>`; when the prefix matches but the
   suffix does not, the next alternative is tried (Rust: strip_prefix(..).and_then(strip_suffix(..))).
   A type called `String` is TyString, anything else a struct name. *)
Definition parse_ty (ty : str) : wrap * tyname :=
  let '(w, inner) :=
    match and_then (strip_prefix (s "Option<Vec<") ty) (strip_suffix (s ">>")) with
    | Some x => (WOptionVec, x)
    | None =>
        match and_then (strip_prefix (s "Option<") ty) (strip_suffix (s ">")) with
        | Some x => (WOption, x)
        | None =>
            match and_then (strip_prefix (s "Vec<") ty) (strip_suffix (s ">")) with
            | Some x => (WVec, x)
            | None => (WPlain, ty)
            end
        end
    end in
  (w, if str_eqb inner (s "String") then TyString else TyStruct inner).

(* `    pub <ident>: <type>,` *)
Definition parse_field_line (l : str) : option (str * (wrap * tyname)) :=
  match and_then (strip_prefix k_pub l) (strip_suffix k_comma) with
  | None => None
  | Some r =>
      match split_once k_colon r with
      | None => None
      | Some (ident, ty) => Some (ident, parse_ty ty)
      end
  end.

(* ---------- the fields of one struct, up to and including the line `}` ---------- *)
Fixpoint parse_fields (ls : list str) : option (list pfield' * list str) :=
  match ls with
  | [] => None                                                   (* eof in struct *)
  | l :: r =>
      if str_eqb l k_brace_close then Some ([], r)
      else
        match strip_prefix k_rename_open l with
        | Some x =>
            match strip_suffix k_rename_close x with
            | None => None                                       (* rename line *)
            | Some rn =>
                match r with
                | [] => None                                     (* eof after rename *)
                | l2 :: r2 =>
                    match parse_field_line l2 with
                    | None => None
                    | Some (ident, (w, t)) =>
                        match parse_fields r2 with
                        | None => None
                        | Some (fs, rest) => Some (PF' (Some rn) ident w t :: fs, rest)
                        end
                    end
                end
            end
        | None =>
            match parse_field_line l with
            | None => None
            | Some (ident, (w, t)) =>
                match parse_fields r with
                | None => None
                | Some (fs, rest) => Some (PF' None ident w t :: fs, rest)
                end
            end
        end
  end.

(* ---------- the structs ---------- *)
(* optional derive line; gives the derive string, the header line and the lines after it *)
Definition parse_derive (l : str) (r : list str) : option (option str * str * list str) :=
  match strip_prefix k_derive_open l with
  | Some x =>
      match strip_suffix k_attr_close x with
      | None => None                                             (* derive line *)
      | Some d => match r with
                  | [] => None                                   (* eof after derive *)
                  | l2 :: r2 => Some (Some d, l2, r2)
                  end
      end
  | None => Some (None, l, r)
  end.

Fixpoint parse_structs (fuel : nat) (ls : list str) : option (list pstruct') :=
  match fuel with
  | O => None
  | S fuel' =>
      match ls with
      | [] => Some []
      | l :: r =>
          if is_nil l && is_nil r then Some []                   (* the empty piece after the last newline *)
          else
            match parse_derive l r with
            | None => None
            | Some (d, hl, r1) =>
                match and_then (strip_prefix k_struct_open hl) (strip_suffix k_brace_open) with
                | None => None                                   (* struct header *)
                | Some name =>
                    match parse_fields r1 with
                    | None => None
                    | Some (fs, r2) =>
                        match r2 with
                        | [] :: r3 =>
                            match parse_structs fuel' r3 with
                            | None => None
                            | Some ps => Some (PS' d name fs :: ps)
                            end
                        | _ => None                              (* missing blank line after struct *)
                        end
                    end
                end
            end
      end
  end.

(* the parser proper; every struct consumes at least three lines, so the fuel suffices *)
Definition reparse_raw (x : str) : option (list pstruct') :=
  let ls := split_lines x in parse_structs (S (List.length ls)) ls.

(* ---------- print_output, and the final round-trip test of parse_output ---------- *)
Definition print_field' (f : pfield') : str :=
  (match pf_rename' f with
   | Some r => s "    #[serde(rename = " ++ quote ++ r ++ quote ++ s ")]" ++ nl
   | None => [] end)
  ++ s "    pub " ++ pf_ident' f ++ s ": " ++ print_ty (pf_wrap' f) (pf_ty' f) ++ s "," ++ nl.
Definition print_struct' (d : pstruct') : str :=
  (match ps_derive' d with Some x => s "#[derive(" ++ x ++ s ")]" ++ nl | None => [] end)
  ++ s "pub struct " ++ ps_name' d ++ s " {" ++ nl
  ++ flat_map print_field' (ps_fields' d)
  ++ s "}" ++ nl ++ nl.
Definition print' (ps : list pstruct') : str := flat_map print_struct' ps.

(* parse_output: parse, then refuse unless printing the result gives the input back *)
Definition reparse (x : str) : option (list pstruct') :=
  match reparse_raw x with
  | Some ps => if str_eqb (print' ps) x then Some ps else None
  | None => None
  end.
