(* The primitives that bin/translate_render.py gives a fixed meaning to when it turns
   `to_serde_struct` / `inner_to_serde_struct` of src/element.rs into the Gallina functions of
   coq/Generated/RenderRs.v (a shallow embedding: Rust statements become lets over the model's own
   types).  Trusted readings, besides the translator itself:
   * `v.sort_unstable_by_key(|a| key)` is insertion sort by the key (`str_leb` for a printed name,
     `pos_leb` for `Option<usize>`: None first).  An unstable sort and a stable one return the same
     list when the keys are pairwise distinct (proved: C09_source_sort_by_name_any /
     C09_source_sort_by_position_any in Properties/C09rs.v), which C09_strictly_sorted_* / the Uniq invariant give
     for attribute names, child names and positions of parsed trees; for equal keys std's unstable
     sort is deterministic but unspecified, and this reading is an assumption.
   * `String::push_str` / `format!` with `{}` holes = concatenation; `Vec::push` = append at the end;
     `Vec::pop` = removelast; `HashMap::get(..).cloned().unwrap_or_default()` on the struct-name
     table = `table_get` with the empty string as default; `Map::new` / `get_name` = `id_new` /
     `id_get` (the source of src/element/identifier.rs is proved equal to them in C04rs.v);
     `compute_name_hints` / `compute_struct_names` = the model functions (their sources are proved
     equal to them in C14hints.v / C14rs.v); `contains_only_text`, `starts_with_xmlns` likewise
     (C16rs.v); `remove_namespace` = Model/Convert.v (compared with the real one on every run).
   * `.to_string()`, `.clone()`, `.cloned()`, `.iter()`, `&`: identity (T = String, values).
   Definitions only. *)
From XSG.Model Require Import Strings Chars Convert Necessity Element Render.
Open Scope list_scope.

Definition sort_by_key_str {A} (key : A -> str) (l : list A) : list A :=
  isort (fun a b => str_leb (key a) (key b)) l.
Definition sort_by_key_pos {A} (key : A -> option nat) (l : list A) : list A :=
  isort (fun a b => pos_leb (key a) (key b)) l.
Definition unwrap_or_default_str (o : option str) : str :=
  match o with Some x => x | None => [] end.

Fixpoint fold_opt {A B} (f : A -> B -> option A) (l : list B) (a : A) : option A :=
  match l with
  | [] => Some a
  | x :: r => match f a x with Some a' => fold_opt f r a' | None => None end
  end.
