(* A fourth small imperative language: the fragment of Rust that the struct-name table of
   src/element.rs is written in (`expand_name`, `fill_struct_names`, `compute_struct_names` — the
   repair F5), with a total evaluator on fuel.  bin/translate parses the CURRENT text of the three
   functions into terms of this language on every run of bin/check C14
   (coq/Generated/NamesRs.v); Proofs/NamesRsProofs.v proves that running them is
   `compute_struct_names` of Model/Render.v for every tree and every table of name hints.
   Trusted: the translator and the reading of the primitives fixed here: `Vec::push`/`pop`/
   `contains`/`len`, `usize::saturating_sub`, `[start..].join("")`, `format!` with `{}` holes,
   `HashMap::get` on the hints (the association list of the model), `HashMap::insert` on the table
   (most recent first; the keys are pairwise distinct paths), `formatted_name` (the model's
   to_pascal_case, compared with the real one on every run), `contains_only_text` (its source is
   proved in C16rs.v), and the idiom `children.iter().map(|c| c.inner_t()).collect()` followed by
   the stable `sort_by_key(|c| c.position)` = insertion sort by position.  Definitions only. *)
From XSG.Model Require Import Strings Chars Convert Necessity Element Render RustIdent.
From Coq Require Import String.
Open Scope list_scope.

Inductive expr :=
| EVar (x : string)
| EStr (l : str)                           (* String::new() is EStr [] *)
| EZero
| ENewVec                                  (* Vec::new() *)
| ENewTable                                (* HashMap::new() *)
| EStrsLit (l : list str)                  (* vec!["a", ..].into_iter().map(String::from).collect() *)
| EFormattedName (x : string)              (* x.formatted_name() *)
| EElemName (x : string)                   (* x.name.to_string() *)
| EHintsGet (h : string) (k : expr)        (* h.get(&k) *)
| ELen (v : string)                        (* v.len() *)
| ESatSub (a b : expr)                     (* a.saturating_sub( *b) *)
| EJoinFrom (v : string) (start : expr)    (* v[start..].join("") *)
| EContains (v : string) (e : expr)        (* v.contains(&e) *)
| EFormat (parts : list fpart')            (* format!("{}{}", a, b) *)
| ECallExpand (x tr h : string)            (* x.expand_name(tr, h) *)
| ESortedChildren (x : string)             (* the children of x, by position (stable) *)
| EContainsOnlyText (x : string)           (* x.contains_only_text() *)
| ENot (e : expr)
with fpart' := FLit' (l : str) | FArg' (e : expr).

Inductive stmt :=
| SSkip
| SSeq (s1 s2 : stmt)
| SLet (x : string) (e : expr)
| SAssign (x : string) (e : expr)
| SAddOne (x : string)
| SPush (v : string) (e : expr)
| SPop (v : string)
| SWhile (c : expr) (body : stmt)
| SIf (c : expr) (t : stmt)
| SIfLetSome (x : string) (e : expr) (body : stmt)
| SForElems (x : string) (v : string) (body : stmt)        (* for x in v *)
| SInsert (m : string) (k : string) (v : expr)             (* m.insert(k.clone(), v) *)
| SCallFill (el tr pa h us na : string).                   (* fill_struct_names(el, tr, pa, h, us, na):
                                                              tr, pa, us, na are written back *)

Record fn := { fn_params : list string; fn_body : stmt; fn_result : option expr }.

Inductive val :=
| VStr (x : str) | VNat (n : nat) | VBool (b : bool)
| VStrs (l : list str)
| VTable (t : name_table)
| VHints (h : hints)
| VElem (e : element) | VElems (l : list element)
| VNoneNat | VSomeNat (n : nat).

Definition env := list (string * val).
Fixpoint lookup (x : string) (en : env) : option val :=
  match en with
  | [] => None
  | (y, v) :: r => if String.eqb y x then Some v else lookup x r
  end.
Fixpoint update (x : string) (v : val) (en : env) : option env :=
  match en with
  | [] => None
  | (y, w) :: r => if String.eqb y x then Some ((y, v) :: r)
                   else match update x v r with Some r' => Some ((y, w) :: r') | None => None end
  end.

Section Eval.
  Context (expand fill : fn).

  Fixpoint eval (fuel : nat) (e : expr) (en : env) {struct fuel} : option val :=
    match fuel with
    | O => None
    | S fuel' =>
        let ev := eval fuel' in
        match e with
        | EVar x => lookup x en
        | EStr l => Some (VStr l)
        | EZero => Some (VNat 0)
        | ENewVec => Some (VStrs [])
        | ENewTable => Some (VTable [])
        | EStrsLit l => Some (VStrs l)
        | EFormattedName x => match lookup x en with Some (VElem e) => Some (VStr (formatted_name e)) | _ => None end
        | EElemName x => match lookup x en with Some (VElem e) => Some (VStr (ename e)) | _ => None end
        | EHintsGet h k =>
            match lookup h en, ev k en with
            | Some (VHints hh), Some (VStr kk) =>
                Some (match hint_get hh kk with Some n => VSomeNat n | None => VNoneNat end)
            | _, _ => None end
        | ELen v => match lookup v en with Some (VStrs l) => Some (VNat (List.length l)) | _ => None end
        | ESatSub a b =>
            match ev a en, ev b en with
            | Some (VNat x), Some (VNat y) => Some (VNat (x - y))
            | _, _ => None end
        | EJoinFrom v st =>
            match lookup v en, ev st en with
            | Some (VStrs l), Some (VNat n) =>
                if Nat.leb n (List.length l) then Some (VStr (List.concat (skipn n l))) else None
            | _, _ => None end
        | EContains v a =>
            match lookup v en, ev a en with
            | Some (VStrs l), Some (VStr x) => Some (VBool (mem x l))
            | _, _ => None end
        | EFormat parts =>
            (fix go (ps : list fpart') : option val :=
               match ps with
               | [] => Some (VStr [])
               | FLit' l :: r => match go r with Some (VStr t) => Some (VStr (l ++ t)) | _ => None end
               | FArg' a :: r =>
                   match ev a en, go r with
                   | Some (VStr x), Some (VStr t) => Some (VStr (x ++ t))
                   | Some (VNat n), Some (VStr t) => Some (VStr (dec n ++ t))
                   | _, _ => None end
               end) parts
        | ECallExpand x tr h =>
            match lookup x en, lookup tr en, lookup h en, fn_params expand, fn_result expand with
            | Some (VElem e), Some (VStrs t), Some (VHints hh), [ps; pt; ph], Some re =>
                match exec fuel' (fn_body expand) [(ps, VElem e); (pt, VStrs t); (ph, VHints hh)] with
                | Some en' => eval fuel' re en'
                | None => None end
            | _, _, _, _, _ => None end
        | ESortedChildren x =>
            match lookup x en with
            | Some (VElem e) => Some (VElems (map snd (isort by_pos (echildren e))))
            | _ => None end
        | EContainsOnlyText x =>
            match lookup x en with Some (VElem e) => Some (VBool (contains_only_text e)) | _ => None end
        | ENot a => match ev a en with Some (VBool b) => Some (VBool (negb b)) | _ => None end
        end
    end
  with exec (fuel : nat) (s : stmt) (en : env) {struct fuel} : option env :=
    match fuel with
    | O => None
    | S fuel' =>
        match s with
        | SSkip => Some en
        | SSeq s1 s2 => match exec fuel' s1 en with Some en1 => exec fuel' s2 en1 | None => None end
        | SLet x e => match eval fuel' e en with Some v => Some ((x, v) :: en) | None => None end
        | SAssign x e => match eval fuel' e en with Some v => update x v en | None => None end
        | SAddOne x => match lookup x en with Some (VNat n) => update x (VNat (S n)) en | _ => None end
        | SPush v e =>
            match lookup v en, eval fuel' e en with
            | Some (VStrs l), Some (VStr x) => update v (VStrs (l ++ [x])) en
            | _, _ => None end
        | SPop v =>
            match lookup v en with
            | Some (VStrs l) => update v (VStrs (removelast l)) en
            | _ => None end
        | SWhile c body =>
            match eval fuel' c en with
            | Some (VBool true) => match exec fuel' body en with
                                   | Some en1 => exec fuel' (SWhile c body) en1 | None => None end
            | Some (VBool false) => Some en
            | _ => None end
        | SIf c t =>
            match eval fuel' c en with
            | Some (VBool true) => exec fuel' t en
            | Some (VBool false) => Some en
            | _ => None end
        | SIfLetSome x e body =>
            match eval fuel' e en with
            | Some (VSomeNat n) => exec fuel' body ((x, VNat n) :: en)
            | Some VNoneNat => Some en
            | _ => None end
        | SForElems x v body =>
            match lookup v en with
            | Some (VElems l) =>
                (fix loop (items : list element) (en : env) : option env :=
                   match items with
                   | [] => Some en
                   | i :: r => match exec fuel' body ((x, VElem i) :: en) with
                               | Some en' => loop r en' | None => None end
                   end) l en
            | _ => None end
        | SInsert m k v =>
            match lookup m en, lookup k en, eval fuel' v en with
            | Some (VTable t), Some (VStrs p), Some (VStr x) => update m (VTable ((p, x) :: t)) en
            | _, _, _ => None end
        | SCallFill el tr pa h us na =>
            match lookup el en, lookup tr en, lookup pa en, lookup h en, lookup us en, lookup na en, fn_params fill with
            | Some (VElem e), Some (VStrs t), Some (VStrs p), Some (VHints hh), Some (VStrs u), Some (VTable n),
              [qe; qt; qp; qh; qu; qn] =>
                match exec fuel' (fn_body fill) [(qe, VElem e); (qt, VStrs t); (qp, VStrs p); (qh, VHints hh); (qu, VStrs u); (qn, VTable n)] with
                | Some en' =>
                    match lookup qt en', lookup qp en', lookup qu en', lookup qn en' with
                    | Some t', Some p', Some u', Some n' =>
                        match update tr t' en with
                        | Some e1 => match update pa p' e1 with
                                     | Some e2 => match update us u' e2 with
                                                  | Some e3 => update na n' e3 | None => None end
                                     | None => None end
                        | None => None end
                    | _, _, _, _ => None end
                | None => None end
            | _, _, _, _, _, _, _ => None end
        end
    end.

  (* compute_struct_names(&self, trace_length) -> names *)
  Definition run_compute (fuel : nat) (compute : fn) (e : element) (h : hints) : option name_table :=
    match fn_params compute, fn_result compute with
    | [ps; ph], Some re =>
        match exec fuel (fn_body compute) [(ps, VElem e); (ph, VHints h)] with
        | Some en => match eval fuel re en with Some (VTable t) => Some t | _ => None end
        | None => None end
    | _, _ => None
    end.
End Eval.
