(* A second small imperative language: the fragment of Rust that the construction operations of
   src/element.rs are written in (`add_unique`, `Element::new`, `set_multiple`, `get_child`,
   `remove_child`, `add_unique_child`, `set_child_optional`) and the two tree functions of
   src/parser.rs that decide which children become optional (`count_children`,
   `tag_optional_children`) are written in, with a total evaluator over the model's own `element`
   values.  bin/translate parses the CURRENT text of those functions into
   terms of this language on every run (coq/Generated/ElementRs.v); Proofs/ElementRsProofs.v proves
   that running each term is the corresponding function of Model/Element.v for every input.
   Trusted: the translator and the reading of the primitives fixed here (`iter().find`,
   `iter().position`, `contains` with the crate's two `PartialEq` impls — Necessity: same tag and
   equal inner value; Element: equal names —, `remove`, `push`, `len`, `is_some`/`is_none`,
   `inner_t`/`into_inner_t`, field access).  Ownership, borrowing and `&`/`*` are not modelled.
   Definitions only. *)
From XSG.Model Require Import Strings Necessity Element Parser.
From Coq Require Import String.
Open Scope list_scope.

Inductive place := PVar (x : string) | PField (p : place) (f : string).

Inductive expr :=
| EVar (x : string)
| EField (e : expr) (f : string)               (* e.f *)
| EBoolLit (b : bool)
| ENewVec                                       (* Vec::new() *)
| ESome (e : expr) | ENone
| EIsSome (e : expr) | EIsNone (e : expr)
| ELen (e : expr)
| ENecMand (e : expr) | ENecOpt (e : expr)      (* Necessity::Mandatory(e) / Necessity::Optional(e) *)
| EInner (e : expr)                             (* e.inner_t() / e.into_inner_t() *)
| EEq (a b : expr)                              (* a == b on names *)
| EFind (v : expr) (x : string) (pred : expr)       (* v.iter().find(|x| pred)  (also iter_mut) *)
| EPosition (v : expr) (x : string) (pred : expr)   (* v.iter().position(|x| pred) *)
| EContains (v : expr) (e : expr)               (* v.contains(&e) *)
| ERemoveAt (p : place) (i : expr)              (* p.remove(i): the removed item; p loses it *)
| ECall (f : string) (p : place) (e : expr)     (* f(&mut p, e) / p.f(e): p is written back *)
| EMatchOpt (e : expr) (x : string) (some_e none_e : expr)   (* match e { Some(x) => .., None => .. } *)
| ENewElem (name attrs : expr)                  (* Element { name, text: None, count: 1, standalone: true,
                                                             attributes: attrs, children: Vec::new(), position: None } *)
| ENewMap                                       (* HashMap::new() *)
| EMapGet (m k : expr)                          (* m.get(&k) *)
| EMapContains (m k : expr)                     (* m.contains_key(&k) *)
| ECountOf (e : expr)                           (* e.count() *)
| ENot (e : expr)                               (* !e *)
| ESnap (m b : expr)                            (* the pair (m, b) returned by count_children *)
| EMergeNec (a b : expr)
| EIsEmpty (e : expr)                           (* e.is_empty() on a Vec *)
| EAnd (a b : expr)                             (* a && b (lazy) *)
| EStr (l : str)                                (* "literal" *)
| EFindChar (e : expr) (c : chr)                (* e.find('c'): index of the first occurrence *)
| ESliceToIncl (e i : expr)                     (* &e[..(i + 1)]: the prefix up to and including index i
                                                   (indices count characters here, bytes in Rust: the
                                                   prefix ends after a one-byte character found by
                                                   `find`, so the two agree) *)
| EStrEq (a b : expr).                       (* merge_necessity(a, b) on attribute lists: the model
                                                   function, which Properties/C15rs.v proves to be what
                                                   the source of merge_necessity computes *)

Inductive stmt :=
| SSkip
| SSeq (s1 s2 : stmt)
| SLet (x : string) (e : expr)
| SAssign (p : place) (e : expr)
| SPush (p : place) (e : expr)
| SIf (c : expr) (t f : stmt)
| SIfLetSome (x : string) (e : expr) (body : stmt)   (* if let Some(x) = e { body } *)
| SExpr (e : expr)                                    (* e; *)
| SFor (x : string) (e : expr) (body : stmt)
| SReturn                                             (* return; *)
| SMapInsert (p : place) (k v : expr)                 (* p.insert(k, v); *)
| SIfLetMand (x : string) (e : expr) (body : stmt)    (* if let Necessity::Mandatory(x) = e { body } *)
| SWhilePop (x : string) (p : place) (body : stmt)    (* while let Some(x) = p.pop() { body } *)
| SAddOne (p : place)                                 (* p += 1; on the u32 counter (unbounded here: the
                                                         overflow is excluded by C07_no_overflow) *)
| SWithChildMut (x : string) (p : place) (n : expr) (body : stmt).
    (* if let Some(t) = p.get_child_mut(&n) { let x = t.inner_t_mut(); body }: body works on the
       first child of p named n in place *)

Record fn := { fn_p1 : string; fn_p2 : string; fn_p3 : string; fn_body : stmt; fn_result : option expr }.

Inductive val :=
| VUnit | VBool (b : bool) | VNat (n : nat) | VName (s : str) | VNames (l : list str)
| VElem (e : element)
| VChild (c : nec * element) | VChildren (l : list (nec * element))
| VAttr (a : nec * str) | VAttrs (l : list (nec * str))
| VEmptyVec                                   (* Vec::new() before its item type is known *)
| VNone | VSomeChild (c : nec * element) | VSomeNat (n : nat)
| VCount (k : N) | VSomeCount (k : N)         (* u32 / Option<&u32> *)
| VMap (m : list (str * N))                   (* HashMap<String, u32> as the sequence of its inserts *)
| VSnap (m : list (str * N)) (b : bool)       (* (HashMap<String, u32>, bool) *)
| VSomeText.                                  (* Some(text): the model keeps only whether there is text *)

Definition env := list (string * val).

Fixpoint lookup (x : string) (en : env) : option val :=
  match en with
  | [] => None
  | (y, v) :: r => if String.eqb y x then Some v else lookup x r
  end.
Fixpoint update (x : string) (v : val) (en : env) : option env :=
  match en with
  | [] => None
  | (y, w) :: r => if String.eqb y x then Some ((y, v) :: r)
                   else match update x v r with Some r' => Some ((y, w) :: r') | None => None end
  end.

Definition get_field (v : val) (f : string) : option val :=
  match v with
  | VElem e =>
      if String.eqb f "name" then Some (VName (ename e))
      else if String.eqb f "children" then Some (VChildren (echildren e))
      else if String.eqb f "attributes" then Some (VAttrs (eattrs e))
      else if String.eqb f "standalone" then Some (VBool (estandalone e))
      else if String.eqb f "position" then Some (match epos e with Some n => VSomeNat n | None => VNone end)
      else if String.eqb f "count" then Some (VCount (ecount e))
      else if String.eqb f "text" then Some (if etext e then VSomeText else VNone)
      else None
  | _ => None
  end.
Definition set_field (v : val) (f : string) (w : val) : option val :=
  match v with
  | VElem e =>
      if String.eqb f "children" then
        match w with VChildren l => Some (VElem (set_children e l)) | VEmptyVec => Some (VElem (set_children e [])) | _ => None end
      else if String.eqb f "attributes" then
        match w with VAttrs l => Some (VElem (set_attrs e l)) | VEmptyVec => Some (VElem (set_attrs e [])) | _ => None end
      else if String.eqb f "standalone" then
        match w with VBool b => Some (VElem (match e with Elem n t _ k a c p => Elem n t b k a c p end)) | _ => None end
      else if String.eqb f "position" then
        match w with
        | VSomeNat n => Some (VElem (set_pos e (Some n)))
        | VNone => Some (VElem (set_pos e None))
        | _ => None end
      else if String.eqb f "count" then
        match w with VCount k => Some (VElem (set_count e k)) | _ => None end
      else None
  | _ => None
  end.

Fixpoint read_place (p : place) (en : env) : option val :=
  match p with
  | PVar x => lookup x en
  | PField q f => match read_place q en with Some v => get_field v f | None => None end
  end.
Fixpoint write_place (p : place) (w : val) (en : env) : option env :=
  match p with
  | PVar x => update x w en
  | PField q f =>
      match read_place q en with
      | Some v => match set_field v f w with Some v' => write_place q v' en | None => None end
      | None => None end
  end.

Fixpoint remove_nth {A} (n : nat) (l : list A) : list A :=
  match n, l with
  | _, [] => []
  | O, _ :: r => r
  | S k, x :: r => x :: remove_nth k r
  end.

Section Eval.
  (* how a call of another function of the table behaves: name, first argument (by reference),
     second argument (by value) -> result and the new value of the first argument *)
  Context (call : string -> val -> val -> option (val * val)).

  (* the first item of l satisfying the predicate (evaluated with x bound to the item) *)
  Fixpoint eval (e : expr) (en : env) {struct e} : option (val * env) :=
    match e with
    | EVar x => match lookup x en with Some v => Some (v, en) | None => None end
    | EField a f =>
        match eval a en with
        | Some (v, en1) => match get_field v f with Some w => Some (w, en1) | None => None end
        | None => None end
    | EBoolLit b => Some (VBool b, en)
    | ENewVec => Some (VEmptyVec, en)
    | ESome a =>
        match eval a en with
        | Some (VChild c, en1) => Some (VSomeChild c, en1)
        | Some (VNat n, en1) => Some (VSomeNat n, en1)
        | Some (VCount k, en1) => Some (VSomeCount k, en1)
        | _ => None end
    | ENone => Some (VNone, en)
    | EIsSome a =>
        match eval a en with
        | Some (VNone, en1) => Some (VBool false, en1)
        | Some (VSomeChild _, en1) | Some (VSomeNat _, en1) | Some (VSomeText, en1) => Some (VBool true, en1)
        | _ => None end
    | EIsNone a =>
        match eval a en with
        | Some (VNone, en1) => Some (VBool true, en1)
        | Some (VSomeChild _, en1) | Some (VSomeNat _, en1) | Some (VSomeText, en1) => Some (VBool false, en1)
        | _ => None end
    | ELen a =>
        match eval a en with
        | Some (VChildren l, en1) => Some (VNat (List.length l), en1)
        | Some (VAttrs l, en1) => Some (VNat (List.length l), en1)
        | Some (VEmptyVec, en1) => Some (VNat 0, en1)
        | _ => None end
    | ENecMand a =>
        match eval a en with
        | Some (VElem x, en1) => Some (VChild (Mand, x), en1)
        | Some (VName x, en1) => Some (VAttr (Mand, x), en1)
        | _ => None end
    | ENecOpt a =>
        match eval a en with
        | Some (VElem x, en1) => Some (VChild (Opt, x), en1)
        | Some (VName x, en1) => Some (VAttr (Opt, x), en1)
        | _ => None end
    | EInner a =>
        match eval a en with
        | Some (VChild c, en1) => Some (VElem (snd c), en1)
        | Some (VAttr c, en1) => Some (VName (snd c), en1)
        | _ => None end
    | EEq a b =>
        match eval a en with
        | Some (VName x, en1) =>
            match eval b en1 with
            | Some (VName y, en2) => Some (VBool (str_eqb x y), en2)
            | _ => None end
        | Some (VSomeCount x, en1) =>
            match eval b en1 with
            | Some (VSomeCount y, en2) => Some (VBool (x =? y), en2)
            | Some (VNone, en2) => Some (VBool false, en2)
            | _ => None end
        | Some (VNone, en1) =>
            match eval b en1 with
            | Some (VSomeCount _, en2) => Some (VBool false, en2)
            | Some (VNone, en2) => Some (VBool true, en2)
            | _ => None end
        | _ => None end
    | EFind v x pred =>
        match eval v en with
        | Some (VChildren l, en1) =>
            (fix scan (l : list (nec * element)) : option (val * env) :=
               match l with
               | [] => Some (VNone, en1)
               | c :: r =>
                   match eval pred ((x, VChild c) :: en1) with
                   | Some (VBool true, _) => Some (VSomeChild c, en1)
                   | Some (VBool false, _) => scan r
                   | _ => None end
               end) l
        | _ => None end
    | EPosition v x pred =>
        match eval v en with
        | Some (VChildren l, en1) =>
            (fix scan (l : list (nec * element)) (i : nat) : option (val * env) :=
               match l with
               | [] => Some (VNone, en1)
               | c :: r =>
                   match eval pred ((x, VChild c) :: en1) with
                   | Some (VBool true, _) => Some (VSomeNat i, en1)
                   | Some (VBool false, _) => scan r (S i)
                   | _ => None end
               end) l O
        | _ => None end
    | EContains v a =>
        match eval v en with
        | Some (VChildren l, en1) =>
            match eval a en1 with
            | Some (VChild c, en2) => Some (VBool (existsb (child_eqb c) l), en2)
            | _ => None end
        | Some (VAttrs l, en1) =>
            match eval a en1 with
            | Some (VAttr c, en2) => Some (VBool (existsb (attr_eqb c) l), en2)
            | _ => None end
        | Some (VEmptyVec, en1) =>
            match eval a en1 with
            | Some (VChild _, en2) | Some (VAttr _, en2) => Some (VBool false, en2)
            | _ => None end
        | _ => None end
    | ERemoveAt p i =>
        match eval i en with
        | Some (VNat n, en1) =>
            match read_place p en1 with
            | Some (VChildren l) =>
                match nth_error l n with
                | Some c => match write_place p (VChildren (remove_nth n l)) en1 with
                            | Some en2 => Some (VChild c, en2) | None => None end
                | None => None end                (* index out of bounds: a panic *)
            | _ => None end
        | _ => None end
    | ECall f p a =>
        match eval a en with
        | Some (v2, en1) =>
            match read_place p en1 with
            | Some v1 =>
                match call f v1 v2 with
                | Some (r, v1') => match write_place p v1' en1 with
                                   | Some en2 => Some (r, en2) | None => None end
                | None => None end
            | None => None end
        | None => None end
    | EMatchOpt a x se ne =>
        match eval a en with
        | Some (VNone, en1) => eval ne en1
        | Some (VSomeChild c, en1) => eval se ((x, VChild c) :: en1)
        | Some (VSomeNat n, en1) => eval se ((x, VNat n) :: en1)
        | _ => None end
    | ENewElem n a =>
        match eval n en with
        | Some (VName x, en1) =>
            match eval a en1 with
            | Some (VAttrs l, en2) => Some (VElem (Elem x false true 1 l [] None), en2)
            | Some (VEmptyVec, en2) => Some (VElem (Elem x false true 1 [] [] None), en2)
            | _ => None end
        | _ => None end
    | ENewMap => Some (VMap [], en)
    | EMapGet m k =>
        match eval m en with
        | Some (VMap l, en1) =>
            match eval k en1 with
            | Some (VName n, en2) =>
                Some (match snap_get l n with Some c => VSomeCount c | None => VNone end, en2)
            | _ => None end
        | _ => None end
    | EMapContains m k =>
        match eval m en with
        | Some (VMap l, en1) =>
            match eval k en1 with
            | Some (VName n, en2) =>
                Some (VBool (match snap_get l n with Some _ => true | None => false end), en2)
            | _ => None end
        | _ => None end
    | ECountOf a =>
        match eval a en with
        | Some (VElem x, en1) => Some (VCount (ecount x), en1)
        | _ => None end
    | ENot a =>
        match eval a en with
        | Some (VBool b, en1) => Some (VBool (negb b), en1)
        | _ => None end
    | ESnap m b =>
        match eval m en with
        | Some (VMap l, en1) =>
            match eval b en1 with
            | Some (VBool x, en2) => Some (VSnap l x, en2)
            | _ => None end
        | _ => None end
    | EMergeNec a b =>
        match eval a en with
        | Some (VAttrs l1, en1) =>
            match eval b en1 with
            | Some (VAttrs l2, en2) => Some (VAttrs (merge_necessity str_eqb l1 l2), en2)
            | _ => None end
        | _ => None end
    | EIsEmpty a =>
        match eval a en with
        | Some (VChildren l, en1) => Some (VBool (is_nil l), en1)
        | Some (VAttrs l, en1) => Some (VBool (is_nil l), en1)
        | Some (VEmptyVec, en1) => Some (VBool true, en1)
        | _ => None end
    | EAnd a b =>
        match eval a en with
        | Some (VBool false, en1) => Some (VBool false, en1)
        | Some (VBool true, en1) => match eval b en1 with
                                    | Some (VBool y, en2) => Some (VBool y, en2) | _ => None end
        | _ => None end
    | EStr l => Some (VName l, en)
    | EFindChar a c =>
        match eval a en with
        | Some (VName x, en1) =>
            Some ((fix find (l : str) (i : nat) : val :=
                     match l with
                     | [] => VNone
                     | d :: r => if (d =? c)%N then VSomeNat i else find r (S i)
                     end) x O, en1)
        | _ => None end
    | ESliceToIncl a i =>
        match eval a en with
        | Some (VName x, en1) =>
            match eval i en1 with
            | Some (VNat n, en2) => if Nat.ltb n (List.length x) then Some (VName (firstn (S n) x), en2) else None
            | _ => None end
        | _ => None end
    | EStrEq a b =>
        match eval a en with
        | Some (VName x, en1) => match eval b en1 with
                                 | Some (VName y, en2) => Some (VBool (str_eqb x y), en2) | _ => None end
        | _ => None end
    end.

  Inductive flow := Normal | Returned.

  Definition push_val (v w : val) : option val :=
    match v, w with
    | VChildren l, VChild c => Some (VChildren (l ++ [c]))
    | VAttrs l, VAttr a => Some (VAttrs (l ++ [a]))
    | VEmptyVec, VChild c => Some (VChildren [c])
    | VEmptyVec, VAttr a => Some (VAttrs [a])
    | VNames l, VName n => Some (VNames (l ++ [n]))
    | VEmptyVec, VName n => Some (VNames [n])
    | _, _ => None
    end.

  Fixpoint exec (s : stmt) (en : env) {struct s} : option (env * flow) :=
    match s with
    | SSkip => Some (en, Normal)
    | SSeq s1 s2 =>
        match exec s1 en with
        | Some (en1, Normal) => exec s2 en1
        | r => r end
    | SLet x e => match eval e en with Some (v, en1) => Some ((x, v) :: en1, Normal) | None => None end
    | SAssign p e =>
        match eval e en with
        | Some (v, en1) => match write_place p v en1 with Some en2 => Some (en2, Normal) | None => None end
        | None => None end
    | SPush p e =>
        match eval e en with
        | Some (w, en1) =>
            match read_place p en1 with
            | Some v => match push_val v w with
                        | Some v' => match write_place p v' en1 with Some en2 => Some (en2, Normal) | None => None end
                        | None => None end
            | None => None end
        | None => None end
    | SIf c t f =>
        match eval c en with
        | Some (VBool true, en1) => exec t en1
        | Some (VBool false, en1) => exec f en1
        | _ => None end
    | SIfLetSome x e body =>
        match eval e en with
        | Some (VNone, en1) => Some (en1, Normal)
        | Some (VSomeChild c, en1) => exec body ((x, VChild c) :: en1)
        | Some (VSomeNat n, en1) => exec body ((x, VNat n) :: en1)
        | _ => None end
    | SExpr e => match eval e en with Some (_, en1) => Some (en1, Normal) | None => None end
    | SFor x e body =>
        match eval e en with
        | Some (VNames l, en1) =>
            (fix loop (items : list str) (en : env) {struct items} : option (env * flow) :=
               match items with
               | [] => Some (en, Normal)
               | i :: r =>
                   match exec body ((x, VName i) :: en) with
                   | Some (en', Normal) => loop r en'
                   | r' => r' end
               end) l en1
        | Some (VChildren l, en1) =>
            (fix loop (items : list (nec * element)) (en : env) {struct items} : option (env * flow) :=
               match items with
               | [] => Some (en, Normal)
               | i :: r =>
                   match exec body ((x, VChild i) :: en) with
                   | Some (en', Normal) => loop r en'
                   | r' => r' end
               end) l en1
        | _ => None end
    | SReturn => Some (en, Returned)
    | SMapInsert p k v =>
        match eval k en with
        | Some (VName n, en1) =>
            match eval v en1 with
            | Some (VCount c, en2) =>
                match read_place p en2 with
                | Some (VMap l) => match write_place p (VMap (l ++ [(n, c)])) en2 with
                                   | Some en3 => Some (en3, Normal) | None => None end
                | _ => None end
            | _ => None end
        | _ => None end
    | SIfLetMand x e body =>
        match eval e en with
        | Some (VChild (Mand, c), en1) => exec body ((x, VElem c) :: en1)
        | Some (VChild (Opt, _), en1) => Some (en1, Normal)
        | _ => None end
    | SWhilePop x p body =>
        match read_place p en with
        | Some VEmptyVec => Some (en, Normal)
        | Some (VNames l) =>
            (fix loop (fuel : nat) (en : env) {struct fuel} : option (env * flow) :=
               match read_place p en with
               | Some VEmptyVec => Some (en, Normal)
               | Some (VNames l') =>
                   match rev l' with
                   | [] => Some (en, Normal)
                   | lst :: rest_rev =>
                       match fuel with
                       | O => None                       (* the body grew the list: not supported *)
                       | S f =>
                           match write_place p (VNames (rev rest_rev)) en with
                           | Some en1 =>
                               match exec body ((x, VName lst) :: en1) with
                               | Some (en2, Normal) => loop f en2
                               | r => r end
                           | None => None end
                       end
                   end
               | _ => None end) (List.length l) en
        | _ => None end
    | SAddOne p =>
        match read_place p en with
        | Some (VCount k) => match write_place p (VCount (k + 1)) en with
                             | Some en1 => Some (en1, Normal) | None => None end
        | _ => None end
    | SWithChildMut x p n body =>
        match eval n en with
        | Some (VName nm, en1) =>
            match read_place p en1 with
            | Some (VElem root) =>
                match get_child (echildren root) nm with
                | None => Some (en1, Normal)
                | Some c =>
                    match exec body ((x, VElem (snd c)) :: en1) with
                    | Some (en2, fl) =>
                        match lookup x en2 with
                        | Some (VElem c') =>
                            match write_place p (VElem (set_children root (update_first (echildren root) nm (fun _ => c')))) en2 with
                            | Some en3 => Some (en3, fl) | None => None end
                        | _ => None end
                    | None => None end
                end
            | _ => None end
        | _ => None end
    end.

  (* result and the final value of the first parameter *)
  Definition run_fn (f : fn) (a1 a2 : val) : option (val * val) :=
    match exec (fn_body f) [(fn_p1 f, a1); (fn_p2 f, a2)] with
    | Some (en, fl) =>
        match lookup (fn_p1 f) en with
        | Some a1' =>
            match fl, fn_result f with
            | Normal, Some re => match eval re en with
                                 | Some (r, en') => match lookup (fn_p1 f) en' with
                                                    | Some a1'' => Some (r, a1'') | None => None end
                                 | None => None end
            | _, _ => Some (VUnit, a1')
            end
        | None => None end
    | None => None
    end.
End Eval.

(* three parameters, by value; the result only *)
Definition run_fn3 (call : string -> val -> val -> option (val * val)) (f : fn) (a1 a2 a3 : val) : option val :=
  match exec call (fn_body f) [(fn_p1 f, a1); (fn_p2 f, a2); (fn_p3 f, a3)] with
  | Some (en, Normal) =>
      match fn_result f with
      | Some re => match eval call re en with Some (r, _) => Some r | None => None end
      | None => Some VUnit end
  | _ => None
  end.

Definition no_call : string -> val -> val -> option (val * val) := fun _ _ _ => None.
(* a table of functions that call nothing (level 0), as the `call` of the functions above them *)
Definition call_of (tbl : list (string * fn)) : string -> val -> val -> option (val * val) :=
  fun name a1 a2 =>
    match find (fun p => String.eqb (fst p) name) tbl with
    | Some p => run_fn no_call (snd p) a1 a2
    | None => None
    end.
(* a second table of functions that call only functions of the first *)
Definition call_of2 (tbl0 tbl1 : list (string * fn)) : string -> val -> val -> option (val * val) :=
  fun name a1 a2 =>
    match find (fun p => String.eqb (fst p) name) tbl1 with
    | Some p => run_fn (call_of tbl0) (snd p) a1 a2
    | None => call_of tbl0 name a1 a2
    end.
