(* Documents as trees, their reader-event streams, and the document-level presentation
   of the parser (structural recursion on the tree; proved equal to the event-level
   function on events_of in Proofs/DomEquiv.v). *)
From XSG.Model Require Import Strings Necessity Element Parser.

Inductive node :=
| NElem (n : str) (emptyform : bool) (attrs : list str) (kids : list node)
| NText | NCData | NMisc.

Fixpoint events_of (nd : node) : list event :=
  match nd with
  | NElem n true attrs _ => [EEmpty (ROk n) (map (fun a => AOk (ROk a)) attrs)]
  | NElem n false attrs kids =>
      EStart (ROk n) (map (fun a => AOk (ROk a)) attrs)
      :: (fix go (ks : list node) : list event :=
            match ks with [] => [] | k :: r => events_of k ++ go r end) kids
      ++ [EEnd]
  | NText => [EText (ROk tt)]
  | NCData => [ECData (ROk tt)]
  | NMisc => [EMisc]
  end.
Definition events_of_forest (ks : list node) : list event := flat_map events_of ks.

Fixpoint absorb (nd : node) (root : element) (known : list str) {struct nd} : element * list str :=
  match nd with
  | NText | NCData => (set_text root true, known)
  | NMisc => (root, known)
  | NElem n ef attrs kids =>
      let '(snap, root1, c0) := tag_open root n attrs known ef in
      let child :=
        if ef then c0
        else (fix go (ks : list node) (r : element) (kn : list str) {struct ks} : element :=
                match ks with
                | [] => r
                | k :: ks' => let (r', kn') := absorb k r kn in go ks' r' kn'
                end) kids c0 [] in
      (tag_close root1 n child snap, known_add known n)
  end.

Fixpoint absorb_forest (ks : list node) (r : element) (kn : list str) : element * list str :=
  match ks with
  | [] => (r, kn)
  | k :: ks' => let (r', kn') := absorb k r kn in absorb_forest ks' r' kn'
  end.

Definition first_child (w : element) : option element :=
  match echildren w with [] => None | c :: _ => Some (snd c) end.

(* a document = its top-level nodes (prolog, root element, trailing misc) *)
Definition into_struct_dom (top : list node) : option element :=
  first_child (fst (absorb_forest top wrapper [])).
Definition extend_struct_dom (root : element) (top : list node) : option element :=
  first_child (fst (absorb_forest top (add_unique_child wrapper root) [])).
Definition run_dom (docs : list (list node)) : option element :=
  match docs with
  | [] => None
  | d :: r => fold_left (fun acc x => match acc with
                                      | Some e => extend_struct_dom e x
                                      | None => None end) r (into_struct_dom d)
  end.
