(* A small imperative language — exactly the fragment of Rust that src/necessity.rs uses — with a
   total big-step evaluator.  bin/translate parses the CURRENT text of /repo/src/necessity.rs into a
   term of this language on every run (coq/Generated/NecessityRs.v); Proofs/NecessityRsProofs.v
   proves that running that term is the model function `merge_necessity` for every input.  So for
   this file the model is tied to the source by translation, not only by testing: any edit of the
   function changes the generated term and the proof has to go through again.
   Trusted: the translator (bin/translate: tokenizer + recursive-descent parser, refuses anything
   it does not know) and the reading of the primitives fixed below (`inner_t`, `into_inner_t`,
   `==` on the items, `Vec::new`, `push`, `iter` / `into_iter` in order, `break`).  Ownership and
   borrowing are not modelled (they do not affect values).  Definitions only. *)
From XSG.Model Require Import Strings Necessity.
From Coq Require Import String.
Open Scope list_scope.

Inductive expr :=
| EVar (x : string)
| EBool (b : bool)
| ENewVec                              (* Vec::new() *)
| EInnerEq (a b : expr)                (* a.inner_t() == b.inner_t() *)
| EBothMandatory (a b : expr)          (* if let (Necessity::Mandatory(_), Necessity::Mandatory(_)) = (&a, &b) *)
| EOptionalOf (a : expr)               (* Necessity::Optional(a.into_inner_t()) *)
| EMandatoryOf (a : expr).             (* Necessity::Mandatory(a.into_inner_t()) *)

Inductive stmt :=
| SSkip                                (* `()` / an empty block *)
| SSeq (s1 s2 : stmt)
| SLet (x : string) (e : expr)         (* let [mut] x [: T] = e; *)
| SAssign (x : string) (e : expr)      (* x = e *)
| SPush (v : string) (e : expr)        (* v.push(e) *)
| SIf (c : expr) (t f : stmt)          (* if c {t} else {f};  match c { true => t, false => f } *)
| SFor (x : string) (it : expr) (body : stmt)   (* for x in it.iter() / it.into_iter() { body } *)
| SBreak.

Record fn := { fn_params : list string; fn_body : stmt; fn_result : expr }.

Section Eval.
  Context {A : Type} (eqb : A -> A -> bool).

  Inductive val := VBool (b : bool) | VItem (it : nec * A) | VVec (l : list (nec * A)).
  Definition env := list (string * val).

  Fixpoint lookup (x : string) (en : env) : option val :=
    match en with
    | [] => None
    | (y, v) :: r => if String.eqb y x then Some v else lookup x r
    end.
  (* assignment to the innermost binding of x *)
  Fixpoint update (x : string) (v : val) (en : env) : option env :=
    match en with
    | [] => None
    | (y, w) :: r => if String.eqb y x then Some ((y, v) :: r)
                     else match update x v r with Some r' => Some ((y, w) :: r') | None => None end
    end.

  Definition as_item (v : option val) : option (nec * A) := match v with Some (VItem i) => Some i | _ => None end.

  Fixpoint eval (e : expr) (en : env) : option val :=
    match e with
    | EVar x => lookup x en
    | EBool b => Some (VBool b)
    | ENewVec => Some (VVec [])
    | EInnerEq a b =>
        match as_item (eval a en), as_item (eval b en) with
        | Some i, Some j => Some (VBool (eqb (snd i) (snd j)))
        | _, _ => None end
    | EBothMandatory a b =>
        match as_item (eval a en), as_item (eval b en) with
        | Some (Mand, _), Some (Mand, _) => Some (VBool true)
        | Some _, Some _ => Some (VBool false)
        | _, _ => None end
    | EOptionalOf a => match as_item (eval a en) with Some i => Some (VItem (Opt, snd i)) | None => None end
    | EMandatoryOf a => match as_item (eval a en) with Some i => Some (VItem (Mand, snd i)) | None => None end
    end.

  (* result: the environment and whether a `break` is pending; None = the program is ill-typed or
     uses an unbound name (rustc would have rejected it) *)
  Fixpoint exec (s : stmt) (en : env) {struct s} : option (env * bool) :=
    match s with
    | SSkip => Some (en, false)
    | SSeq s1 s2 =>
        match exec s1 en with
        | Some (en1, true) => Some (en1, true)
        | Some (en1, false) => exec s2 en1
        | None => None end
    | SLet x e => match eval e en with Some v => Some ((x, v) :: en, false) | None => None end
    | SAssign x e =>
        match eval e en with
        | Some v => match update x v en with Some en' => Some (en', false) | None => None end
        | None => None end
    | SPush v e =>
        match lookup v en, eval e en with
        | Some (VVec l), Some (VItem i) =>
            match update v (VVec (l ++ [i])) en with Some en' => Some (en', false) | None => None end
        | _, _ => None end
    | SIf c t f =>
        match eval c en with
        | Some (VBool true) => exec t en
        | Some (VBool false) => exec f en
        | _ => None end
    | SFor x it body =>
        match eval it en with
        | Some (VVec l) =>
            (fix loop (items : list (nec * A)) (en : env) {struct items} : option (env * bool) :=
               match items with
               | [] => Some (en, false)
               | i :: r =>
                   match exec body ((x, VItem i) :: en) with
                   | Some (en', true) => Some (en', false)      (* break leaves this loop *)
                   | Some (en', false) => loop r en'
                   | None => None end
               end) l en
        | _ => None end
    | SBreak => Some (en, true)
    end.

  Fixpoint bind_params (ps : list string) (args : list val) : option env :=
    match ps, args with
    | [], [] => Some []
    | p :: ps', a :: as' => match bind_params ps' as' with Some en => Some ((p, a) :: en) | None => None end
    | _, _ => None
    end.

  Definition run_fn (f : fn) (args : list val) : option val :=
    match bind_params (fn_params f) args with
    | Some en => match exec (fn_body f) en with
                 | Some (en', _) => eval (fn_result f) en'
                 | None => None end
    | None => None
    end.
End Eval.
Arguments VBool {A}. Arguments VItem {A}. Arguments VVec {A}.
