(* What the two deserializers the presets are meant for make of a document, for exactly the
   type shapes the renderer emits (structs of String / struct fields wrapped in Option / Vec /
   Option<Vec>, bound by `#[serde(rename)]` or by the identifier).  This is a MODEL of external
   code (quick_xml::de 0.37 with the features `serialize` and `overlapped-lists`; serde-xml-rs
   0.6.0 with serde_derive): it is not proved against that code, it is validated on every run of
   bin/check C02 / C13 by compiling the generated programs and running the real deserializers on
   the source documents and on mutated documents (verdict and the multiset of string leaves must
   coincide).  Definitions only. *)
From XSG.Model Require Import Strings Chars Convert Necessity Element Parser Dom Render.
From Coq Require Import String.
Open Scope list_scope.

(* documents with their values (attribute values and character data, unescaped) *)
Inductive vnode :=
| VElem (n : str) (emptyform : bool) (attrs : list (str * str)) (kids : list vnode)
| VText (t : str) | VCData (t : str) | VMisc.

Fixpoint erase_v (v : vnode) : node :=
  match v with
  | VElem n ef attrs kids =>
      NElem n ef (map fst attrs)
            ((fix go (ks : list vnode) : list node :=
                match ks with [] => [] | k :: r => erase_v k :: go r end) kids)
  | VText _ => NText | VCData _ => NCData | VMisc => NMisc
  end.

(* deserialized values *)
Inductive fval :=
| FStr (x : str) | FNone | FSome (v : fval) | FSeq (l : list fval)
| FStruct (fields : list (str * fval)).          (* field identifier, value *)

Definition is_ws (c : chr) : bool := (c =? 32) || (c =? 9) || (c =? 10) || (c =? 13).
Fixpoint trim_start (x : str) : str :=
  match x with [] => [] | c :: r => if is_ws c then trim_start r else x end.
Definition trim_end (x : str) : str := rev (trim_start (rev x)).
Definition trim (x : str) : str := trim_end (trim_start x).

Definition velems (ks : list vnode) : list vnode :=
  filter (fun k => match k with VElem _ _ _ _ => true | _ => false end) ks.
Definition has_velem (ks : list vnode) : bool := negb (is_nil (velems ks)).
(* character data of an element, as quick_xml::de 0.37 delivers it (StartTrimmer, XmlReader::next,
   drain_text): maximal runs of Text / CDATA pieces (comments and PIs do not split a run, child
   elements do).  Within a run the leading Text pieces that are only white space are skipped (the
   reader keeps trimming at the start until something is delivered); a run with nothing left
   delivers nothing.  Otherwise one text is delivered: the first piece, if Text, trimmed at its
   start; the last piece, if Text, trimmed at its end; CDATA never trimmed, middle pieces never
   trimmed.  A run made of CDATA only can deliver the EMPTY text (`<![CDATA[]]>`): quick_xml::de
   still reports a `$text` key for it. *)
Fixpoint piece_runs (ks : list vnode) (cur : list (bool * str)) : list (list (bool * str)) :=
  match ks with
  | [] => [cur]
  | VText t :: r => piece_runs r (cur ++ [(true, t)])
  | VCData t :: r => piece_runs r (cur ++ [(false, t)])
  | VMisc :: r => piece_runs r cur
  | VElem _ _ _ _ :: r => cur :: piece_runs r []
  end.
Fixpoint drop_blank (ps : list (bool * str)) : list (bool * str) :=
  match ps with
  | (true, t) :: r => if is_nil (trim_start t) then drop_blank r else ps
  | _ => ps
  end.
Definition run_text (ps : list (bool * str)) : option str :=
  match drop_blank ps with
  | [] => None
  | [(true, t)] => Some (trim t)
  | (b, t) :: rest =>
      let first := if b then trim_start t else t in
      let mid := removelast rest in
      let '(bl, tl) := last rest (false, []) in
      Some (first ++ List.concat (map snd mid) ++ (if bl then trim_end tl else tl))
  end.
(* serde-xml-rs 0.6.0 (xml-rs with trim_whitespace, cdata_to_characters, coalesce_characters):
   the pieces of a run are joined first and the whole is trimmed, CDATA included; a run that
   comes out empty delivers nothing *)
Definition run_text_joined (ps : list (bool * str)) : option str :=
  let x := trim (List.concat (map snd ps)) in
  if is_nil x then None else Some x.
(* `verbatim` = CDATA is never trimmed (quick_xml::de) *)
Definition run_out (verbatim : bool) (ps : list (bool * str)) : list str :=
  match (if verbatim then run_text ps else run_text_joined ps) with
  | Some x => [x]
  | None => []
  end.
Definition text_runs (verbatim : bool) (ks : list vnode) : list str :=
  flat_map (run_out verbatim) (piece_runs ks []).
(* the content of a String-typed element (no child elements: one run) *)
Definition text_of (verbatim : bool) (ks : list vnode) : str := List.concat (text_runs verbatim ks).

(* the deserializer flavour *)
Record flavour := {
  fl_attr_prefix : str;          (* "@" for quick_xml::de, "" for serde-xml-rs *)
  fl_text_key : str;             (* the key character data arrives under: "$text" / "$value" *)
  fl_overlapped : bool;          (* may the occurrences of a repeated child be interleaved with others? *)
  fl_verbatim : bool             (* CDATA is never trimmed and an empty delivery still counts (quick_xml::de) *)
}.
Definition qx_flavour : flavour :=
  {| fl_attr_prefix := s "@"; fl_text_key := s "$text"; fl_overlapped := true; fl_verbatim := true |}.
Definition sx_flavour : flavour :=
  {| fl_attr_prefix := []; fl_text_key := s "$value"; fl_overlapped := false; fl_verbatim := false |}.

Definition attr_key (fl : flavour) (a : str) : str :=
  fl_attr_prefix fl ++ (if starts_with_xmlns a then a else remove_namespace a).
Definition elem_key (n : str) : str := remove_namespace n.

Definition fbound (f : field) : str := match f_rename f with Some r => r | None => f_ident f end.
Definition find_sd (ps : list structdef) (n : str) : option structdef :=
  find (fun p => str_eqb (sd_name p) n) ps.

(* the values one field receives, wrapped according to its type *)
Definition wrap_vals (w : wrap) (vals : list fval) : option fval :=
  match w, vals with
  | WPlain, [x] => Some x
  | WPlain, _ => None                          (* missing field / duplicate field *)
  | WOption, [] => Some FNone
  | WOption, [x] => Some (FSome x)
  | WOption, _ => None                         (* duplicate field *)
  | WVec, [] => None                           (* missing field *)
  | WVec, l => Some (FSeq l)
  | WOptionVec, [] => Some FNone
  | WOptionVec, l => Some (FSome (FSeq l))
  end.

Fixpoint all_some {A} (l : list (option A)) : option (list A) :=
  match l with
  | [] => Some []
  | Some x :: r => match all_some r with Some t => Some (x :: t) | None => None end
  | None :: _ => None
  end.

(* are the occurrences of key b among the element kids adjacent? *)
Fixpoint drop_while_not (b : str) (ns : list str) : list str :=
  match ns with [] => [] | n :: r => if str_eqb n b then ns else drop_while_not b r end.
Fixpoint drop_while_is (b : str) (ns : list str) : list str :=
  match ns with [] => [] | n :: r => if str_eqb n b then drop_while_is b r else ns end.
Definition adjacent (b : str) (ns : list str) : bool :=
  negb (mem b (drop_while_is b (drop_while_not b ns))).

Definition vkey (k : vnode) : list str :=
  match k with VElem m _ _ _ => [elem_key m] | _ => [] end.

Fixpoint de_as (fl : flavour) (ps : list structdef) (deny : bool) (v : vnode) (ty : tyname) {struct v}
  : option fval :=
  match v with
  | VElem n ef attrs kids0 =>
      let kids := if ef then [] else kids0 in
      match ty with
      | TyString => if has_velem kids then None else Some (FStr (text_of (fl_verbatim fl) kids))
      | TyStruct sn =>
          match find_sd ps sn with
          | None => None
          | Some sd =>
              let akeys := map (fun a => (attr_key fl (fst a), snd a)) attrs in
              let ekeys := flat_map vkey kids in
              let txts := text_runs (fl_verbatim fl) kids in
              let has_txt := negb (is_nil txts) in
              let known (b : str) := existsb (fun f => str_eqb (fbound f) b) (sd_fields sd) in
              let unknown_ok :=
                negb deny
                || (forallb (fun a => known (fst a)) akeys && forallb known ekeys
                    && (negb has_txt || known (fl_text_key fl))) in
              let field_val (f : field) : option (str * fval) :=
                let b := fbound f in
                let from_attrs := map (fun a => Some (FStr (snd a)))
                                      (filter (fun a => str_eqb (fst a) b) akeys) in
                let from_text := if str_eqb b (fl_text_key fl) then map (fun t => Some (FStr t)) txts else [] in
                let from_kids := if ef then [] else
                  (fix collect (ks : list vnode) : list (option fval) :=
                     match ks with
                     | [] => []
                     | k :: r =>
                         match k with
                         | VElem m _ _ _ =>
                             if str_eqb (elem_key m) b then de_as fl ps deny k (f_ty f) :: collect r
                             else collect r
                         | _ => collect r
                         end
                     end) kids0 in
                if negb (fl_overlapped fl) && negb (adjacent b ekeys) then None
                else
                  match all_some (from_attrs ++ from_text ++ from_kids) with
                  | None => None
                  | Some vals => match wrap_vals (f_wrap f) vals with
                                 | Some x => Some (f_ident f, x)
                                 | None => None end
                  end in
              if unknown_ok then
                match all_some (map field_val (sd_fields sd)) with
                | Some fs => Some (FStruct fs)
                | None => None
                end
              else None
          end
      end
  | _ => None
  end.

Definition vdoc_root (top : list vnode) : option vnode :=
  find (fun k => match k with VElem _ _ _ _ => true | _ => false end) top.

(* from_str::<Root>(document) where Root is the first rendered struct *)
Definition de_doc (fl : flavour) (ps : list structdef) (deny : bool) (top : list vnode) : option fval :=
  match ps, vdoc_root top with
  | r :: _, Some nd => de_as fl ps deny nd (TyStruct (sd_name r))
  | _, _ => None
  end.

(* the string leaves of a value, in order *)
Fixpoint leaves (v : fval) : list str :=
  match v with
  | FStr x => [x]
  | FNone => []
  | FSome x => leaves x
  | FSeq l => (fix go (l : list fval) : list str := match l with [] => [] | x :: r => leaves x ++ go r end) l
  | FStruct fs => (fix go (l : list (str * fval)) : list str :=
                     match l with [] => [] | x :: r => leaves (snd x) ++ go r end) fs
  end.

(* the values a document holds: every attribute value, and the character data of every element
   that has some, as the reader of the flavour delivers it *)
Fixpoint doc_values (verbatim : bool) (v : vnode) : list str :=
  match v with
  | VElem _ ef attrs kids0 =>
      let kids := if ef then [] else kids0 in
      map snd attrs
      ++ text_runs verbatim kids
      ++ (if ef then [] else
          (fix go (ks : list vnode) : list str :=
             match ks with [] => [] | k :: r => doc_values verbatim k ++ go r end) kids0)
  | _ => []
  end.
