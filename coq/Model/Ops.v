(* The public construction operations on element trees as a state machine: the state is the
   root element, an operation addresses a node by its path of child names from the root
   (resolved with get_child_mut: the first child with that name; an unresolved path makes
   the operation a no-op, as in the harness). *)
From XSG.Model Require Import Strings Necessity Element Parser.

Inductive op :=
| OAdd (p : list str) (n : str) (attrs : list str)     (* add_unique_child (Element::new n attrs) *)
| OAddCopy (src dst : list str)                        (* add_unique_child (clone of the node at src) under dst *)
| OMove (src : list str) (n : str) (dst : list str)    (* remove_child n at src, add_unique_child it under dst *)
| OOpt (p : list str) (n : str)                        (* set_child_optional *)
| ORemove (p : list str) (n : str)                     (* remove_child *)
| OMerge (p : list str) (l : list (nec * str))         (* merge_attr *)
| OMultiple (p : list str)                             (* set_multiple *)
| OText (p : list str) (b : bool)                      (* text = Some(..) / None *)
| OIncr (p : list str).                                (* increment *)

Fixpoint get_at (e : element) (p : list str) : option element :=
  match p with
  | [] => Some e
  | n :: r => match get_child (echildren e) n with
              | Some c => get_at (snd c) r
              | None => None end
  end.
Fixpoint update_at (e : element) (p : list str) (f : element -> element) : element :=
  match p with
  | [] => f e
  | n :: r => set_children e (update_first (echildren e) n (fun c => update_at c r f))
  end.

Definition step (e : element) (o : op) : element * option (nec * element) :=
  match o with
  | OAdd p n attrs => (update_at e p (fun x => add_unique_child x (new_element n attrs)), None)
  | OAddCopy src dst =>
      match get_at e src with
      | Some c => (update_at e dst (fun x => add_unique_child x c), None)
      | None => (e, None) end
  | OMove src n dst =>
      match get_at e src with
      | Some sn =>
          match remove_child (echildren sn) n with
          | (Some x, rest) =>
              let e1 := update_at e src (fun y => set_children y rest) in
              (update_at e1 dst (fun d => add_unique_child d (snd x)), Some x)
          | (None, _) => (e, None) end
      | None => (e, None) end
  | OOpt p n => (update_at e p (fun x => set_child_optional x n), None)
  | ORemove p n =>
      match get_at e p with
      | Some x => (update_at e p (fun y => set_children y (snd (remove_child (echildren y) n))),
                   fst (remove_child (echildren x) n))
      | None => (e, None) end
  | OMerge p l => (update_at e p (fun x => merge_attr x l), None)
  | OMultiple p => (update_at e p set_multiple, None)
  | OText p b => (update_at e p (fun x => set_text x b), None)
  | OIncr p => (update_at e p increment, None)
  end.

Definition run_ops (e : element) (ops : list op) : element :=
  fold_left (fun acc o => fst (step acc o)) ops e.
