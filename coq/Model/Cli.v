(* src/main.rs + src/args.rs: the command-line program as a function from its arguments and
   the outcome of the two file-system interactions to a list of effects and an exit status.
   clap, std::fs and process exit are not modelled: reading the input and creating the
   output are oracles (read_result, create_ok). *)
From XSG.Model Require Import Strings Necessity Element Parser Render.
From Coq Require Import String.
Open Scope list_scope.

Inductive parser_arg := PQuickXmlDe | PSerdeXmlRs.
Record args := {
  a_parser : option parser_arg;      (* --parser, None = flag omitted *)
  a_derive : option str;             (* --derive *)
  a_sort : option sortby;            (* --sort *)
  a_output : bool                    (* an output path was given *)
}.
Inductive read_result :=
| RFail                              (* fs::read_to_string failed: missing / unreadable / not UTF-8 *)
| RText (evs : list event).          (* the reader events of the text that was read *)

Inductive effect :=
| Stdout (text : str)
| Stderr                             (* some diagnostic *)
| CreateTruncate                     (* File::create on the output path *)
| WriteFile (text : str).

Definition opts_of (a : args) : options :=
  let base := match a_parser a with
              | Some PSerdeXmlRs => serde_xml_rs
              | _ => quick_xml_de end in
  {| text_identifier := text_identifier base;
     attribute_prefix := attribute_prefix base;
     derive := match a_derive a with Some d => d | None => s "Serialize, Deserialize" end;
     sort := match a_sort a with Some x => x | None => Unsorted end |}.

Definition header : str := s "use serde::{Deserialize, Serialize};" ++ [10; 10].

Definition cli_run (a : args) (r : read_result) (create_ok : bool) : list effect * N :=
  match r with
  | RFail => ([Stderr], 1)
  | RText evs =>
      match into_struct_ev evs with
      | Ok e =>
          let text := header ++ to_serde_struct (opts_of a) e in
          if a_output a then
            if create_ok then ([CreateTruncate; WriteFile text], 0) else ([Stderr], 1)
          else ([Stdout (text ++ [10])], 0)
      | _ => ([Stderr], 1)
      end
  end.
