(* A fifth small imperative language: the fragment of Rust that `compute_name_hints` of
   src/element.rs (with its nested `fill_names` and `minimal_different_lengths`) is written in, with
   a total evaluator on fuel.  bin/translate parses the CURRENT text of the three functions into
   terms of this language on every run of bin/check C14 (coq/Generated/HintsRs.v);
   Proofs/HintsRsProofs.v proves that running them is `compute_name_hints` of Model/Render.v.
   Trusted: the translator and the reading of the primitives fixed here: `VecDeque::push_front`/
   `pop_front`/`get`/`len`, `Vec::push`/`get`/`len`, `String::push_str`, ranges `0..n`,
   `iter_mut().enumerate().take(n)`, `iter().map(|v| v.len()).min()/.max().unwrap_or(0)`,
   `iter().collect::<HashSet<_>>().len()` (the number of distinct strings), `error!` (no effect on
   values), the idiom `match names.get_mut(&k) { Some(n) => n.push(t), None => names.insert(k,
   vec![t]) }` (= `bucket_add`), and that `names.iter()` visits the buckets in insertion order
   (ANY order gives the same hints up to the order of the entries, which are only looked up:
   `C05_hash_order_independent`).  Definitions only. *)
From XSG.Model Require Import Strings Chars Convert Necessity Element Render.
From Coq Require Import String.
Open Scope list_scope.

Inductive expr :=
| EVar (x : string)
| ENat (n : nat)
| EFormattedName (x : string)             (* x.formatted_name() *)
| ELen (x : string)                       (* x.len() on a Vec / VecDeque / slice *)
| EMinLen (x : string)                    (* x.iter().map(|v| v.len()).min().unwrap_or(0) *)
| EMaxLen (x : string)                    (* x.iter().map(|v| v.len()).max().unwrap_or(0) *)
| EDistinct (x : string)                  (* x.iter().collect::<HashSet<_>>().len() *)
| EEqNat (a b : expr)
| EAddOne (e : expr)                      (* e + 1 *)
| ECallMdl (x : string)                   (* minimal_different_lengths(x) *)
| ENewStrs | ENewDeque | ENewBuckets | ENewHints.

Inductive stmt :=
| SSkip
| SSeq (s1 s2 : stmt)
| SLet (x : string) (e : expr)
| SPushFront (d : string) (e : expr)      (* d.push_front(e.clone()) *)
| SPopFront (d : string)                  (* d.pop_front() *)
| SBucketAdd (m k t : string)             (* match m.get_mut(&k) { Some(n) => n.push(t.clone()), None => m.insert(k, vec![t.clone()]) } *)
| SPushEmpty (v : string)                 (* v.push(String::new()) *)
| SForRange (x : string) (n : expr) (body : stmt)                 (* for x in 0..n *)
| SForEnumMut (j b : string) (v : string) (n : expr) (body : stmt) (* for (j, b) in v.iter_mut().enumerate().take(n) *)
| SIfLetGetDeque (x : string) (vs : string) (j : string) (t f : stmt)   (* if let Some(x) = vs.get(j) {t} else {f} *)
| SIfLetGetItem (x : string) (d : string) (i : string) (t f : stmt)     (* if let Some(x) = d.get(i) {t} else {f} *)
| SPushStrAt (v : string) (j : string) (e : string)   (* b.push_str(e) where b is v[j] *)
| SIfReturn (c : expr) (e : expr)         (* if c { return e; } *)
| SIfElse (c : expr) (t f : stmt)
| SHintInsert (h : string) (k : string) (v : expr)    (* h.insert(k.clone(), v) *)
| SForChildren (x : string) (el : string) (body : stmt)   (* for x in el.children.iter(), x.inner_t() *)
| SForBuckets (k t : string) (m : string) (body : stmt)   (* for (k, t) in m.iter() *)
| SCallFillNames (el tr na : string).     (* fill_names(el, tr, na): tr and na are written back *)

Record fn := { fn_params : list string; fn_body : stmt; fn_result : option expr }.

Inductive val :=
| VStr (x : str) | VNat (n : nat) | VBool (b : bool)
| VDeque (l : list str) | VDeques (l : list (list str)) | VStrs (l : list str)
| VBuckets (b : buckets) | VHints (h : hints) | VElem (e : element).

Definition env := list (string * val).
Fixpoint lookup (x : string) (en : env) : option val :=
  match en with
  | [] => None
  | (y, v) :: r => if String.eqb y x then Some v else lookup x r
  end.
Fixpoint update (x : string) (v : val) (en : env) : option env :=
  match en with
  | [] => None
  | (y, w) :: r => if String.eqb y x then Some ((y, v) :: r)
                   else match update x v r with Some r' => Some ((y, w) :: r') | None => None end
  end.

Fixpoint distinct_count (l : list str) : nat :=
  match l with [] => 0 | x :: r => if mem x r then distinct_count r else S (distinct_count r) end.
Fixpoint set_nth (n : nat) (l : list str) (x : str) : list str :=
  match n, l with
  | _, [] => []
  | O, _ :: r => x :: r
  | S k, y :: r => y :: set_nth k r x
  end.

Section Eval.
  Context (fillnames mdl : fn).

  Fixpoint eval (fuel : nat) (e : expr) (en : env) {struct fuel} : option val :=
    match fuel with
    | O => None
    | S fuel' =>
        let ev := eval fuel' in
        match e with
        | EVar x => lookup x en
        | ENat n => Some (VNat n)
        | EFormattedName x => match lookup x en with Some (VElem e) => Some (VStr (formatted_name e)) | _ => None end
        | ELen x =>
            match lookup x en with
            | Some (VDeque l) | Some (VStrs l) => Some (VNat (List.length l))
            | Some (VDeques l) => Some (VNat (List.length l))
            | _ => None end
        | EMinLen x =>
            match lookup x en with
            | Some (VDeques l) =>
                let lens := map (@List.length str) l in
                Some (VNat (fold_right Nat.min (hd 0%nat lens) lens))
            | _ => None end
        | EMaxLen x =>
            match lookup x en with
            | Some (VDeques l) => Some (VNat (fold_right Nat.max 0%nat (map (@List.length str) l)))
            | _ => None end
        | EDistinct x => match lookup x en with Some (VStrs l) => Some (VNat (distinct_count l)) | _ => None end
        | EEqNat a b =>
            match ev a en, ev b en with
            | Some (VNat x), Some (VNat y) => Some (VBool (Nat.eqb x y))
            | _, _ => None end
        | EAddOne a => match ev a en with Some (VNat x) => Some (VNat (S x)) | _ => None end
        | ECallMdl x =>
            match lookup x en, fn_params mdl with
            | Some (VDeques l), [pv] =>
                match exec fuel' (fn_body mdl) [(pv, VDeques l)] with
                | Some (_, Some r) => Some r
                | Some (en', None) => match fn_result mdl with Some re => eval fuel' re en' | None => None end
                | None => None end
            | _, _ => None end
        | ENewStrs => Some (VStrs [])
        | ENewDeque => Some (VDeque [])
        | ENewBuckets => Some (VBuckets [])
        | ENewHints => Some (VHints [])
        end
    end
  with exec (fuel : nat) (s : stmt) (en : env) {struct fuel} : option (env * option val) :=
    match fuel with
    | O => None
    | S fuel' =>
        match s with
        | SSkip => Some (en, None)
        | SSeq s1 s2 =>
            match exec fuel' s1 en with
            | Some (en1, None) => exec fuel' s2 en1
            | r => r end
        | SLet x e => match eval fuel' e en with Some v => Some ((x, v) :: en, None) | None => None end
        | SPushFront d e =>
            match lookup d en, eval fuel' e en with
            | Some (VDeque l), Some (VStr x) =>
                match update d (VDeque (x :: l)) en with Some en1 => Some (en1, None) | None => None end
            | _, _ => None end
        | SPopFront d =>
            match lookup d en with
            | Some (VDeque l) => match update d (VDeque (tl l)) en with Some en1 => Some (en1, None) | None => None end
            | _ => None end
        | SBucketAdd m k t =>
            match lookup m en, lookup k en, lookup t en with
            | Some (VBuckets b), Some (VStr kk), Some (VDeque tr) =>
                match update m (VBuckets (bucket_add b kk tr)) en with Some en1 => Some (en1, None) | None => None end
            | _, _, _ => None end
        | SPushEmpty v =>
            match lookup v en with
            | Some (VStrs l) => match update v (VStrs (l ++ [[]])) en with Some en1 => Some (en1, None) | None => None end
            | _ => None end
        | SForRange x n body =>
            match eval fuel' n en with
            | Some (VNat k) =>
                (fix loop (k i : nat) (en : env) {struct k} : option (env * option val) :=
                   match k with
                   | O => Some (en, None)
                   | S k' => match exec fuel' body ((x, VNat i) :: en) with
                             | Some (en', None) => loop k' (S i) en'
                             | r => r end
                   end) k O en
            | _ => None end
        | SForEnumMut j b v n body =>
            match lookup v en, eval fuel' n en with
            | Some (VStrs l), Some (VNat k) =>
                (* the items are visited by index; the body reaches item j through SPushStrAt *)
                (fix loop (cnt i : nat) (en : env) {struct cnt} : option (env * option val) :=
                   match cnt with
                   | O => Some (en, None)
                   | S c' => match exec fuel' body ((j, VNat i) :: en) with
                             | Some (en', None) => loop c' (S i) en'
                             | r => r end
                   end) (Nat.min k (List.length l)) O en
            | _, _ => None end
        | SIfLetGetDeque x vs j t f =>
            match lookup vs en, lookup j en with
            | Some (VDeques l), Some (VNat i) =>
                match nth_error l i with
                | Some d => exec fuel' t ((x, VDeque d) :: en)
                | None => exec fuel' f en end
            | _, _ => None end
        | SIfLetGetItem x d i t f =>
            match lookup d en, lookup i en with
            | Some (VDeque l), Some (VNat k) =>
                match nth_error l k with
                | Some it => exec fuel' t ((x, VStr it) :: en)
                | None => exec fuel' f en end
            | _, _ => None end
        | SPushStrAt v j e =>
            match lookup v en, lookup j en, lookup e en with
            | Some (VStrs l), Some (VNat i), Some (VStr x) =>
                match nth_error l i with
                | Some old => match update v (VStrs (set_nth i l (old ++ x))) en with
                              | Some en1 => Some (en1, None) | None => None end
                | None => None end
            | _, _, _ => None end
        | SIfReturn c e =>
            match eval fuel' c en with
            | Some (VBool true) => match eval fuel' e en with Some v => Some (en, Some v) | None => None end
            | Some (VBool false) => Some (en, None)
            | _ => None end
        | SIfElse c t f =>
            match eval fuel' c en with
            | Some (VBool true) => exec fuel' t en
            | Some (VBool false) => exec fuel' f en
            | _ => None end
        | SHintInsert h k v =>
            match lookup h en, lookup k en, eval fuel' v en with
            | Some (VHints hh), Some (VStr kk), Some (VNat n) =>
                match update h (VHints (hh ++ [(kk, n)])) en with Some en1 => Some (en1, None) | None => None end
            | _, _, _ => None end
        | SForChildren x el body =>
            match lookup el en with
            | Some (VElem e) =>
                (fix loop (items : list (nec * element)) (en : env) : option (env * option val) :=
                   match items with
                   | [] => Some (en, None)
                   | i :: r => match exec fuel' body ((x, VElem (snd i)) :: en) with
                               | Some (en', None) => loop r en'
                               | r' => r' end
                   end) (echildren e) en
            | _ => None end
        | SForBuckets k t m body =>
            match lookup m en with
            | Some (VBuckets b) =>
                (fix loop (items : buckets) (en : env) : option (env * option val) :=
                   match items with
                   | [] => Some (en, None)
                   | i :: r => match exec fuel' body ((k, VStr (fst i)) :: (t, VDeques (snd i)) :: en) with
                               | Some (en', None) => loop r en'
                               | r' => r' end
                   end) b en
            | _ => None end
        | SCallFillNames el tr na =>
            match lookup el en, lookup tr en, lookup na en, fn_params fillnames with
            | Some (VElem e), Some (VDeque t), Some (VBuckets b), [qe; qt; qn] =>
                match exec fuel' (fn_body fillnames) [(qe, VElem e); (qt, VDeque t); (qn, VBuckets b)] with
                | Some (en', None) =>
                    match lookup qt en', lookup qn en' with
                    | Some t', Some b' =>
                        match update tr t' en with
                        | Some e1 => match update na b' e1 with Some e2 => Some (e2, None) | None => None end
                        | None => None end
                    | _, _ => None end
                | _ => None end
            | _, _, _, _ => None end
        end
    end.

  Definition run_hints (fuel : nat) (compute : fn) (e : element) : option hints :=
    match fn_params compute, fn_result compute with
    | [ps], Some re =>
        match exec fuel (fn_body compute) [(ps, VElem e)] with
        | Some (en, None) => match eval fuel re en with Some (VHints h) => Some h | _ => None end
        | _ => None end
    | _, _ => None
    end.
End Eval.
