(* Strings: a Rust `String` is modelled as the list of its Unicode scalar values.
   Equality and `Ord` on `String` coincide with equality / lexicographic order on
   code-point lists (UTF-8 preserves code-point order). Definitions only. *)
From Coq Require Export List NArith Bool Arith.
From Coq Require Import String Ascii DecimalString.
Export ListNotations.
Open Scope N_scope.

Definition chr := N.
Definition str := list chr.

(* ASCII literals of the model *)
Definition s (x : string) : str := map N_of_ascii (list_ascii_of_string x).

Fixpoint str_eqb (a b : str) : bool :=
  match a, b with
  | [], [] => true
  | x :: a', y :: b' => (x =? y) && str_eqb a' b'
  | _, _ => false
  end.

(* strict lexicographic order = Rust `String: Ord` *)
Fixpoint str_ltb (a b : str) : bool :=
  match a, b with
  | _, [] => false
  | [], _ :: _ => true
  | x :: a', y :: b' => if x <? y then true else if y <? x then false else str_ltb a' b'
  end.
Definition str_leb (a b : str) : bool := negb (str_ltb b a).

Definition mem (x : str) (l : list str) : bool := existsb (str_eqb x) l.

Definition ends_with (x suf : str) : bool :=
  (List.length suf <=? List.length x)%nat
  && str_eqb (skipn (List.length x - List.length suf) x) suf.

(* `format!("{}", i)` for a non-negative integer: the standard library's decimal printer *)
Definition dec (n : nat) : str := s (NilZero.string_of_uint (Nat.to_uint n)).

(* insertion sort; used wherever the code sorts by a key *)
Fixpoint insert {A} (leb : A -> A -> bool) (x : A) (l : list A) : list A :=
  match l with
  | [] => [x]
  | y :: r => if leb x y then x :: l else y :: insert leb x r
  end.
Definition isort {A} (leb : A -> A -> bool) (l : list A) : list A := fold_right (insert leb) [] l.

Definition is_nil {A} (l : list A) : bool := match l with [] => true | _ => false end.
