(* convert_string 0.2.0 (src/impls.rs), function by function. *)
From XSG.Model Require Import Strings Chars.
From Coq Require Import String.

Definition colon : chr := 58.
Definition us : chr := 95.

(* to_pascal_case: state = (capitalize_next, last_uppercase) *)
Fixpoint pascal_go (cs : str) (cap_next last_upper : bool) : str :=
  match cs with
  | [] => []
  | c :: r =>
      if is_alphanumeric c then
        if cap_next || (is_uppercase c && negb last_upper)
        then to_uppercase c ++ pascal_go r false (is_uppercase c)
        else to_lowercase c ++ pascal_go r cap_next (is_uppercase c)
      else pascal_go r true (is_uppercase c)
  end.
Definition to_pascal_case (cs : str) : str := pascal_go cs true false.

(* to_snake_case: state = (result.is_empty(), last_uppercase, last_underscore) *)
Fixpoint snake_go (cs : str) (empty last_upper last_us : bool) : str :=
  match cs with
  | [] => []
  | c :: r =>
      if is_uppercase c then
        (if negb empty && negb last_upper && negb last_us then [us] else [])
        ++ to_lowercase c ++ snake_go r (empty && is_nil (to_lowercase c)) true false
      else if negb (is_alphanumeric c) then
        (if negb last_us then [us] else []) ++ snake_go r (empty && last_us) false true
      else c :: snake_go r false false false
  end.
Definition to_snake_case (cs : str) : str := snake_go cs true false false.

Definition keywords : list str := map s
 ["as";"break";"const";"continue";"crate";"else";"enum";"extern";"false";"fn";"for";"if";
  "impl";"in";"let";"loop";"match";"mod";"move";"mut";"pub";"ref";"return";"self";"Self";
  "static";"struct";"super";"trait";"true";"type";"unsafe";"use";"where";"while";"async";
  "await";"dyn";"abstract";"become";"box";"do";"final";"macro";"override";"priv";"typeof";
  "unsized";"virtual";"yield";"try"]%string.
Definition is_keyword (x : str) : bool := mem x keywords.

Definition to_valid_key (name prefix : str) : str :=
  let n1 := to_snake_case (map (fun c => if c =? colon then us else c) name) in
  if is_keyword n1 then to_snake_case prefix ++ [us] ++ n1 else n1.

Fixpoint after_colon (l : str) : option str :=
  match l with [] => None | c :: r => if c =? colon then Some r else after_colon r end.
Definition remove_namespace (x : str) : str :=
  match after_colon x with Some r => r | None => x end.

(* element.rs: starts_with_xmlns — the text up to and including the first ':' is "xmlns:" *)
Fixpoint upto_colon (l : str) : option str :=
  match l with
  | [] => None
  | c :: r => if c =? colon then Some [c] else option_map (cons c) (upto_colon r)
  end.
Definition starts_with_xmlns (x : str) : bool :=
  match upto_colon x with Some p => str_eqb p (s "xmlns:") | None => false end.
