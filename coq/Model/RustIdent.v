(* A third small imperative language: the fragment of Rust that src/element/identifier.rs is
   written in (`ReservedNames::create_unused_name`, `Map::new`), with a total evaluator on fuel.
   bin/translate parses the CURRENT text of the two functions into terms of this language on every
   run of bin/check C04 (coq/Generated/IdentRs.v); Proofs/IdentRsProofs.v proves that running them
   is `create_unused_name` / `id_new` of Model/Render.v for every input.
   Trusted: the translator and the reading of the primitives fixed here: `Vec::contains`, `push`,
   `String::ends_with`, `format!` with `{}` holes (strings as they are, integers in decimal),
   `clone`, `to_string`, `HashMap::insert` (the map as the sequence of its inserts),
   `convert_string::to_valid_key` (the model function of Model/Convert.v, compared with the real
   one on every run by the character correspondence), iteration front to back.  Definitions only. *)
From XSG.Model Require Import Strings Chars Convert Necessity Element Render.
From Coq Require Import String.
Open Scope list_scope.

Inductive expr :=
| EVar (x : string)
| EStr (l : str)                          (* "literal" / "literal".to_string() *)
| EZero                                   (* 0 *)
| ETy (t : idty)                          (* Type::X *)
| EReserved (x : string)                  (* x.reserved_names — the one field of ReservedNames *)
| ETypeIs (x : string) (t : idty)         (* x == Type::T *)
| EEq (a b : expr)                        (* equality of strings *)
| EContains (v e : expr)                  (* v.contains(&e) *)
| EEndsWith (e : expr) (suffix : str)     (* e.ends_with("suffix") *)
| ENot (e : expr)
| EAnd (a b : expr)
| EFormat (parts : list fpart)            (* format!("..{}..", args) *)
| ECallCreate (r : string) (name : expr) (ty : expr)   (* r.create_unused_name(&name, ty): updates r *)
| EToValidKey (a b : expr)                (* a.to_valid_key(&b) *)
| EElemName (x : string)                  (* x.name.to_string() for the element x *)
| EChildName (x : string)                 (* x.inner_t().name.to_string() for a child x *)
| EAttrName (x : string)                  (* x.inner_t().to_string() for an attribute x *)
| ENewReserved                            (* ReservedNames::new() *)
| ENewMap                                 (* HashMap::new() *)
with fpart := FLit (l : str) | FArg (e : expr).

Inductive stmt :=
| SSkip
| SSeq (s1 s2 : stmt)
| SLet (x : string) (e : expr)
| SAssign (x : string) (e : expr)
| SAddOne (x : string)                    (* x += 1 *)
| SPushReserved (r : string) (e : expr)   (* r.reserved_names.push(e) *)
| SIfReturn (c : expr) (e : expr)         (* if c { return e; } *)
| SWhile (c : expr) (body : stmt)
| SForChildren (x : string) (el : string) (body : stmt)   (* for x in el.children.iter() *)
| SForAttrs (x : string) (el : string) (body : stmt)      (* for x in el.attributes.iter() *)
| SInsert (m : string) (k : expr) (t : idty) (v : expr).  (* m.insert((k, Type::T), v) *)

Record fn := { fn_params : list string; fn_body : stmt; fn_result : expr }.

Inductive val :=
| VStr (x : str) | VNat (n : nat) | VBool (b : bool) | VTy (t : idty)
| VReserved (l : list str)                (* a ReservedNames value *)
| VMap (m : idmap)
| VElem (e : element) | VChild (c : nec * element) | VAttr (a : nec * str).

Definition env := list (string * val).
Fixpoint lookup (x : string) (en : env) : option val :=
  match en with
  | [] => None
  | (y, v) :: r => if String.eqb y x then Some v else lookup x r
  end.
Fixpoint update (x : string) (v : val) (en : env) : option env :=
  match en with
  | [] => None
  | (y, w) :: r => if String.eqb y x then Some ((y, v) :: r)
                   else match update x v r with Some r' => Some ((y, w) :: r') | None => None end
  end.

Section Eval.
  (* the translated create_unused_name (Map::new calls it; it calls itself) *)
  Context (create : fn).

  (* `fuel` bounds the nesting of calls and the iterations of each `while` *)
  Fixpoint eval (fuel : nat) (e : expr) (en : env) {struct fuel} : option (val * env) :=
    match fuel with
    | O => None
    | S fuel' =>
        let ev := eval fuel' in
        match e with
        | EVar x => match lookup x en with Some v => Some (v, en) | None => None end
        | EStr l => Some (VStr l, en)
        | EZero => Some (VNat 0, en)
        | ETy t => Some (VTy t, en)
        | EReserved x => match lookup x en with Some (VReserved l) => Some (VReserved l, en) | _ => None end
        | ETypeIs x t => match lookup x en with Some (VTy u) => Some (VBool (idty_eqb u t), en) | _ => None end
        | EEq a b =>
            match ev a en with
            | Some (VStr x, en1) => match ev b en1 with
                                    | Some (VStr y, en2) => Some (VBool (str_eqb x y), en2) | _ => None end
            | _ => None end
        | EContains v a =>
            match ev v en with
            | Some (VReserved l, en1) => match ev a en1 with
                                         | Some (VStr x, en2) => Some (VBool (mem x l), en2) | _ => None end
            | _ => None end
        | EEndsWith a sfx =>
            match ev a en with Some (VStr x, en1) => Some (VBool (ends_with x sfx), en1) | _ => None end
        | ENot a => match ev a en with Some (VBool b, en1) => Some (VBool (negb b), en1) | _ => None end
        | EAnd a b =>
            (* && is lazy: b is only evaluated when a is true *)
            match ev a en with
            | Some (VBool false, en1) => Some (VBool false, en1)
            | Some (VBool true, en1) => match ev b en1 with
                                        | Some (VBool y, en2) => Some (VBool y, en2) | _ => None end
            | _ => None end
        | EFormat parts =>
            (fix go (ps : list fpart) (en : env) : option (val * env) :=
               match ps with
               | [] => Some (VStr [], en)
               | FLit l :: r => match go r en with
                                | Some (VStr t, en1) => Some (VStr (l ++ t), en1) | _ => None end
               | FArg a :: r =>
                   match ev a en with
                   | Some (VStr x, en1) => match go r en1 with
                                           | Some (VStr t, en2) => Some (VStr (x ++ t), en2) | _ => None end
                   | Some (VNat n, en1) => match go r en1 with
                                           | Some (VStr t, en2) => Some (VStr (dec n ++ t), en2) | _ => None end
                   | _ => None end
               end) parts en
        | ECallCreate r nm ty =>
            match ev nm en with
            | Some (VStr x, en1) =>
                match ev ty en1 with
                | Some (VTy t, en2) =>
                    match lookup r en2 with
                    | Some (VReserved l) =>
                        match fn_params create with
                        | [pself; pname; pty] =>
                            match exec fuel' (fn_body create) [(pself, VReserved l); (pname, VStr x); (pty, VTy t)] with
                            | Some (en3, Some res) =>
                                (* returned early: the value of the `return` expression *)
                                match lookup pself en3 with
                                | Some (VReserved l') => match update r (VReserved l') en2 with
                                                         | Some en4 => Some (res, en4) | None => None end
                                | _ => None end
                            | Some (en3, None) =>
                                match ev (fn_result create) en3 with
                                | Some (res, en3') =>
                                    match lookup pself en3' with
                                    | Some (VReserved l') => match update r (VReserved l') en2 with
                                                             | Some en4 => Some (res, en4) | None => None end
                                    | _ => None end
                                | None => None end
                            | None => None end
                        | _ => None end
                    | _ => None end
                | _ => None end
            | _ => None end
        | EToValidKey a b =>
            match ev a en with
            | Some (VStr x, en1) => match ev b en1 with
                                    | Some (VStr y, en2) => Some (VStr (to_valid_key x y), en2) | _ => None end
            | _ => None end
        | EElemName x => match lookup x en with Some (VElem e) => Some (VStr (ename e), en) | _ => None end
        | EChildName x => match lookup x en with Some (VChild c) => Some (VStr (ename (snd c)), en) | _ => None end
        | EAttrName x => match lookup x en with Some (VAttr a) => Some (VStr (snd a), en) | _ => None end
        | ENewReserved => Some (VReserved [], en)
        | ENewMap => Some (VMap [], en)
        end
    end
  (* the environment and, if a `return e` was executed, its value *)
  with exec (fuel : nat) (s : stmt) (en : env) {struct fuel} : option (env * option val) :=
    match fuel with
    | O => None
    | S fuel' =>
        match s with
        | SSkip => Some (en, None)
        | SSeq s1 s2 =>
            match exec fuel' s1 en with
            | Some (en1, None) => exec fuel' s2 en1
            | r => r end
        | SLet x e => match eval fuel' e en with Some (v, en1) => Some ((x, v) :: en1, None) | None => None end
        | SAssign x e =>
            match eval fuel' e en with
            | Some (v, en1) => match update x v en1 with Some en2 => Some (en2, None) | None => None end
            | None => None end
        | SAddOne x =>
            match lookup x en with
            | Some (VNat n) => match update x (VNat (S n)) en with Some en1 => Some (en1, None) | None => None end
            | _ => None end
        | SPushReserved r e =>
            match eval fuel' e en with
            | Some (VStr x, en1) =>
                match lookup r en1 with
                | Some (VReserved l) => match update r (VReserved (l ++ [x])) en1 with
                                        | Some en2 => Some (en2, None) | None => None end
                | _ => None end
            | _ => None end
        | SIfReturn c e =>
            match eval fuel' c en with
            | Some (VBool true, en1) => match eval fuel' e en1 with
                                        | Some (v, en2) => Some (en2, Some v) | None => None end
            | Some (VBool false, en1) => Some (en1, None)
            | _ => None end
        | SWhile c body =>
            match eval fuel' c en with
            | Some (VBool true, en1) =>
                match exec fuel' body en1 with
                | Some (en2, None) => exec fuel' (SWhile c body) en2
                | r => r end
            | Some (VBool false, en1) => Some (en1, None)
            | _ => None end
        | SForChildren x el body =>
            match lookup el en with
            | Some (VElem e) =>
                (fix loop (items : list (nec * element)) (en : env) : option (env * option val) :=
                   match items with
                   | [] => Some (en, None)
                   | i :: r => match exec fuel' body ((x, VChild i) :: en) with
                               | Some (en', None) => loop r en'
                               | r' => r' end
                   end) (echildren e) en
            | _ => None end
        | SForAttrs x el body =>
            match lookup el en with
            | Some (VElem e) =>
                (fix loop (items : list (nec * str)) (en : env) : option (env * option val) :=
                   match items with
                   | [] => Some (en, None)
                   | i :: r => match exec fuel' body ((x, VAttr i) :: en) with
                               | Some (en', None) => loop r en'
                               | r' => r' end
                   end) (eattrs e) en
            | _ => None end
        | SInsert m k t v =>
            match eval fuel' k en with
            | Some (VStr kk, en1) =>
                match eval fuel' v en1 with
                | Some (VStr vv, en2) =>
                    match lookup m en2 with
                    | Some (VMap mm) => match update m (VMap (mm ++ [((kk, t), vv)])) en2 with
                                        | Some en3 => Some (en3, None) | None => None end
                    | _ => None end
                | _ => None end
            | _ => None end
        end
    end.

  Definition run_create (fuel : nat) (l : list str) (name : str) (t : idty) : option (str * list str) :=
    match eval fuel (ECallCreate "r"%string (EStr name) (ETy t)) [("r"%string, VReserved l)] with
    | Some (VStr u, en) => match lookup "r"%string en with Some (VReserved l') => Some (u, l') | _ => None end
    | _ => None
    end.

  Definition run_new (fuel : nat) (mapnew : fn) (e : element) : option idmap :=
    match fn_params mapnew with
    | [pel] =>
        match exec fuel (fn_body mapnew) [(pel, VElem e)] with
        | Some (en, None) => match eval fuel (fn_result mapnew) en with
                             | Some (VMap m, _) => Some m | _ => None end
        | _ => None end
    | _ => None
    end.
End Eval.
