(* Character classes used by convert_string: `char::is_alphanumeric`, `is_uppercase`,
   `to_uppercase`, `to_lowercase`. Exact by arithmetic for ASCII; table-driven (generated
   from Rust's std and re-checked exhaustively on every run) for the finite non-ASCII
   alphabet Sigma+ = the keys of the table ([sigma_lo, sigma_hi] closed under case mapping);
   every other code point is classified as
   "other" (the model is not claimed faithful there). *)
From XSG.Model Require Import Strings UnicodeTables.

Fixpoint tbl_find (t : tbl) (c : N) : option cinfo :=
  match t with
  | TLeaf => None
  | TNode l k v r => if c <? k then tbl_find l c else if k <? c then tbl_find r c else Some v
  end.

Definition is_ascii (c : chr) : bool := c <? 128.
Definition a_upper (c : chr) := (65 <=? c) && (c <=? 90).
Definition a_lower (c : chr) := (97 <=? c) && (c <=? 122).
Definition a_digit (c : chr) := (48 <=? c) && (c <=? 57).

Definition is_uppercase (c : chr) : bool :=
  if is_ascii c then a_upper c
  else match tbl_find unicode_table c with Some i => ci_upper i | None => false end.
Definition is_alphanumeric (c : chr) : bool :=
  if is_ascii c then a_upper c || a_lower c || a_digit c
  else match tbl_find unicode_table c with Some i => ci_alnum i | None => false end.
Definition to_uppercase (c : chr) : str :=
  if is_ascii c then (if a_lower c then [c - 32] else [c])
  else match tbl_find unicode_table c with Some i => ci_to_upper i | None => [c] end.
Definition to_lowercase (c : chr) : str :=
  if is_ascii c then (if a_upper c then [c + 32] else [c])
  else match tbl_find unicode_table c with Some i => ci_to_lower i | None => [c] end.

(* Rust identifier characters (UAX #31 XID_Start / XID_Continue, plus '_' as a start) *)
Definition xid_start (c : chr) : bool :=
  if is_ascii c then a_upper c || a_lower c
  else match tbl_find unicode_table c with Some i => ci_xid_start i | None => false end.
Definition xid_continue (c : chr) : bool :=
  if is_ascii c then a_upper c || a_lower c || a_digit c || (c =? 95)
  else match tbl_find unicode_table c with Some i => ci_xid_continue i | None => false end.

(* the alphabet on which the model is claimed faithful: ASCII and the keys of the table
   (U+00A0..U+052F closed under the two case mappings) *)
Definition in_sigma (c : chr) : bool :=
  is_ascii c || match tbl_find unicode_table c with Some _ => true | None => false end.
