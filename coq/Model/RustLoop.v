(* Primitives of the shallow translation of the event loop of src/parser.rs (`build_struct`,
   `parse_tag`) written by bin/translate_loop.py into Generated/LoopRs.v.  Definitions only.

   The reader is the list of the events it still has to deliver (Model/Parser.v); reading pops the
   head, an exhausted list delivers `Eof` for ever.  The model's `EMisc` stands for four kinds of
   quick_xml events; which one is chosen by an arbitrary function of the number of events left, so
   that a theorem "for every mk" covers every assignment of kinds to the places of a document.
   Results are in the model's `outcome` monad: `?` and `return Err(..)` are `Err` propagation
   (OutOfFuel propagates the same way and is excluded by the theorems' statements). *)
From XSG.Model Require Import Strings Necessity Element Parser.
From Coq Require Import List NArith.
Import ListNotations.

Definition bytes_start := (res str * list attr_res)%type.     (* BytesStart: name(), attributes() *)

Inductive misc_kind := KComment | KDecl | KPI | KDocType.

Inductive rs_event :=
| RsStart (e : bytes_start) | RsEmpty (e : bytes_start) | RsEnd | RsEof
| RsText (t : res unit) | RsCData (t : res unit)
| RsComment | RsDecl | RsPI | RsDocType.

(* Result<Event, quick_xml::Error>; the error comes with reader.buffer_position() *)
Inductive rs_read := RdOk (ev : rs_event) | RdErr (pos : N) (id : N).

Definition misc_event (k : misc_kind) : rs_event :=
  match k with KComment => RsComment | KDecl => RsDecl | KPI => RsPI | KDocType => RsDocType end.

Definition read_event_into (mk : nat -> misc_kind) (r : list event) : rs_read * list event :=
  match r with
  | [] => (RdOk RsEof, [])
  | ev :: rest =>
      (match ev with
       | EStart n a => RdOk (RsStart (n, a))
       | EEmpty n a => RdOk (RsEmpty (n, a))
       | EEnd => RdOk RsEnd
       | EText t => RdOk (RsText t)
       | ECData t => RdOk (RsCData t)
       | EMisc => RdOk (misc_event (mk (List.length rest)))
       | EErr p i => RdErr p i
       end, rest)
  end.

(* to_str: String::from_utf8(..).map_err(ParserError::FromUtf8Error) *)
Definition to_str {A} (r : res A) : outcome A :=
  match r with ROk a => Ok a | RBad id => Err (FromUtf8Error id) end.

Definition obind {A B} (x : outcome A) (f : A -> outcome B) : outcome B :=
  match x with Ok a => f a | Err e => Err e | OutOfFuel => OutOfFuel end.

(* `for x in it { .. }` whose body may leave the function with an error *)
Fixpoint for_try {A S} (l : list A) (st : S) (body : S -> A -> outcome S) : outcome S :=
  match l with
  | [] => Ok st
  | a :: r => match body st a with
              | Ok st' => for_try r st' body
              | Err e => Err e
              | OutOfFuel => OutOfFuel
              end
  end.

(* x.remove_child(&n): what was found, and x without it *)
Definition remove_child_of (x : element) (n : str) : option (nec * element) * element :=
  let '(found, others) := remove_child (echildren x) n in (found, set_children x others).

(* x.text = v : the model keeps whether there is a text, not the text *)
Definition set_text_opt (x : element) (v : option unit) : element :=
  set_text x (match v with Some _ => true | None => false end).

(* count_children / tag_optional_children are translated on their own (Generated/ParserRs.v) and
   proved equal to `snapshot` / `tag_optional_children` (Properties/C03rs.v); inside the latter
   `to_str(e.name())?` decodes the name of the tag it is given *)
Definition count_children (tag : option (nec * element)) : list (str * N) * bool := snapshot tag.
Definition tag_optional_children_call (root : element) (e : bytes_start) (cc : list (str * N))
  : outcome element :=
  obind (to_str (fst e)) (fun n => Ok (tag_optional_children root n cc)).

(* the reader a callee was lent inside an Option comes back in it *)
Definition reader_back (lent : option (list event)) (mine : list event) : list event :=
  match lent with Some r => r | None => mine end.
