(* src/element.rs (compute_name_hints, expand_name, compute_struct_names,
   inner_to_serde_struct), src/element/identifier.rs, src/options.rs.
   The renderer is split into a structural part (render_abs : list structdef) and a
   printer (print : list structdef -> str); to_serde_struct = print o render_abs. *)
From XSG.Model Require Import Strings Chars Convert Necessity Element.
From Coq Require Import String.
Open Scope list_scope.

Definition formatted_name (e : element) : str := to_pascal_case (ename e).

(* ---------- identifier.rs ---------- *)
Inductive idty := TText | TAttr | TChild.
Definition idty_eqb a b :=
  match a, b with TText, TText | TAttr, TAttr | TChild, TChild => true | _, _ => false end.

(* the `while reserved.contains(&unused) { i += 1; unused = format!("{}_{}", name, i) }` loop;
   fuel = |reserved| + 1 candidates always contain an unused one *)
Fixpoint unused_loop (fuel i : nat) (name sep : str) (reserved : list str) : str :=
  let cand := match i with O => name | _ => name ++ sep ++ dec i end in
  match fuel with
  | O => cand
  | S f => if mem cand reserved then unused_loop f (S i) name sep reserved else cand
  end.

Definition create_unused_name (reserved : list str) (name : str) (t : idty) : str * list str :=
  let name1 :=
    if idty_eqb t TText && str_eqb name (s "text") && mem name reserved then s "text_content"
    else if idty_eqb t TAttr && mem name reserved && negb (ends_with name (s "_attr"))
         then name ++ s "_attr"
    else name in
  let u := unused_loop (S (List.length reserved)) 0 name1 [us] reserved in
  (u, reserved ++ [u]).

(* HashMap<(String, Type), String> filled by `insert`: association list, last binding wins *)
Definition idmap := list ((str * idty) * str).
Definition id_get (m : idmap) (n : str) (t : idty) : option str :=
  fold_left (fun acc '((k, kt), v) => if str_eqb k n && idty_eqb kt t then Some v else acc) m None.

Definition id_new (e : element) : idmap :=
  let nm := ename e in
  let '(m1, r1) :=
    fold_left (fun '(m, r) c =>
                 let real := ename (snd c) in
                 let '(u, r') := create_unused_name r (to_valid_key real nm) TChild in
                 (m ++ [((real, TChild), u)], r'))
              (echildren e) ([], []) in
  let '(m2, r2) :=
    fold_left (fun '(m, r) a =>
                 let real := snd a in
                 let '(u, r') := create_unused_name r (to_valid_key real nm) TAttr in
                 (m ++ [((real, TAttr), u)], r'))
              (eattrs e) (m1, r1) in
  let '(u, _) := create_unused_name r2 (s "text") TText in
  m2 ++ [((s "text", TText), u)].

(* ---------- compute_name_hints ---------- *)
(* `names: HashMap<String, Vec<VecDeque<String>>>`: buckets; only looked up / iterated to
   build another map that is only looked up, so bucket order is irrelevant *)
Definition buckets := list (str * list (list str)).
Fixpoint bucket_add (b : buckets) (k : str) (tr : list str) : buckets :=
  match b with
  | [] => [(k, [tr])]
  | (k', l) :: r => if str_eqb k k' then (k', l ++ [tr]) :: r else (k', l) :: bucket_add r k tr
  end.

(* trace: nearest first (push_front) *)
Fixpoint fill_names (e : element) (trace : list str) (b : buckets) {struct e} : buckets :=
  match e with
  | Elem _ _ _ _ _ ch _ =>
      let name := formatted_name e in
      let trace' := name :: trace in
      let b1 := bucket_add b name trace' in
      (fix go (cs : list (nec * element)) (b : buckets) {struct cs} : buckets :=
         match cs with
         | [] => b
         | c :: r => go r (fill_names (snd c) trace' b)
         end) ch b1
  end.

Fixpoint all_distinct (l : list str) : bool :=
  match l with [] => true | x :: r => negb (mem x r) && all_distinct r end.

Fixpoint mdl_loop (fuel i : nat) (vecs : list (list str)) (buffer : list str) (maxlen : nat) : nat :=
  match fuel with
  | O => maxlen
  | S f =>
      let buffer' := map (fun '(b, v) => b ++ nth i v []) (combine buffer vecs) in
      if all_distinct buffer' then S i else mdl_loop f (S i) vecs buffer' maxlen
  end.
Definition minimal_different_lengths (vecs : list (list str)) : nat :=
  let lens := map (@List.length str) vecs in
  mdl_loop (fold_right Nat.min (hd 0%nat lens) lens) 0 vecs (map (fun _ => []) vecs)
           (fold_right Nat.max 0%nat lens).

Definition hints := list (str * nat).
Definition hints_of_buckets (b : buckets) : hints :=
  map (fun '(k, trs) => (k, match trs with [_] => 1%nat | _ => minimal_different_lengths trs end)) b.
(* `for (name, traces) in names.iter()` visits the buckets in the HashMap's iteration order:
   an arbitrary rearrangement `ord` of them (C05 proves the result does not depend on it) *)
Definition compute_name_hints_ord (ord : buckets -> buckets) (e : element) : hints :=
  hints_of_buckets (ord (fill_names e [] [])).
Definition compute_name_hints (e : element) : hints := compute_name_hints_ord (fun b => b) e.
Fixpoint hint_get (h : hints) (k : str) : option nat :=
  match h with [] => None | (k', v) :: r => if str_eqb k k' then Some v else hint_get r k end.

(* trace: root first, own formatted name last *)
Definition expand_name (e : element) (trace : list str) (h : hints) : str :=
  match hint_get h (formatted_name e) with
  | Some n => List.concat (skipn (List.length trace - n) trace)
  | None => []
  end.

(* ---------- compute_struct_names (repair F5) ---------- *)
Definition pos_leb (a b : option nat) : bool :=
  match a, b with
  | None, _ => true
  | Some _, None => false
  | Some x, Some y => (x <=? y)%nat
  end.
Definition by_pos (a b : nec * element) : bool := pos_leb (epos (snd a)) (epos (snd b)).
Definition by_name (a b : nec * element) : bool := str_leb (ename (snd a)) (ename (snd b)).

(* children (hereditarily) in `position` order — the order in which the name table is
   filled, whatever Options::sort says *)
Fixpoint sort_tree (e : element) : element :=
  match e with
  | Elem n t x k a ch p =>
      Elem n t x k a
           (isort by_pos
                  ((fix go (cs : list (nec * element)) : list (nec * element) :=
                      match cs with [] => [] | c :: r => (fst c, sort_tree (snd c)) :: go r end) ch))
           p
  end.

Definition reserved_struct_names : list str := map s ["Self"; "String"; "Option"; "Vec"]%string.

Definition path := list str.
Fixpoint path_eqb (a b : path) : bool :=
  match a, b with
  | [], [] => true
  | x :: a', y :: b' => str_eqb x y && path_eqb a' b'
  | _, _ => false
  end.
Definition name_table := list (path * str).       (* most recent insertion first *)
Fixpoint table_get (t : name_table) (p : path) : option str :=
  match t with [] => None | (k, v) :: r => if path_eqb k p then Some v else table_get r p end.

Fixpoint fill_struct_names (e : element) (trace pth : list str) (h : hints)
         (st : list str * name_table) {struct e} : list str * name_table :=
  match e with
  | Elem _ _ _ _ _ ch _ =>
      let trace1 := trace ++ [formatted_name e] in
      let path1 := pth ++ [ename e] in
      let expanded := expand_name e trace1 h in
      let u := unused_loop (S (List.length (fst st))) 0 expanded [] (fst st) in
      let st1 := (fst st ++ [u], (path1, u) :: snd st) in
      (fix go (cs : list (nec * element)) (st : list str * name_table) {struct cs} :=
         match cs with
         | [] => st
         | c :: r => go r (if contains_only_text (snd c) then st
                           else fill_struct_names (snd c) trace1 path1 h st)
         end) ch st1
  end.
Definition compute_struct_names (e : element) (h : hints) : name_table :=
  snd (fill_struct_names (sort_tree e) [] [] h (reserved_struct_names, [])).

(* ---------- options ---------- *)
Inductive sortby := Unsorted | XmlName.
Record options := { text_identifier : str; attribute_prefix : str; derive : str; sort : sortby }.
Definition quick_xml_de : options :=
  {| text_identifier := s "$text"; attribute_prefix := s "@";
     derive := s "Serialize, Deserialize"; sort := Unsorted |}.
Definition serde_xml_rs : options :=
  {| text_identifier := s "$text"; attribute_prefix := [];
     derive := s "Serialize, Deserialize"; sort := Unsorted |}.

(* ---------- abstract syntax of the output ---------- *)
Inductive wrap := WPlain | WOption | WVec | WOptionVec.
Inductive tyname := TyString | TyStruct (n : str).
Inductive fkind := FAttr | FText | FChild.
Record field := { f_kind : fkind; f_xml : str; f_rename : option str; f_ident : str;
                  f_wrap : wrap; f_ty : tyname }.
Record structdef := { sd_derive : option str; sd_name : str; sd_fields : list field }.

Definition child_wrap (standalone : bool) (n : nec) : wrap :=
  match standalone, n with
  | true, Mand => WPlain | true, Opt => WOption
  | false, Opt => WOptionVec | false, Mand => WVec
  end.

Fixpoint render_abs_at (o : options) (tbl : name_table) (e : element) (pth : path) {struct e}
  : list structdef :=
  match e with
  | Elem _ _ _ _ _ ch _ =>
      let path1 := pth ++ [ename e] in
      let m := id_new e in
      let sname := match table_get tbl path1 with Some x => x | None => [] end in
      let attrs := match sort o with
                   | XmlName => isort (fun a b => str_leb (snd a) (snd b)) (eattrs e)
                   | Unsorted => eattrs e end in
      let attr_fields := map (fun a =>
          let real := snd a in
          let an := match id_get m real TAttr with Some x => x | None => real end in
          let local := if starts_with_xmlns real then real else remove_namespace real in
          let serde_name := attribute_prefix o ++ local in
          {| f_kind := FAttr; f_xml := real;
             f_rename := if str_eqb an serde_name then None else Some serde_name;
             f_ident := an;
             f_wrap := match fst a with Mand => WPlain | Opt => WOption end;
             f_ty := TyString |}) attrs in
      let text_fields :=
        if etext e then
          [{| f_kind := FText; f_xml := s "text"; f_rename := Some (text_identifier o);
              f_ident := match id_get m (s "text") TText with Some x => x | None => s "text" end;
              f_wrap := WOption; f_ty := TyString |}]
        else [] in
      let rendered : list ((nec * element) * (field * list structdef)) :=
        (fix go (cs : list (nec * element)) {struct cs} :=
           match cs with
           | [] => []
           | c :: r =>
               let ce := snd c in
               let real := ename ce in
               let plain := remove_namespace real in
               let cn := match id_get m real TChild with Some x => x | None => real end in
               let only_text := contains_only_text ce in
               let ty := if only_text then TyString
                         else TyStruct (match table_get tbl (path1 ++ [real]) with
                                        | Some x => x | None => [] end) in
               let f := {| f_kind := FChild; f_xml := real;
                           f_rename := if str_eqb cn plain then None else Some plain;
                           f_ident := cn;
                           f_wrap := child_wrap (estandalone ce) (fst c);
                           f_ty := ty |} in
               let sub := if only_text then [] else render_abs_at o tbl ce path1 in
               (c, (f, sub)) :: go r
           end) ch in
      (* the code sorts the children and then walks them; the result for one child does
         not depend on the walk order, so sorting the per-child results is the same *)
      let sorted := match sort o with
                    | XmlName => isort (fun a b => by_name (fst a) (fst b)) rendered
                    | Unsorted => isort (fun a b => by_pos (fst a) (fst b)) rendered end in
      {| sd_derive := if is_nil (derive o) then None else Some (derive o);
         sd_name := sname;
         sd_fields := attr_fields ++ text_fields ++ map (fun x => fst (snd x)) sorted |}
      :: flat_map (fun x => snd (snd x)) sorted
  end.

Definition render_abs_ord (ord : buckets -> buckets) (o : options) (e : element) : list structdef :=
  render_abs_at o (compute_struct_names e (compute_name_hints_ord ord e)) e [].
Definition render_abs (o : options) (e : element) : list structdef := render_abs_ord (fun b => b) o e.

(* ---------- printer ---------- *)
Definition nl : str := [10].
Definition quote : str := [34].
Definition print_ty (w : wrap) (t : tyname) : str :=
  let n := match t with TyString => s "String" | TyStruct x => x end in
  match w with
  | WPlain => n
  | WOption => s "Option<" ++ n ++ s ">"
  | WVec => s "Vec<" ++ n ++ s ">"
  | WOptionVec => s "Option<Vec<" ++ n ++ s ">>"
  end.
Definition print_field (f : field) : str :=
  (match f_rename f with
   | Some r => s "    #[serde(rename = " ++ quote ++ r ++ quote ++ s ")]" ++ nl
   | None => [] end)
  ++ s "    pub " ++ f_ident f ++ s ": " ++ print_ty (f_wrap f) (f_ty f) ++ s "," ++ nl.
Definition print_struct (d : structdef) : str :=
  (match sd_derive d with Some x => s "#[derive(" ++ x ++ s ")]" ++ nl | None => [] end)
  ++ s "pub struct " ++ sd_name d ++ s " {" ++ nl
  ++ flat_map print_field (sd_fields d)
  ++ s "}" ++ nl ++ nl.
Definition print (ds : list structdef) : str := flat_map print_struct ds.

Definition to_serde_struct_ord (ord : buckets -> buckets) (o : options) (e : element) : str :=
  print (render_abs_ord ord o e).
Definition to_serde_struct (o : options) (e : element) : str := print (render_abs o e).
