(* src/necessity.rs: Necessity<T> and merge_necessity, generic in the item type. *)
From XSG.Model Require Import Strings.

Inductive nec := Opt | Mand.
Definition nec_eqb (a b : nec) : bool :=
  match a, b with Opt, Opt | Mand, Mand => true | _, _ => false end.

Section Merge.
  Context {A : Type} (eqb : A -> A -> bool).

  (* the inner `for other_item in other.iter() { if == { ...; break } }`: first match *)
  Fixpoint find_nec (x : A) (l : list (nec * A)) : option nec :=
    match l with
    | [] => None
    | (n, y) :: r => if eqb y x then Some n else find_nec x r
    end.

  (* first pass: every item of `vec`, Mandatory iff it is Mandatory and its first match in
     `other` is Mandatory *)
  Definition merge_first (v other : list (nec * A)) : list (nec * A) :=
    map (fun it => match find_nec (snd it) other, fst it with
                   | Some Mand, Mand => (Mand, snd it)
                   | _, _ => (Opt, snd it)
                   end) v.

  (* second pass: items of `other` (in order) not yet in the growing result, as Optional *)
  Fixpoint merge_second (res other : list (nec * A)) : list (nec * A) :=
    match other with
    | [] => res
    | (_, y) :: r => match find_nec y res with
                     | Some _ => merge_second res r
                     | None => merge_second (res ++ [(Opt, y)]) r
                     end
    end.

  Definition merge_necessity (v other : list (nec * A)) : list (nec * A) :=
    merge_second (merge_first v other) other.

  (* the behaviour before the repair recorded in known_findings.json (F1): the second
     pass walked `other` reversed *)
  Definition merge_necessity_prefix (v other : list (nec * A)) : list (nec * A) :=
    merge_second (merge_first v other) (rev other).
End Merge.
