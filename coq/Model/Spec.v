(* The inference the properties describe, stated on a DOM of the inputs and independent
   of the parsing algorithm: presence in all occurrences / max count per occurrence / any
   text, path by path. `infer` is its executable form (the oracle applied to the
   implementation's output); Proofs/ state the same thing as propositions. *)
From XSG.Model Require Import Strings Necessity Element Parser Dom.

Definition is_elem_named (n : str) (k : node) : bool :=
  match k with NElem m _ _ _ => str_eqb m n | _ => false end.
Definition okids (o : node) : list node :=
  match o with NElem _ false _ ks => ks | _ => [] end.     (* `<x/>` has no content *)
Definition kids_named (n : str) (o : node) : list node := filter (is_elem_named n) (okids o).
Definition has_text (o : node) : bool :=
  existsb (fun k => match k with NText | NCData => true | _ => false end) (okids o).
Definition oattrs (o : node) : list str := match o with NElem _ _ a _ => a | _ => [] end.
Definition okidnames (o : node) : list str :=
  flat_map (fun k => match k with NElem m _ _ _ => [m] | _ => [] end) (okids o).

(* first-appearance order *)
Fixpoint dedup (l : list str) : list str :=
  match l with [] => [] | x :: r => x :: filter (fun y => negb (str_eqb x y)) (dedup r) end.

(* occurrences of the element at `path` below the occurrences `cur` *)
Fixpoint occs (path : list str) (cur : list node) : list node :=
  match path with [] => cur | n :: p => occs p (flat_map (kids_named n) cur) end.

Definition spec_attrs (os : list node) : list (nec * str) :=
  map (fun a => (if forallb (fun o => mem a (oattrs o)) os then Mand else Opt, a))
      (dedup (flat_map oattrs os)).
Definition spec_mand (n : str) (os : list node) : bool :=
  forallb (fun o => negb (is_nil (kids_named n o))) os.
Definition spec_single (n : str) (os : list node) : bool :=
  forallb (fun o => (List.length (kids_named n o) <=? 1)%nat) os.

Fixpoint index_from {A} (i : nat) (l : list A) : list (nat * A) :=
  match l with [] => [] | x :: r => (i, x) :: index_from (S i) r end.

(* expected children of a node whose occurrences are `os`, in first-appearance order *)
Fixpoint infer_kids (fuel : nat) (os : list node) : list (nec * element) :=
  match fuel with
  | O => []
  | S f =>
      map (fun '(i, n) =>
             let sub := flat_map (kids_named n) os in
             (if spec_mand n os then Mand else Opt,
              Elem n (existsb has_text sub) (spec_single n os) (N.of_nat (List.length sub))
                   (spec_attrs sub) (infer_kids f sub) (Some i)))
          (index_from 0 (dedup (flat_map okidnames os)))
  end.

Fixpoint depth (nd : node) : nat :=
  match nd with
  | NElem _ _ _ ks => S ((fix go (l : list node) : nat :=
                            match l with [] => O | k :: r => Nat.max (depth k) (go r) end) ks)
  | _ => O
  end.

Definition doc_root (top : list node) : option node :=
  find (fun k => match k with NElem _ _ _ _ => true | _ => false end) top.
Definition doc_roots (docs : list (list node)) : list node :=
  flat_map (fun d => match doc_root d with Some r => [r] | None => [] end) docs.

(* one root element per document, all roots with the same name *)
Definition docs_ok (docs : list (list node)) : bool :=
  forallb (fun d => (List.length (filter (fun k => match k with NElem _ _ _ _ => true | _ => false end) d)
                     =? 1)%nat) docs
  && match doc_roots docs with
     | [] => false
     | r :: rs => forallb (fun x => match r, x with
                                    | NElem a _ _ _, NElem b _ _ _ => str_eqb a b
                                    | _, _ => false end) rs
     end.

Definition infer (docs : list (list node)) : option element :=
  match doc_roots docs with
  | [] => None
  | (NElem n _ _ _ :: _) as roots =>
      let fuel := S (fold_right Nat.max O (map depth roots)) in
      Some (Elem n (existsb has_text roots) true (N.of_nat (List.length roots))
                 (spec_attrs roots) (infer_kids fuel roots) (Some O))
  | _ => None
  end.
