(* C15 at source level — the term translated from src/necessity.rs (Generated/NecessityRs.v),
   run in the RustLite evaluator, computes the model function, hence satisfies C15.
   Only statements; every proof is `exact <lemma>`. *)
From XSG.Model Require Import Strings Necessity RustLite.
From XSG.Generated Require Import NecessityRs.
From XSG.Proofs Require Import NecessityProofs NecessityRsProofs.

(* the translated source is the model function (eqb symmetric, as every `PartialEq` used here) *)
Theorem C15_source_is_model :
  forall (A : Type) (eqb : A -> A -> bool),
    (forall x y, eqb x y = eqb y x) ->
    forall v o : list (nec * A),
      run_fn eqb merge_necessity_rs [VVec v; VVec o] = Some (VVec (merge_necessity eqb v o)).
Proof. exact (@merge_necessity_rs_correct). Qed.

(* without any hypothesis on eqb, with the exact orientation of the source's second loop *)
Theorem C15_source_exact :
  forall (A : Type) (eqb : A -> A -> bool) (v o : list (nec * A)),
    run_fn eqb merge_necessity_rs [VVec v; VVec o]
    = Some (VVec (merge_second (fun a b => eqb b a) (merge_first eqb v o) o)).
Proof. exact (@merge_necessity_rs_exact). Qed.

(* the value the translated SOURCE returns satisfies the C15 characterisation *)
Theorem C15_source_satisfies :
  forall (A : Type) (eqb : A -> A -> bool),
    (forall x y, reflect (x = y) (eqb x y)) ->
    forall v o : list (nec * A), NoDup (items o) ->
      run_fn eqb merge_necessity_rs [VVec v; VVec o]
      = Some (VVec (map (fun it => (conj_tag eqb it o, snd it)) v
                    ++ map (pair Opt) (filter (fun y => negb (memA eqb y (items v))) (items o)))).
Proof. exact (@merge_necessity_rs_characterisation). Qed.

Example C15_source_examples :
  let v1 := [(Mand, 1); (Mand, 2); (Opt, 4); (Mand, 7)] in
  let o1 := [(Mand, 1); (Mand, 3); (Mand, 4); (Opt, 7); (Opt, 9)] in
  run_fn N.eqb merge_necessity_rs [VVec v1; VVec o1]
  = Some (VVec [(Mand, 1); (Opt, 2); (Opt, 4); (Opt, 7); (Opt, 3); (Opt, 9)]).
Proof. vm_compute. reflexivity. Qed.

(* non-vacuity of the hypotheses, and necessity of symmetry *)
Example C15_source_hypotheses_example :
  let v1 := [(Mand, 1); (Mand, 2); (Opt, 4); (Mand, 7)] in
  let o1 := [(Mand, 1); (Mand, 3); (Mand, 4); (Opt, 7); (Opt, 9)] in
  (forall x y, N.eqb x y = N.eqb y x) /\ NoDup (items o1) /\
  run_fn N.eqb merge_necessity_rs [VVec v1; VVec o1]
  = Some (VVec [(Mand, 1); (Opt, 2); (Opt, 4); (Opt, 7); (Opt, 3); (Opt, 9)]).
Proof. exact merge_necessity_rs_example. Qed.

Example C15_source_needs_symmetry :
  let v := [(Mand, 1)] in let o := [(Mand, 2)] in
  run_fn N.leb merge_necessity_rs [VVec v; VVec o] = Some (VVec [(Opt, 1); (Opt, 2)]) /\
  merge_necessity N.leb v o = [(Opt, 1)].
Proof. exact merge_necessity_rs_needs_symmetry. Qed.

Print Assumptions C15_source_is_model.
Print Assumptions C15_source_exact.
Print Assumptions C15_source_satisfies.
Print Assumptions C15_source_examples.
Print Assumptions C15_source_hypotheses_example.
Print Assumptions C15_source_needs_symmetry.
