(* C06 / C08 at source level — the two public entry points `into_struct` and `extend_struct` of
   src/parser.rs, translated statement by statement by bin/translate_entry.py on every run of
   bin/check C06 / C08 (Generated/EntryRs.v), are the model's `take_root` around the event loop:
   a fresh wrapper element called "root" (for an extension: with the given tree as its only child),
   the event loop run on it, an error of the loop propagated unchanged (so a failed extension is an
   error, never a partial tree), "no root element" when the wrapper has no child, otherwise the first
   child of the wrapper taken out by name.  The event loop itself (`build_struct`, `parse_tag`) is
   NOT translated: it is a parameter here, and the theorems hold for every function in its place;
   instantiated with the model's loop they give the model's `into_struct_ev` / `extend_struct_ev`,
   which is what every theorem of C03, C06, C08, C11 is stated about.
   Only statements; proofs are `exact <lemma of Proofs/EntryRsProofs.v>`. *)
From XSG.Model Require Import Strings Necessity Element Parser.
From XSG.Generated Require Import EntryRs.
From XSG.Proofs Require Import EntryRsProofs.
From Coq Require Import String List.
Import ListNotations.
Open Scope list_scope.

Theorem C06_source_into_struct :
  forall bs : element -> outcome (element * list event),
    into_struct_rs bs = take_root (bs wrapper).
Proof. exact into_struct_rs_take_root. Qed.

Theorem C06_source_extend_struct :
  forall (bs : element -> outcome (element * list event)) (root : element),
    extend_struct_rs bs root = take_root (bs (add_unique_child wrapper root)).
Proof. exact extend_struct_rs_take_root. Qed.

Theorem C06_source_into_struct_model : forall evs : list event,
  into_struct_rs (fun r => build_struct (fuel_for evs) evs r []) = into_struct_ev evs.
Proof. exact into_struct_rs_model. Qed.

Theorem C06_source_extend_struct_model : forall (root : element) (evs : list event),
  extend_struct_rs (fun r => build_struct (fuel_for evs) evs r []) root = extend_struct_ev root evs.
Proof. exact extend_struct_rs_model. Qed.

(* an error of the event loop is the result: no partial tree (C06, last clause; C08) *)
Theorem C06_source_error_propagates :
  forall (bs : element -> outcome (element * list event)) (root : element) (e : perror),
    bs (add_unique_child wrapper root) = Err e -> extend_struct_rs bs root = Err e.
Proof. exact extend_struct_rs_error. Qed.

(* non-vacuity: a parse, an extension that demotes the attribute and adds a child, an extension that
   fails with the reader's error and position, an input without an element *)
Example C06_source_example :
  let loop evs := fun r => build_struct (fuel_for evs) evs r [] in
  let d1 := [EStart (ROk (s "a")) [AOk (ROk (s "k"))]; EText (ROk tt); EEnd] in
  let d2 := [EStart (ROk (s "a")) []; EEmpty (ROk (s "b")) []; EEnd] in
  (exists e, into_struct_rs (loop d1) = Ok e /\ ename e = s "a" /\ eattrs e = [(Mand, s "k")]
             /\ exists e2, extend_struct_rs (loop d2) e = Ok e2 /\ eattrs e2 = [(Opt, s "k")]
                           /\ List.length (echildren e2) = 1%nat
                           /\ extend_struct_rs (loop [EErr 3 7]) e = Err (QuickXmlError 3 7))
  /\ into_struct_rs (loop [EMisc]) = Err NoRootError.
Proof. exact entry_source_example. Qed.

Print Assumptions C06_source_into_struct.
Print Assumptions C06_source_example.
Print Assumptions C06_source_extend_struct.
Print Assumptions C06_source_into_struct_model.
Print Assumptions C06_source_extend_struct_model.
Print Assumptions C06_source_error_propagates.
