(* C16 / C03 / C15 stated for the translated SOURCE: what the terms generated from src/element.rs and
   src/parser.rs (Generated/ElementRs.v, Generated/ParserRs.v) return, run in the RustElem evaluator,
   has the properties proved of the model.  Only statements; every proof is `exact <lemma>`. *)
From XSG.Model Require Import Strings Necessity Element Parser RustElem.
From XSG.Generated Require Import ElementRs ParserRs.
From XSG.Proofs Require Import ElementProofs DemoteProofs ElementRsProofs ParserRsProofs SourceProps.
From Coq Require Import String List NArith Permutation.
Import ListNotations.
Open Scope string_scope.
Open Scope list_scope.

(* ---------- C16: every construction operation of the source preserves uniqueness ---------- *)

Theorem C16_source_new_uniq :
  forall n a,
    exists e, run_fn (call_of level0) new_rs (VName n) (VNames a) = Some (VElem e, VName n) /\ Uniq e.
Proof. exact src_new_uniq. Qed.

Theorem C16_source_add_unique_child_uniq :
  forall e c, Uniq e -> Uniq c ->
    exists e', run_fn (call_of level0) add_unique_child_rs (VElem e) (VElem c) = Some (VUnit, VElem e')
               /\ Uniq e'.
Proof. exact src_add_unique_child_uniq. Qed.

Theorem C16_source_set_child_optional_uniq :
  forall e n, Uniq e ->
    exists e', run_fn (call_of level0) set_child_optional_rs (VElem e) (VName n) = Some (VUnit, VElem e')
               /\ Uniq e'.
Proof. exact src_set_child_optional_uniq. Qed.

Theorem C16_source_merge_attr_uniq :
  forall e l, Uniq e ->
    exists e', run_fn no_call merge_attr_rs (VElem e) (VAttrs l) = Some (VElem e', VElem e') /\ Uniq e'.
Proof. exact src_merge_attr_uniq. Qed.

Theorem C16_source_set_multiple_uniq :
  forall e, Uniq e ->
    exists e', run_fn no_call set_multiple_rs (VElem e) VUnit = Some (VUnit, VElem e') /\ Uniq e'.
Proof. exact src_set_multiple_uniq. Qed.

Theorem C16_source_increment_uniq :
  forall e, Uniq e ->
    exists e', run_fn no_call increment_rs (VElem e) VUnit = Some (VUnit, VElem e') /\ Uniq e'.
Proof. exact src_increment_uniq. Qed.

(* the removed child is the one `get_child` finds; what remains is Uniq and has no child of that name *)
Theorem C16_source_remove_child_uniq :
  forall e n, Uniq e ->
    exists e', run_fn no_call remove_child_rs (VElem e) (VName n)
               = Some (opt_child (get_child (echildren e) n), VElem e')
               /\ Uniq e' /\ get_child (echildren e') n = None.
Proof. exact src_remove_child_uniq. Qed.

(* ---------- C16: look-up after add ---------- *)

Theorem C16_source_get_after_add :
  forall e c, get_child (echildren e) (ename c) = None ->
    exists e' c',
      run_fn (call_of level0) add_unique_child_rs (VElem e) (VElem c) = Some (VUnit, VElem e') /\
      run_fn no_call get_child_rs (VElem e') (VName (ename c)) = Some (VSomeChild (Mand, c'), VElem e') /\
      ename c' = ename c.
Proof. exact src_get_after_add. Qed.

(* ---------- C03: the demotion rule ---------- *)

Theorem C03_source_demotion :
  forall root n cc c,
    Uniq root -> get_child (echildren root) n = Some c ->
    exists root',
      run_fn3 (call_of2 level0 level1) tag_optional_children_rs (VElem root) (VName n) (VMap cc)
      = Some (VElem root') /\
      exists c', get_child (echildren root') n = Some c' /\ fst c' = fst c /\
                 Permutation (echildren (snd c')) (map (retag (to_optional (snd c) cc)) (echildren (snd c))).
Proof. exact src_demotion. Qed.

(* the example tree of Properties/C03rs.v satisfies the hypotheses, with a non-empty work list *)
Example C03_source_demotion_example :
  let k1 := Elem (s "b") false true 2 [] [] (Some 0%nat) in
  let k3 := Elem (s "d") true false 3 [] [] (Some 2%nat) in
  let par := Elem (s "p") false true 2 [] [(Mand, k1); (Mand, k3)] (Some 0%nat) in
  let rt := Elem (s "root") false true 1 [] [(Mand, par)] None in
  Uniq rt /\ get_child (echildren rt) (s "p") = Some (Mand, par) /\
  to_optional par [(s "b", 2%N)] = [s "b"; s "d"].
Proof. exact src_demotion_example. Qed.

(* ---------- C15: mandatory iff mandatory in both, for the source of merge_attr ---------- *)

Theorem C15_source_merge_attr_mandatory_iff :
  forall e l,
    NoDup (map snd (eattrs e)) -> NoDup (map snd l) ->
    exists e', run_fn no_call merge_attr_rs (VElem e) (VAttrs l) = Some (VElem e', VElem e') /\
               forall x, In (Mand, x) (eattrs e') <-> In (Mand, x) (eattrs e) /\ In (Mand, x) l.
Proof. exact src_merge_attr_mandatory_iff. Qed.

Print Assumptions C16_source_new_uniq.
Print Assumptions C16_source_add_unique_child_uniq.
Print Assumptions C16_source_set_child_optional_uniq.
Print Assumptions C16_source_merge_attr_uniq.
Print Assumptions C16_source_set_multiple_uniq.
Print Assumptions C16_source_increment_uniq.
Print Assumptions C16_source_remove_child_uniq.
Print Assumptions C16_source_get_after_add.
Print Assumptions C03_source_demotion.
Print Assumptions C03_source_demotion_example.
Print Assumptions C15_source_merge_attr_mandatory_iff.
