(* C09 / C10 / C14 — the boolean oracles that `bin/check` evaluates on the struct definitions
   parsed back from the REAL implementation's output (Corr/Oracles.v: `only_order_b`, `derive_b`,
   `erased_eqb` of `erase_bindings`, `names_b`; applied case by case by `or_only_order`,
   `or_derive`, `or_orthogonal`, `or_names` of Corr/CoreCorr.v) are true of the model's own
   output, for every tree and every option value.  So a `false` answer of the check on a real
   output can only come from a difference between the implementation and the model, never from
   the oracle being stricter than the property proved of the model (Properties/C09.v, C10.v,
   C14.v).
   Hypotheses: none on the tree (neither `Uniq e` nor `tree_names_ok e` is needed, see
   Oracles_example_names_without_hypotheses); on the options exactly what the check assumes:
   equal `sort` for C10 orthogonality, equal text identifier / attribute prefix / derive for
   C09 (each one is needed: Oracles_example_hypotheses_needed).
   Only statements; every proof is `exact <lemma of Proofs/OracleProofs.v>`. *)
From Coq Require Import String.
From XSG.Model Require Import Strings Chars Convert Necessity Element Render.
From XSG.Proofs Require Import ElementProofs RenderProofs ReflectProofs OracleProofs.
From XSG.Corr Require Import Common Oracles CoreCorr.
Local Open Scope list_scope.

(* ---- C10: every struct carries the derive string verbatim (none when it is empty) ---- *)
Theorem C10_oracle_derive : forall o e, derive_b o (map erase (render_abs o e)) = true.
Proof. exact derive_b_render. Qed.

(* ---- C10: struct names, field identifiers, wrappers, types and all orders depend on `sort`
        only (not on attribute prefix, text identifier, derive, hence not on the preset) ---- *)
Theorem C10_oracle_orthogonal : forall o1 o2 e,
  sort o1 = sort o2 ->
  erased_eqb (Oracles.erase_bindings (map erase (render_abs o1 e)))
             (Oracles.erase_bindings (map erase (render_abs o2 e))) = true.
Proof. exact erased_eqb_render. Qed.

(* ---- C09: switching `sort` changes nothing but orders: same number of structs, and every
        struct of the first output has a struct of the second with the same name, the same
        derive and the same fields up to their order ---- *)
Theorem C09_oracle_only_order : forall o1 o2 e,
  text_identifier o1 = text_identifier o2 /\ attribute_prefix o1 = attribute_prefix o2
  /\ derive o1 = derive o2 ->
  only_order_b (map erase (render_abs o1 e)) (map erase (render_abs o2 e)) = true.
Proof. exact only_order_b_render. Qed.

(* ---- C14: the structs pair with the nodes in output order (pre-order walk of the tree whose
        children are in field order); each struct name is the PascalCase form of the last m >= 1
        components of its node's path followed by digits only, m = 1 when the PascalCase name
        occurs once in the tree; the first struct is the root's, never qualified ---- *)
Theorem C14_oracle_names : forall o e, names_b o e (map erase (render_abs o e)) = true.
Proof. exact names_b_render. Qed.

(* the pairing behind it succeeds with one triple per struct, the root's first ... *)
Theorem C14_oracle_pairing : forall o e,
  exists L, pair_structs o e (map erase (render_abs o e))
            = Some (([ename e], sort_tree_by (order_of o) e,
                     erase (head_struct o (compute_struct_names e (compute_name_hints e)) e [])) :: L)
            /\ S (List.length L) = List.length (render_abs o e).
Proof. exact pair_structs_render. Qed.

(* ... and, generalised: for every name table, path prefix and continuation the oracle's walk
   consumes exactly the structs rendered for `e` *)
Theorem C14_oracle_pairing_at : forall o tbl e pth rest,
  exists L,
    pair_go (sort_tree_by (order_of o) e) pth (map erase (render_abs_at o tbl e pth) ++ rest)
    = Some ((pth ++ [ename e], sort_tree_by (order_of o) e, erase (head_struct o tbl e pth)) :: L, rest)
    /\ Forall (fun t => exists q, StructNameProofs.spath e q /\ fst (fst t) = pth ++ q
                                  /\ ename (snd (fst t)) = last q []
                                  /\ ps_name (snd t) = StructNameProofs.name_at tbl (pth ++ q)) L.
Proof. exact render_at_pairs. Qed.

(* ---- the tests made by the check are the assumptions above: `or_orthogonal` compares every two
        renderings of a case unless `sort_eqb` says their sort options differ; `or_only_order`
        compares the renderings two by two, every option value being rendered under
        (Unsorted, XmlName).  The same loops over the model's renderings (stated on the option
        values: a `doccase` carries 63-bit hashes, i.e. primitive integers) ---- *)
Theorem C10_oracle_orthogonal_all_pairs : forall e os,
  forallb (fun o1 =>
     forallb (fun o2 =>
        negb (sort_eqb (sort o1) (sort o2))
        || erased_eqb (Oracles.erase_bindings (map erase (render_abs o1 e)))
                      (Oracles.erase_bindings (map erase (render_abs o2 e)))) os) os = true.
Proof. exact orthogonal_all_pairs. Qed.

Theorem C09_oracle_only_order_all_pairs : forall e os,
  pairs_ok (fun o1 o2 => only_order_b (map erase (render_abs o1 e)) (map erase (render_abs o2 e)))
           (flat_map (fun o => [ {| text_identifier := text_identifier o; attribute_prefix := attribute_prefix o;
                                    derive := derive o; sort := Unsorted |};
                                 {| text_identifier := text_identifier o; attribute_prefix := attribute_prefix o;
                                    derive := derive o; sort := XmlName |} ]) os) = true.
Proof. exact only_order_all_pairs. Qed.

(* ---- examples.  ot_tree: <shop zone area?>text <owner><name lang/></owner>
        <item id><name lang/>?<item k><note/></item></item> <foo-bar a/>? <FooBar b/> <string c/> <note/>?
        — `name` under two parents and `item` at two depths, `foo-bar`/`FooBar` collide,
        `string` is reserved, `owner` occurs once ---- *)
Example Oracles_example_names :
  tree_names_ok ot_tree = true /\
  map sd_name (render_abs quick_xml_de ot_tree)
  = map s ["Shop"; "ShopItem"; "ItemItem"; "ItemName"; "ShopFooBar"; "ShopFooBar1"; "Owner";
           "OwnerName"; "String1"]%string /\
  map sd_name (render_abs ot_sorted ot_tree)
  = map s ["Shop"; "ShopFooBar"; "ShopFooBar1"; "ShopItem"; "ItemItem"; "ItemName"; "Owner";
           "OwnerName"; "String1"]%string.
Proof. exact ex_ot_names. Qed.

Example Oracles_example_pairing :
  option_map (map (fun t : list str * element * pstruct => (fst (fst t), ps_name (snd t))))
             (pair_structs ot_sorted ot_tree (map erase (render_abs ot_sorted ot_tree)))
  = Some [ ([s "shop"], s "Shop"); ([s "shop"; s "FooBar"], s "ShopFooBar");
           ([s "shop"; s "foo-bar"], s "ShopFooBar1"); ([s "shop"; s "item"], s "ShopItem");
           ([s "shop"; s "item"; s "item"], s "ItemItem");
           ([s "shop"; s "item"; s "name"], s "ItemName");
           ([s "shop"; s "owner"], s "Owner"); ([s "shop"; s "owner"; s "name"], s "OwnerName");
           ([s "shop"; s "string"], s "String1") ].
Proof. exact ex_ot_pairing. Qed.

Example Oracles_example_true :
  names_b quick_xml_de ot_tree (map erase (render_abs quick_xml_de ot_tree)) = true /\
  names_b ot_sorted ot_tree (map erase (render_abs ot_sorted ot_tree)) = true /\
  only_order_b (map erase (render_abs quick_xml_de ot_tree)) (map erase (render_abs ot_sorted ot_tree)) = true /\
  derive_b ot_sorted (map erase (render_abs ot_sorted ot_tree)) = true /\
  erased_eqb (Oracles.erase_bindings (map erase (render_abs quick_xml_de ot_tree)))
             (Oracles.erase_bindings (map erase (render_abs serde_xml_rs ot_tree))) = true.
Proof. exact ex_ot_oracles. Qed.

(* every assumption kept above is needed: different `sort` (C10), and for C09 a different text
   identifier, attribute prefix, derive string, the other two being equal *)
Example Oracles_example_hypotheses_needed :
  (sort quick_xml_de <> sort ot_sorted /\
   erased_eqb (Oracles.erase_bindings (map erase (render_abs quick_xml_de ot_tree)))
              (Oracles.erase_bindings (map erase (render_abs ot_sorted ot_tree))) = false) /\
  only_order_b (map erase (render_abs quick_xml_de ot_tree))
               (map erase (render_abs (opt_text "#text") ot_tree)) = false /\
  only_order_b (map erase (render_abs quick_xml_de ot_tree))
               (map erase (render_abs (opt_prefix "") ot_tree)) = false /\
  only_order_b (map erase (render_abs quick_xml_de ot_tree))
               (map erase (render_abs (opt_derive "Debug") ot_tree)) = false.
Proof.
  exact (conj ex_orthogonal_needs_sort
              (conj ex_only_order_needs_text (conj ex_only_order_needs_prefix ex_only_order_needs_derive))).
Qed.

(* C14_oracle_names assumes nothing about the tree: one with a repeated attribute, two children `x`
   under one parent and a name that is not an identifier; its output is not well-formed Rust *)
Example Oracles_example_names_without_hypotheses :
  ~ Uniq ot_dup /\ tree_names_ok ot_dup = false /\
  map sd_name (render_abs quick_xml_de ot_dup) = map s ["R"; "RX1"; "RX1"; "RXX"; "12"]%string /\
  wf_b (map erase (render_abs quick_xml_de ot_dup)) = false /\
  names_b quick_xml_de ot_dup (map erase (render_abs quick_xml_de ot_dup)) = true.
Proof. exact ex_names_without_hypotheses. Qed.

(* the oracles are not vacuous (rename_struct old new: the struct named `old` is named `new`) *)
Example Oracles_example_reject :
  names_b quick_xml_de ot_tree (rename_struct "Owner" "ShopOwner" (map erase (render_abs quick_xml_de ot_tree))) = false /\
  names_b quick_xml_de ot_tree (rename_struct "ItemName" "Name" (map erase (render_abs quick_xml_de ot_tree))) = true /\
  names_b quick_xml_de ot_tree (rename_struct "ItemName" "ShopName" (map erase (render_abs quick_xml_de ot_tree))) = false /\
  names_b quick_xml_de ot_tree (rename_struct "String1" "String_1" (map erase (render_abs quick_xml_de ot_tree))) = false /\
  names_b quick_xml_de ot_tree (map erase (render_abs ot_sorted ot_tree)) = false /\
  names_b quick_xml_de ot_tree (rename_struct "Shop" "Root" (map erase (render_abs quick_xml_de ot_tree))) = false /\
  only_order_b (map erase (render_abs quick_xml_de ot_tree))
               (rename_struct "Owner" "ShopOwner" (map erase (render_abs ot_sorted ot_tree))) = false /\
  only_order_b (map erase (render_abs quick_xml_de ot_tree))
               (removelast (map erase (render_abs ot_sorted ot_tree))) = false /\
  derive_b (opt_derive "Debug") (map erase (render_abs ot_sorted ot_tree)) = false.
Proof. exact ex_oracles_reject. Qed.

Print Assumptions C10_oracle_derive.
Print Assumptions C10_oracle_orthogonal.
Print Assumptions C09_oracle_only_order.
Print Assumptions C14_oracle_names.
Print Assumptions C14_oracle_pairing.
Print Assumptions C14_oracle_pairing_at.
Print Assumptions C10_oracle_orthogonal_all_pairs.
Print Assumptions C09_oracle_only_order_all_pairs.
Print Assumptions Oracles_example_names.
Print Assumptions Oracles_example_pairing.
Print Assumptions Oracles_example_true.
Print Assumptions Oracles_example_hypotheses_needed.
Print Assumptions Oracles_example_names_without_hypotheses.
Print Assumptions Oracles_example_reject.
