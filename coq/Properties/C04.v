(* C04 — names are unique and do not shadow.
   "Every struct name ... is defined exactly once and does not shadow String, Option or Vec
    [nor is Self]; every field name is ... unique within its struct; every field type is String
    or a struct defined in the same output, each non-root struct being used by exactly one field."
   * the renaming loop of create_unused_name / compute_struct_names always exits with an unused
     name (C07_render_loop_exits — this is also the loop C07's "rendering returns" relies on);
   * the identifiers of the fields of every struct are pairwise different (C04_field_idents);
   * the struct names of one output are pairwise different (C04_struct_names_unique), none is
     Self / String / Option / Vec (C04_struct_names_not_reserved), every one was entered in the
     name table (C04_struct_names_from_table);
   * the struct names used as field types are, as a multiset, exactly the names of the structs
     after the root (C04_types), a child's field has the name of the struct rendered for that
     child (C04_types_local), every field type is String or a struct of the output
     (C04_types_defined); with unique names every non-root struct is therefore the type of
     exactly one field and the root of none (C04_struct_used_once).
   `Uniq e` (ElementProofs): sibling names and attribute names are pairwise different at every
   node — the invariant of every tree built by the parser / the public operations (C03, C11, C16).
   It is necessary: see C04_field_idents_needs_Uniq, C04_struct_names_needs_Uniq.
   The legality of the individual names (identifier characters, keywords) is in C04legal.v.
   Only statements; every proof is `exact <lemma of Proofs/IdentProofs.v, StructTableProofs.v>`. *)
From Coq Require Import String Permutation.
From XSG.Model Require Import Strings Convert Necessity Element Render.
From XSG.Proofs Require Import ElementProofs RenderProofs IdentProofs StructTableProofs.
Local Open Scope list_scope.

(* ---------- the renaming loop (serves C07 as well) ---------- *)
Theorem C07_render_loop_exits : forall name sep reserved,
  ~ In (unused_loop (S (List.length reserved)) 0 name sep reserved) reserved.
Proof. exact unused_loop_fresh. Qed.

Theorem C04_create_unused_name : forall r name t,
  let '(u, r') := create_unused_name r name t in ~ In u r /\ r' = r ++ [u].
Proof. exact create_unused_name_fresh. Qed.

(* decimal suffixes of different counters are different *)
Theorem C04_dec_injective : forall i j, dec i = dec j -> i = j.
Proof. exact dec_inj. Qed.

(* ---------- field identifiers ---------- *)
Theorem C04_id_new_values_distinct : forall e, NoDup (map snd (id_new e)).
Proof. exact id_new_values_nodup. Qed.

Theorem C04_field_idents : forall o e,
  Uniq e -> Forall (fun d => NoDup (map f_ident (sd_fields d))) (render_abs o e).
Proof. exact field_idents. Qed.

Theorem C04_field_idents_at : forall o tbl e pth,
  Uniq e -> Forall (fun d => NoDup (map f_ident (sd_fields d))) (render_abs_at o tbl e pth).
Proof. exact field_idents_at. Qed.

(* ---------- struct names ---------- *)
Theorem C04_struct_names_unique : forall o e,
  Uniq e -> NoDup (map sd_name (render_abs o e)).
Proof. exact struct_names_unique. Qed.

Theorem C04_struct_names_not_reserved : forall o e,
  Forall (fun d => ~ In (sd_name d) (map s ["Self"; "String"; "Option"; "Vec"]%string))
         (render_abs o e).
Proof. exact struct_names_not_reserved. Qed.

Theorem C04_struct_names_from_table : forall o e,
  Forall (fun d => In (sd_name d) (map snd (compute_struct_names e (compute_name_hints e))))
         (render_abs o e).
Proof. exact struct_names_from_table. Qed.

(* ---------- field types ---------- *)
Theorem C04_types : forall o e,
  Permutation
    (flat_map (fun d => flat_map (fun f => match f_ty f with TyStruct n => [n] | TyString => [] end)
                                 (sd_fields d))
              (render_abs o e))
    (map sd_name (tl (render_abs o e))).
Proof. exact types_refs. Qed.

Theorem C04_types_local : forall o tbl m pth e c d0,
  f_ty (child_field tbl m (pth ++ [ename e]) c)
  = if contains_only_text (snd c) then TyString
    else TyStruct (sd_name (hd d0 (render_abs_at o tbl (snd c) (pth ++ [ename e])))).
Proof. exact child_field_type. Qed.

Theorem C04_types_defined : forall o e d f,
  In d (render_abs o e) -> In f (sd_fields d) ->
  f_ty f = TyString \/
  exists d', In d' (tl (render_abs o e)) /\ f_ty f = TyStruct (sd_name d').
Proof. exact types_defined. Qed.

Theorem C04_struct_used_once : forall o e d0,
  Uniq e ->
  NoDup (flat_map (fun d => flat_map (fun f => match f_ty f with TyStruct n => [n] | TyString => [] end)
                                     (sd_fields d))
                  (render_abs o e))
  /\ ~ In (sd_name (hd d0 (render_abs o e)))
          (flat_map (fun d => flat_map (fun f => match f_ty f with TyStruct n => [n] | TyString => [] end)
                                       (sd_fields d))
                    (render_abs o e)).
Proof. exact struct_used_once. Qed.

(* ---------- the premises are satisfiable / necessary ---------- *)
Example C04_loop_example :
  let reserved := [s "a"; s "a_2"; s "a_1"] in
  unused_loop (S (List.length reserved)) 0 (s "a") [us] reserved = s "a_3"
  /\ create_unused_name [s "text"; s "k"] (s "k") TAttr = (s "k_attr", [s "text"; s "k"; s "k_attr"]).
Proof. exact unused_loop_example. Qed.

Example C04_field_idents_example :
  let c := Elem (s "type") true true 1 [] [] (Some 0%nat) in
  let e := Elem (s "r") true true 1 [(Mand, s "type"); (Opt, s "text")] [(Mand, c)] None in
  Uniq e /\
  map (fun d => map f_ident (sd_fields d)) (render_abs quick_xml_de e)
  = [[s "r_type_attr"; s "text"; s "text_content"; s "r_type"]].
Proof. exact field_idents_example. Qed.

Example C04_field_idents_needs_Uniq :
  let c := Elem (s "a") true true 1 [] [] None in
  let e := Elem (s "r") false true 1 [] [(Mand, c); (Mand, c)] None in
  map (fun d => map f_ident (sd_fields d)) (render_abs quick_xml_de e) = [[s "a_1"; s "a_1"]].
Proof. exact field_idents_needs_Uniq. Qed.

Example C04_struct_names_example :
  let k := [(Mand, s "k")] in
  let e := Elem (s "self") false true 1 []
             [(Mand, Elem (s "Foo") false true 1 k [] (Some 0%nat));
              (Mand, Elem (s "foo") false true 1 k [] (Some 1%nat));
              (Opt, Elem (s "string") false true 1 k [] (Some 2%nat))] None in
  Uniq e /\
  map sd_name (render_abs quick_xml_de e) = [s "Self1"; s "SelfFoo"; s "SelfFoo1"; s "String1"].
Proof. exact struct_names_example. Qed.

Example C04_struct_names_needs_Uniq :
  let c := Elem (s "a") false true 1 [(Mand, s "k")] [] None in
  let e := Elem (s "r") false true 1 [] [(Mand, c); (Mand, c)] None in
  map sd_name (render_abs quick_xml_de e) = [s "R"; s "RA1"; s "RA1"].
Proof. exact struct_names_needs_Uniq. Qed.

Example C04_types_example :
  let k := [(Mand, s "k")] in
  let e := Elem (s "r") false true 1 []
             [(Mand, Elem (s "a") false true 1 k
                        [(Mand, Elem (s "b") false false 2 k [] (Some 0%nat))] (Some 0%nat));
              (Opt, Elem (s "t") true true 1 [] [] (Some 1%nat))] None in
  Uniq e /\
  struct_refs (render_abs quick_xml_de e) = [s "A"; s "B"] /\
  map sd_name (render_abs quick_xml_de e) = [s "R"; s "A"; s "B"].
Proof. exact types_example. Qed.

Print Assumptions C07_render_loop_exits.
Print Assumptions C04_create_unused_name.
Print Assumptions C04_dec_injective.
Print Assumptions C04_id_new_values_distinct.
Print Assumptions C04_field_idents.
Print Assumptions C04_field_idents_at.
Print Assumptions C04_struct_names_unique.
Print Assumptions C04_struct_names_not_reserved.
Print Assumptions C04_struct_names_from_table.
Print Assumptions C04_types.
Print Assumptions C04_types_local.
Print Assumptions C04_types_defined.
Print Assumptions C04_struct_used_once.
Print Assumptions C04_loop_example.
Print Assumptions C04_field_idents_example.
Print Assumptions C04_field_idents_needs_Uniq.
Print Assumptions C04_struct_names_example.
Print Assumptions C04_struct_names_needs_Uniq.
Print Assumptions C04_types_example.
