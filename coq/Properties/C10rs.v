(* C10 / C13 — the presets of src/options.rs, translated from the current source on every run of
   bin/check C10 (bin/translate --only options -> Generated/OptionsRs.v), are the presets the
   theorems of C10.v, C02.v and C13.v speak about.  Only statements; proofs in
   Proofs/OptionsRsProofs.v. *)
From XSG.Model Require Import Strings Render Deser.
From XSG.Generated Require Import OptionsRs.
From XSG.Proofs Require Import OptionsRsProofs.
From Coq Require Import String List.
Import ListNotations.

Theorem C10_source_presets : quick_xml_de_rs = quick_xml_de /\ serde_xml_rs_rs = serde_xml_rs.
Proof. exact presets_rs_correct. Qed.

(* known finding K1, for the preset as the source defines it *)
Theorem C13_source_text_key_mismatch : text_identifier serde_xml_rs_rs <> fl_text_key sx_flavour.
Proof. exact source_text_key_mismatch. Qed.

Theorem C02_source_text_key_match :
  text_identifier quick_xml_de_rs = fl_text_key qx_flavour
  /\ attribute_prefix quick_xml_de_rs = fl_attr_prefix qx_flavour.
Proof. exact source_text_key_match. Qed.

Print Assumptions C10_source_presets.
Print Assumptions C13_source_text_key_mismatch.
Print Assumptions C02_source_text_key_match.
