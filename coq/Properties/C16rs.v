(* C16 at source level — the terms translated from src/element.rs (Generated/ElementRs.v), run in the
   RustElem evaluator, compute the model's construction operations for every input.
   Only statements; every proof is `exact <lemma>`. *)
From XSG.Model Require Import Convert Strings Necessity Element RustElem.
From XSG.Generated Require Import ElementRs.
From XSG.Proofs Require Import ElementProofs ElementRsProofs.
From Coq Require Import String List.
Import ListNotations.
Open Scope string_scope.

Theorem C16_source_add_unique_children :
  forall l c, run_fn no_call add_unique_rs (VChildren l) (VChild c)
              = Some (VUnit, VChildren (add_unique_elem l c)).
Proof. exact add_unique_rs_children. Qed.

Theorem C16_source_add_unique_attrs :
  forall l a, run_fn no_call add_unique_rs (VAttrs l) (VAttr a)
              = Some (VUnit, VAttrs (add_unique_attr l a)).
Proof. exact add_unique_rs_attrs. Qed.

(* `Vec::new()` before its item type is known *)
Theorem C16_source_add_unique_empty_attr :
  forall a, run_fn no_call add_unique_rs VEmptyVec (VAttr a) = Some (VUnit, VAttrs [a]).
Proof. exact add_unique_rs_empty_attr. Qed.

Theorem C16_source_set_multiple :
  forall e, run_fn no_call set_multiple_rs (VElem e) VUnit = Some (VUnit, VElem (set_multiple e)).
Proof. exact set_multiple_rs_correct. Qed.

Theorem C16_source_get_child :
  forall e n, run_fn no_call get_child_rs (VElem e) (VName n)
              = Some (opt_child (get_child (echildren e) n), VElem e).
Proof. exact get_child_rs_correct. Qed.

Theorem C16_source_get_child_mut :
  forall e n, run_fn no_call get_child_mut_rs (VElem e) (VName n)
              = Some (opt_child (get_child (echildren e) n), VElem e).
Proof. exact get_child_mut_rs_correct. Qed.

Theorem C16_source_remove_child :
  forall e n, run_fn no_call remove_child_rs (VElem e) (VName n)
              = Some (opt_child (fst (remove_child (echildren e) n)),
                      VElem (set_children e (snd (remove_child (echildren e) n)))).
Proof. exact remove_child_rs_correct. Qed.

Theorem C16_source_add_unique_child :
  forall e child, run_fn (call_of level0) add_unique_child_rs (VElem e) (VElem child)
                  = Some (VUnit, VElem (add_unique_child e child)).
Proof. exact add_unique_child_rs_correct. Qed.

Theorem C16_source_set_child_optional :
  forall e n, run_fn (call_of level0) set_child_optional_rs (VElem e) (VName n)
              = Some (VUnit, VElem (set_child_optional e n)).
Proof. exact set_child_optional_rs_correct. Qed.

Theorem C16_source_new :
  forall n a, run_fn (call_of level0) new_rs (VName n) (VNames a)
              = Some (VElem (new_element n a), VName n).
Proof. exact new_rs_correct. Qed.

(* "adding a name that is already present changes nothing", for the translated SOURCE *)
Theorem C16_source_add_present_noop :
  forall e child c, get_child (echildren e) (ename child) = Some c ->
    run_fn (call_of level0) add_unique_child_rs (VElem e) (VElem child) = Some (VUnit, VElem e).
Proof. exact add_present_noop_rs. Qed.

Example C16_source_example :
  let c1 := Elem (s "b") false true 1 [] [] (Some 0%nat) in
  let e0 := Elem (s "a") false true 1 [] [(Mand, c1)] None in
  run_fn (call_of level0) set_child_optional_rs (VElem e0) (VName (s "b"))
  = Some (VUnit, VElem (Elem (s "a") false true 1 [] [(Opt, c1)] None)).
Proof. vm_compute. reflexivity. Qed.

(* the hypothesis of C16_source_add_present_noop is satisfiable *)
Example C16_source_add_present_noop_example :
  let c1 := Elem (s "b") false true 1 [] [] (Some 0%nat) in
  let e0 := Elem (s "a") false true 1 [] [(Mand, c1)] None in
  get_child (echildren e0) (ename c1) = Some (Mand, c1) /\
  run_fn (call_of level0) add_unique_child_rs (VElem e0) (VElem c1) = Some (VUnit, VElem e0).
Proof. exact add_present_noop_rs_example. Qed.

Theorem C16_source_increment : forall e,
  run_fn no_call increment_rs (VElem e) VUnit = Some (VUnit, VElem (increment e)).
Proof. exact increment_rs_correct. Qed.

Theorem C16_source_merge_attr : forall e l,
  run_fn no_call merge_attr_rs (VElem e) (VAttrs l)
  = Some (VElem (merge_attr e l), VElem (merge_attr e l)).
Proof. exact merge_attr_rs_correct. Qed.

(* two helpers of the renderer: which children are rendered as plain String fields, and which
   attribute names keep their prefix *)
Theorem C16_source_contains_only_text : forall e,
  run_fn no_call contains_only_text_rs (VElem e) VUnit = Some (VBool (contains_only_text e), VElem e).
Proof. exact contains_only_text_rs_correct. Qed.

Theorem C16_source_starts_with_xmlns : forall x,
  run_fn no_call starts_with_xmlns_rs (VName x) VUnit = Some (VBool (Convert.starts_with_xmlns x), VName x).
Proof. exact starts_with_xmlns_rs_correct. Qed.

Print Assumptions C16_source_contains_only_text.
Print Assumptions C16_source_starts_with_xmlns.
Print Assumptions C16_source_increment.
Print Assumptions C16_source_merge_attr.
Print Assumptions C16_source_add_unique_children.
Print Assumptions C16_source_add_unique_attrs.
Print Assumptions C16_source_add_unique_empty_attr.
Print Assumptions C16_source_set_multiple.
Print Assumptions C16_source_get_child.
Print Assumptions C16_source_get_child_mut.
Print Assumptions C16_source_remove_child.
Print Assumptions C16_source_add_unique_child.
Print Assumptions C16_source_set_child_optional.
Print Assumptions C16_source_new.
Print Assumptions C16_source_add_present_noop.
Print Assumptions C16_source_example.
Print Assumptions C16_source_add_present_noop_example.
