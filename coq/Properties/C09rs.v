(* C09 / C10 at source level — the field rendering of src/element.rs (`to_serde_struct` and the
   recursive `inner_to_serde_struct`: derive line, struct header, the loop over the attributes with
   its rename rule, the text field, the sort of attributes and children according to
   Options::sort, the loop over the children with the four type wrappers, the look-ups in the
   struct-name table along `trace`, the structs of the children appended after the closing brace),
   translated by bin/translate_render.py into the Gallina functions of Generated/RenderRs.v on
   every run of bin/check C09 / C10, computes exactly `to_serde_struct` of Model/Render.v:
   byte for byte, for every tree, every option value, every trace and every struct-name table,
   for every fuel >= esize e (the number of elements of the tree; the Rust recursion goes through
   a sorted clone of the children, so the translation recurses on fuel; `None` = out of fuel).
   With C04rs.v (identifier map), C14hints.v (name hints), C14rs.v (struct-name table) and
   C10rs.v (option presets) the whole renderer is tied to the current source by translation:
   every theorem about `to_serde_struct` / `render_abs` (C04, C05, C09, C10, C14, C16render, Reparse)
   is a theorem about what src/element.rs says now.
   Trusted: the translator and the readings fixed in Model/RustRender.v (in particular
   sort_unstable_by_key = insertion sort by the key; `.to_string()` = identity, i.e. T = String).
   Only statements; every proof is `exact <lemma of Proofs/RenderRsProofs.v>`. *)
From XSG.Model Require Import Strings Chars Convert Necessity Element Render RustRender Reparse.
From XSG.Generated Require Import RenderRs.
From XSG.Proofs Require Import RenderProofs NamesRsProofs ConvertProofs WfProofs ReparseProofs RenderRsProofs.
From Coq Require Import String List.
From Coq Require Permutation Sorted.
Import ListNotations.
Open Scope list_scope.
Open Scope nat_scope.

(* one level of the source, for ANY function `rec` that renders the children correctly: the
   obligation is about the body as translated, not about a particular fuel *)
Theorem C09_source_body :
  forall (rec : element -> options -> list str -> name_table -> option (str * list str))
         (e : element) (o : options) (trace : list str) (tbl : name_table),
    (forall c, In c (echildren e) -> contains_only_text (snd c) = false ->
               forall tr, rec (snd c) o tr tbl = Some (print (render_abs_at o tbl (snd c) tr), tr)) ->
    inner_to_serde_struct_body rec e o trace tbl
    = Some (print (render_abs_at o tbl e trace), trace).
Proof. exact body_spec. Qed.

(* the recursive function: the rendering of the subtree, and `trace` restored *)
Theorem C09_source_inner :
  forall (fuel : nat) (e : element) (o : options) (trace : list str) (tbl : name_table),
    esize e <= fuel ->
    inner_to_serde_struct_rs fuel e o trace tbl
    = Some (print (render_abs_at o tbl e trace), trace).
Proof. exact inner_spec. Qed.

(* the public function *)
Theorem C09_source_to_serde_struct :
  forall (e : element) (o : options) (fuel : nat),
    esize e <= fuel ->
    to_serde_struct_rs fuel e o = Some (to_serde_struct o e).
Proof. exact to_serde_struct_rs_spec. Qed.

(* the bytes the source produces parse back to exactly the abstract structs of the model, so the
   order theorems of C09.v and the option theorems of C10.v, stated over `render_abs`, describe
   the source's output *)
Theorem C09_source_reparse :
  forall (e : element) (o : options) (fuel : nat),
    esize e <= fuel -> tree_names_ok e = true -> options_printable o = true ->
    exists r, to_serde_struct_rs fuel e o = Some r /\ reparse r = Some (map erase' (render_abs o e)).
Proof. exact to_serde_struct_rs_reparse. Qed.

(* fuel below the size of a chain is not enough: None is "out of fuel", never a rendering *)
Example C09_source_out_of_fuel :
  let leaf := Elem (s "c") false true 1 [(Mand, s "k")] [] (Some 0) in
  let mid := Elem (s "b") false true 1 [] [(Mand, leaf)] (Some 0) in
  let r := Elem (s "a") false true 1 [] [(Mand, mid)] None in
  to_serde_struct_rs 2 r quick_xml_de = None /\ esize r = 3
  /\ to_serde_struct_rs 3 r quick_xml_de = Some (to_serde_struct quick_xml_de r).
Proof. exact source_out_of_fuel. Qed.

(* a non-trivial run: prefixed and xmlns attributes, a keyword child, a text-only child, a repeated
   optional child with a struct of its own, both sort orders, both presets *)
Example C09_source_example :
  let leaf n p := Elem (s n) true true 1 [] [] (Some p) in
  let ty := Elem (s "type") true false 2 [(Mand, s "x")] [(Opt, leaf "zz" 0)] (Some 1) in
  let k := Elem (s "k") false true 1 [] [(Mand, leaf "zz" 0)] (Some 2) in
  let r := Elem (s "root") false true 1 [(Mand, s "b:id"); (Opt, s "xmlns:a"); (Opt, s "a")]
             [(Opt, ty); (Opt, leaf "aa" 0); (Mand, k)] None in
  let srt := {| text_identifier := s "$value"; attribute_prefix := []; derive := []; sort := XmlName |} in
  to_serde_struct_rs 3 r quick_xml_de = Some (to_serde_struct quick_xml_de r)
  /\ to_serde_struct_rs 3 r srt = Some (to_serde_struct srt r)
  /\ to_serde_struct quick_xml_de r <> to_serde_struct srt r.
Proof. exact source_example. Qed.

(* the reading of `sort_unstable_by_key` (Model/RustRender.v: insertion sort by the key) is the only
   possible one when the keys are pairwise distinct: ANY sorted permutation of the list - whatever
   algorithm std uses - is that list.  Child names and attribute names are distinct under Uniq, and
   the parser gives the children of one element distinct positions. *)
Theorem C09_source_sort_by_name_any :
  forall (A : Type) (key : A -> str) (l l' : list A),
    NoDup (map key l) -> Permutation.Permutation l l' ->
    Sorted.Sorted (fun a b => str_leb (key a) (key b) = true) l' -> l' = sort_by_key_str key l.
Proof. exact @sort_by_key_str_any. Qed.

Theorem C09_source_sort_by_position_any :
  forall (A : Type) (key : A -> option nat) (l l' : list A),
    NoDup (map key l) -> Permutation.Permutation l l' ->
    Sorted.Sorted (fun a b => pos_leb (key a) (key b) = true) l' -> l' = sort_by_key_pos key l.
Proof. exact @sort_by_key_pos_any. Qed.

Print Assumptions C09_source_body.
Print Assumptions C09_source_inner.
Print Assumptions C09_source_to_serde_struct.
Print Assumptions C09_source_reparse.
Print Assumptions C09_source_out_of_fuel.
Print Assumptions C09_source_example.
Print Assumptions C09_source_sort_by_name_any.
Print Assumptions C09_source_sort_by_position_any.
