(* C04 — legality of identifiers (field identifiers and struct names).  Definitions of
   `name_ok`, `ident_ok`, `struct_name_ok`, `tree_names_ok`, `subnode`, `lastn` are in
   Proofs/ConvertProofs.v (the legality predicates are the same as in Corr/Oracles.v).
   `name_ok` carries a `case_closed` conjunct for historical reasons; since the character table
   is closed under the case mappings it is implied by `in_sigma` (`C04_case_closed_sigma`), so
   `name_ok` is exactly "characters of Sigma that are identifier characters or - . :, with a letter
   before any digit-like character" (`C04_name_ok_plain`). *)
From XSG.Model Require Import Strings Chars Convert Necessity Element Render.
From XSG.Proofs Require Import ConvertProofs.
From Coq Require Import String.
Open Scope list_scope.

Theorem C04_valid_key_legal : forall x p : str,
  name_ok x = true -> name_ok p = true -> ident_ok (to_valid_key x p) = true.
Proof. exact valid_key_ok. Qed.

Theorem C04_field_ident_legal : forall (r : list str) (k : str) (t : idty),
  ident_ok k = true -> ident_ok (fst (create_unused_name r k t)) = true.
Proof. exact field_ident_ok. Qed.

Theorem C04_field_idents_legal : forall e : element, tree_names_ok e = true ->
  forall x, subnode x e -> forall kv, In kv (id_new x) -> ident_ok (snd kv) = true.
Proof. exact field_idents_legal_tree. Qed.

Theorem C04_struct_name_legal : forall (pth : list str) (m : nat) (sfx u : str),
  Forall (fun x => name_ok x = true) pth ->
  ~ In u reserved_struct_names ->
  u = List.concat (map to_pascal_case (lastn m pth)) ++ sfx ->
  (sfx = [] \/ exists j, sfx = dec j) ->
  (1 <= m <= List.length pth)%nat ->
  struct_name_ok u = true.
Proof. exact struct_name_legal. Qed.

Theorem C04_struct_step_legal : forall (e : element) (pth : list str) (h : hints) (res : list str) (n : nat),
  Forall (fun x => name_ok x = true) (pth ++ [ename e]) ->
  hint_get h (formatted_name e) = Some n -> (1 <= n)%nat ->
  let u := unused_loop (S (List.length res)) 0
                       (expand_name e (map to_pascal_case (pth ++ [ename e])) h) [] res in
  ~ In u reserved_struct_names -> struct_name_ok u = true.
Proof. exact struct_step_legal. Qed.

Theorem C04_keywords_complete : forall k : str,
  In k (map s
   ["as";"break";"const";"continue";"crate";"else";"enum";"extern";"false";"fn";"for";"if";"impl";
    "in";"let";"loop";"match";"mod";"move";"mut";"pub";"ref";"return";"self";"Self";"static";
    "struct";"super";"trait";"true";"type";"unsafe";"use";"where";"while";"async";"await";"dyn";
    "abstract";"become";"box";"do";"final";"macro";"override";"priv";"typeof";"unsized";"virtual";
    "yield";"try"]%string) ->
  is_keyword k = true.
Proof. exact keywords_complete. Qed.

(* Sigma is closed under to_lowercase / to_uppercase: the model classifies every character that
   convert_string can produce from a name over Sigma *)
Theorem C04_case_closed_sigma : forall c, in_sigma c = true -> case_closed c = true.
Proof. exact case_closed_sigma. Qed.
Theorem C04_name_ok_plain : forall x, name_ok0 x = name_ok x.
Proof. exact name_ok0_ok. Qed.
(* U+023A lowercases to U+2C65, outside U+00A0..U+052F: covered because the table holds the image *)
Example C04_case_image_outside_range :
  name_ok0 [570] = true /\ ident_chars_ok (to_snake_case [570]) = true.
Proof. exact name_ok0_sufficient_snake. Qed.

Print Assumptions C04_valid_key_legal.
Print Assumptions C04_field_ident_legal.
Print Assumptions C04_field_idents_legal.
Print Assumptions C04_struct_name_legal.
Print Assumptions C04_struct_step_legal.
Print Assumptions C04_keywords_complete.
Print Assumptions C04_case_closed_sigma.
Print Assumptions C04_name_ok_plain.
Print Assumptions C04_case_image_outside_range.
