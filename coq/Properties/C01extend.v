(* C01 (also C16 / C06) for hand-built or previously edited trees — extending ANY tree with a
   document makes the tree describe that document.
   Nothing is assumed about the start tree except `Uniq` (child names and attribute names are
   unique under every node — what the public construction operations guarantee, C16): counts,
   Mandatory/Optional tags, standalone flags, positions and text flags are arbitrary.  This is
   the statement the differential check `or_mixed_admits` of Corr/OpsCorr.v evaluates on the
   real library after random hand edits.
   * `TreeAdmits x nd` (Proofs/AdmitProofs.v, read by C01_TreeAdmits_reading in C01.v): every
     attribute of nd has an entry in x, a Mandatory attribute of x is present in nd, a Mandatory
     child of x is present among the kids, a standalone child occurs at most once, character
     data only where x has the text flag, every child element has its node, hereditarily.
   * C01_extend_admits: after `extend_struct` with a document (one root element, named like the
     tree) the tree admits that document's root.
   * C01_admits_monotone: absorbing one more occurrence <n ..> under a parent never loses a
     document element the child called n admitted (attributes and children can only lose
     Mandatory / standalone, the text flag can only be gained, nodes are never removed).
   * C01_absorb_admits: absorbing an element under any parent yields a child admitting it.
   * C01_extend_keeps_admits, C01_extend_all_admits: whole-document forms; after any number of
     extensions of any tree, every one of the documents is admitted.
   * C01_extend_needs_Uniq: with two children of the same name the statement fails.
   Only statements; every proof is `exact <lemma of Proofs/ExtendAdmits.v>`. *)
From Coq Require Import String.
From XSG.Model Require Import Strings Necessity Element Parser Dom Spec.
From XSG.Proofs Require Import ElementProofs ReprDefs AdmitProofs ExtendAdmits.
Local Open Scope list_scope.

Theorem C01_extend_admits : forall e top r e',
  Uniq e -> Forall wf_node top ->
  elem_names top = [ename e] ->          (* one root element, named like e *)
  doc_root top = Some r ->
  extend_struct_dom e top = Some e' -> TreeAdmits e' r.
Proof. exact extend_admits. Qed.

Theorem C01_admits_monotone : forall root n ef a kk known d nd,
  Uniq root -> wf_node (NElem n ef a kk) ->
  get_child (echildren root) n = Some d -> TreeAdmits (snd d) nd ->
  exists d', get_child (echildren (fst (absorb (NElem n ef a kk) root known))) n = Some d'
             /\ TreeAdmits (snd d') nd.
Proof. exact TreeAdmits_absorb_more. Qed.

Theorem C01_absorb_admits : forall root n ef a kk known,
  Uniq root -> wf_node (NElem n ef a kk) ->
  exists c, get_child (echildren (fst (absorb (NElem n ef a kk) root known))) n = Some c
            /\ TreeAdmits (snd c) (NElem n ef a kk).
Proof. exact absorb_admits. Qed.

Theorem C01_extend_keeps_admits : forall e top e' nd,
  Uniq e -> Forall wf_node top -> elem_names top = [ename e] ->
  extend_struct_dom e top = Some e' -> TreeAdmits e nd -> TreeAdmits e' nd.
Proof. exact extend_keeps_admitted. Qed.

(* extend(D1), ..., extend(Dk) from any tree: the same fold as in `run_dom` *)
Theorem C01_extend_all_admits : forall docs e e',
  Uniq e -> Forall (Forall wf_node) docs -> Forall (fun p => elem_names p = [ename e]) docs ->
  fold_left (fun acc x => match acc with Some t => extend_struct_dom t x | None => None end)
            docs (Some e) = Some e' ->
  forall d r, In d docs -> doc_root d = Some r -> TreeAdmits e' r.
Proof. exact extend_all_admits. Qed.

Theorem C01_extend_all_keeps_admits : forall docs e e' nd,
  Uniq e -> Forall (Forall wf_node) docs -> Forall (fun p => elem_names p = [ename e]) docs ->
  fold_left (fun acc x => match acc with Some t => extend_struct_dom t x | None => None end)
            docs (Some e) = Some e' ->
  TreeAdmits e nd -> TreeAdmits e' nd.
Proof. exact extend_all_keeps_admitted. Qed.

(* ---------- examples ---------- *)
Local Open Scope string_scope.
(* ext_tree = hand-built  r{ @id Mandatory; <y> Mandatory, count 5, not standalone;
                             <z @k> Optional, count 2, standalone, text }   (no text flag on r)
   ext_doc  = <?..?><r lang=".."><z>t</z><z k=".."/>text</r>             (ExtendAdmits.v)
   the hypotheses hold; afterwards <y> is Optional with its count 5 untouched, `id` is
   Optional, <z> is Optional and no longer standalone, r has the text flag, and the tree
   admits the document *)
Example C01_extend_example :
  Uniq ext_tree /\ Forall wf_node ext_doc /\ elem_names ext_doc = [ename ext_tree]
  /\ exists r e', doc_root ext_doc = Some r /\ extend_struct_dom ext_tree ext_doc = Some e'
     /\ get_child (echildren e') (s "y") = Some (Opt, Elem (s "y") false false 5 [] [] (Some 0%nat))
     /\ eattrs e' = [(Opt, s "id"); (Opt, s "lang")]
     /\ option_map (fun c => (fst c, estandalone (snd c))) (get_child (echildren e') (s "z"))
        = Some (Opt, false)
     /\ etext e' = true
     /\ TreeAdmits e' r.
Proof. exact ext_example. Qed.

(* before the extension the tree does not admit the document: Mandatory <y> is missing *)
Example C01_extend_example_before :
  forall r, doc_root ext_doc = Some r -> ~ TreeAdmits ext_tree r.
Proof. exact ext_example_before. Qed.

(* ext_dup = r{ <y> Mandatory count 1; <y> Mandatory count 2 }, extended with <r></r>:
   the second <y> stays Mandatory, the document is not admitted *)
Example C01_extend_needs_Uniq :
  let top := [NElem (s "r") false [] []] in
  Forall wf_node top /\ elem_names top = [ename ext_dup]
  /\ exists r e', doc_root top = Some r /\ extend_struct_dom ext_dup top = Some e'
                  /\ ~ TreeAdmits e' r /\ ~ Uniq ext_dup.
Proof. exact extend_admits_needs_Uniq. Qed.

(* ext_doc2 = <r id=".."><y/><w><v/></w></r>: two extensions in a row from the hand-built tree *)
Example C01_extend_example_all :
  exists e', extend_all ext_tree [ext_doc; ext_doc2] = Some e'
  /\ forall d r, In d [ext_doc; ext_doc2] -> doc_root d = Some r -> TreeAdmits e' r.
Proof. exact ext_example_all. Qed.

Print Assumptions C01_extend_admits.
Print Assumptions C01_admits_monotone.
Print Assumptions C01_absorb_admits.
Print Assumptions C01_extend_keeps_admits.
Print Assumptions C01_extend_all_admits.
Print Assumptions C01_extend_all_keeps_admits.
Print Assumptions C01_extend_example.
Print Assumptions C01_extend_example_before.
Print Assumptions C01_extend_needs_Uniq.
Print Assumptions C01_extend_example_all.
