(* C01 — the generated structs describe every source document.
   "For every sequence of well-formed XML documents that share a root element name (and in which
    no two sibling element names, and no two attribute names of one element, differ only by
    namespace prefix), the struct definitions rendered after parsing the first document and
    extending with the others describe each of those documents.  At every position of every
    document each attribute and each child element has a field bound to its XML name in the
    struct for that position, every field not wrapped in Option is present in every occurrence
    of its parent, every child field not wrapped in Vec occurs at most once per parent
    occurrence, and character data appears only where the struct has a text field or the
    element is typed String."
   * `TreeAdmits x nd` (Proofs/AdmitProofs.v; read by C01_TreeAdmits_reading): the tree node x
     describes the document element nd — every attribute has an entry, a non-optional attribute
     is present, a non-optional child is present, a child not marked multiple occurs at most
     once, character data only where the text flag is set, and every child element has its
     node, hereditarily.
   * C01_repr_admits: a node that has absorbed exactly the occurrences `os` (`Repr`, the
     parser's invariant proved in ExactProofs.v) describes each of them.
   * C01_tree_admits: the tree returned by `run_dom docs` describes the root element of every
     one of the documents.
   * C01_render_admits_tree / C01_render_admits / C01_render_admits_quick_xml: the boolean oracle
     `admits_b` of Corr/Oracles.v — the check the differential harness applies to the REAL
     implementation's output for every source document — is true of the model's rendering.
     Hypotheses: `clash_free_tree e` (the property's own hypothesis, on the inferred tree: at
     every node the attribute names after prefix removal, and the child names after prefix
     removal, are pairwise different), `names_plain e` (no element name below the root contains
     '@' or '$' — true of every XML name; it keeps the key spaces prefix ++ attribute / child
     local name / text identifier of one struct apart), and on the options: the attribute
     prefix starts with '@' and the text identifier contains '$' (`opts_plain`; the quick-xml
     preset "@", "$text").  All three are needed: C01_needs_clash_free, C01_needs_plain,
     C01_needs_prefix.
   Only statements; every proof is `exact <lemma of Proofs/AdmitProofs.v>`. *)
From Coq Require Import String.
From XSG.Model Require Import Strings Necessity Element Dom Spec Render.
From XSG.Proofs Require Import ElementProofs ReprDefs AdmitProofs.
From XSG.Corr Require Import Common Oracles.
Local Open Scope list_scope.

(* ---------- the tree ---------- *)
Theorem C01_TreeAdmits_reading : forall x n ef attrs kids0,
  TreeAdmits x (NElem n ef attrs kids0) <->
  let kids := okids (NElem n ef attrs kids0) in      (* no content for the empty form <n/> *)
  (forall a, In a attrs -> In a (map snd (eattrs x)))
  /\ (forall a, In (Mand, a) (eattrs x) -> In a attrs)
  /\ (forall c, In c (echildren x) -> fst c = Mand -> In (cname c) (elem_names kids))
  /\ (forall c, In c (echildren x) -> estandalone (snd c) = true ->
                (List.length (named (cname c) kids) <= 1)%nat)
  /\ (chardata kids = true -> etext x = true)
  /\ Forall (fun k => match k with
                      | NElem m _ _ _ =>
                          exists c, get_child (echildren x) m = Some c /\ TreeAdmits (snd c) k
                      | _ => True
                      end) kids.
Proof. exact TreeAdmits_elem. Qed.

Theorem C01_repr_admits : forall nd x os, Repr x os -> In nd os -> TreeAdmits x nd.
Proof. exact repr_admits. Qed.

Theorem C01_tree_admits : forall docs m e,
  docs <> [] -> Forall (Forall wf_node) docs -> Forall (fun p => elem_names p = [m]) docs ->
  run_dom docs = Some e ->
  forall d r, In d docs -> doc_root d = Some r -> TreeAdmits e r.
Proof. exact tree_admits. Qed.

(* ---------- the rendered structs ---------- *)
Theorem C01_render_admits_tree : forall o e d r,
  ((exists p, attribute_prefix o = 64%N :: p) /\ In 36%N (text_identifier o)) ->
  clash_free_tree e = true -> names_plain e = true ->
  doc_root d = Some r -> TreeAdmits e r ->
  admits_b o (map erase (render_abs o e)) d = true.
Proof. exact render_admits_tree. Qed.

Theorem C01_render_admits : forall o docs m e,
  docs <> [] -> Forall (Forall wf_node) docs -> Forall (fun p => elem_names p = [m]) docs ->
  run_dom docs = Some e ->
  clash_free_tree e = true -> names_plain e = true ->
  attribute_prefix o = s "@" -> text_identifier o = s "$text" ->
  forall d, In d docs -> admits_b o (map erase (render_abs o e)) d = true.
Proof. exact render_admits. Qed.

Theorem C01_render_admits_quick_xml : forall docs m e,
  docs <> [] -> Forall (Forall wf_node) docs -> Forall (fun p => elem_names p = [m]) docs ->
  run_dom docs = Some e ->
  clash_free_tree e = true -> names_plain e = true ->
  forall d, In d docs -> admits_b quick_xml_de (map erase (render_abs quick_xml_de e)) d = true.
Proof. exact render_admits_quick_xml. Qed.

(* the tree-level hypothesis implies the invariant the other properties use *)
Theorem C01_clash_free_Uniq : forall e, clash_free_tree e = true -> Uniq e.
Proof. exact clash_free_Uniq. Qed.

(* ---------- examples ---------- *)
(* ex_doc1 = <r id=".."><ns:a>t</ns:a><b k=".."><c/></b><b k=".."/></r>
   ex_doc2 = <r id=".." lang=".."><b k="..">text<c/><c/></b></r>          (AdmitProofs.v) *)
Example C01_example_hypotheses :
  ex_docs <> [] /\ Forall (Forall wf_node) ex_docs
  /\ Forall (fun p => elem_names p = [s "r"]) ex_docs
  /\ exists e, run_dom ex_docs = Some e /\ clash_free_tree e = true /\ names_plain e = true.
Proof. exact ex_hypotheses. Qed.

Example C01_example_admits_both :
  match run_dom [ex_doc1; ex_doc2] with
  | Some e => map (admits_b quick_xml_de (map erase (render_abs quick_xml_de e))) [ex_doc1; ex_doc2]
  | None => []
  end = [true; true].
Proof. exact ex_admits_both. Qed.

(* the structs of the first document alone do not describe the second *)
Example C01_example_first_alone :
  match run_dom [ex_doc1] with
  | Some e => map (admits_b quick_xml_de (map erase (render_abs quick_xml_de e))) [ex_doc1; ex_doc2]
  | None => []
  end = [true; false].
Proof. exact ex_first_alone. Qed.

(* ex_doc3 = <r id=".." lang=".."/>: one attribute more than ex_doc1 is enough *)
Example C01_example_extra_attribute :
  match run_dom [ex_doc1], run_dom [ex_doc1; ex_doc3] with
  | Some e1, Some e13 =>
      (admits_b quick_xml_de (map erase (render_abs quick_xml_de e1)) ex_doc3,
       map (admits_b quick_xml_de (map erase (render_abs quick_xml_de e13))) [ex_doc1; ex_doc3])
  | _, _ => (true, [])
  end = (false, [true; true]).
Proof. exact ex_extra_attribute. Qed.

(* <r><p:a k=".."/><q:a/></r> : clash_free false, plain true, admitted false *)
Example C01_needs_clash_free :
  match run_dom [ex_clash] with
  | Some e => (clash_free_tree e, names_plain e,
               admits_b quick_xml_de (map erase (render_abs quick_xml_de e)) ex_clash)
  | None => (true, true, true)
  end = (false, true, false).
Proof. exact ex_needs_clash_free. Qed.

(* an element called `@a` beside an attribute `a` : clash_free true, plain false, admitted false *)
Example C01_needs_plain :
  match run_dom [ex_notplain] with
  | Some e => (clash_free_tree e, names_plain e,
               admits_b quick_xml_de (map erase (render_abs quick_xml_de e)) ex_notplain)
  | None => (false, true, true)
  end = (true, false, false).
Proof. exact ex_needs_plain. Qed.

(* <r a=".."><a k=".."/></r> : admitted with prefix "@", not with the empty prefix *)
Example C01_needs_prefix :
  match run_dom [ex_noprefix] with
  | Some e => (clash_free_tree e, names_plain e,
               admits_b quick_xml_de (map erase (render_abs quick_xml_de e)) ex_noprefix,
               admits_b serde_xml_rs (map erase (render_abs serde_xml_rs e)) ex_noprefix)
  | None => (false, false, false, true)
  end = (true, true, true, false).
Proof. exact ex_needs_prefix. Qed.

Print Assumptions C01_TreeAdmits_reading.
Print Assumptions C01_repr_admits.
Print Assumptions C01_tree_admits.
Print Assumptions C01_render_admits_tree.
Print Assumptions C01_render_admits.
Print Assumptions C01_render_admits_quick_xml.
Print Assumptions C01_clash_free_Uniq.
Print Assumptions C01_example_hypotheses.
Print Assumptions C01_example_admits_both.
Print Assumptions C01_example_first_alone.
Print Assumptions C01_example_extra_attribute.
Print Assumptions C01_needs_clash_free.
Print Assumptions C01_needs_plain.
Print Assumptions C01_needs_prefix.
