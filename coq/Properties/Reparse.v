(* Reparse — the printed bytes determine the struct definitions.
   `reparse` (Model/Reparse.v) is the Coq transcription of the harness's re-parser of the rendered
   source text (harness/src/outp.rs `parse_output`), including its final test that printing the
   result gives the input back.  It inverts the printer `print` of Model/Render.v
   (to_serde_struct o e = print (render_abs o e)) on every list of struct definitions that is
   `printable`, and everything the renderer emits is printable.  `erase'` forgets the two fields of a
   `field` that are not printed (f_kind, f_xml), `to_oracle` converts to the records of Corr/Oracles.v.

   printable ds (Proofs/ReparseProofs.v), for every struct d of ds and every field f of d:
     - no newline (10) in: the derive string, the struct name, the rename, the identifier, the name
       of a struct-typed field                                   (the format is line based);
     - the identifier does not contain `: ` (colon, space)        (the field line is split there);
     - a struct type name is not `String`                         (it would be read as TyString);
     - a bare (WPlain) struct type name is not of the form Option<..> or Vec<..>, and one under
       Option (WOption) is not of the form Vec<..>                (they would be read as wrapped types).
   Nothing else is needed (Reparse_liberal), each of these is needed (the examples Reparse_needs_...), and they are
   exact: Reparse_exact. *)
From XSG.Model Require Import Strings Chars Convert Necessity Element Render Reparse.
From XSG.Corr Require Import Common Oracles.
From XSG.Proofs Require Import ElementProofs ConvertProofs WfProofs ReparseProofs.
From Coq Require Import String.
Open Scope list_scope.

(* ---------- the parser inverts the printer ---------- *)
Theorem Reparse_print_inverse : forall ds : list structdef,
  printable ds = true -> reparse (print ds) = Some (map erase' ds).
Proof. exact reparse_print. Qed.

Theorem Reparse_print_inverse_parsed : forall ps : list pstruct',
  printable' ps = true -> reparse (print' ps) = Some ps.
Proof. exact reparse_print'. Qed.

Theorem Reparse_print_inverse_oracle : forall ds : list structdef,
  printable ds = true -> reparse_oracle (print ds) = Some (map erase ds).
Proof. exact reparse_oracle_print. Qed.

(* ---------- whatever the parser accepts is the printed form of what it returns ---------- *)
Theorem Reparse_sound : forall (x : str) (ps : list pstruct'),
  reparse x = Some ps -> print' ps = x.
Proof. exact reparse_sound. Qed.

Theorem Reparse_injective : forall (x y : str) (ps : list pstruct'),
  reparse x = Some ps -> reparse y = Some ps -> x = y.
Proof. exact reparse_injective. Qed.

Theorem Reparse_print_erase : forall ds : list structdef, print ds = print' (map erase' ds).
Proof. exact print_erase. Qed.

(* ---------- the conditions are exact ---------- *)
Theorem Reparse_exact : forall ds : list structdef,
  reparse (print ds) = Some (map erase' ds) <-> printable ds = true.
Proof. exact printable_exact. Qed.

Theorem Reparse_exact_parsed : forall ps : list pstruct',
  reparse (print' ps) = Some ps <-> printable' ps = true.
Proof. exact printable_exact'. Qed.

(* no string of a parse result contains a newline *)
Theorem Reparse_parsed_no_newline : forall (x : str) (ps : list pstruct'),
  reparse_raw x = Some ps -> forallb struct_nl_free ps = true.
Proof. exact reparse_raw_nl_free. Qed.

(* the meaning of the tests inside `printable` *)
Theorem Reparse_printable_split : forall ps : list pstruct',
  printable' ps = forallb struct_nl_free ps && forallb struct_shape ps.
Proof. exact printable_split. Qed.
Theorem Reparse_no_nl_spec : forall x : str, no_nl x = true <-> ~ In 10%N x.
Proof. exact no_nl_spec. Qed.
Theorem Reparse_has_colon_space_spec : forall x : str,
  has_colon_space x = true <-> exists a b, x = a ++ 58%N :: 32%N :: b.
Proof. exact has_colon_space_spec. Qed.
Theorem Reparse_is_wrapped_spec : forall p q x : str,
  is_wrapped p q x = true <-> exists m, x = p ++ m ++ q.
Proof. exact is_wrapped_spec. Qed.

(* ---------- the parser's primitives and its fuel ---------- *)
Theorem Reparse_strip_prefix_spec : forall p x r : str, strip_prefix p x = Some r <-> x = p ++ r.
Proof. exact strip_prefix_spec. Qed.
Theorem Reparse_strip_suffix_spec : forall q x r : str, strip_suffix q x = Some r <-> x = r ++ q.
Proof. exact strip_suffix_spec. Qed.
Theorem Reparse_split_once_spec : forall (p x a b : str), split_once p x = Some (a, b) -> x = a ++ p ++ b.
Proof. exact split_once_spec. Qed.
Theorem Reparse_split_lines_no_nl : forall x : str, forallb no_nl (split_lines x) = true.
Proof. exact split_lines_no_nl. Qed.
Theorem Reparse_join_split_lines : forall x : str, join_nl (split_lines x) = x.
Proof. exact join_split_lines. Qed.
Theorem Reparse_fuel : forall (x : str) (fuel : nat),
  (List.length (split_lines x) < fuel)%nat -> parse_structs fuel (split_lines x) = reparse_raw x.
Proof. exact reparse_raw_fuel. Qed.

(* ---------- the renderer's output ---------- *)
Theorem Reparse_render_printable : forall (o : options) (e : element),
  tree_names_ok e = true -> options_printable o = true -> printable (render_abs o e) = true.
Proof. exact render_printable. Qed.

Theorem Reparse_render : forall (o : options) (e : element),
  tree_names_ok e = true -> options_printable o = true ->
  reparse (to_serde_struct o e) = Some (map erase' (render_abs o e)).
Proof. exact reparse_to_serde_struct. Qed.

Theorem Reparse_render_oracle : forall (o : options) (e : element),
  tree_names_ok e = true -> options_printable o = true ->
  reparse_oracle (to_serde_struct o e) = Some (map erase (render_abs o e)).
Proof. exact reparse_oracle_to_serde_struct. Qed.

Theorem Reparse_options_printable_literal : forall o : options,
  literal_ok (attribute_prefix o) = true -> literal_ok (text_identifier o) = true -> no_nl (derive o) = true ->
  options_printable o = true.
Proof. exact options_printable_literal. Qed.

Theorem Reparse_render_wf : forall (o : options) (e : element),
  Uniq e -> tree_names_ok e = true ->
  literal_ok (attribute_prefix o) = true -> literal_ok (text_identifier o) = true -> no_nl (derive o) = true ->
  exists ps, reparse_oracle (to_serde_struct o e) = Some ps /\ wf_b ps = true.
Proof. exact reparse_oracle_wf. Qed.

(* ---------- conversions ---------- *)
Theorem Reparse_of_to_oracle : forall d : pstruct', of_oracle (to_oracle d) = d.
Proof. exact of_to_oracle. Qed.
Theorem Reparse_to_of_oracle : forall d : pstruct, to_oracle (of_oracle d) = d.
Proof. exact to_of_oracle. Qed.
Theorem Reparse_to_oracle_erase : forall d : structdef, to_oracle (erase' d) = erase d.
Proof. exact to_oracle_erase. Qed.

(* ---------- examples ---------- *)
Example Reparse_example_tree :
  tree_names_ok wf_ex_tree = true
  /\ options_printable quick_xml_de = true /\ options_printable serde_xml_rs = true
  /\ printable (render_abs quick_xml_de wf_ex_tree) = true
  /\ reparse (to_serde_struct quick_xml_de wf_ex_tree) = Some (map erase' (render_abs quick_xml_de wf_ex_tree))
  /\ List.length (split_lines (to_serde_struct quick_xml_de wf_ex_tree)) = 44%nat
  /\ option_map (map (fun p => (ps_name' p, map pf_ident' (ps_fields' p))))
                (reparse (to_serde_struct quick_xml_de wf_ex_tree))
     = Some [ (s "XsSelf", [s "xmlns_xs"; s "xs_type_attr"; s "xs_self_type_attr"; s "text"; s "text_content";
                            s "foo"; s "foo_1"; s "xs_self_type"; s "xs_type"]);
              (s "XsSelfFoo", [s "foo_fn"; s "string"]);
              (s "String1", [s "text"]);
              (s "XsSelfFoo1", [s "a_b"; s "text"]) ].
Proof. exact reparse_example_tree. Qed.

Example Reparse_example_small :
  to_serde_struct quick_xml_de small_tree
  = s "#[derive(Serialize, Deserialize)]" ++ nl
    ++ s "pub struct A {" ++ nl
    ++ s "    #[serde(rename = " ++ quote ++ s "@k" ++ quote ++ s ")]" ++ nl
    ++ s "    pub k: Option<String>," ++ nl
    ++ s "    pub b: Vec<String>," ++ nl
    ++ s "    pub c: Option<Vec<C>>," ++ nl
    ++ s "}" ++ nl ++ nl
    ++ s "#[derive(Serialize, Deserialize)]" ++ nl
    ++ s "pub struct C {" ++ nl
    ++ s "    #[serde(rename = " ++ quote ++ s "@x" ++ quote ++ s ")]" ++ nl
    ++ s "    pub x: String," ++ nl
    ++ s "}" ++ nl ++ nl
  /\ reparse (to_serde_struct quick_xml_de small_tree)
     = Some [ PS' (Some (s "Serialize, Deserialize")) (s "A")
                  [ PF' (Some (s "@k")) (s "k") WOption TyString;
                    PF' None (s "b") WVec TyString;
                    PF' None (s "c") WOptionVec (TyStruct (s "C")) ];
              PS' (Some (s "Serialize, Deserialize")) (s "C")
                  [ PF' (Some (s "@x")) (s "x") WPlain TyString ] ].
Proof. exact reparse_example_small. Qed.

Example Reparse_refuses :
  reparse (s "pub struct A {" ++ nl ++ s "}" ++ nl) = None
  /\ reparse (s "pub struct A {" ++ nl ++ s "    pub a String," ++ nl ++ s "}" ++ nl ++ nl) = None
  /\ reparse (s "pub struct A {" ++ nl ++ s "}" ++ nl ++ nl ++ nl) = None
  /\ reparse [] = Some [].
Proof. exact reparse_refuses. Qed.

(* ---------- every condition of `printable` is needed ---------- *)
Example Reparse_needs_no_newline :
  let d1 := [mk_struct None (s "A" ++ nl ++ s "B") []] in
  let d2 := [mk_struct (Some (s "X" ++ nl)) (s "A") []] in
  let d3 := [mk_struct None (s "A") [mk_field (Some (s "r" ++ nl)) (s "a") WPlain TyString]] in
  let d4 := [mk_struct None (s "A") [mk_field None (s "a" ++ nl) WPlain TyString]] in
  let d5 := [mk_struct None (s "A") [mk_field None (s "a") WVec (TyStruct (nl ++ s "B"))]] in
  (printable d1 = false /\ reparse (print d1) = None)
  /\ (printable d2 = false /\ reparse (print d2) = None)
  /\ (printable d3 = false /\ reparse (print d3) = None)
  /\ (printable d4 = false /\ reparse (print d4) = None)
  /\ (printable d5 = false /\ reparse (print d5) = None).
Proof. exact printable_needs_no_newline. Qed.

Example Reparse_needs_no_colon_space :
  let d := [mk_struct None (s "A") [mk_field None (s "a: b") WPlain TyString]] in
  printable d = false
  /\ reparse (print d) = Some [PS' None (s "A") [PF' None (s "a") WPlain (TyStruct (s "b: String"))]]
  /\ reparse (print d) <> Some (map erase' d).
Proof. exact printable_needs_no_colon_space. Qed.

Example Reparse_needs_not_String :
  let d := [mk_struct None (s "A") [mk_field None (s "a") WVec (TyStruct (s "String"))]] in
  printable d = false
  /\ reparse (print d) = Some [PS' None (s "A") [PF' None (s "a") WVec TyString]]
  /\ reparse (print d) <> Some (map erase' d).
Proof. exact printable_needs_not_String. Qed.

Example Reparse_needs_not_wrapped :
  let d1 := [mk_struct None (s "A") [mk_field None (s "a") WPlain (TyStruct (s "Option<B>"))]] in
  let d2 := [mk_struct None (s "A") [mk_field None (s "a") WPlain (TyStruct (s "Vec<B>"))]] in
  let d3 := [mk_struct None (s "A") [mk_field None (s "a") WOption (TyStruct (s "Vec<B>"))]] in
  (printable d1 = false
   /\ reparse (print d1) = Some [PS' None (s "A") [PF' None (s "a") WOption (TyStruct (s "B"))]]
   /\ reparse (print d1) <> Some (map erase' d1))
  /\ (printable d2 = false
      /\ reparse (print d2) = Some [PS' None (s "A") [PF' None (s "a") WVec (TyStruct (s "B"))]]
      /\ reparse (print d2) <> Some (map erase' d2))
  /\ (printable d3 = false
      /\ reparse (print d3) = Some [PS' None (s "A") [PF' None (s "a") WOptionVec (TyStruct (s "B"))]]
      /\ reparse (print d3) <> Some (map erase' d3)).
Proof. exact printable_needs_not_wrapped. Qed.

(* what is not needed: spaces and braces in a struct name, double quotes and the closing pattern in a
   rename or the derive string, a colon at the end of an identifier, angle brackets in a type under
   Vec / Option<Vec>, an unclosed Vec< prefix, Option<..> under Option *)
Example Reparse_liberal :
  let d := [mk_struct (Some (s "X)]")) (s "A { B {")
              [mk_field (Some (quote ++ s ")]" ++ quote)) (s "a :") WVec (TyStruct (s "Vec<B>"));
               mk_field None (s "b") WOptionVec (TyStruct (s "Option<Vec<B>>"));
               mk_field None (s "c") WPlain (TyStruct (s "Vec<B"));
               mk_field None (s "d") WOption (TyStruct (s "Option<B>"))]] in
  printable d = true /\ reparse (print d) = Some (map erase' d).
Proof. exact printable_liberal. Qed.

(* the hypotheses of Reparse_render are needed *)
Example Reparse_render_needs_options :
  let o1 := {| text_identifier := s "$text"; attribute_prefix := s "@"; derive := s "A" ++ nl; sort := Unsorted |} in
  let o2 := {| text_identifier := s "$text"; attribute_prefix := nl; derive := []; sort := Unsorted |} in
  let o3 := {| text_identifier := nl; attribute_prefix := s "@"; derive := []; sort := Unsorted |} in
  let e3 := Elem (s "a") true true 1 [] [] None in
  tree_names_ok small_tree = true /\ tree_names_ok e3 = true
  /\ (options_printable o1 = false /\ reparse (to_serde_struct o1 small_tree) = None)
  /\ (options_printable o2 = false /\ reparse (to_serde_struct o2 small_tree) = None)
  /\ (options_printable o3 = false /\ reparse (to_serde_struct o3 e3) = None).
Proof. exact render_needs_options_printable. Qed.

Example Reparse_render_needs_names :
  let e := Elem (s "a") false true 1 [(Mand, s "k" ++ nl ++ s "j")] [] None in
  tree_names_ok e = false /\ options_printable quick_xml_de = true
  /\ reparse (to_serde_struct quick_xml_de e) = None.
Proof. exact render_needs_names. Qed.

Print Assumptions Reparse_print_inverse.
Print Assumptions Reparse_print_inverse_parsed.
Print Assumptions Reparse_print_inverse_oracle.
Print Assumptions Reparse_sound.
Print Assumptions Reparse_injective.
Print Assumptions Reparse_print_erase.
Print Assumptions Reparse_exact.
Print Assumptions Reparse_exact_parsed.
Print Assumptions Reparse_parsed_no_newline.
Print Assumptions Reparse_printable_split.
Print Assumptions Reparse_no_nl_spec.
Print Assumptions Reparse_has_colon_space_spec.
Print Assumptions Reparse_is_wrapped_spec.
Print Assumptions Reparse_strip_prefix_spec.
Print Assumptions Reparse_strip_suffix_spec.
Print Assumptions Reparse_split_once_spec.
Print Assumptions Reparse_split_lines_no_nl.
Print Assumptions Reparse_join_split_lines.
Print Assumptions Reparse_fuel.
Print Assumptions Reparse_render_printable.
Print Assumptions Reparse_render.
Print Assumptions Reparse_render_oracle.
Print Assumptions Reparse_options_printable_literal.
Print Assumptions Reparse_render_wf.
Print Assumptions Reparse_of_to_oracle.
Print Assumptions Reparse_to_of_oracle.
Print Assumptions Reparse_to_oracle_erase.
Print Assumptions Reparse_example_tree.
Print Assumptions Reparse_example_small.
Print Assumptions Reparse_refuses.
Print Assumptions Reparse_needs_no_newline.
Print Assumptions Reparse_needs_no_colon_space.
Print Assumptions Reparse_needs_not_String.
Print Assumptions Reparse_needs_not_wrapped.
Print Assumptions Reparse_liberal.
Print Assumptions Reparse_render_needs_options.
Print Assumptions Reparse_render_needs_names.
