(* C14 at source level — the terms translated from src/element.rs (Generated/NamesRs.v:
   `expand_name_rs`, `fill_struct_names_rs`, `compute_struct_names_rs`), run in the RustNames
   evaluator (Model/RustNames.v, on fuel), compute the model's `expand_name` and
   `compute_struct_names` (Model/Render.v) for every tree and every table of name hints, for every
   fuel above a bound that is linear in the number of elements of the tree:
     expand_name            :  12
     compute_struct_names   :  40 * esize e + 40          (the proof needs only 40 * esize e + 29)
   In particular the Rust loop `while used.contains(&unused_name)`, which has no bound, stops, and
   sorting the children by position at each level (the Rust code) agrees with sorting the whole
   tree first (`sort_tree`, the model).
   Only statements; every proof is `exact <lemma of Proofs/NamesRsProofs.v>`. *)
From XSG.Model Require Import Strings Convert Necessity Element Render RustNames.
From XSG.Generated Require Import NamesRs.
From XSG.Proofs Require Import NamesRsProofs.
From Coq Require Import String List NArith.
Import ListNotations.
Open Scope list_scope.
Open Scope nat_scope.

Theorem C14_source_expand_name :
  forall (e : element) (trace : list str) (h : hints) (fuel : nat),
    12 <= fuel ->
    eval expand_name_rs fill_struct_names_rs fuel (ECallExpand "x" "t" "h")
         [("x"%string, VElem e); ("t"%string, VStrs trace); ("h"%string, VHints h)]
    = Some (VStr (expand_name e trace h)).
Proof. exact expand_name_rs_correct. Qed.

(* esize e = the number of elements of the tree; fuel_names e = 40 * esize e + 40 *)
Theorem C14_source_fuel : forall e, fuel_names e = 40 * esize e + 40.
Proof. exact fuel_names_eq. Qed.

Theorem C14_source_compute_struct_names :
  forall (e : element) (h : hints) (fuel : nat),
    fuel_names e <= fuel ->
    run_compute expand_name_rs fill_struct_names_rs fuel compute_struct_names_rs e h
    = Some (compute_struct_names e h).
Proof. exact compute_struct_names_rs_correct. Qed.

(* transported from C04 (compute_struct_names_spec): the struct names the translated source enters
   in its table are pairwise different; no hypothesis on the tree *)
Theorem C14_source_struct_names_unique :
  forall (e : element) (fuel : nat),
    fuel_names e <= fuel ->
    exists t, run_compute expand_name_rs fill_struct_names_rs fuel compute_struct_names_rs e
                (compute_name_hints e) = Some t /\ NoDup (map snd t).
Proof. exact compute_struct_names_rs_unique. Qed.

(* children visited by position (Other, TotalPrice, Total, note, self) whatever their order in the
   tree; the text-only child gets no struct; `TotalPrice` of Total/Price and `Self` are taken, so the
   numbering loop runs: TotalPrice1, Self1 *)
Example C14_source_example :
  let price p := Elem (s "Price") false true 1 [(Mand, s "k")] [] (Some p) in
  let total := Elem (s "Total") false true 1 [] [(Mand, price 0%nat)] (Some 2%nat) in
  let other := Elem (s "Other") false true 1 [] [(Mand, price 0%nat)] (Some 0%nat) in
  let tp := Elem (s "TotalPrice") false true 1 [(Mand, s "k")] [] (Some 1%nat) in
  let txt := Elem (s "note") true true 1 [] [] (Some 3%nat) in
  let slf := Elem (s "self") false true 1 [(Mand, s "k")] [] (Some 4%nat) in
  let r := Elem (s "r") false true 1 []
             [(Mand, total); (Opt, tp); (Mand, other); (Mand, txt); (Mand, slf)] None in
  run_compute expand_name_rs fill_struct_names_rs 200 compute_struct_names_rs r (compute_name_hints r)
  = Some [([s "r"; s "self"], s "Self1");
          ([s "r"; s "Total"; s "Price"], s "TotalPrice1");
          ([s "r"; s "Total"], s "Total");
          ([s "r"; s "TotalPrice"], s "TotalPrice");
          ([s "r"; s "Other"; s "Price"], s "OtherPrice");
          ([s "r"; s "Other"], s "Other");
          ([s "r"], s "R")].
Proof. vm_compute. reflexivity. Qed.

Print Assumptions C14_source_expand_name.
Print Assumptions C14_source_fuel.
Print Assumptions C14_source_compute_struct_names.
Print Assumptions C14_source_struct_names_unique.
Print Assumptions C14_source_example.
