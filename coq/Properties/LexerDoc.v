(* Documents as BYTES.  `ser` writes a byte-level document tree (`bnode`: names, attribute keys,
   quoted values, texts, CDATA sections, comments -- all as bytes); the lexer model on the written
   bytes delivers exactly `events_of` of the abstract document, the object of every DOM-level
   theorem.  Hence C03's exactness and C11's "structure only" are theorems from BYTES to the
   inferred tree, and "replacing attribute values or non-empty text with other non-empty content"
   (the one clause of C11 that was proved at event / DOM level only) holds already for the event
   streams.  Statements only; proofs in Proofs/LexerSer.v, Proofs/LexerDoc.v. *)
From Coq Require Import String.
From XSG.Model Require Import Strings Convert Necessity Element Parser Dom Spec Render Lexer.
From XSG.Proofs Require Import ElementProofs SkelProofs DomEquiv SpecProofs ReprDefs ExactProofs EventLevel
  InferProofs UnionProofs AdmitProofs LexerProofs LexerC11 LexerEmpty LexerCData LexerSer LexerDoc LexerUtf8 LexerWrite.

(* the hypotheses are a boolean on the tree: plain valid names; attribute keys non-empty, plain,
   without `=`, valid UTF-8, pairwise distinct; a value does not contain its own quote (it may
   contain `<`, `>`, the other quote); texts non-empty, without `<`, valid UTF-8, never two in a row;
   CDATA and comment bodies without `>` *)
Check bwf : bnode -> bool.
Check bdoc_ok : list bnode -> bool.

(* one node, any continuation, any lexer position and any stack of open names *)
Theorem LEX_ser_node : forall nd, bwf nd = true ->
  forall p op rest, (is_btext nd = true -> clean rest) ->
  exists p', lex_from (st (MText []) p op) (ser nd ++ rest)
             = events_of (babs nd) ++ lex_from (st (MText []) p' op) rest.
Proof. exact ser_node_lex. Qed.

(* a written tag: the name and the attribute keys the reader reports *)
Theorem LEX_ser_start_tag : forall n attrs p op,
  plain_name n = true -> valid n = true -> forallb wf_attr attrs = true ->
  keys_distinct (map akey attrs) = true ->
  exists p', lex_run (st (MText []) p op) ((B_lt :: n ++ ser_attrs attrs) ++ [B_gt])
             = (st (MText []) p' (n :: op), [EStart (ROk (dec_or n)) (ev_attrs attrs)]).
Proof. exact run_start_ser. Qed.
Theorem LEX_ser_empty_tag : forall n attrs p op,
  plain_name n = true -> valid n = true -> forallb wf_attr attrs = true ->
  keys_distinct (map akey attrs) = true ->
  exists p', lex_run (st (MText []) p op) ((B_lt :: n ++ ser_attrs attrs) ++ [B_slash; B_gt])
             = (st (MText []) p' op, [EEmpty (ROk (dec_or n)) (ev_attrs attrs)]).
Proof. exact run_empty_ser. Qed.

(* whole documents *)
Theorem LEX_ser_forest : forall ks,
  bwf_forest ks = true -> lex_from lex_init (ser_forest ks) = events_of_forest (map babs ks).
Proof. exact lex_from_ser_forest. Qed.
Theorem LEX_ser_doc : forall d, bdoc_ok d = true -> lex (ser_forest d) = events_of_forest (abs_doc d).
Proof. exact lex_ser_doc. Qed.

(* the library on the written bytes is the document-level parser on the abstraction *)
Theorem LEX_bytes_into_struct : forall d, bdoc_ok d = true ->
  into_struct_bytes (ser_forest d) = of_opt (into_struct_dom (abs_doc d)).
Proof. exact bytes_into_struct_ser. Qed.
Theorem LEX_bytes_extend_struct : forall root d, bdoc_ok d = true ->
  extend_struct_bytes root (ser_forest d) = of_opt (extend_struct_dom root (abs_doc d)).
Proof. exact bytes_extend_struct_ser. Qed.
Theorem LEX_bytes_run : forall docs, forallb bdoc_ok docs = true ->
  run_bytes (map ser_forest docs) = of_opt (run_dom (map abs_doc docs)).
Proof. exact bytes_run_ser. Qed.

(* C03 from bytes *)
Theorem C03_bytes_exact : forall docs,
  forallb bdoc_ok docs = true ->
  docs_ok (map abs_doc docs) = true -> Forall (Forall wf_node) (map abs_doc docs) ->
  exists e, run_bytes (map ser_forest docs) = Ok e /\ infer (map abs_doc docs) = Some (sort_tree e).
Proof. exact bytes_C03_exact. Qed.

(* C11 from bytes *)
Theorem C11_bytes_structure_only : forall docs docs',
  forallb bdoc_ok docs = true -> forallb bdoc_ok docs' = true ->
  Forall2 same_structure (map abs_doc docs) (map abs_doc docs') ->
  run_bytes (map ser_forest docs) = run_bytes (map ser_forest docs').
Proof. exact bytes_structure_only. Qed.
Theorem C11_bytes_structure_only_render : forall docs docs' o,
  forallb bdoc_ok docs = true -> forallb bdoc_ok docs' = true ->
  Forall2 same_structure (map abs_doc docs) (map abs_doc docs') ->
  render_outcome o (run_bytes (map ser_forest docs)) = render_outcome o (run_bytes (map ser_forest docs')).
Proof. exact bytes_structure_only_render. Qed.
Theorem C11_bytes_same_abstraction : forall d d',
  bdoc_ok d = true -> bdoc_ok d' = true -> abs_doc d = abs_doc d' ->
  lex (ser_forest d) = lex (ser_forest d').
Proof. exact bytes_same_abstraction. Qed.
(* every attribute value with its quotes, every text, CDATA and comment body replaced *)
Theorem C11_bytes_revalue : forall fa ft d,
  bdoc_ok d = true -> bdoc_ok (map (revalue fa ft) d) = true ->
  lex (ser_forest (map (revalue fa ft) d)) = lex (ser_forest d).
Proof. exact bytes_revalue. Qed.

Example C11_bytes_example_ser :
  bdoc_ok ex_doc = true /\ bdoc_ok ex_doc' = true
  /\ ser_forest ex_doc = s "<!-- prolog --><a k=""v>1"" x:y=""it's"">hello <b id=""""/><![CDATA[x < y]]><b>t</b><!--c--></a>"
  /\ ser_forest ex_doc' <> ser_forest ex_doc
  /\ lex (ser_forest ex_doc') = lex (ser_forest ex_doc)
  /\ exists e, into_struct_bytes (ser_forest ex_doc) = Ok e.
Proof. exact example_ser. Qed.

(* the bridge: every DOM-level theorem that starts from `run_dom docs = Some e` (C01, C03, C06, C09)
   is a theorem about the library on the written bytes *)
Theorem LEX_bytes_run_iff : forall docs e, forallb bdoc_ok docs = true ->
  (run_bytes (map ser_forest docs) = Ok e <-> run_dom (map abs_doc docs) = Some e).
Proof. exact bytes_run_iff. Qed.

(* C06 from bytes *)
Theorem C06_bytes_order : forall docs docs' m,
  forallb bdoc_ok docs = true -> forallb bdoc_ok docs' = true ->
  docs <> [] -> Forall (Forall wf_node) (map abs_doc docs) ->
  Forall (fun p => elem_names p = [m]) (map abs_doc docs) ->
  Permutation.Permutation docs docs' ->
  exists e e', run_bytes (map ser_forest docs) = Ok e /\ run_bytes (map ser_forest docs') = Ok e'
               /\ same_schema e e'.
Proof. exact bytes_C06_order. Qed.
Theorem C06_bytes_idem : forall docs d m,
  forallb bdoc_ok docs = true ->
  docs <> [] -> Forall (Forall wf_node) (map abs_doc docs) ->
  Forall (fun p => elem_names p = [m]) (map abs_doc docs) ->
  In d docs ->
  exists e e', run_bytes (map ser_forest docs) = Ok e /\ run_bytes (map ser_forest (docs ++ [d])) = Ok e'
               /\ same_schema e e'.
Proof. exact bytes_C06_idem. Qed.

(* C01 from bytes *)
Theorem C01_bytes_tree_admits : forall docs m e,
  forallb bdoc_ok docs = true ->
  docs <> [] -> Forall (Forall wf_node) (map abs_doc docs) ->
  Forall (fun p => elem_names p = [m]) (map abs_doc docs) ->
  run_bytes (map ser_forest docs) = Ok e ->
  forall d r, In d docs -> doc_root (abs_doc d) = Some r -> TreeAdmits e r.
Proof. exact bytes_C01_tree_admits. Qed.

(* C09 from bytes *)
Theorem C09_bytes_first_appearance : forall docs e,
  forallb bdoc_ok docs = true ->
  docs_ok (map abs_doc docs) = true -> Forall (Forall wf_node) (map abs_doc docs) ->
  run_bytes (map ser_forest docs) = Ok e ->
  forall p x, node_at e p = Some x ->
    map snd (eattrs (snd x)) = dedup (flat_map oattrs (occs p (doc_roots (map abs_doc docs))))
    /\ map cname (isort by_pos (echildren (snd x)))
       = dedup (flat_map okidnames (occs p (doc_roots (map abs_doc docs)))).
Proof. exact bytes_C09_first_appearance. Qed.

(* ---------- abstract documents written as bytes ---------- *)
(* UTF-8: the encoder and the lexer model's `String::from_utf8` are inverse on scalar values *)
Theorem LEX_utf8_decode_encode : forall x, forallb scalar x = true -> utf8_decode (utf8_encode x) = Some x.
Proof. exact utf8_decode_encode. Qed.

(* for EVERY abstract document with XML-like names (`dom_doc_ok`: names non-empty, of scalar values,
   without blank, the two quotes, slash, equals and greater-than, not starting with ! or ?; no two text
   nodes in a row; the document does not start with a text) and duplicate-free attribute lists
   (`wf_node`), `write` produces a byte string on which the lexer model delivers its `events_of` *)
Theorem LEX_write : forall d, Forall wf_node d -> dom_doc_ok d = true -> lex (write d) = events_of_forest d.
Proof. exact lex_write. Qed.
Theorem LEX_write_run : forall docs, Forall (Forall wf_node) docs -> forallb dom_doc_ok docs = true ->
  run_bytes (map write docs) = of_opt (run_dom docs).
Proof. exact run_bytes_write. Qed.
Theorem C03_written_exact : forall docs,
  docs_ok docs = true -> Forall (Forall wf_node) docs -> forallb dom_doc_ok docs = true ->
  exists e, run_bytes (map write docs) = Ok e /\ infer docs = Some (sort_tree e).
Proof. exact write_C03_exact. Qed.
Theorem C11_written_structure_only : forall docs docs' o,
  Forall (Forall wf_node) docs -> forallb dom_doc_ok docs = true ->
  Forall (Forall wf_node) docs' -> forallb dom_doc_ok docs' = true ->
  Forall2 same_structure docs docs' ->
  render_outcome o (run_bytes (map write docs)) = render_outcome o (run_bytes (map write docs')).
Proof. exact write_structure_only. Qed.
Example LEX_example_write :
  Forall wf_node ex_dom /\ dom_doc_ok ex_dom = true
  /\ write ex_dom = s "<!----><r a="""" " ++ [195; 169; 226; 130; 172] ++ s "=""""" ++ s ">x<" ++ [208; 150; 120] ++ s " k=""""/><![CDATA[]]><x:y>x</x:y><!----></r><!---->"
  /\ lex (write ex_dom) = events_of_forest ex_dom.
Proof. exact example_write. Qed.

Print Assumptions LEX_ser_node.
Print Assumptions LEX_ser_start_tag.
Print Assumptions LEX_ser_empty_tag.
Print Assumptions LEX_ser_forest.
Print Assumptions LEX_ser_doc.
Print Assumptions LEX_bytes_into_struct.
Print Assumptions LEX_bytes_extend_struct.
Print Assumptions LEX_bytes_run.
Print Assumptions C03_bytes_exact.
Print Assumptions C11_bytes_structure_only.
Print Assumptions C11_bytes_structure_only_render.
Print Assumptions C11_bytes_same_abstraction.
Print Assumptions C11_bytes_revalue.
Print Assumptions C11_bytes_example_ser.
Print Assumptions LEX_bytes_run_iff.
Print Assumptions C06_bytes_order.
Print Assumptions C06_bytes_idem.
Print Assumptions C01_bytes_tree_admits.
Print Assumptions C09_bytes_first_appearance.
Print Assumptions LEX_utf8_decode_encode.
Print Assumptions LEX_write.
Print Assumptions LEX_write_run.
Print Assumptions C03_written_exact.
Print Assumptions C11_written_structure_only.
Print Assumptions LEX_example_write.
