(* C10 — Options change exactly what they name and nothing else.
   * the derive string is reproduced verbatim on every struct, none when it is empty;
   * attribute prefix and text identifier only change the serde names: a rename is emitted for an
     attribute / child exactly when the bound name differs from the field identifier, the text
     field is always renamed to the text identifier;
   * everything else (structs, their names and order, fields, identifiers, wrappers, types, field
     order) depends on the `sort` option only — not on prefix, text identifier, derive, hence not
     on the choice between the two presets.
   Only statements; every proof is `exact <lemma of Proofs/RenderProofs.v>`. *)
From Coq Require Import String.
From XSG.Model Require Import Strings Convert Necessity Element Render.
From XSG.Proofs Require Import RenderProofs.
Local Open Scope list_scope.

Theorem C10_derive : forall o e,
  Forall (fun d => sd_derive d = if is_nil (derive o) then None else Some (derive o)) (render_abs o e).
Proof. exact render_derive. Qed.

(* byte level: every struct item starts with the derive line (verbatim) when the string is
   non-empty, and directly with `pub struct ` when it is empty *)
Theorem C10_print_derive : forall o e,
  Forall (fun d => exists rest,
            print_struct d
            = (if is_nil (derive o) then []
               else s "#[derive(" ++ derive o ++ s ")]" ++ nl) ++ s "pub struct " ++ rest)
         (render_abs o e).
Proof. exact render_print_derive. Qed.

Theorem C10_rename_iff : forall o e,
  Forall (fun d => Forall (fun f =>
    (f_kind f = FAttr ->
     f_rename f = (let sn := attribute_prefix o
                             ++ (if starts_with_xmlns (f_xml f) then f_xml f
                                 else remove_namespace (f_xml f)) in
                   if str_eqb (f_ident f) sn then None else Some sn)) /\
    (f_kind f = FChild ->
     f_rename f = (let sn := remove_namespace (f_xml f) in
                   if str_eqb (f_ident f) sn then None else Some sn)) /\
    (f_kind f = FText -> f_rename f = Some (text_identifier o))) (sd_fields d)) (render_abs o e).
Proof. exact render_rename. Qed.

Theorem C10_orthogonal : forall o1 o2 e,
  sort o1 = sort o2 ->
  map (fun d => (sd_name d, map (fun f => (f_kind f, f_xml f, f_ident f, f_wrap f, f_ty f)) (sd_fields d)))
      (render_abs o1 e)
  = map (fun d => (sd_name d, map (fun f => (f_kind f, f_xml f, f_ident f, f_wrap f, f_ty f)) (sd_fields d)))
        (render_abs o2 e).
Proof. exact render_orthogonal. Qed.

(* the two presets differ in the attribute prefix only: same structs, fields, identifiers, types, order *)
Theorem C10_presets : forall e,
  map erase_bindings (render_abs quick_xml_de e) = map erase_bindings (render_abs serde_xml_rs e).
Proof. exact (fun e => render_orthogonal quick_xml_de serde_xml_rs e eq_refl). Qed.

Example C10_example :
  let e := Elem (s "r") true true 1 [(Mand, s "type"); (Opt, s "p:k")]
             [(Opt, Elem (s "a-b") false false 2 [(Mand, s "k")] [] (Some 0%nat))] None in
  let o := {| text_identifier := s "#t"; attribute_prefix := s "$$"; derive := []; sort := XmlName |} in
  to_serde_struct o e <> to_serde_struct {| text_identifier := s "$text"; attribute_prefix := s "@"; derive := s "Debug"; sort := XmlName |} e
  /\ List.length (render_abs o e) = 2%nat.
Proof. split; [vm_compute; discriminate | vm_compute; reflexivity]. Qed.

Print Assumptions C10_derive.
Print Assumptions C10_print_derive.
Print Assumptions C10_rename_iff.
Print Assumptions C10_orthogonal.
Print Assumptions C10_presets.
Print Assumptions C10_example.
