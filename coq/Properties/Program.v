(* C12 end to end, at source level: the command-line program translated from src/main.rs
   (`main_rs` of Generated/CliRs.v, with the pinned src/args.rs) against the composition of the
   parser translated from src/parser.rs and the renderer translated from src/element.rs
   (`library_src`, Properties/Library.v).  Stdout gets header ++ rendering ++ newline, a named file
   gets header ++ rendering exactly, an input at fault gets one diagnostic, status 1 and no effect
   on stdout or on the file.  Only statements; proofs are `exact <lemma of Proofs/ProgramProofs.v>`. *)
From XSG.Model Require Import Strings Necessity Element Parser Render Cli RustRender RustLoop.
From XSG.Generated Require Import LoopRs EntryRs RenderRs CliRs.
From XSG.Proofs Require Import NamesRsProofs RenderRsProofs CliRsProofs LoopRsProofs LibraryProofs ProgramProofs.
From Coq Require Import String List NArith.
Import ListNotations.
Open Scope list_scope.

Theorem C12_program_ok : forall mk a evs create_ok e fuel,
  into_struct_src mk evs = Ok e -> esize e <= fuel ->
  exists bytes,
    library_src mk fuel [evs] (opts_of a) = Some bytes
    /\ main_rs (resolve a) (RText evs) create_ok =
       if a_output a then
         if create_ok then ([CreateTruncate; WriteFile (header ++ bytes)], 0%N) else ([Stderr], 1%N)
       else ([Stdout ((header ++ bytes) ++ [10%N])], 0%N).
Proof. exact program_ok. Qed.

Theorem C12_program_parse_error : forall mk a evs create_ok x,
  into_struct_src mk evs = Err x ->
  library_src mk 0 [evs] (opts_of a) = None
  /\ main_rs (resolve a) (RText evs) create_ok = ([Stderr], 1%N).
Proof. exact program_parse_error. Qed.

Theorem C12_program_read_error : forall a create_ok,
  main_rs (resolve a) RFail create_ok = ([Stderr], 1%N).
Proof. exact program_read_error. Qed.

Example C12_program_example :
  let mk := fun _ : nat => KComment in
  let evs := [EMisc; EStart (ROk (s "a")) [AOk (ROk (s "k"))]; EText (ROk tt); EEnd] in
  let a := {| a_parser := None; a_derive := Some (s "Debug"); a_sort := None; a_output := false |} in
  exists e bytes, into_struct_src mk evs = Ok e
    /\ library_src mk (esize e) [evs] (opts_of a) = Some bytes
    /\ main_rs (resolve a) (RText evs) true = ([Stdout ((header ++ bytes) ++ [10%N])], 0%N)
    /\ List.length bytes = 143%nat.
Proof. exact program_example. Qed.

Print Assumptions C12_program_ok.
Print Assumptions C12_program_parse_error.
Print Assumptions C12_program_read_error.
Print Assumptions C12_program_example.
