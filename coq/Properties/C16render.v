(* C16 (render clause) / C03 (render clause) — rendering ANY element tree, hand-built or parsed,
   under ANY option value yields structs whose fields reflect exactly the tree's attributes,
   text, children, optionality and multiplicity: the oracle `reflects_b` of Corr/Oracles.v, which
   the differential check applies to the struct definitions parsed back from the real
   implementation's output, is true of the model's own output.
   Only statements; every proof is `exact <lemma of Proofs/ReflectProofs.v>`. *)
From Coq Require Import String.
From XSG.Model Require Import Strings Chars Convert Necessity Element Render.
From XSG.Proofs Require Import ElementProofs RenderProofs ReflectProofs.
From XSG.Corr Require Import Common Oracles.
Local Open Scope list_scope.

(* ---- 1. the oracle holds of the model's rendering, for every tree and every option value ---- *)
Theorem C16_render_reflects : forall o e, reflects_b o e (map erase (render_abs o e)) = true.
Proof. exact render_reflects. Qed.

(* ... whatever the iteration order `ord` of the name-hint HashMap *)
Theorem C16_render_reflects_ord : forall ord o e,
  reflects_b o e (map erase (render_abs_ord ord o e)) = true.
Proof. exact render_reflects_ord. Qed.

(* ... and, generalised: for every name table, path prefix and continuation, the oracle consumes
   exactly the structs rendered for `e` *)
Theorem C16_render_at_reflects : forall o tbl e pth rest,
  reflects_go o (sort_tree_by (order_of o) e)
              (map erase (render_abs_at o tbl e pth) ++ rest) = Some rest.
Proof. exact render_at_reflects. Qed.

(* ---- 2. one struct for the root and one for every other node that is not text-only ---- *)
Theorem C16_render_struct_count : forall o e,
  List.length (render_abs o e) = S (descendants_where not_text_only e).
Proof. exact render_struct_count. Qed.

(* `descendants_where P e` counts the proper descendants of `e` that satisfy `P` *)
Theorem C16_count_where_unfold : forall P e,
  count_where P e = ((if P e then 1 else 0) + descendants_where P e)%nat.
Proof. exact count_where_unfold. Qed.

(* ---- 3. what a positive answer of the oracle means (for any struct list, e.g. the one parsed
        back from the real output): the first struct has exactly one accepted field per
        attribute, then a text field iff the node has text, then one accepted field per child ---- *)
Theorem C16_reflects_head_reading : forall o e ps r,
  reflects_go o e ps = Some r ->
  exists p rest fa ft fc,
    ps = p :: rest /\ ps_fields p = fa ++ ft ++ fc /\
    forall2b (attr_field_ok o) (sorted_attrs o e) fa = true /\
    List.length fa = List.length (eattrs e) /\
    forallb (text_field_ok o) ft = true /\
    List.length ft = (if etext e then 1%nat else 0%nat) /\
    forall2b child_field_ok (echildren e) fc = true /\
    List.length fc = List.length (echildren e).
Proof. exact reflects_go_head. Qed.

Theorem C16_attr_field_reading : forall o a f,
  attr_field_ok o a f = true ->
  Oracles.bound f = attribute_prefix o
                    ++ (if starts_with_xmlns (snd a) then snd a else remove_namespace (snd a)) /\
  pf_ty f = TyString /\
  pf_wrap f = (match fst a with Mand => WPlain | Opt => WOption end).
Proof. exact attr_field_ok_reading. Qed.

Theorem C16_text_field_reading : forall o f,
  text_field_ok o f = true ->
  pf_rename f = Some (text_identifier o) /\ pf_ty f = TyString /\ pf_wrap f = WOption.
Proof. exact text_field_ok_reading. Qed.

Theorem C16_child_field_reading : forall c f,
  child_field_ok c f = true ->
  Oracles.bound f = remove_namespace (ename (snd c)) /\
  pf_wrap f = child_wrap (estandalone (snd c)) (fst c) /\
  (pf_ty f = TyString <-> contains_only_text (snd c) = true).
Proof. exact child_field_ok_reading. Qed.

(* ---- 4. examples: a concrete 3-level tree under three option values; the oracle is not vacuous ---- *)
Theorem C16_example_reflects :
  reflects_b quick_xml_de ex_tree (map erase (render_abs quick_xml_de ex_tree)) = true /\
  reflects_b serde_xml_rs ex_tree (map erase (render_abs serde_xml_rs ex_tree)) = true /\
  reflects_b ex_sorted ex_tree (map erase (render_abs ex_sorted ex_tree)) = true.
Proof. exact (conj ex_reflects_quick_xml (conj ex_reflects_serde_xml_rs ex_reflects_sorted)). Qed.

Theorem C16_example_struct_count :
  List.length (render_abs quick_xml_de ex_tree) = 3%nat /\ struct_nodes ex_tree = 3%nat.
Proof. exact ex_struct_count. Qed.

Theorem C16_example_rejects :
  reflects_b quick_xml_de ex_tree (removelast (map erase (render_abs quick_xml_de ex_tree))) = false /\
  reflects_b quick_xml_de ex_tree (map erase (render_abs ex_sorted ex_tree)) = false /\
  reflects_b quick_xml_de ex_tree
             (map erase (render_abs quick_xml_de
                                    (set_attrs ex_tree ((Mand, s "extra") :: eattrs ex_tree)))) = false.
Proof. exact (conj ex_rejects_missing_struct (conj ex_rejects_other_order ex_rejects_other_tree)). Qed.

Print Assumptions C16_render_reflects.
Print Assumptions C16_render_reflects_ord.
Print Assumptions C16_render_at_reflects.
Print Assumptions C16_render_struct_count.
Print Assumptions C16_count_where_unfold.
Print Assumptions C16_reflects_head_reading.
Print Assumptions C16_attr_field_reading.
Print Assumptions C16_text_field_reading.
Print Assumptions C16_child_field_reading.
Print Assumptions C16_example_reflects.
Print Assumptions C16_example_struct_count.
Print Assumptions C16_example_rejects.
