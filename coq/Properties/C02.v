(* C02 — statements are being added; see DESIGN.md section 7. *)
From XSG.Model Require Import Strings.
Example C02_placeholder : True. Proof. exact I. Qed.
Print Assumptions C02_placeholder.
