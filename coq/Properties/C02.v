(* C02 — the structs rendered with the quick-xml preset deserialize their source documents.
   "... the Rust source rendered with the quick-xml preset compiles unchanged and
    quick_xml::de::from_str into the first rendered struct succeeds for each of the documents the
    structure was inferred from.  It still succeeds when every struct additionally denies unknown
    fields, and the deserialized value holds every attribute value and every text content of the
    document (unescaped, ignoring surrounding whitespace)."
   "Compiles unchanged" is C04 (the output is well-formed Rust with unique legal names) plus the
   compile batches of bin/check.  This file is the deserialization half, on the model of
   quick_xml::de in Model/Deser.v (`de_doc qx_flavour`; a model of external code, validated on
   every run of the checks by running the real deserializer on every generated program, on the
   source documents and on damaged copies: verdict and string leaves must coincide).
   * documents with values: `vnode`; `erase_v` forgets the values; the tree is inferred from
     the erased documents (`run_dom (map (map erase_v) vdocs) = Some e`).
   * hypotheses: those of C01 (documents non-empty, well-formed `wf_vnode` = attribute names of
     an element pairwise distinct, common root name, `clash_free_tree e`, `names_plain e`) plus
     `data_oriented` (the property's own: hereditarily, an element that has a child element has
     only blank character data, Text or CDATA; C02_data_oriented_reading) plus "outside the
     known class K3" (`known_k3_b v = false`, C02_known_k3_reading).  Needed:
     C02_needs_data_oriented, C02_known_k3_witness.
   * THE KNOWN FINDING K3 (quick_xml::de only; known_findings.json K3): quick_xml::de never trims
     CDATA, so blank or empty CDATA sections beside child elements are delivered as text: the
     key `$text` arrives twice or a text lands inside a list, and a document that is
     data-oriented in the property's sense is rejected.  `known_k3_b v`: somewhere in v an
     element (not in the empty form) has both a child element and a CDATA section.
     C02_known_k3_witness: <a><![CDATA[ ]]><b/><![CDATA[ ]]></a> is rejected.
   * what the proofs use is `no_text_beside vb` (an element that has a child element delivers
     no character data to the reader; vb = `fl_verbatim` of the flavour; consequently every
     element has at most one run, C02_data_oriented_runs).  C02_data_oriented_qx: it follows
     from `data_oriented` outside K3; C02_data_oriented_sx: for serde-xml-rs (which trims CDATA
     too) it follows from `data_oriented` alone.
   * C02_accepts: accepted, for deny = false and deny = true (deny_unknown_fields).
   * C02_holds_all: every attribute value and every trimmed character-data run of the document
     (`doc_values true`: as quick_xml::de delivers it) is among the string leaves of the value.
   * C02_accepts_tree: the same for any document whose root the tree admits (`TreeAdmits`, C01).
   * C02_core: the underlying theorem for any flavour / options whose key spaces are apart
     (`KeysOK`) under `no_text_beside (fl_verbatim fl)`; `held vb keep st x v` (read by
     C02_held_reading) is what the value is shown to hold.
   Only statements; every proof is `exact <lemma of Proofs/DeserProofs.v>`. *)
From Coq Require Import String.
From XSG.Model Require Import Strings Convert Necessity Element Dom Spec Render Deser.
From XSG.Proofs Require Import ElementProofs ReprDefs AdmitProofs DeserProofs.
From XSG.Corr Require Import Common Oracles.
Local Open Scope list_scope.

(* ---------- the hypotheses on documents, read ---------- *)
Theorem C02_wf_vnode_reading : forall n ef attrs ks,
  wf_vnode (VElem n ef attrs ks) <-> NoDup (map fst attrs) /\ Forall wf_vnode ks.
Proof. exact wf_vnode_elem. Qed.

Theorem C02_wf_vnode_erase : forall v, wf_vnode v -> wf_node (erase_v v).
Proof. exact wf_vnode_erase. Qed.

(* `eff ef ks`: the content of the empty form <n/> is empty.  The property's hypothesis: beside
   a child element every Text / CDATA piece is blank (`is_nil (trim_start t)`: only white space) *)
Theorem C02_data_oriented_reading : forall n ef attrs ks,
  data_oriented (VElem n ef attrs ks) <->
  (velems (eff ef ks) <> [] ->
   forall t, In (VText t) (eff ef ks) \/ In (VCData t) (eff ef ks) -> is_nil (trim_start t) = true)
  /\ Forall data_oriented (eff ef ks).
Proof. exact data_oriented_elem. Qed.

Theorem C02_blank_reading : forall t, is_nil (trim_start t) = true <-> forallb is_ws t = true.
Proof. exact blank_iff. Qed.

(* what the proofs use: beside a child element the reader delivers no character data *)
Theorem C02_no_text_beside_reading : forall vb n ef attrs ks,
  no_text_beside vb (VElem n ef attrs ks) <->
  (velems (eff ef ks) <> [] -> text_runs vb (eff ef ks) = [])
  /\ Forall (no_text_beside vb) (eff ef ks).
Proof. exact no_text_beside_elem. Qed.

(* the known class K3: a child element and a CDATA section in the same element, somewhere *)
Theorem C02_known_k3_reading : forall n ef attrs ks,
  known_k3_b (VElem n ef attrs ks) =
  (has_velem (eff ef ks) && existsb is_vcdata (eff ef ks)) || existsb known_k3_b (eff ef ks).
Proof. exact known_k3_elem. Qed.

Theorem C02_data_oriented_qx : forall v,
  data_oriented v -> known_k3_b v = false -> no_text_beside true v.
Proof. exact data_oriented_qx. Qed.

Theorem C02_data_oriented_sx : forall v, data_oriented v -> no_text_beside false v.
Proof. exact data_oriented_sx. Qed.

(* an element without child elements has at most one run of character data ... *)
Theorem C02_text_runs_single : forall vb ks,
  velems ks = [] -> (List.length (text_runs vb ks) <= 1)%nat.
Proof. exact text_runs_single. Qed.

(* ... hence every element of a document with `no_text_beside` *)
Theorem C02_data_oriented_runs : forall vb ks,
  (velems ks <> [] -> text_runs vb ks = []) -> (List.length (text_runs vb ks) <= 1)%nat.
Proof. exact data_oriented_runs. Qed.

(* ---------- the theorems ---------- *)
Theorem C02_accepts : forall vdocs m e,
  vdocs <> [] -> Forall (Forall wf_vnode) vdocs ->
  Forall (fun p => elem_names (map erase_v p) = [m]) vdocs ->
  run_dom (map (map erase_v) vdocs) = Some e ->
  clash_free_tree e = true -> names_plain e = true ->
  Forall (Forall data_oriented) vdocs ->
  Forall (Forall (fun v => known_k3_b v = false)) vdocs ->
  forall deny vd, In vd vdocs ->
    exists v, de_doc qx_flavour (render_abs quick_xml_de e) deny vd = Some v.
Proof. exact qx_accepts. Qed.

Theorem C02_holds_all : forall vdocs m e,
  vdocs <> [] -> Forall (Forall wf_vnode) vdocs ->
  Forall (fun p => elem_names (map erase_v p) = [m]) vdocs ->
  run_dom (map (map erase_v) vdocs) = Some e ->
  clash_free_tree e = true -> names_plain e = true ->
  Forall (Forall data_oriented) vdocs ->
  Forall (Forall (fun v => known_k3_b v = false)) vdocs ->
  forall deny vd v, In vd vdocs ->
    de_doc qx_flavour (render_abs quick_xml_de e) deny vd = Some v ->
    incl (flat_map (doc_values true) vd) (leaves v).
Proof. exact qx_holds_all. Qed.

Theorem C02_accepts_holds : forall vdocs m e,
  vdocs <> [] -> Forall (Forall wf_vnode) vdocs ->
  Forall (fun p => elem_names (map erase_v p) = [m]) vdocs ->
  run_dom (map (map erase_v) vdocs) = Some e ->
  clash_free_tree e = true -> names_plain e = true ->
  Forall (Forall data_oriented) vdocs ->
  Forall (Forall (fun v => known_k3_b v = false)) vdocs ->
  forall deny vd, In vd vdocs ->
    exists v, de_doc qx_flavour (render_abs quick_xml_de e) deny vd = Some v
              /\ incl (flat_map (doc_values true) vd) (leaves v).
Proof. exact qx_accepts_holds. Qed.

(* tree level: any document whose root element the tree admits *)
Theorem C02_accepts_tree : forall e deny vd nd,
  clash_free_tree e = true -> names_plain e = true ->
  vdoc_root vd = Some nd -> TreeAdmits e (erase_v nd) -> wf_vnode nd ->
  data_oriented nd -> known_k3_b nd = false ->
  exists v, de_doc qx_flavour (render_abs quick_xml_de e) deny vd = Some v
            /\ incl (doc_values true nd) (leaves v).
Proof. exact qx_accepts_tree. Qed.

(* ---------- the core, for both flavours ---------- *)
(* what the value is shown to hold: the attribute values, the character data of elements typed
   String (`st`) and — when `keep` — of struct-typed elements too, hereditarily; `vb`: the
   character data as the reader of the flavour delivers it *)
Theorem C02_held_reading : forall vb keep st x n ef attrs kids0,
  held vb keep st x (VElem n ef attrs kids0) =
  map snd attrs
  ++ (if keep || st then text_runs vb (eff ef kids0) else [])
  ++ flat_map (fun k => match k with
                        | VElem m _ _ _ =>
                            match get_child (echildren x) m with
                            | Some c => held vb keep (contains_only_text (snd c)) (snd c) k
                            | None => []
                            end
                        | _ => []
                        end) (eff ef kids0).
Proof. exact held_elem. Qed.

Theorem C02_held_all : forall vb v x st,
  TreeAdmits x (erase_v v) -> incl (doc_values vb v) (held vb true st x v).
Proof. exact held_all. Qed.

(* the three key spaces of the struct of a node are apart, hereditarily *)
Theorem C02_KeysOK_reading : forall fl o x, KeysOK fl o x ->
  ((forall a c, In a (eattrs x) -> In c (echildren x) ->
                attr_bound o (snd a) <> remove_namespace (cname c))
   /\ (forall a, In a (eattrs x) ->
                 attr_bound o (snd a) <> fl_text_key fl /\ attr_bound o (snd a) <> text_identifier o)
   /\ (forall c, In c (echildren x) ->
                 remove_namespace (cname c) <> fl_text_key fl
                 /\ remove_namespace (cname c) <> text_identifier o))
  /\ Forall (fun c => KeysOK fl o (snd c)) (echildren x).
Proof. exact KeysOK_inv. Qed.

Theorem C02_keys_ok_quick_xml : forall x, names_plain x = true -> KeysOK qx_flavour quick_xml_de x.
Proof. exact keys_ok_qx. Qed.

Theorem C02_core : forall fl o deny keep e vd nd,
  attribute_prefix o = fl_attr_prefix fl ->
  (deny = true -> text_identifier o = fl_text_key fl) ->
  (keep = true -> text_identifier o = fl_text_key fl) ->
  clash_free_tree e = true -> KeysOK fl o e ->
  vdoc_root vd = Some nd -> TreeAdmits e (erase_v nd) ->
  wf_vnode nd -> no_text_beside (fl_verbatim fl) nd -> (fl_overlapped fl = true \/ adjacent_doc nd) ->
  exists v, de_doc fl (render_abs o e) deny vd = Some v
            /\ incl (held (fl_verbatim fl) keep false e nd) (leaves v).
Proof. exact de_doc_tree. Qed.

(* ---------- examples ---------- *)
(* vx_doc1 = <?..?><r id="1"> <a>  hello world </a> <b k="v"><c/></b><b k="w"/></r>
   vx_doc2 = <r id="2" lang="en"><b k="x"><c/><!--..--><c/></b><d> x <![CDATA[ raw ]]> y </d></r><!--..-->
   (attributes, a repeated child, optional children, text-only children with surrounding
   whitespace and CDATA) *)
Example C02_example_hypotheses :
  vx_docs <> [] /\ Forall (Forall wf_vnode) vx_docs
  /\ Forall (fun p => elem_names (map erase_v p) = [s "r"]) vx_docs
  /\ Forall (Forall data_oriented) vx_docs
  /\ Forall (Forall (fun v => known_k3_b v = false)) vx_docs
  /\ exists e, run_dom (map (map erase_v) vx_docs) = Some e
               /\ clash_free_tree e = true /\ names_plain e = true.
Proof. exact vx_hypotheses. Qed.

Example C02_example_theorem_applies : forall e, run_dom (map (map erase_v) vx_docs) = Some e ->
  forall deny vd, In vd vx_docs ->
    exists v, de_doc qx_flavour (render_abs quick_xml_de e) deny vd = Some v
              /\ incl (flat_map (doc_values true) vd) (leaves v).
Proof. exact vx_theorem_applies. Qed.

Example C02_example_values_deny :
  match run_dom (map (map erase_v) vx_docs) with
  | Some e => map (de_doc qx_flavour (render_abs quick_xml_de e) true) vx_docs
  | None => []
  end =
  [Some (FStruct [(s "id", FStr (s "1")); (s "lang", FNone); (s "text", FNone);
                  (s "a", FSome (FStr (s "hello world")));
                  (s "b", FSeq [FStruct [(s "k", FStr (s "v")); (s "c", FSome (FSeq [FStruct []]))];
                                FStruct [(s "k", FStr (s "w")); (s "c", FNone)]]);
                  (s "d", FNone)]);
   Some (FStruct [(s "id", FStr (s "2")); (s "lang", FSome (FStr (s "en"))); (s "text", FNone);
                  (s "a", FNone);
                  (s "b", FSeq [FStruct [(s "k", FStr (s "x"));
                                         (s "c", FSome (FSeq [FStruct []; FStruct []]))]]);
                  (s "d", FSome (FStr (s "x  raw  y")))])].
Proof. exact vx_values_deny. Qed.

Example C02_example_doc_values :
  map (flat_map (doc_values true)) vx_docs
  = [[s "1"; s "hello world"; s "v"; s "w"]; [s "2"; s "en"; s "x"; s "x  raw  y"]].
Proof. exact vx_doc_values. Qed.

(* vx_damaged = <r id="1" zz="q"><b k="w"/></r>: one attribute no document had *)
Example C02_example_damaged_rejected :
  match run_dom (map (map erase_v) vx_docs) with
  | Some e => (de_doc qx_flavour (render_abs quick_xml_de e) true vx_damaged,
               option_map leaves (de_doc qx_flavour (render_abs quick_xml_de e) false vx_damaged))
  | None => (None, None)
  end = (None, Some [s "1"; s "w"]).
Proof. exact vx_damaged_rejected. Qed.

(* vx_damaged2 = <r><b k="w"/></r>: the mandatory attribute `id` is missing *)
Example C02_example_damaged2_rejected :
  match run_dom (map (map erase_v) vx_docs) with
  | Some e => map (fun deny => de_doc qx_flavour (render_abs quick_xml_de e) deny vx_damaged2) [true; false]
  | None => []
  end = [None; None].
Proof. exact vx_damaged2_rejected. Qed.

(* vx_mixed = <r>t1<a/>t2</r>: clash_free true, plain true, data_oriented false, rejected *)
Example C02_needs_data_oriented :
  match run_dom (map (map erase_v) [vx_mixed]) with
  | Some e => (clash_free_tree e, names_plain e, forallb data_oriented_b vx_mixed,
               de_doc qx_flavour (render_abs quick_xml_de e) false vx_mixed)
  | None => (false, false, true, None)
  end = (true, true, false, None).
Proof. exact vx_needs_data_oriented. Qed.

(* the known finding K3, the witness: k3_node = <a><![CDATA[ ]]><b/><![CDATA[ ]]></a> is
   data-oriented and well-formed, in the class K3, and rejected by quick_xml::de *)
Example C02_known_k3_witness :
  let w := VElem (s "a") false [] [VCData (s " "); VElem (s "b") true [] []; VCData (s " ")] in
  exists e, run_dom [[erase_v w]] = Some e
            /\ data_oriented w /\ wf_vnode w /\ known_k3_b w = true
            /\ de_doc qx_flavour (render_abs quick_xml_de e) false [w] = None.
Proof. exact known_k3_witness. Qed.

(* there: quick_xml::de gets two runs, serde-xml-rs none (and accepts) *)
Example C02_known_k3_runs :
  match k3_node with
  | VElem _ _ _ ks => (text_runs true ks, text_runs false ks)
  | _ => ([], [])
  end = ([s " "; s " "], [])
  /\ no_text_beside_b true k3_node = false /\ no_text_beside_b false k3_node = true
  /\ match run_dom [[erase_v k3_node]] with
     | Some e => de_doc sx_flavour (render_abs serde_xml_rs e) false [k3_node]
     | None => None
     end = Some (FStruct [(s "text", FNone); (s "b", FStruct [])]).
Proof. exact known_k3_runs. Qed.

Print Assumptions C02_wf_vnode_reading.
Print Assumptions C02_wf_vnode_erase.
Print Assumptions C02_data_oriented_reading.
Print Assumptions C02_blank_reading.
Print Assumptions C02_no_text_beside_reading.
Print Assumptions C02_known_k3_reading.
Print Assumptions C02_data_oriented_qx.
Print Assumptions C02_data_oriented_sx.
Print Assumptions C02_text_runs_single.
Print Assumptions C02_data_oriented_runs.
Print Assumptions C02_accepts.
Print Assumptions C02_holds_all.
Print Assumptions C02_accepts_holds.
Print Assumptions C02_accepts_tree.
Print Assumptions C02_held_reading.
Print Assumptions C02_held_all.
Print Assumptions C02_KeysOK_reading.
Print Assumptions C02_keys_ok_quick_xml.
Print Assumptions C02_core.
Print Assumptions C02_example_hypotheses.
Print Assumptions C02_example_theorem_applies.
Print Assumptions C02_example_values_deny.
Print Assumptions C02_example_doc_values.
Print Assumptions C02_example_damaged_rejected.
Print Assumptions C02_example_damaged2_rejected.
Print Assumptions C02_needs_data_oriented.
Print Assumptions C02_known_k3_witness.
Print Assumptions C02_known_k3_runs.
