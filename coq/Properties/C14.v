(* C14 — Every struct name is the PascalCase form of its own element's name, optionally followed
   by a disambiguating suffix and preceded only by the PascalCase names of its nearest ancestors
   in nesting order; the first struct is the root's.  An element whose PascalCase name occurs at
   a single position of the whole tree gets that name without ancestor qualification.

   The names are the entries (path, name) of the table
       compute_struct_names e (compute_name_hints e)
   (path = element names from the root down to the node, own name last); the renderer reads the
   name of the struct of the node at path p with `table_get tbl p` (C14_every_struct).
   Vocabulary (Proofs/StructNameProofs.v):
     lastn m l            the last m elements of l                (skipn (length l - m) l)
     count_formatted k e  number of nodes of e whose PascalCase name is k
     spath e p            p is the name path of a node of e that gets a struct
                          (reached through children that are not text-only)
     dec j                decimal representation of j              (Model/Strings.v)
   Only statements; every proof is `exact <lemma of Proofs/StructNameProofs.v>`. *)
From Coq Require Import String.
From XSG.Model Require Import Strings Chars Convert Necessity Element Render.
From XSG.Proofs Require Import StructNameProofs.
Local Open Scope list_scope.
Local Open Scope nat_scope.

(* shape of every entry: PascalCase names of the last m path components (1 <= m), then nothing
   or a positive decimal number *)
Theorem C14_shape :
  forall e pth u,
    In (pth, u) (compute_struct_names e (compute_name_hints e)) ->
    exists m sfx, 1 <= m <= List.length pth
      /\ u = List.concat (map to_pascal_case (lastn m pth)) ++ sfx
      /\ (sfx = [] \/ exists j, 1 <= j /\ sfx = dec j).
Proof. exact struct_name_shape. Qed.

(* a PascalCase name that occurs at a single position of the tree is not qualified (m = 1) *)
Theorem C14_unqualified :
  forall e pth u,
    In (pth, u) (compute_struct_names e (compute_name_hints e)) ->
    count_formatted (to_pascal_case (last pth [])) e = 1 ->
    exists sfx, u = to_pascal_case (last pth []) ++ sfx
      /\ (sfx = [] \/ exists j, 1 <= j /\ sfx = dec j).
Proof. exact struct_name_unqualified. Qed.

(* the first struct of the output is the root's: its name is the entry at the root path, and
   that is the root's own PascalCase name (never qualified) plus the optional suffix *)
Theorem C14_root_first :
  forall o e,
    exists u sfx d rest,
      table_get (compute_struct_names e (compute_name_hints e)) [ename e] = Some u
      /\ render_abs o e = d :: rest /\ sd_name d = u
      /\ u = to_pascal_case (ename e) ++ sfx
      /\ (sfx = [] \/ exists j, 1 <= j /\ sfx = dec j).
Proof. exact struct_name_root_first. Qed.

(* the suffix consists of ASCII digits *)
Theorem C14_digits :
  forall sfx, (sfx = [] \/ exists j, 1 <= j /\ sfx = dec j) -> forallb a_digit sfx = true.
Proof. exact struct_name_suffix_digits. Qed.

Theorem C14_dec_digits : forall j, forallb a_digit (dec j) = true.
Proof. exact dec_digits. Qed.

(* link with the output: every struct that is rendered is named by the table entry found at
   the path of its own node; what table_get finds is an entry *)
Theorem C14_every_struct :
  forall o e d,
    In d (render_abs o e) ->
    exists pth, spath e pth
      /\ table_get (compute_struct_names e (compute_name_hints e)) pth = Some (sd_name d).
Proof. exact struct_name_from_table. Qed.

Theorem C14_lookup : forall t p u, table_get t p = Some u -> In (p, u) t.
Proof. exact table_get_in. Qed.

(* hence the property for the output itself *)
Theorem C14_every_struct_shape :
  forall o e d,
    In d (render_abs o e) ->
    exists pth m sfx, spath e pth /\ 1 <= m <= List.length pth
      /\ sd_name d = List.concat (map to_pascal_case (lastn m pth)) ++ sfx
      /\ (sfx = [] \/ exists j, 1 <= j /\ sfx = dec j)
      /\ (count_formatted (to_pascal_case (last pth [])) e = 1 -> m = 1).
Proof. exact every_struct_name_shape. Qed.

(* non-vacuity: a tree with a qualified name (BuyerName, m = 2), a suffixed one (String1), names
   that occur once (Seller) and twice (Name), and the structs in output order, root first *)
Example C14_example_table :
  ex_table =
  [ ([s "order-list"; s "buyer"; s "string"], s "String1");
    ([s "order-list"; s "buyer"; s "name"], s "BuyerName");
    ([s "order-list"; s "buyer"], s "Buyer");
    ([s "order-list"; s "seller"; s "name"], s "SellerName");
    ([s "order-list"; s "seller"], s "Seller");
    ([s "order-list"], s "OrderList") ].
Proof. exact ex_table_value. Qed.

Example C14_example_shape :
  In ([s "order-list"; s "buyer"; s "name"], s "BuyerName") ex_table
  /\ s "BuyerName" = List.concat (map to_pascal_case (lastn 2 [s "order-list"; s "buyer"; s "name"])) ++ []
  /\ In ([s "order-list"; s "buyer"; s "string"], s "String1") ex_table
  /\ s "String1" = List.concat (map to_pascal_case (lastn 1 [s "order-list"; s "buyer"; s "string"])) ++ dec 1.
Proof. exact ex_shape. Qed.

Example C14_example_unqualified :
  In ([s "order-list"; s "seller"], s "Seller") ex_table
  /\ count_formatted (to_pascal_case (last [s "order-list"; s "seller"] [])) ex_tree = 1
  /\ count_formatted (to_pascal_case (s "name")) ex_tree = 2.
Proof. exact ex_unqualified. Qed.

Example C14_example_root_first :
  table_get ex_table [ename ex_tree] = Some (s "OrderList")
  /\ map sd_name (render_abs quick_xml_de ex_tree)
     = [s "OrderList"; s "Seller"; s "SellerName"; s "Buyer"; s "BuyerName"; s "String1"].
Proof. exact ex_root_first. Qed.

Example C14_example_spath : spath ex_tree [s "order-list"; s "buyer"; s "name"].
Proof. exact ex_spath. Qed.

Print Assumptions C14_shape.
Print Assumptions C14_unqualified.
Print Assumptions C14_root_first.
Print Assumptions C14_digits.
Print Assumptions C14_dec_digits.
Print Assumptions C14_every_struct.
Print Assumptions C14_lookup.
Print Assumptions C14_every_struct_shape.
Print Assumptions C14_example_table.
Print Assumptions C14_example_shape.
Print Assumptions C14_example_unqualified.
Print Assumptions C14_example_root_first.
Print Assumptions C14_example_spath.
