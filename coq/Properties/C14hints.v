(* C14 at source level, name hints — the terms translated from src/element.rs (Generated/HintsRs.v:
   `fill_names_rs`, `minimal_different_lengths_rs`, `compute_name_hints_rs`), run in the RustHints
   evaluator (Model/RustHints.v, on fuel), compute the model's `fill_names`,
   `minimal_different_lengths` and `compute_name_hints` (Model/Render.v), for every tree, for every
   fuel above a bound (the `for` loops are structural: only nesting consumes fuel):
     minimal_different_lengths :  fuel_mdl vecs = 12                 (constant)
     fill_names                :  6 * esize e + 4                     (linear in the depth <= esize e)
     compute_name_hints        :  fuel_hints e = 6 * esize e + 20     (the proof needs 6 * esize e + 18)
   Only statements; every proof is `exact <lemma of Proofs/HintsRsProofs.v>`. *)
From XSG.Model Require Import Strings Convert Necessity Element Render RustHints.
From XSG.Generated Require Import HintsRs.
From XSG.Proofs Require Import NamesRsProofs HintsRsProofs.
From Coq Require Import String List NArith.
Import ListNotations.
Open Scope list_scope.
Open Scope nat_scope.

Theorem C14_source_minimal_different_lengths :
  forall (vecs : list (list str)) (fuel : nat),
    fuel_mdl vecs <= fuel ->
    eval fill_names_rs minimal_different_lengths_rs fuel (ECallMdl "x") [("x"%string, VDeques vecs)]
    = Some (VNat (minimal_different_lengths vecs)).
Proof. exact mdl_rs_correct. Qed.

(* the HashSet test of the source is the model's `all_distinct` *)
Theorem C14_source_distinct_count :
  forall l : list str, distinct_count l = List.length l <-> all_distinct l = true.
Proof. exact distinct_count_iff. Qed.

(* a call of fill_names: the trace comes back unchanged, the buckets are the model's *)
Theorem C14_source_fill_names :
  forall (e : element) (t : list str) (b : buckets) (F : nat),
    6 * esize e + 4 <= F ->
    exists en', exec fill_names_rs minimal_different_lengths_rs F (fn_body fill_names_rs)
                  [("element"%string, VElem e); ("trace"%string, VDeque t); ("names"%string, VBuckets b)]
                = Some (en', None) /\
      lookup "trace" en' = Some (VDeque t) /\ lookup "names" en' = Some (VBuckets (fill_names e t b)).
Proof. exact fill_names_rs_correct. Qed.

(* esize e = the number of elements of the tree *)
Theorem C14_source_hints_fuel :
  forall e vecs, fuel_hints e = 6 * esize e + 20 /\ fuel_mdl vecs = 12.
Proof. exact fuel_hints_mdl_eq. Qed.

Theorem C14_source_compute_name_hints :
  forall (e : element) (fuel : nat),
    fuel_hints e <= fuel ->
    run_hints fill_names_rs minimal_different_lengths_rs fuel compute_name_hints_rs e
    = Some (compute_name_hints e).
Proof. exact compute_name_hints_rs_correct. Qed.

(* with C14rs: the hints computed by the translated compute_name_hints, fed to the translated
   compute_struct_names, give the model's table of struct names *)
Theorem C14_source_names_from_source_hints :
  forall (e : element) (fuel : nat),
    Nat.max (fuel_hints e) (fuel_names e) <= fuel ->
    exists h t,
      run_hints fill_names_rs minimal_different_lengths_rs fuel compute_name_hints_rs e = Some h /\
      XSG.Model.RustNames.run_compute XSG.Generated.NamesRs.expand_name_rs
        XSG.Generated.NamesRs.fill_struct_names_rs fuel XSG.Generated.NamesRs.compute_struct_names_rs e h
      = Some t /\
      t = compute_struct_names e (compute_name_hints e).
Proof. exact names_from_source_hints. Qed.

(* `Charge` occurs four times (under Location twice, YdTax, Car): the traces Charge/Location/
   Locations/Car are equal for the two locations, so no prefix separates them and the hint is the
   maximal length 4; `Location` twice with equal traces: 3; `Car` (root "car" and the child "Car"
   have the same formatted name): 2; single occurrences: 1 *)
Example C14_source_hints_example :
  let lf n := Elem (s n) false true 1 [(Mand, s "k")] [] None in
  let charge := lf "charge"%string in
  let location := Elem (s "location") false true 1 [] [(Mand, charge)] None in
  let locations := Elem (s "locations") false true 1 [] [(Mand, location); (Mand, location)] None in
  let ydtax := Elem (s "yd_tax") false true 1 [] [(Mand, charge)] None in
  let car := Elem (s "car") false true 1 []
               [(Mand, locations); (Mand, ydtax);
                (Mand, Elem (s "Car") false true 1 [] [(Mand, charge)] None)] None in
  run_hints fill_names_rs minimal_different_lengths_rs 300 compute_name_hints_rs car
  = Some [(s "Car", 2); (s "Locations", 1); (s "Location", 3); (s "Charge", 4); (s "YdTax", 1)].
Proof. vm_compute. reflexivity. Qed.

Print Assumptions C14_source_minimal_different_lengths.
Print Assumptions C14_source_distinct_count.
Print Assumptions C14_source_fill_names.
Print Assumptions C14_source_hints_fuel.
Print Assumptions C14_source_compute_name_hints.
Print Assumptions C14_source_names_from_source_hints.
Print Assumptions C14_source_hints_example.
