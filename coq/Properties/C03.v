(* C03 — placeholder while the proofs are being written; statements follow. *)
From XSG.Model Require Import Strings.
Example C03_placeholder : True. Proof. exact I. Qed.
Print Assumptions C03_placeholder.
