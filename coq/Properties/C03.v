(* C03 — exact inference.  For a sequence of documents with one root element each, all roots of
   the same name (`docs_ok`), and no duplicate attribute on any element (`wf_node`, guaranteed by
   the XML reader), the tree the parser builds is exactly the tree inferred from the DOM of the
   inputs: path by path, an attribute / child is Mandatory iff it is present in every occurrence
   of the parent, a child is single (not a Vec) iff it occurs at most once in every occurrence,
   text iff some occurrence has character data, and nothing else is in the tree.
   `infer` (Model/Spec.v) is the executable form the differential check applies to the real
   implementation (`or_exact` in Corr/CoreCorr.v: `element_eqb (sort_tree e_impl) (infer docs)`).
   Proofs: Proofs/ExactProofs.v (representation invariant), Proofs/InferProofs.v. *)
From Coq Require Import String.
From XSG.Model Require Import Strings Necessity Element Parser Dom Spec Render.
From XSG.Proofs Require Import ElementProofs SpecProofs ReprDefs ExactProofs InferProofs.
Local Open Scope nat_scope.

(* the representation invariant of the document-level parser *)
Theorem C03_representation : forall docs m,
  docs <> [] -> Forall (Forall wf_node) docs -> Forall (fun p => elem_names p = [m]) docs ->
  exists e, run_dom docs = Some e /\ DocsInv e m docs.
Proof. exact run_dom_inv. Qed.

(* a represented element, children in position order, is the inferred element *)
Theorem C03_sort_tree_infer : forall e os fuel,
  Repr e os -> dmax os <= fuel -> echildren (sort_tree e) = infer_kids fuel os.
Proof. exact Repr_sort_tree_infer. Qed.

(* main theorem: the oracle of the differential check holds of the model *)
Theorem C03_exact_dom : forall docs,
  docs_ok docs = true -> Forall (Forall wf_node) docs ->
  exists e, run_dom docs = Some e /\ infer docs = Some (sort_tree e).
Proof. exact InferProofs.C03_exact_dom. Qed.

(* the same for the event-level parser (the one tied to the code) *)
Theorem C03_exact_events : forall docs,
  docs_ok docs = true -> Forall (Forall wf_node) docs ->
  exists e, run_evs (map events_of_forest docs) = Ok e /\ infer docs = Some (sort_tree e).
Proof. exact InferProofs.C03_exact_events. Qed.

(* the hypothesis `run_dom docs = Some e` below can be read at event level *)
Theorem C03_events_dom : forall docs e,
  run_evs (map events_of_forest docs) = Ok e <-> run_dom docs = Some e.
Proof. exact run_evs_run_dom. Qed.

(* ---- path-indexed reading: x = the tree node at path p, os = the occurrences of that path ---- *)
Theorem C03_node_exists : forall docs e,
  docs_ok docs = true -> Forall (Forall wf_node) docs -> run_dom docs = Some e ->
  forall p, node_at e p <> None <-> occs p (doc_roots docs) <> [].
Proof. exact C03_node_exists_l. Qed.

Theorem C03_attrs_exact : forall docs e,
  docs_ok docs = true -> Forall (Forall wf_node) docs -> run_dom docs = Some e ->
  forall p x, node_at e p = Some x ->
  eattrs (snd x) = spec_attrs (occs p (doc_roots docs))
  /\ map snd (eattrs (snd x)) = dedup (flat_map oattrs (occs p (doc_roots docs)))
  /\ (forall t a, In (t, a) (eattrs (snd x)) ->
        (t = Mand <-> forall o, In o (occs p (doc_roots docs)) -> In a (oattrs o))).
Proof. exact C03_attrs_exact_l. Qed.

Theorem C03_children_exact : forall docs e,
  docs_ok docs = true -> Forall (Forall wf_node) docs -> run_dom docs = Some e ->
  forall p x, node_at e p = Some x ->
  NoDup (child_names (echildren (snd x)))
  /\ (forall n, get_child (echildren (snd x)) n <> None
                <-> In n (flat_map okidnames (occs p (doc_roots docs))))
  /\ (forall n, node_at e (p ++ [n]) = get_child (echildren (snd x)) n)
  /\ (forall n c, get_child (echildren (snd x)) n = Some c ->
        ename (snd c) = n /\ Repr (snd c) (occs (p ++ [n]) (doc_roots docs))).
Proof. exact C03_children_exact_l. Qed.

Theorem C03_optional_iff : forall docs e,
  docs_ok docs = true -> Forall (Forall wf_node) docs -> run_dom docs = Some e ->
  forall p x, node_at e p = Some x ->
  forall n c, get_child (echildren (snd x)) n = Some c ->
  (fst c = Mand <-> forall o, In o (occs p (doc_roots docs)) -> kids_named n o <> []).
Proof. exact C03_optional_iff_l. Qed.

Theorem C03_vec_iff : forall docs e,
  docs_ok docs = true -> Forall (Forall wf_node) docs -> run_dom docs = Some e ->
  forall p x, node_at e p = Some x ->
  forall n c, get_child (echildren (snd x)) n = Some c ->
  (estandalone (snd c) = true
   <-> forall o, In o (occs p (doc_roots docs)) -> List.length (kids_named n o) <= 1).
Proof. exact C03_vec_iff_l. Qed.

Theorem C03_text_iff : forall docs e,
  docs_ok docs = true -> Forall (Forall wf_node) docs -> run_dom docs = Some e ->
  forall p x, node_at e p = Some x ->
  (etext (snd x) = true <-> exists o, In o (occs p (doc_roots docs)) /\ has_text o = true).
Proof. exact C03_text_iff_l. Qed.

Theorem C03_count_exact : forall docs e,
  docs_ok docs = true -> Forall (Forall wf_node) docs -> run_dom docs = Some e ->
  forall p x, node_at e p = Some x ->
  ecount (snd x) = N.of_nat (List.length (occs p (doc_roots docs))).
Proof. exact C03_count_exact_l. Qed.

(* occurrences of a longer path = the kids of that name of the occurrences of the prefix *)
Theorem C03_occs_step : forall p n cur, occs (p ++ [n]) cur = flat_map (kids_named n) (occs p cur).
Proof. exact occs_snoc. Qed.

(* ---- non-vacuity: <r a b><x/><y>text</y><x k/></r> then <r b c><y/><z><w/></z><x/></r> ---- *)
Example C03_example_hyps : docs_ok ex_docs = true /\ Forall (Forall wf_node) ex_docs.
Proof. exact ex_docs_hyps. Qed.

Example C03_example_exact :
  exists e, run_dom ex_docs = Some e /\ infer ex_docs = Some (sort_tree e)
    /\ map cname (echildren e) = [s "y"; s "x"; s "z"]
    /\ map (fun c => (fst c, cname c, estandalone (snd c), ecount (snd c), etext (snd c)))
           (echildren (sort_tree e))
       = [ (Mand, s "x", false, 3%N, false); (Mand, s "y", true, 2%N, true); (Opt, s "z", true, 1%N, false) ]
    /\ eattrs e = [ (Opt, s "a"); (Mand, s "b"); (Opt, s "c") ].
Proof. exact ex_exact. Qed.

Example C03_example_events :
  exists e, run_evs (map events_of_forest ex_docs) = Ok e /\ infer ex_docs = Some (sort_tree e).
Proof. exact ex_exact_events. Qed.

Example C03_example_paths :
  exists e, run_dom ex_docs = Some e
    /\ (exists x, node_at e [s "z"; s "w"] = Some x /\ fst x = Mand /\ ecount (snd x) = 1%N)
    /\ occs [s "z"; s "w"] (doc_roots ex_docs) = [NElem (s "w") true [] []]
    /\ List.length (occs [s "x"] (doc_roots ex_docs)) = 3
    /\ node_at e [s "q"] = None /\ occs [s "q"] (doc_roots ex_docs) = [].
Proof. exact ex_paths. Qed.

(* `docs_ok` cannot be dropped: roots of different names *)
Example C03_example_not_ok :
  let docs := [[NElem (s "r") true [] []]; [NElem (s "q") true [] []]] in
  docs_ok docs = false /\ Forall (Forall wf_node) docs
  /\ (exists e, run_dom docs = Some e /\ ecount e = 1%N)
  /\ infer docs <> Some (match run_dom docs with Some e => sort_tree e | None => wrapper end).
Proof. exact ex_not_ok. Qed.

Print Assumptions C03_representation.
Print Assumptions C03_sort_tree_infer.
Print Assumptions C03_exact_dom.
Print Assumptions C03_exact_events.
Print Assumptions C03_events_dom.
Print Assumptions C03_node_exists.
Print Assumptions C03_attrs_exact.
Print Assumptions C03_children_exact.
Print Assumptions C03_optional_iff.
Print Assumptions C03_vec_iff.
Print Assumptions C03_text_iff.
Print Assumptions C03_count_exact.
Print Assumptions C03_occs_step.
Print Assumptions C03_example_hyps.
Print Assumptions C03_example_exact.
Print Assumptions C03_example_events.
Print Assumptions C03_example_paths.
Print Assumptions C03_example_not_ok.
