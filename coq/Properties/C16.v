(* C16 — statements are being added; see DESIGN.md section 7. *)
From XSG.Model Require Import Strings.
Example C16_placeholder : True. Proof. exact I. Qed.
Print Assumptions C16_placeholder.
