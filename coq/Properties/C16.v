(* C16 — Hand-built trees: for any sequence of the public construction operations (create, add
   child, mark child optional, remove child, merge attribute list, mark as multiple, set text)
   child names under one parent stay unique, lookup and removal address the child with the given
   name, adding a present name changes nothing, marking optional preserves the child's subtree.
   Only statements; every proof is `exact <lemma of Proofs/OpsProofs.v>`. *)
From Coq Require Import String.
From XSG.Model Require Import Strings Necessity Element Parser Ops.
From XSG.Proofs Require Import ElementProofs OpsProofs.
Local Open Scope list_scope.

(* ---- 1/2. uniqueness is an invariant of every operation, hence of every reachable state ---- *)
Theorem C16_unique_step : forall e o, Uniq e -> Uniq (fst (step e o)).
Proof. exact ops_unique_step. Qed.

Theorem C16_unique : forall n a ops, Uniq (run_ops (new_element n a) ops).
Proof. exact ops_unique. Qed.

(* spelled out: at every addressable node of every reachable state *)
Theorem C16_unique_everywhere : forall n a ops p x,
  get_at (run_ops (new_element n a) ops) p = Some x ->
  NoDup (child_names (echildren x)) /\ NoDup (map snd (eattrs x)).
Proof. exact ops_unique_everywhere. Qed.

(* supporting facts named in the task: subtrees of a Uniq tree are Uniq; a local change that
   keeps Uniq and the node's name keeps Uniq of the whole tree; an unresolved path is a no-op *)
Theorem C16_unique_subtree : forall p e x, get_at e p = Some x -> Uniq e -> Uniq x.
Proof. exact Uniq_get_at. Qed.
Theorem C16_unique_update_at : forall f,
  (forall x, Uniq x -> Uniq (f x)) -> (forall x, ename (f x) = ename x) ->
  forall p e, Uniq e -> Uniq (update_at e p f).
Proof. exact Uniq_update_at. Qed.
Theorem C16_update_at_addresses : forall f, (forall x, ename (f x) = ename x) ->
  forall p e, get_at (update_at e p f) p = option_map f (get_at e p).
Proof. exact get_at_update_at. Qed.
Theorem C16_unresolved_path_noop : forall f p e, get_at e p = None -> update_at e p f = e.
Proof. exact update_at_unresolved. Qed.

(* ---- 3. adding a name that is already present changes nothing ---- *)
Theorem C16_add_present_noop : forall e c x,
  get_child (echildren e) (ename c) = Some x -> add_unique_child e c = e.
Proof. exact ops_add_present_noop. Qed.

Theorem C16_add_present_noop_op : forall e p n a x c,
  get_at e p = Some x -> get_child (echildren x) n = Some c ->
  fst (step e (OAdd p n a)) = e.
Proof. exact ops_add_present_noop_op. Qed.

(* ---- 4. lookup and removal address the child with the given name ---- *)
Theorem C16_lookup_sound : forall l n c, get_child l n = Some c -> In c l /\ cname c = n.
Proof. exact ops_lookup_sound. Qed.
Theorem C16_lookup_complete : forall l c,
  NoDup (child_names l) -> In c l -> get_child l (cname c) = Some c.
Proof. exact ops_lookup_complete. Qed.
Theorem C16_lookup_none : forall l n, get_child l n = None <-> ~ In n (child_names l).
Proof. exact ops_lookup_none. Qed.

Theorem C16_remove_returns_lookup : forall l n, fst (remove_child l n) = get_child l n.
Proof. exact ops_remove_returns_lookup. Qed.
Theorem C16_remove_removes : forall l n,
  NoDup (child_names l) -> get_child (snd (remove_child l n)) n = None.
Proof. exact ops_remove_removes. Qed.
Theorem C16_remove_keeps_others : forall l n m,
  m <> n -> get_child (snd (remove_child l n)) m = get_child l m.
Proof. exact ops_remove_keeps_others. Qed.
Theorem C16_remove_order : forall l n,
  child_names (snd (remove_child l n)) = remove_first n (child_names l).
Proof. exact ops_remove_order. Qed.
Theorem C16_remove_absent_noop : forall l n, get_child l n = None -> snd (remove_child l n) = l.
Proof. exact ops_remove_absent_noop. Qed.

(* the NoDup hypothesis of C16_remove_removes cannot be dropped *)
Example C16_remove_removes_needs_nodup :
  let a := new_element (s "a") [] in
  get_child (snd (remove_child [(Mand, a); (Opt, a)] (s "a"))) (s "a") = Some (Opt, a).
Proof. exact ops_remove_removes_needs_nodup. Qed.

(* the operation ORemove at a resolved path of a Uniq tree *)
Theorem C16_remove_op : forall e p n x, Uniq e -> get_at e p = Some x ->
  snd (step e (ORemove p n)) = get_child (echildren x) n /\
  exists x', get_at (fst (step e (ORemove p n))) p = Some x' /\
             get_child (echildren x') n = None /\
             (forall m, m <> n -> get_child (echildren x') m = get_child (echildren x) m) /\
             child_names (echildren x') = remove_first n (child_names (echildren x)).
Proof. exact ops_remove_op. Qed.

(* ---- 5. marking optional preserves the child's subtree and the other children ---- *)
Theorem C16_optional_keeps_subtree : forall e n,
  NoDup (child_names (echildren e)) ->
  get_child (echildren (set_child_optional e n)) n
  = option_map (fun c => (Opt, snd c)) (get_child (echildren e) n).
Proof. exact ops_optional_keeps_subtree. Qed.

Theorem C16_optional_keeps_others : forall e n m,
  m <> n -> get_child (echildren (set_child_optional e n)) m = get_child (echildren e) m.
Proof. exact ops_optional_keeps_others. Qed.

Theorem C16_optional_is_optional : forall e n c,
  NoDup (child_names (echildren e)) -> get_child (echildren e) n = Some c ->
  get_child (echildren (set_child_optional e n)) n = Some (Opt, snd c).
Proof. exact ops_optional_is_optional. Qed.

(* the NoDup hypothesis of C16_optional_keeps_subtree cannot be dropped *)
Example C16_optional_keeps_subtree_needs_nodup :
  let a1 := new_element (s "a") [s "x"] in
  let a2 := new_element (s "a") [s "y"] in
  let e := set_children (new_element (s "r") []) [(Mand, a1); (Opt, a2)] in
  get_child (echildren e) (s "a") = Some (Mand, a1) /\
  get_child (echildren (set_child_optional e (s "a"))) (s "a") = Some (Opt, a2).
Proof. exact ops_optional_keeps_subtree_needs_nodup. Qed.

Theorem C16_optional_op : forall e p n x, Uniq e -> get_at e p = Some x ->
  exists x', get_at (fst (step e (OOpt p n))) p = Some x' /\
             get_child (echildren x') n
               = option_map (fun c => (Opt, snd c)) (get_child (echildren x) n) /\
             (forall m, m <> n -> get_child (echildren x') m = get_child (echildren x) m) /\
             child_tags (echildren x') = tags_opt n (child_tags (echildren x)).
Proof. exact ops_optional_op. Qed.

(* ---- 6. refinement to an ordered map of names (and of names to tags) ---- *)
Theorem C16_refine_add_names : forall e c,
  child_names (echildren (add_unique_child e c))
  = if mem (ename c) (child_names (echildren e)) then child_names (echildren e)
    else child_names (echildren e) ++ [ename c].
Proof. exact ops_refine_add_names. Qed.

Theorem C16_refine_opt_names : forall e n,
  NoDup (child_names (echildren e)) ->
  child_names (echildren (set_child_optional e n))
  = if mem n (child_names (echildren e)) then remove_first n (child_names (echildren e)) ++ [n]
    else child_names (echildren e).
Proof. exact ops_refine_opt_names. Qed.

Example C16_refine_opt_names_needs_nodup :
  let a := new_element (s "a") [] in
  let e := set_children (new_element (s "r") []) [(Mand, a); (Opt, a)] in
  child_names (echildren (set_child_optional e (s "a"))) = [s "a"] /\
  names_opt (s "a") (child_names (echildren e)) = [s "a"; s "a"].
Proof. exact ops_refine_opt_names_needs_nodup. Qed.

(* with the tags: child_tags l = [(name, necessity) ...] in order; tags_add appends (n, Mand)
   when n is absent, tags_opt moves n to the end as (n, Opt), remove_key drops the first n *)
Theorem C16_refine_tags_names : forall l, map fst (child_tags l) = child_names l.
Proof. exact child_tags_names. Qed.
Theorem C16_refine_add_tags : forall e c,
  child_tags (echildren (add_unique_child e c)) = tags_add (ename c) (child_tags (echildren e)).
Proof. exact ops_refine_add_tags. Qed.
Theorem C16_refine_opt_tags : forall e n,
  NoDup (child_names (echildren e)) ->
  child_tags (echildren (set_child_optional e n)) = tags_opt n (child_tags (echildren e)).
Proof. exact ops_refine_opt_tags. Qed.
Theorem C16_refine_remove_tags : forall l n,
  child_tags (snd (remove_child l n)) = remove_key n (child_tags l).
Proof. exact ops_refine_remove_tags. Qed.

(* pointwise: the new child is Mandatory and is the given one up to its position stamp,
   existing children are untouched *)
Theorem C16_add_new_is_mandatory : forall e c,
  get_child (echildren e) (ename c) = None ->
  get_child (echildren (add_unique_child e c)) (ename c) = Some (Mand, with_pos e c).
Proof. exact ops_add_new_is_mandatory. Qed.
Theorem C16_add_new_same_fields : forall e c,
  ename (with_pos e c) = ename c /\ etext (with_pos e c) = etext c /\
  estandalone (with_pos e c) = estandalone c /\ ecount (with_pos e c) = ecount c /\
  eattrs (with_pos e c) = eattrs c /\ echildren (with_pos e c) = echildren c.
Proof. exact with_pos_fields. Qed.
Theorem C16_add_keeps_existing : forall e c m x,
  get_child (echildren e) m = Some x -> get_child (echildren (add_unique_child e c)) m = Some x.
Proof. exact ops_add_keeps_existing. Qed.
Theorem C16_add_keeps_others : forall e c m,
  m <> ename c -> get_child (echildren (add_unique_child e c)) m = get_child (echildren e) m.
Proof. exact ops_add_keeps_others. Qed.

Theorem C16_add_op : forall e p n a x, get_at e p = Some x ->
  exists x', get_at (fst (step e (OAdd p n a))) p = Some x' /\
             child_tags (echildren x') = tags_add n (child_tags (echildren x)) /\
             (forall m c, get_child (echildren x) m = Some c -> get_child (echildren x') m = Some c).
Proof. exact ops_add_op. Qed.

(* ---- 7. non-vacuity on a concrete run (add, optional, add again, move, copy, merge, remove) ---- *)
Example C16_example_run :
  child_tags (echildren ex_tree) = [(s "a", Opt); (s "c", Mand)] /\
  option_map (fun x => child_tags (echildren x)) (get_at ex_tree [s "a"])
    = Some [(s "b", Mand)] /\
  option_map (fun x => child_tags (echildren x)) (get_at ex_tree [s "a"; s "b"])
    = Some [(s "d", Mand)] /\
  option_map eattrs (get_at ex_tree [s "a"])
    = Some [(Opt, s "x"); (Mand, s "y"); (Opt, s "w")] /\
  snd (step (run_ops (new_element (s "r") []) (removelast ex_ops)) (ORemove [] (s "b")))
    = option_map (fun c => (Mand, c))
        (get_at (run_ops (new_element (s "r") []) (removelast ex_ops)) [s "b"]).
Proof. exact ops_example_run. Qed.

Example C16_example_ops_length : List.length ex_ops = 13%nat.
Proof. exact ops_example_ops_length. Qed.

Example C16_example_unique_step :
  Uniq ex_tree /\ List.length (echildren ex_tree) = 2%nat /\
  Uniq (fst (step ex_tree (OMove [s "a"] (s "b") []))).
Proof. exact ops_example_unique_step. Qed.

Example C16_example_add_present :
  exists x, get_child (echildren ex_tree) (s "a") = Some x /\
            add_unique_child ex_tree (new_element (s "a") [s "other"]) = ex_tree.
Proof. exact ops_example_add_present. Qed.

Example C16_example_remove :
  NoDup (child_names (echildren ex_tree)) /\
  (exists c, get_child (echildren ex_tree) (s "a") = Some c) /\
  get_child (snd (remove_child (echildren ex_tree) (s "a"))) (s "a") = None /\
  (exists c, get_child (snd (remove_child (echildren ex_tree) (s "a"))) (s "c") = Some c).
Proof. exact ops_example_remove. Qed.

Example C16_example_optional :
  NoDup (child_names (echildren ex_tree)) /\
  (exists c, get_child (echildren ex_tree) (s "c") = Some (Mand, c) /\
             echildren c = [] /\ etext c = true /\
             get_child (echildren (set_child_optional ex_tree (s "c"))) (s "c") = Some (Opt, c)) /\
  child_tags (echildren (set_child_optional ex_tree (s "a"))) = [(s "c", Mand); (s "a", Opt)].
Proof. exact ops_example_optional. Qed.

(* ---- 8. history: with the behaviour before the repair (no early return on a present name)
        uniqueness fails after  add; optional; add  ---- *)
Theorem C16_unique_prefix_refuted :
  exists p c, Uniq p /\ Uniq c /\
    ~ NoDup (child_names (echildren
        (add_unique_child_prefix (set_child_optional (add_unique_child_prefix p c) (ename c)) c))).
Proof. exact ops_unique_prefix_refuted. Qed.

Example C16_unique_repaired_same_sequence :
  let p := new_element (s "r") [] in
  let c := new_element (s "a") [] in
  child_tags (echildren (add_unique_child (set_child_optional (add_unique_child p c) (ename c)) c))
  = [(s "a", Opt)].
Proof. exact ops_unique_repaired_same_sequence. Qed.

Print Assumptions C16_unique_step.
Print Assumptions C16_unique.
Print Assumptions C16_unique_everywhere.
Print Assumptions C16_unique_subtree.
Print Assumptions C16_unique_update_at.
Print Assumptions C16_update_at_addresses.
Print Assumptions C16_unresolved_path_noop.
Print Assumptions C16_add_present_noop.
Print Assumptions C16_add_present_noop_op.
Print Assumptions C16_lookup_sound.
Print Assumptions C16_lookup_complete.
Print Assumptions C16_lookup_none.
Print Assumptions C16_remove_returns_lookup.
Print Assumptions C16_remove_removes.
Print Assumptions C16_remove_keeps_others.
Print Assumptions C16_remove_order.
Print Assumptions C16_remove_absent_noop.
Print Assumptions C16_remove_removes_needs_nodup.
Print Assumptions C16_remove_op.
Print Assumptions C16_optional_keeps_subtree.
Print Assumptions C16_optional_keeps_others.
Print Assumptions C16_optional_is_optional.
Print Assumptions C16_optional_keeps_subtree_needs_nodup.
Print Assumptions C16_optional_op.
Print Assumptions C16_refine_add_names.
Print Assumptions C16_refine_opt_names.
Print Assumptions C16_refine_opt_names_needs_nodup.
Print Assumptions C16_refine_tags_names.
Print Assumptions C16_refine_add_tags.
Print Assumptions C16_refine_opt_tags.
Print Assumptions C16_refine_remove_tags.
Print Assumptions C16_add_new_is_mandatory.
Print Assumptions C16_add_new_same_fields.
Print Assumptions C16_add_keeps_existing.
Print Assumptions C16_add_keeps_others.
Print Assumptions C16_add_op.
Print Assumptions C16_example_run.
Print Assumptions C16_example_ops_length.
Print Assumptions C16_example_unique_step.
Print Assumptions C16_example_add_present.
Print Assumptions C16_example_remove.
Print Assumptions C16_example_optional.
Print Assumptions C16_unique_prefix_refuted.
Print Assumptions C16_unique_repaired_same_sequence.
