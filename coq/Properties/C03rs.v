(* C03 at source level — the terms translated from src/parser.rs (Generated/ParserRs.v:
   `count_children`, `tag_optional_children`), run in the RustElem evaluator, compute the model's
   `snapshot` and `tag_optional_children` (Model/Parser.v) for every input.
   Only statements; every proof is `exact <lemma>`. *)
From XSG.Model Require Import Strings Necessity Element Parser RustElem.
From XSG.Generated Require Import ElementRs ParserRs.
From XSG.Proofs Require Import ElementProofs ElementRsProofs ParserRsProofs.
From Coq Require Import String List NArith.
Import ListNotations.
Open Scope string_scope.

Theorem C03_source_count_children :
  forall tag,
    run_fn3 no_call count_children_rs (opt_child tag) VUnit VUnit
    = Some (VSnap (fst (snapshot tag)) (snd (snapshot tag))).
Proof. exact count_children_rs_correct. Qed.

Theorem C03_source_tag_optional_children :
  forall root n cc,
    run_fn3 (call_of2 level0 level1) tag_optional_children_rs (VElem root) (VName n) (VMap cc)
    = Some (VElem (tag_optional_children root n cc)).
Proof. exact tag_optional_children_rs_correct. Qed.

(* the unfolding of the model function when the tag has a child of that name, for the translated SOURCE *)
Theorem C03_source_demotes :
  forall root n cc c, get_child (echildren root) n = Some c ->
    run_fn3 (call_of2 level0 level1) tag_optional_children_rs (VElem root) (VName n) (VMap cc)
    = Some (VElem (set_children root (update_first (echildren root) n
         (fun p => fold_left set_child_optional (rev (to_optional (snd c) cc)) p)))).
Proof. exact tag_optional_children_rs_demotes. Qed.

(* `b`: count unchanged (absent from this occurrence); `d`: Mandatory but not in the snapshot
   (first seen): both become Optional *)
Example C03_source_example :
  let k1 := Elem (s "b") false true 2 [] [] (Some 0%nat) in
  let k3 := Elem (s "d") true false 3 [] [] (Some 2%nat) in
  let par := Elem (s "p") false true 2 [] [(Mand, k1); (Mand, k3)] (Some 0%nat) in
  let rt := Elem (s "root") false true 1 [] [(Mand, par)] None in
  let cc := [(s "b", 2%N)] in
  run_fn3 (call_of2 level0 level1) tag_optional_children_rs (VElem rt) (VName (s "p")) (VMap cc)
  = Some (VElem (Elem (s "root") false true 1 []
       [(Mand, Elem (s "p") false true 2 [] [(Opt, k3); (Opt, k1)] (Some 0%nat))] None)).
Proof. vm_compute. reflexivity. Qed.

(* the hypothesis of C03_source_demotes is satisfiable, with a non-empty work list *)
Example C03_source_demotes_example :
  let k1 := Elem (s "b") false true 2 [] [] (Some 0%nat) in
  let k3 := Elem (s "d") true false 3 [] [] (Some 2%nat) in
  let par := Elem (s "p") false true 2 [] [(Mand, k1); (Mand, k3)] (Some 0%nat) in
  let rt := Elem (s "root") false true 1 [] [(Mand, par)] None in
  get_child (echildren rt) (s "p") = Some (Mand, par) /\
  to_optional par [(s "b", 2%N)] = [s "b"; s "d"].
Proof. exact tag_optional_children_rs_demotes_example. Qed.

Print Assumptions C03_source_count_children.
Print Assumptions C03_source_tag_optional_children.
Print Assumptions C03_source_demotes.
Print Assumptions C03_source_example.
Print Assumptions C03_source_demotes_example.
