(* C12 — Command-line program: for every input file and every combination of --parser, --derive
   and --sort, the program exits 0 and emits exactly the line
   `use serde::{Deserialize, Serialize};`, an empty line, and the library's rendering for the
   corresponding options: into the output file if one is named (stdout staying empty), otherwise
   to stdout followed by one newline. If the input is unreadable, not UTF-8 or rejected by the
   parser, or the output cannot be created, it exits with status 1 and a diagnostic on stderr,
   prints nothing on stdout and neither creates nor modifies the named output file when the
   input was at fault.
   Model: Model/Cli.v (`cli_run` : arguments, outcome of reading the input, outcome of creating
   the output |-> list of effects and exit status).
   Only statements; every proof is `exact <lemma of Proofs/CliProofs.v>`. *)
From Coq Require Import String List NArith.
From XSG.Model Require Import Strings Necessity Element Parser Render Cli.
From XSG.Proofs Require Import ParserTotal CliProofs.
Import ListNotations.
Local Open Scope list_scope.
Local Open Scope N_scope.

(* ---- 1. success, no output path: header + rendering + one newline on stdout, exit 0 ---- *)
Theorem C12_stdout : forall a evs e c,
  into_struct_ev evs = Ok e -> a_output a = false ->
  cli_run a (RText evs) c = ([Stdout (header ++ to_serde_struct (opts_of a) e ++ [10])], 0).
Proof. exact cli_stdout. Qed.

(* ---- 2. success, output path named and creatable: the file gets header + rendering (no
        trailing newline), nothing on stdout, exit 0 ---- *)
Theorem C12_file : forall a evs e,
  into_struct_ev evs = Ok e -> a_output a = true ->
  cli_run a (RText evs) true
  = ([CreateTruncate; WriteFile (header ++ to_serde_struct (opts_of a) e)], 0).
Proof. exact cli_file. Qed.

(* ---- 3. the output cannot be created: diagnostic, exit 1, nothing else ---- *)
Theorem C12_create_fault : forall a evs e,
  into_struct_ev evs = Ok e -> a_output a = true ->
  cli_run a (RText evs) false = ([Stderr], 1).
Proof. exact cli_create_fault. Qed.

(* ---- 4. the input is at fault (unreadable / not UTF-8 / rejected by the parser): diagnostic,
        exit 1; no Create, no Write, no Stdout, whatever the arguments ---- *)
Theorem C12_input_fault : forall a r c,
  (r = RFail \/ exists evs x, r = RText evs /\ into_struct_ev evs = Err x) ->
  cli_run a r c = ([Stderr], 1).
Proof. exact cli_input_fault. Qed.

(* the parser never answers anything but Ok / Err, so 1-4 cover every run *)
Theorem C12_parse_ok_or_err : forall evs,
  (exists e, into_struct_ev evs = Ok e) \/ (exists x, into_struct_ev evs = Err x).
Proof. exact parse_ok_or_err. Qed.

Theorem C12_cases : forall a r c,
  cli_run a r c = ([Stderr], 1)
  \/ (exists t, a_output a = false /\ cli_run a r c = ([Stdout t], 0))
  \/ (exists t, a_output a = true /\ cli_run a r c = ([CreateTruncate; WriteFile t], 0)).
Proof. exact cli_cases. Qed.

(* ---- 5. safety over ALL inputs ---- *)
Theorem C12_exit_codes : forall a r c,
  let (effs, code) := cli_run a r c in
  (code = 0 \/ code = 1) /\ (code = 1 -> effs = [Stderr]) /\ (code = 0 -> ~ In Stderr effs).
Proof. exact cli_exit_codes. Qed.

Theorem C12_no_file_touched_on_input_fault : forall a r c,
  (r = RFail \/ exists evs, r = RText evs /\ forall e, into_struct_ev evs <> Ok e) ->
  ~ In CreateTruncate (fst (cli_run a r c)) /\ forall t, ~ In (WriteFile t) (fst (cli_run a r c)).
Proof. exact cli_no_file_touched_on_input_fault. Qed.

Theorem C12_stdout_xor_file : forall a r c t,
  In (Stdout t) (fst (cli_run a r c)) ->
  a_output a = false /\ ~ In CreateTruncate (fst (cli_run a r c)).
Proof. exact cli_stdout_xor_file. Qed.

Theorem C12_file_no_stdout : forall a r c t,
  a_output a = true -> ~ In (Stdout t) (fst (cli_run a r c)).
Proof. exact cli_file_no_stdout. Qed.

(* ---- 6. the flags select exactly the library options ---- *)
Theorem C12_options : forall a,
  text_identifier (opts_of a) = s "$text"
  /\ attribute_prefix (opts_of a)
     = match a_parser a with Some PSerdeXmlRs => [] | _ => s "@" end
  /\ derive (opts_of a)
     = match a_derive a with Some d => d | None => s "Serialize, Deserialize" end
  /\ sort (opts_of a) = match a_sort a with Some x => x | None => Unsorted end.
Proof. exact cli_options. Qed.

Theorem C12_options_default_quick : forall b,
  opts_of {| a_parser := None; a_derive := None; a_sort := None; a_output := b |} = quick_xml_de.
Proof. exact cli_options_default_quick. Qed.

Theorem C12_options_explicit_quick : forall b,
  opts_of {| a_parser := Some PQuickXmlDe; a_derive := None; a_sort := None; a_output := b |}
  = quick_xml_de.
Proof. exact cli_options_explicit_quick. Qed.

Theorem C12_options_serde_xml_rs : forall b,
  opts_of {| a_parser := Some PSerdeXmlRs; a_derive := None; a_sort := None; a_output := b |}
  = serde_xml_rs.
Proof. exact cli_options_serde_xml_rs. Qed.

(* ---- 7. the header is the literal line plus an empty line; layout of the two outputs ---- *)
Theorem C12_header : header = s "use serde::{Deserialize, Serialize};" ++ [10; 10].
Proof. exact cli_header. Qed.

Theorem C12_stdout_layout : forall a evs e c,
  into_struct_ev evs = Ok e -> a_output a = false ->
  cli_run a (RText evs) c
  = ([Stdout (s "use serde::{Deserialize, Serialize};" ++ [10] ++ [10]
              ++ to_serde_struct (opts_of a) e ++ [10])], 0).
Proof. exact cli_stdout_layout. Qed.

Theorem C12_file_layout : forall a evs e,
  into_struct_ev evs = Ok e -> a_output a = true ->
  cli_run a (RText evs) true
  = ([CreateTruncate;
      WriteFile (s "use serde::{Deserialize, Serialize};" ++ [10] ++ [10]
                 ++ to_serde_struct (opts_of a) e)], 0).
Proof. exact cli_file_layout. Qed.

(* ---- 8. non-vacuity: `--sort name` on <a></a> ---- *)
Example C12_ex_parse : exists e, into_struct_ev [EStart (ROk (s "a")) []; EEnd] = Ok e.
Proof. exact cli_ex_parse. Qed.

Example C12_ex_stdout :
  cli_run {| a_parser := None; a_derive := None; a_sort := Some XmlName; a_output := false |}
          (RText [EStart (ROk (s "a")) []; EEnd]) true
  = ([Stdout (s "use serde::{Deserialize, Serialize};" ++ [10] ++ [10]
              ++ s "#[derive(Serialize, Deserialize)]" ++ [10]
              ++ s "pub struct A {" ++ [10]
              ++ s "}" ++ [10] ++ [10] ++ [10])], 0).
Proof. exact cli_ex_stdout. Qed.

Example C12_ex_file :
  cli_run {| a_parser := None; a_derive := None; a_sort := Some XmlName; a_output := true |}
          (RText [EStart (ROk (s "a")) []; EEnd]) true
  = ([CreateTruncate;
      WriteFile (s "use serde::{Deserialize, Serialize};" ++ [10] ++ [10]
                 ++ s "#[derive(Serialize, Deserialize)]" ++ [10]
                 ++ s "pub struct A {" ++ [10]
                 ++ s "}" ++ [10] ++ [10])], 0).
Proof. exact cli_ex_file. Qed.

Example C12_ex_create_fault :
  cli_run {| a_parser := None; a_derive := None; a_sort := Some XmlName; a_output := true |}
          (RText [EStart (ROk (s "a")) []; EEnd]) false
  = ([Stderr], 1).
Proof. exact cli_ex_create_fault. Qed.

Example C12_ex_parse_fault :
  (exists x, into_struct_ev [EStart (ROk (s "a")) []; EErr 3 0] = Err x)
  /\ cli_run {| a_parser := None; a_derive := None; a_sort := Some XmlName; a_output := true |}
             (RText [EStart (ROk (s "a")) []; EErr 3 0]) true = ([Stderr], 1).
Proof. exact cli_ex_parse_fault. Qed.

(* --sort / --derive / --parser reach the rendering: <r><b/><a/></r> *)
Example C12_ex_sorted :
  cli_run {| a_parser := None; a_derive := None; a_sort := Some XmlName; a_output := false |}
          (RText [EStart (ROk (s "r")) []; EEmpty (ROk (s "b")) []; EEmpty (ROk (s "a")) []; EEnd])
          true
  = ([Stdout (header
              ++ ex_struct "Serialize, Deserialize" "R" ["a: A"; "b: B"]%string
              ++ ex_struct "Serialize, Deserialize" "A" []
              ++ ex_struct "Serialize, Deserialize" "B" [] ++ [10])], 0).
Proof. exact cli_ex_sorted. Qed.

Example C12_ex_unsorted_derive :
  cli_run {| a_parser := Some PSerdeXmlRs; a_derive := Some (s "Debug"); a_sort := None;
             a_output := false |}
          (RText [EStart (ROk (s "r")) []; EEmpty (ROk (s "b")) []; EEmpty (ROk (s "a")) []; EEnd])
          true
  = ([Stdout (header
              ++ ex_struct "Debug" "R" ["b: B"; "a: A"]%string
              ++ ex_struct "Debug" "B" []
              ++ ex_struct "Debug" "A" [] ++ [10])], 0).
Proof. exact cli_ex_unsorted_derive. Qed.

Print Assumptions C12_stdout.
Print Assumptions C12_file.
Print Assumptions C12_create_fault.
Print Assumptions C12_input_fault.
Print Assumptions C12_parse_ok_or_err.
Print Assumptions C12_cases.
Print Assumptions C12_exit_codes.
Print Assumptions C12_no_file_touched_on_input_fault.
Print Assumptions C12_stdout_xor_file.
Print Assumptions C12_file_no_stdout.
Print Assumptions C12_options.
Print Assumptions C12_options_default_quick.
Print Assumptions C12_options_explicit_quick.
Print Assumptions C12_options_serde_xml_rs.
Print Assumptions C12_header.
Print Assumptions C12_stdout_layout.
Print Assumptions C12_file_layout.
Print Assumptions C12_ex_parse.
Print Assumptions C12_ex_stdout.
Print Assumptions C12_ex_file.
Print Assumptions C12_ex_create_fault.
Print Assumptions C12_ex_parse_fault.
Print Assumptions C12_ex_sorted.
Print Assumptions C12_ex_unsorted_derive.
