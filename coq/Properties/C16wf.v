(* C16 (render clause, for every reachable hand-built tree) — "Rendering any tree built this way
   [by any sequence of the public construction operations] yields well-formed output (as in C04)
   whose fields reflect exactly the tree's children, attributes, optionality, multiplicity and
   text."
   * The state machine is Model/Ops.v (`op`, `step`, `run_ops`: the public operations applied at
     any node addressed by its path from the root).
   * `op_names_ok o` (Proofs/OpsRenderProofs.v): every name that the operation INTRODUCES is
     acceptable (`name_ok` of Proofs/ConvertProofs.v, the hypothesis of C04): the child name and
     the attribute names of an `OAdd`, the attribute names of an `OMerge`; the other operations
     introduce none (`OAddCopy` / `OMove` transport subtrees already present, paths and the names
     given to `OOpt` / `ORemove` / `OMove` are only looked up).
   * C16_names_preserved_step / C16_names_preserved: acceptability of all names of the tree
     (`tree_names_ok`) is kept by every such operation, hence holds in every reachable state.
   * C16_render_ok: both oracles of Corr/Oracles.v -- `wf_b` (well-formedness, C04) and
     `reflects_b` (fields reflect exactly the tree) -- are true of the rendering of every tree
     reachable from `Element::new n a`, under every option value whose attribute prefix and text
     identifier can stand in a string literal.  (Uniqueness of sibling / attribute names, the other
     hypothesis of C04, is the invariant C16_ops_unique of Properties/C16.v.)
   * C16_render_ok_from: the same starting from any acceptable tree with unique names (a parsed one).
   * The name hypothesis is needed: C16_render_needs_names, C16_render_needs_attr_names.
   Only statements; every proof is `exact <lemma of Proofs/OpsRenderProofs.v>`. *)
From Coq Require Import String.
From XSG.Model Require Import Strings Chars Convert Necessity Element Parser Render Ops.
From XSG.Corr Require Import Common Oracles.
From XSG.Proofs Require Import ElementProofs OpsProofs ConvertProofs OpsRenderProofs.
Local Open Scope list_scope.

(* ---------- what `op_names_ok` says, case by case ---------- *)
Theorem C16_op_names_ok_reading : forall o : op,
  op_names_ok o =
  match o with
  | OAdd _ n attrs => name_ok n && forallb name_ok attrs
  | OMerge _ l => forallb (fun a => name_ok (snd a)) l
  | OAddCopy _ _ | OMove _ _ _ | OOpt _ _ | ORemove _ _
  | OMultiple _ | OText _ _ | OIncr _ => true
  end.
Proof. exact op_names_ok_reading. Qed.

(* ---------- the invariant ---------- *)
Theorem C16_names_preserved_step : forall (e : element) (o : op),
  tree_names_ok e = true -> op_names_ok o = true -> tree_names_ok (fst (step e o)) = true.
Proof. exact tree_names_ok_step. Qed.

Theorem C16_names_preserved : forall (n : str) (a : list str) (ops : list op),
  name_ok n = true -> forallb name_ok a = true -> forallb op_names_ok ops = true ->
  tree_names_ok (run_ops (new_element n a) ops) = true.
Proof. exact tree_names_ok_run. Qed.

(* every addressable subtree of an acceptable tree is acceptable; a local modification that
   keeps acceptability keeps it for the whole tree *)
Theorem C16_names_get_at : forall (p : list str) (e x : element),
  get_at e p = Some x -> tree_names_ok e = true -> tree_names_ok x = true.
Proof. exact tno_get_at. Qed.

Theorem C16_names_update_at : forall f : element -> element,
  (forall x, tree_names_ok x = true -> tree_names_ok (f x) = true) ->
  forall (p : list str) (e : element), tree_names_ok e = true -> tree_names_ok (update_at e p f) = true.
Proof. exact tno_update_at. Qed.

(* ---------- the theorem of the property ---------- *)
Theorem C16_render_ok : forall (o : options) (n : str) (a : list str) (ops : list op),
  name_ok n = true -> forallb name_ok a = true -> forallb op_names_ok ops = true ->
  literal_ok (attribute_prefix o) = true -> literal_ok (text_identifier o) = true ->
  let e := run_ops (new_element n a) ops in
  wf_b (map erase (render_abs o e)) = true /\
  reflects_b o e (map erase (render_abs o e)) = true.
Proof. exact ops_render_ok. Qed.

Theorem C16_render_ok_from : forall (o : options) (e0 : element) (ops : list op),
  Uniq e0 -> tree_names_ok e0 = true -> forallb op_names_ok ops = true ->
  literal_ok (attribute_prefix o) = true -> literal_ok (text_identifier o) = true ->
  let e := run_ops e0 ops in
  wf_b (map erase (render_abs o e)) = true /\
  reflects_b o e (map erase (render_abs o e)) = true.
Proof. exact ops_render_ok_from. Qed.

(* ---------- the hypotheses are satisfiable: twelve operations (add, add with keyword names,
   add below a child, optional, merge attributes, move, copy, remove, text, multiple,
   increment); the hypotheses and both oracles evaluated ---------- *)
Example C16_render_example :
  let ops :=
    [ OAdd [] (s "a") [s "x"];
      OAdd [] (s "type") [s "fn"; s "self"];
      OAdd [s "type"] (s "c") [s "k"];
      OAdd [] (s "b") [];
      OOpt [] (s "a");
      OMerge [s "a"] [(Mand, s "x"); (Opt, s "xs:w")];
      OMove [s "type"] (s "c") [s "a"];
      OAddCopy [s "a"] [s "type"];
      ORemove [] (s "b");
      OText [s "a"; s "c"] true;
      OMultiple [s "type"];
      OIncr [s "type"] ]%string in
  let e := run_ops (new_element (s "r"%string) [s "id"%string]) ops in
  tree_names_ok e = true
  /\ wf_b (map erase (render_abs quick_xml_de e)) = true
  /\ reflects_b quick_xml_de e (map erase (render_abs quick_xml_de e)) = true
  /\ wf_b (map erase (render_abs serde_xml_rs e)) = true
  /\ reflects_b serde_xml_rs e (map erase (render_abs serde_xml_rs e)) = true
  /\ map (fun d => (sd_name d, map f_ident (sd_fields d))) (render_abs quick_xml_de e)
     = [ (s "R", [s "id"; s "a"; s "r_type"]);
         (s "RA", [s "x"; s "xs_w"; s "c"]);
         (s "RAC", [s "k"; s "text"]);
         (s "Type", [s "type_fn"; s "type_self"; s "a"]);
         (s "TypeA", [s "x"; s "xs_w"; s "c"]);
         (s "TypeAC", [s "k"]) ]%string.
Proof. exact ro_oracles_computed. Qed.

Example C16_render_example_hyps :
  name_ok (s "r"%string) = true /\ forallb name_ok [s "id"%string] = true
  /\ forallb op_names_ok ro_ops = true
  /\ literal_ok (attribute_prefix quick_xml_de) = true /\ literal_ok (text_identifier quick_xml_de) = true
  /\ literal_ok (attribute_prefix serde_xml_rs) = true /\ literal_ok (text_identifier serde_xml_rs) = true.
Proof. exact ro_hyps. Qed.

Example C16_render_example_shape :
  child_tags (echildren ro_tree) = [(s "type", Mand); (s "a", Opt)]%string /\
  option_map (fun x => child_tags (echildren x)) (get_at ro_tree [s "a"]%string)
    = Some [(s "c"%string, Mand)] /\
  option_map (fun x => child_tags (echildren x)) (get_at ro_tree [s "type"]%string)
    = Some [(s "a"%string, Mand)] /\
  option_map eattrs (get_at ro_tree [s "a"]%string) = Some [(Mand, s "x"); (Opt, s "xs:w")]%string /\
  option_map estandalone (get_at ro_tree [s "type"]%string) = Some false /\
  option_map etext (get_at ro_tree [s "a"; s "c"]%string) = Some true.
Proof. exact ro_tree_shape. Qed.

(* ---------- the hypothesis on the introduced names is needed ---------- *)
Example C16_render_needs_names :
  let ops := [OAdd [] (s "a") []; OAdd [] (s "1a") []]%string in
  let e := run_ops (new_element (s "r"%string) []) ops in
  name_ok (s "r"%string) = true /\ forallb op_names_ok ops = false
  /\ op_names_ok (OAdd [] (s "1a"%string) []) = false
  /\ Uniq e /\ tree_names_ok e = false
  /\ wf_b (map erase (render_abs quick_xml_de e)) = false
  /\ reflects_b quick_xml_de e (map erase (render_abs quick_xml_de e)) = true.
Proof. exact ops_render_needs_names. Qed.

Example C16_render_needs_attr_names :
  let ops1 := [OAdd [] (s "a") [s "1k"]]%string in
  let ops2 := [OMerge [] [(Opt, s "1k")]]%string in
  let e1 := run_ops (new_element (s "r"%string) []) ops1 in
  let e2 := run_ops (new_element (s "r"%string) []) ops2 in
  forallb op_names_ok ops1 = false /\ wf_b (map erase (render_abs quick_xml_de e1)) = false /\
  forallb op_names_ok ops2 = false /\ wf_b (map erase (render_abs quick_xml_de e2)) = false.
Proof. exact ops_render_needs_attr_names. Qed.

Print Assumptions C16_op_names_ok_reading.
Print Assumptions C16_names_preserved_step.
Print Assumptions C16_names_preserved.
Print Assumptions C16_names_get_at.
Print Assumptions C16_names_update_at.
Print Assumptions C16_render_ok.
Print Assumptions C16_render_ok_from.
Print Assumptions C16_render_example.
Print Assumptions C16_render_example_hyps.
Print Assumptions C16_render_example_shape.
Print Assumptions C16_render_needs_names.
Print Assumptions C16_render_needs_attr_names.
