(* C11 — Output depends only on document structure, not on incidental detail.
   Attribute values and text CONTENT are not part of the model's input at all (events / nodes
   carry names and presence only); that the code never reads them rests on the correspondence
   (the model predicts the implementation's full internal state from value-free events) and on
   the metamorphic oracle of bin/check C11.  Proved here, for every parent state and every
   document:
   * text and CDATA are interchangeable; comments / PIs / declaration / DOCTYPE can be inserted
     or removed anywhere; position and multiplicity of character data are irrelevant
     (`skel` normal form: same skeleton => same resulting tree, hence same rendering under
     every option value);
   * `<x/>` and `<x></x>` give the same tree (needs the uniqueness invariant, which the parser
     maintains: C11_uniq_preserved) — at any depth (`unempty`);
   * asking the reader to expand empty elements (Empty -> Start;End on the event stream) leaves
     the result of into_struct / extend_struct unchanged, for EVERY event stream.
   Buffer sizes are tokenizer behaviour (same event list): validated by execution only.
   Only statements; every proof is `exact <lemma of Proofs/SkelProofs.v>`. *)
From Coq Require Import String.
From XSG.Model Require Import Strings Necessity Element Parser Dom.
Local Open Scope list_scope.
From XSG.Proofs Require Import ElementProofs SkelProofs.

Theorem C11_text_cdata : forall r k, absorb NText r k = absorb NCData r k.
Proof. exact absorb_text_cdata. Qed.

Theorem C11_misc : forall d r k, absorb (strip_misc d) r k = absorb d r k.
Proof. exact strip_misc_sound. Qed.
Theorem C11_misc_anywhere : forall ks1 ks2 r k,
  absorb_forest (ks1 ++ NMisc :: ks2) r k = absorb_forest (ks1 ++ ks2) r k.
Proof. exact absorb_forest_misc_anywhere. Qed.
Theorem C11_misc_forest : forall ks r k,
  absorb_forest (strip_misc_forest ks) r k = absorb_forest ks r k.
Proof. exact strip_misc_forest_sound. Qed.

Theorem C11_text_irrelevant : forall ks ks' r k,
  filter is_elem ks = filter is_elem ks' ->
  existsb is_chardata ks = existsb is_chardata ks' ->
  absorb_forest ks r k = absorb_forest ks' r k.
Proof. exact absorb_forest_text_irrelevant. Qed.

Theorem C11_skeleton : forall d d', skel d = skel d' -> forall r k, absorb d r k = absorb d' r k.
Proof. exact skeleton_absorb. Qed.
Theorem C11_skeleton_forest : forall ks ks',
  skel_forest ks = skel_forest ks' -> forall r k, absorb_forest ks r k = absorb_forest ks' r k.
Proof. exact skeleton_absorb_forest. Qed.

Theorem C11_uniq_preserved : forall nd r k, Uniq r -> Uniq (fst (absorb nd r k)).
Proof. exact absorb_Uniq. Qed.
Theorem C11_uniq_preserved_events : forall f evs root known r rest,
  Uniq root -> build_struct f evs root known = Ok (r, rest) -> Uniq r.
Proof. exact build_struct_Uniq. Qed.
Theorem C11_parse_uniq : forall evs e, into_struct_ev evs = Ok e -> Uniq e.
Proof. exact into_struct_ev_Uniq. Qed.
Theorem C11_extend_uniq : forall root evs e, Uniq root -> extend_struct_ev root evs = Ok e -> Uniq e.
Proof. exact extend_struct_ev_Uniq. Qed.

Theorem C11_emptyform : forall root n attrs ks known,
  Uniq root ->
  absorb (NElem n true attrs ks) root known = absorb (NElem n false attrs []) root known.
Proof. exact emptyform_absorb. Qed.
Theorem C11_emptyform_deep : forall d r k, Uniq r -> absorb (unempty d) r k = absorb d r k.
Proof. exact unempty_absorb. Qed.

(* the complete document-level statement *)
Theorem C11_structure_only : forall d d' r k,
  Uniq r -> skel (unempty d) = skel (unempty d') -> absorb d r k = absorb d' r k.
Proof. exact structure_only_absorb. Qed.

(* event level, every stream *)
Theorem C11_expand_empty_build : forall f evs root known,
  Uniq root -> (length (expand evs) < f)%nat ->
  build_struct f (expand evs) root known = map_rest expand (build_struct f evs root known).
Proof. exact expand_build_struct. Qed.
Theorem C11_expand_empty : forall evs, into_struct_ev (expand evs) = into_struct_ev evs.
Proof. exact expand_into_struct_ev. Qed.
Theorem C11_expand_empty_extend : forall root evs,
  Uniq root -> extend_struct_ev root (expand evs) = extend_struct_ev root evs.
Proof. exact expand_extend_struct_ev. Qed.
Theorem C11_events_of_unempty : forall d, events_of (unempty d) = expand (events_of d).
Proof. exact events_of_unempty. Qed.

(* non-vacuity: two different documents with the same structure (text vs CDATA, comments,
   `<b/>` vs `<b></b>`, text before vs after the children) and a parent satisfying Uniq *)
Example C11_example :
  let d  := NElem (s "a") false [s "k"] [NText; NElem (s "b") true [] []; NMisc; NElem (s "b") false [s "x"] [NCData]] in
  let d' := NElem (s "a") false [s "k"] [NMisc; NElem (s "b") false [] []; NElem (s "b") false [s "x"] [NText; NMisc]; NCData; NText] in
  d <> d' /\ skel (unempty d) = skel (unempty d') /\ Uniq wrapper
  /\ absorb d wrapper [] = absorb d' wrapper [].
Proof.
  cbv zeta. split; [discriminate|]. split; [vm_compute; reflexivity|]. split; [exact Uniq_wrapper|].
  vm_compute; reflexivity.
Qed.

Print Assumptions C11_text_cdata.
Print Assumptions C11_misc.
Print Assumptions C11_misc_anywhere.
Print Assumptions C11_misc_forest.
Print Assumptions C11_text_irrelevant.
Print Assumptions C11_skeleton.
Print Assumptions C11_skeleton_forest.
Print Assumptions C11_uniq_preserved.
Print Assumptions C11_uniq_preserved_events.
Print Assumptions C11_parse_uniq.
Print Assumptions C11_extend_uniq.
Print Assumptions C11_emptyform.
Print Assumptions C11_emptyform_deep.
Print Assumptions C11_structure_only.
Print Assumptions C11_expand_empty_build.
Print Assumptions C11_expand_empty.
Print Assumptions C11_expand_empty_extend.
Print Assumptions C11_events_of_unempty.
Print Assumptions C11_example.
