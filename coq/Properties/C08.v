(* C08 — Errors are reported faithfully and only when the input is at fault.
   The input of the model is the event stream the reader delivers; error payloads are the
   opaque identifiers supplied with the events.  The content of the property is that the
   nested, recursive consumer (build_struct under into_struct_ev / extend_struct_ev / run_evs)
   gives the verdict of a flat left-to-right scan of that stream:
     first_fault evs   the fault of the first faulty event (element name not UTF-8, then its
                       attributes in order: malformed / duplicated attribute or key not UTF-8;
                       text / CDATA not UTF-8; reader error with its position), None if none;
     has_element evs   some Start / Empty event occurs.
   Comments, PIs, the declaration and DOCTYPE (EMisc), end tags and attribute values are not faults.
   Side condition `no_stray_end 0 evs = true`: no end tag at depth 0 before the first fault.  Every
   stream of a default-configured reader satisfies it (an unmatched end tag is delivered as an
   error, i.e. as an EErr event); without it the statements are false (ex_stray_end_needed in
   Proofs/ParserFaults.v).  The C08_scan_* statements need no hypothesis at all: they give the
   verdict for EVERY stream in terms of the depth-aware scanner `scan`.
   Only statements; every proof is `exact <lemma of Proofs/ParserFaults.v>`. *)
From XSG.Model Require Import Strings Necessity Element Parser.
From XSG.Proofs Require Import ElementProofs ParserFaults.
From Coq Require Import String.

(* ---------- initial parse ---------- *)
Theorem C08_parse_fault : forall evs x,
  no_stray_end 0 evs = true -> first_fault evs = Some x -> into_struct_ev evs = Err x.
Proof. exact parse_fault. Qed.

Theorem C08_parse_ok : forall evs,
  no_stray_end 0 evs = true -> first_fault evs = None -> has_element evs = true ->
  exists e, into_struct_ev evs = Ok e.
Proof. exact parse_ok. Qed.

Theorem C08_parse_no_root : forall evs,
  first_fault evs = None -> has_element evs = false -> into_struct_ev evs = Err NoRootError.
Proof. exact parse_no_root. Qed.

(* "an error exactly when ..." *)
Theorem C08_parse_err_iff : forall evs x,
  no_stray_end 0 evs = true ->
  (into_struct_ev evs = Err x <->
   first_fault evs = Some x
   \/ (first_fault evs = None /\ has_element evs = false /\ x = NoRootError)).
Proof. exact parse_err_iff. Qed.

(* ---------- extending ---------- *)
Theorem C08_extend_fault : forall root evs x,
  no_stray_end 0 evs = true -> first_fault evs = Some x -> extend_struct_ev root evs = Err x.
Proof. exact extend_fault. Qed.

Theorem C08_extend_ok : forall root evs,
  first_fault evs = None -> exists e, extend_struct_ev root evs = Ok e.
Proof. exact extend_ok. Qed.

Theorem C08_extend_err_iff : forall root evs x,
  no_stray_end 0 evs = true -> (extend_struct_ev root evs = Err x <-> first_fault evs = Some x).
Proof. exact extend_err_iff. Qed.

(* ---------- syntax errors carry the reader's error and position ---------- *)
Theorem C08_position : forall evs p id,
  no_stray_end 0 evs = true -> first_fault evs = Some (QuickXmlError p id) ->
  into_struct_ev evs = Err (QuickXmlError p id)
  /\ exists pre post, evs = pre ++ EErr p id :: post /\ first_fault pre = None.
Proof. exact parse_position. Qed.

Theorem C08_extend_position : forall root evs p id,
  no_stray_end 0 evs = true -> first_fault evs = Some (QuickXmlError p id) ->
  extend_struct_ev root evs = Err (QuickXmlError p id)
  /\ exists pre post, evs = pre ++ EErr p id :: post /\ first_fault pre = None.
Proof. exact extend_position. Qed.

Theorem C08_quick_origin : forall evs p id,
  into_struct_ev evs = Err (QuickXmlError p id) ->
  exists pre post, evs = pre ++ EErr p id :: post /\ first_fault pre = None.
Proof. exact parse_quick_origin. Qed.

(* ---------- a whole run parse(D1), extend(D2), ...: the first document at fault decides ---------- *)
Theorem C08_run : forall docs,
  docs <> [] -> Forall (fun d => no_stray_end 0 d = true) docs ->
  match expected_verdict true docs with
  | Some x => run_evs docs = Err x
  | None => exists e, run_evs docs = Ok e
  end.
Proof. exact run_verdict. Qed.

(* ---------- every stream, no hypothesis: the consumer is the depth-aware scanner ---------- *)
Theorem C08_scan_build : forall fuel evs root known,
  (List.length evs < fuel)%nat ->
  match scan 0 evs with
  | SFault x => build_struct fuel evs root known = Err x
  | SReturn rest => exists e, build_struct fuel evs root known = Ok (e, rest)
  | SEof => exists e, build_struct fuel evs root known = Ok (e, [])
  end.
Proof. exact build_scan. Qed.

Theorem C08_scan_parse_iff : forall evs x,
  into_struct_ev evs = Err x <->
  scan 0 evs = SFault x
  \/ ((forall y, scan 0 evs <> SFault y) /\ elem_first evs = false /\ x = NoRootError).
Proof. exact parse_scan_iff. Qed.

Theorem C08_scan_extend_iff : forall root evs x,
  extend_struct_ev root evs = Err x <-> scan 0 evs = SFault x.
Proof. exact extend_scan_iff. Qed.

(* the scanner finds only the first fault, and finds it unless it returned at a stray end tag *)
Theorem C08_scan_fault_first : forall evs d x, scan d evs = SFault x -> first_fault evs = Some x.
Proof. exact scan_fault_first. Qed.

Theorem C08_scan_first_fault : forall evs d,
  no_stray_end d evs = true ->
  scan d evs = match first_fault evs with Some x => SFault x | None => SEof end.
Proof. exact scan_first_fault. Qed.

Theorem C08_no_stray_end_strict : forall evs d,
  no_stray_end_strict d evs = true -> no_stray_end d evs = true.
Proof. exact no_stray_end_of_strict. Qed.

(* ---------- shared with C06: a document without elements changes nothing ---------- *)
Theorem C08_extend_elementless : forall root evs,
  has_element evs = false -> first_fault evs = None ->
  extend_struct_ev root evs = Ok (with_pos wrapper root).
Proof. exact extend_elementless. Qed.

(* ---------- non-vacuity, and necessity of the end-tag hypothesis ---------- *)
Example C08_example_ok :
  no_stray_end 0 ex_good = true /\ first_fault ex_good = None /\ has_element ex_good = true
  /\ exists e, into_struct_ev ex_good = Ok e /\ ename e = s "a"%string.
Proof. exact ex_parse_ok. Qed.

Example C08_example_fault :
  no_stray_end 0 ex_attr_fault = true /\ first_fault ex_attr_fault = Some (AttrError 7)
  /\ into_struct_ev ex_attr_fault = Err (AttrError 7)
  /\ extend_struct_ev wrapper ex_attr_fault = Err (AttrError 7).
Proof. exact ex_parse_fault. Qed.

Example C08_example_position :
  no_stray_end 0 ex_syntax_fault = true
  /\ first_fault ex_syntax_fault = Some (QuickXmlError 17 3)
  /\ into_struct_ev ex_syntax_fault = Err (QuickXmlError 17 3).
Proof. exact ex_parse_position. Qed.

Example C08_example_no_root :
  first_fault ex_elementless = None /\ has_element ex_elementless = false
  /\ into_struct_ev ex_elementless = Err NoRootError.
Proof. exact ex_parse_no_root. Qed.

Example C08_example_run :
  expected_verdict true [ex_good; ex_elementless; ex_good] = None
  /\ (exists e, run_evs [ex_good; ex_elementless; ex_good] = Ok e)
  /\ expected_verdict true [ex_good; ex_attr_fault; ex_syntax_fault] = Some (AttrError 7)
  /\ run_evs [ex_good; ex_attr_fault; ex_syntax_fault] = Err (AttrError 7)
  /\ expected_verdict true [ex_elementless; ex_good] = Some NoRootError
  /\ run_evs [ex_elementless; ex_good] = Err NoRootError.
Proof. exact ex_run_verdict. Qed.

Example C08_example_stray_end_needed :
  no_stray_end 0 ex_stray = false /\ first_fault ex_stray = Some (QuickXmlError 9 1)
  /\ scan 0 ex_stray = SReturn [EErr 9 1]
  /\ exists e, into_struct_ev ex_stray = Ok e.
Proof. exact ex_stray_end_needed. Qed.

Print Assumptions C08_parse_fault.
Print Assumptions C08_parse_ok.
Print Assumptions C08_parse_no_root.
Print Assumptions C08_parse_err_iff.
Print Assumptions C08_extend_fault.
Print Assumptions C08_extend_ok.
Print Assumptions C08_extend_err_iff.
Print Assumptions C08_position.
Print Assumptions C08_extend_position.
Print Assumptions C08_quick_origin.
Print Assumptions C08_run.
Print Assumptions C08_scan_build.
Print Assumptions C08_scan_parse_iff.
Print Assumptions C08_scan_extend_iff.
Print Assumptions C08_scan_fault_first.
Print Assumptions C08_scan_first_fault.
Print Assumptions C08_no_stray_end_strict.
Print Assumptions C08_extend_elementless.
Print Assumptions C08_example_ok.
Print Assumptions C08_example_fault.
Print Assumptions C08_example_position.
Print Assumptions C08_example_no_root.
Print Assumptions C08_example_run.
Print Assumptions C08_example_stray_end_needed.
