(* C15 — Public list merge: union, conjunction of necessity, stable order.
   Only statements; every proof is `exact <lemma>`. *)
From XSG.Model Require Import Strings Necessity.
From XSG.Proofs Require Import NecessityProofs.

Section C15.
  Context {A : Type} (eqb : A -> A -> bool) (eqb_spec : forall x y, reflect (x = y) (eqb x y)).
  Notation merge := (merge_necessity eqb).

  (* each distinct item of either list occurs, and nothing else *)
  Theorem C15_union : forall v o x, NoDup (items o) ->
    In x (items (merge v o)) <-> In x (items v) \/ In x (items o).
  Proof. exact (merge_union eqb eqb_spec). Qed.

  (* ... exactly once *)
  Theorem C15_once : forall v o, NoDup (items v) -> NoDup (items o) -> NoDup (items (merge v o)).
  Proof. exact (merge_once eqb eqb_spec). Qed.

  (* mandatory iff mandatory in both lists (every other item is Optional) *)
  Theorem C15_mandatory_iff : forall v o x, NoDup (items v) -> NoDup (items o) ->
    In (Mand, x) (merge v o) <-> In (Mand, x) v /\ In (Mand, x) o.
  Proof. exact (merge_mandatory_iff eqb eqb_spec). Qed.
  Theorem C15_optional_otherwise : forall v o x, NoDup (items v) -> NoDup (items o) ->
    In x (items (merge v o)) -> ~ (In (Mand, x) v /\ In (Mand, x) o) -> In (Opt, x) (merge v o).
  Proof. exact (merge_optional_otherwise eqb eqb_spec). Qed.

  (* first list's items in their order, then the second-only items in their original order *)
  Theorem C15_order : forall v o, NoDup (items o) ->
    items (merge v o) = items v ++ filter (fun y => negb (memA eqb y (items v))) (items o).
  Proof. exact (merge_order eqb eqb_spec). Qed.

  (* the whole function in one equation *)
  Theorem C15_characterisation : forall v o, NoDup (items o) ->
    merge v o = map (fun it => (conj_tag eqb it o, snd it)) v
                ++ map (pair Opt) (filter (fun y => negb (memA eqb y (items v))) (items o)).
  Proof. exact (merge_characterisation eqb eqb_spec). Qed.
End C15.

(* non-vacuity: the doc-test lists satisfy the hypotheses and give the documented result *)
Example C15_doc_example :
  let v := [(Mand, 1); (Mand, 2); (Mand, 4)] in
  let o := [(Mand, 1); (Mand, 3); (Opt, 4)] in
  NoDup (items v) /\ NoDup (items o) /\
  merge_necessity N.eqb v o = [(Mand, 1); (Opt, 2); (Opt, 4); (Opt, 3)].
Proof.
  cbv zeta. split; [|split]; [| |reflexivity]; repeat constructor; simpl; intuition discriminate.
Qed.

(* history: the pinned code (before repair F1) violated the order clause *)
Theorem C15_order_prefix_refuted :
  exists v o : list (nec * N), NoDup (items v) /\ NoDup (items o) /\
    items (merge_necessity_prefix N.eqb v o)
    <> items v ++ filter (fun y => negb (memA N.eqb y (items v))) (items o).
Proof. exact merge_order_prefix_refuted. Qed.

Print Assumptions C15_union.
Print Assumptions C15_once.
Print Assumptions C15_mandatory_iff.
Print Assumptions C15_optional_otherwise.
Print Assumptions C15_order.
Print Assumptions C15_characterisation.
Print Assumptions C15_doc_example.
Print Assumptions C15_order_prefix_refuted.
