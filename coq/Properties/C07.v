(* C07 — No panic, abort or hang: parsing and extending return Ok or Err for EVERY event stream
   (balanced or not, with faults or not, of any length and nesting depth).
   What the model can carry:
   * termination: the recursion of build_struct consumes an event per call, so the fuel
     S (length evs) given by into_struct_ev / extend_struct_ev is never exhausted;
   * the only arithmetic panic site of the parser, `count += 1` on a u32, is unreachable while
     the number of events stays below 2^32 - 2 (every increment consumes a Start/Empty event);
   * the `while` loop of create_unused_name / compute_struct_names exits (pinned as
     C07_render_loop_exits in Properties/C04.v, Proofs/IdentProofs.v).
   Partial: panics or hangs inside quick_xml, std or convert_string, stack consumption per frame
   and allocation failure are not expressible in the model; bin/check C07 covers them by execution
   (hostile byte strings through every reader configuration under catch_unwind + watchdog).
   Only statements; every proof is `exact <lemma of Proofs/ParserTotal.v>`. *)
From XSG.Model Require Import Strings Necessity Element Parser.
From XSG.Proofs Require Import ParserTotal.

Theorem C07_fuel_enough : forall fuel evs root known,
  (List.length evs < fuel)%nat -> build_struct fuel evs root known <> OutOfFuel.
Proof. exact fuel_enough. Qed.

Theorem C07_parse_total : forall evs, into_struct_ev evs <> OutOfFuel.
Proof. exact parse_total. Qed.
Theorem C07_extend_total : forall root evs, extend_struct_ev root evs <> OutOfFuel.
Proof. exact extend_total. Qed.
Theorem C07_run_total : forall docs, run_evs docs <> OutOfFuel.
Proof. exact run_total. Qed.
Theorem C07_run_ok_or_err : forall docs,
  (exists e, run_evs docs = Ok e) \/ (exists x, run_evs docs = Err x).
Proof. exact run_ok_or_err. Qed.

(* the u32 occurrence counter *)
Theorem C07_count_bound : forall fuel evs root known e rest,
  build_struct fuel evs root known = Ok (e, rest) ->
  max_count e <= N.max (max_count root) 1 + N.of_nat (List.length evs - List.length rest).
Proof. exact count_bound. Qed.
Theorem C07_parse_count_bound : forall evs e,
  into_struct_ev evs = Ok e -> max_count e <= 1 + N.of_nat (List.length evs).
Proof. exact parse_count_bound. Qed.
Theorem C07_extend_count_bound : forall root evs e,
  extend_struct_ev root evs = Ok e ->
  max_count e <= N.max (max_count root) 1 + N.of_nat (List.length evs).
Proof. exact extend_count_bound. Qed.
Theorem C07_no_overflow : forall evs e,
  N.of_nat (List.length evs) < u32_max - 1 -> into_struct_ev evs = Ok e -> max_count e < u32_max.
Proof. exact no_overflow. Qed.
Theorem C07_extend_no_overflow : forall root evs e,
  N.max (max_count root) 1 + N.of_nat (List.length evs) < u32_max ->
  extend_struct_ev root evs = Ok e -> max_count e < u32_max.
Proof. exact extend_no_overflow. Qed.
Theorem C07_run_no_overflow : forall docs e,
  N.of_nat (total_events docs) < u32_max - 1 -> run_evs docs = Ok e -> max_count e < u32_max.
Proof. exact run_no_overflow. Qed.

(* non-vacuity *)
Example C07_example_count :
  exists e, into_struct_ev ex_doc = Ok e /\ max_count e = 2
            /\ N.of_nat (List.length ex_doc) < u32_max - 1.
Proof. exact ex_count_bound. Qed.
Example C07_example_run :
  exists e, run_evs [ex_doc; ex_doc; ex_doc] = Ok e /\ max_count e = 6.
Proof. exact ex_run_count. Qed.

Print Assumptions C07_fuel_enough.
Print Assumptions C07_parse_total.
Print Assumptions C07_extend_total.
Print Assumptions C07_run_total.
Print Assumptions C07_run_ok_or_err.
Print Assumptions C07_count_bound.
Print Assumptions C07_parse_count_bound.
Print Assumptions C07_extend_count_bound.
Print Assumptions C07_no_overflow.
Print Assumptions C07_extend_no_overflow.
Print Assumptions C07_run_no_overflow.
Print Assumptions C07_example_count.
Print Assumptions C07_example_run.
