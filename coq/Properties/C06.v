(* C06 — "Extending a parsed structure with further documents of the same root yields the schema
   (fields, optionality, multiplicity, text flags, nesting) inferred from the union of all
   occurrences: it does not depend on the order in which the documents are supplied, is unchanged
   by supplying a document a second time or by supplying an empty or element-less document, and
   never drops a field, turns an Option field into a required one or a Vec field into a single
   one.  A failed extension reports an error rather than a partial result."

   Vocabulary (definitions in Proofs/UnionProofs.v, Proofs/ReprDefs.v, Model/Spec.v):
     run_dom docs          parse(D1), extend(D2), ..., extend(Dk) on document trees (equal to the
                           event-level `run_evs` by Properties/DomEquiv.v)
     Repr e os             e has absorbed exactly the occurrence list os (flags, attributes, children,
                           tags, Vec flags and nested structs are those the specification infers from os)
     same_schema e e'      same name, text flag, attribute set with tags, child-name set, and for each
                           child the same Option tag, Vec flag and (hereditarily) schema; field ORDER,
                           occurrence counts and positions are not compared (`C06_same_schema_reading`)
     le_schema e e'        e' has every attribute/child of e; Opt stays Opt, Vec stays Vec, text stays
                           (`C06_le_schema_reading`)
   Documents: every document has exactly one top-level element, named m (`elem_names p = [m]`), and
   no element carries a duplicate attribute (`wf_node`, guaranteed by the reader).
   Only statements; every proof is `exact <lemma of Proofs/...>`. *)
From XSG.Model Require Import Strings Necessity Element Parser Dom Spec.
From XSG.Proofs Require Import ElementProofs SpecProofs ReprDefs ParserFaults UnionProofs.
From Coq Require Import String.
From Coq Require Import List Permutation.
Local Open Scope list_scope.

(* ---------- what the two comparisons say ---------- *)
Theorem C06_same_schema_reading : forall e e',
  same_schema e e' <->
  ename e = ename e' /\ etext e = etext e'
  /\ (forall u b, In (u, b) (eattrs e) <-> In (u, b) (eattrs e'))
  /\ (forall m, In m (child_names (echildren e')) -> In m (child_names (echildren e)))
  /\ Forall (fun c => exists c', get_child (echildren e') (cname c) = Some c'
                                 /\ fst c = fst c' /\ estandalone (snd c) = estandalone (snd c')
                                 /\ same_schema (snd c) (snd c')) (echildren e).
Proof. exact same_schema_unfold. Qed.

Theorem C06_le_schema_reading : forall e e',
  le_schema e e' <->
  ename e = ename e' /\ (etext e = true -> etext e' = true)
  /\ (forall u b, In (u, b) (eattrs e) -> exists u', In (u', b) (eattrs e') /\ (u = Opt -> u' = Opt))
  /\ Forall (fun c => exists c', get_child (echildren e') (cname c) = Some c'
                                 /\ (fst c = Opt -> fst c' = Opt)
                                 /\ (estandalone (snd c) = false -> estandalone (snd c') = false)
                                 /\ le_schema (snd c) (snd c')) (echildren e).
Proof. exact le_schema_unfold. Qed.

(* same_schema is an equivalence on trees with unique names (every parser result is one) and refines le_schema *)
Theorem C06_same_schema_refl : forall e, Uniq e -> same_schema e e.
Proof. exact same_schema_refl. Qed.
Theorem C06_same_schema_sym : forall e e', Uniq e' -> same_schema e e' -> same_schema e' e.
Proof. exact same_schema_sym. Qed.
Theorem C06_same_schema_trans : forall e1 e2 e3, same_schema e1 e2 -> same_schema e2 e3 -> same_schema e1 e3.
Proof. exact same_schema_trans. Qed.
Theorem C06_same_schema_le : forall e e', same_schema e e' -> le_schema e e'.
Proof. exact same_schema_le. Qed.
Theorem C06_repr_uniq : forall e os, Repr e os -> Uniq e.
Proof. exact Repr_Uniq. Qed.

(* ---------- occurrence lists: the schema depends only on the SET of occurrences ---------- *)
Theorem C06_repr_same_set : forall e e' os os',
  Repr e os -> Repr e' os' -> ename e = ename e' -> (forall x, In x os <-> In x os') -> same_schema e e'.
Proof. exact repr_same_set. Qed.

Theorem C06_repr_perm : forall e e' os os',
  Repr e os -> Repr e' os' -> ename e = ename e' -> Permutation os os' -> same_schema e e'.
Proof. exact repr_perm. Qed.

Theorem C06_repr_idem : forall e e' os o,
  Repr e os -> Repr e' (os ++ [o]) -> ename e = ename e' -> In o os -> same_schema e e'.
Proof. exact repr_idem. Qed.

Theorem C06_repr_incl : forall e e' os os',
  Repr e os -> Repr e' os' -> ename e = ename e' -> incl os os' -> le_schema e e'.
Proof. exact repr_incl. Qed.

Theorem C06_repr_mono : forall e e' os more,
  Repr e os -> Repr e' (os ++ more) -> ename e = ename e' -> le_schema e e'.
Proof. exact repr_mono. Qed.

(* ---------- document sequences ---------- *)
(* the result of parse + extend ... + extend represents the union (concatenation) of all root occurrences *)
Theorem C06_union : forall docs m,
  docs <> [] -> Forall (Forall wf_node) docs -> Forall (fun p => elem_names p = [m]) docs ->
  exists e, run_dom docs = Some e /\ ename e = m /\ Repr e (flat_map (named m) docs).
Proof. exact run_dom_union. Qed.

Theorem C06_union_fields : forall docs m,
  docs <> [] -> Forall (Forall wf_node) docs -> Forall (fun p => elem_names p = [m]) docs ->
  exists e, run_dom docs = Some e /\
    let os := flat_map (named m) docs in
    ename e = m
    /\ etext e = existsb has_text os
    /\ eattrs e = spec_attrs os
    /\ NoDup (child_names (echildren e))
    /\ (forall n, In n (child_names (echildren e)) <-> In n (flat_map okidnames os))
    /\ Forall (fun c => fst c = (if spec_mand (cname c) os then Mand else Opt)
                        /\ estandalone (snd c) = spec_single (cname c) os
                        /\ Repr (snd c) (flat_map (kids_named (cname c)) os)) (echildren e).
Proof. exact run_dom_union_fields. Qed.

(* same documents in any order and any multiplicity: both runs succeed, same schema *)
Theorem C06_same_set : forall docs docs' m,
  docs <> [] -> Forall (Forall wf_node) docs -> Forall (fun p => elem_names p = [m]) docs ->
  (forall d, In d docs <-> In d docs') ->
  exists e e', run_dom docs = Some e /\ run_dom docs' = Some e' /\ same_schema e e'.
Proof. exact run_dom_same_set. Qed.

Theorem C06_order : forall docs docs' m,
  docs <> [] -> Forall (Forall wf_node) docs -> Forall (fun p => elem_names p = [m]) docs ->
  Permutation docs docs' ->
  exists e e', run_dom docs = Some e /\ run_dom docs' = Some e' /\ same_schema e e'.
Proof. exact run_dom_order. Qed.

Theorem C06_idem : forall docs d m,
  docs <> [] -> Forall (Forall wf_node) docs -> Forall (fun p => elem_names p = [m]) docs ->
  In d docs ->
  exists e e', run_dom docs = Some e /\ run_dom (docs ++ [d]) = Some e' /\ same_schema e e'.
Proof. exact run_dom_idem. Qed.

(* more documents, supplied anywhere: nothing dropped, no Option -> required, no Vec -> single *)
Theorem C06_incl : forall docs docs' m,
  docs <> [] -> incl docs docs' ->
  Forall (Forall wf_node) docs' -> Forall (fun p => elem_names p = [m]) docs' ->
  exists e e', run_dom docs = Some e /\ run_dom docs' = Some e' /\ le_schema e e'.
Proof. exact run_dom_incl. Qed.

Theorem C06_monotone : forall docs more m,
  docs <> [] ->
  Forall (Forall wf_node) (docs ++ more) -> Forall (fun p => elem_names p = [m]) (docs ++ more) ->
  exists e e', run_dom docs = Some e /\ run_dom (docs ++ more) = Some e' /\ le_schema e e'.
Proof. exact run_dom_mono. Qed.

(* ---------- empty / element-less documents ---------- *)
(* event level, any fault-free stream without element events (prolog, comments, white space, nothing) *)
Theorem C06_elementless : forall root evs,
  has_element evs = false -> first_fault evs = None ->
  extend_struct_ev root evs = Ok (with_pos wrapper root).
Proof. exact extend_elementless. Qed.

(* every tree returned by the parser carries a position: it comes back unchanged *)
Theorem C06_elementless_positioned : forall root evs p,
  has_element evs = false -> first_fault evs = None -> epos root = Some p ->
  extend_struct_ev root evs = Ok root.
Proof. exact extend_elementless_positioned. Qed.

Theorem C06_elementless_dom : forall e top p,
  epos e = Some p -> elem_names top = [] -> extend_struct_dom e top = Some e.
Proof. exact extend_struct_dom_elementless. Qed.

(* anywhere after the first document of a sequence: the very same tree, not only the same schema *)
Theorem C06_elementless_run : forall docs top more m,
  docs <> [] -> Forall (Forall wf_node) docs -> Forall (fun p => elem_names p = [m]) docs ->
  elem_names top = [] ->
  run_dom (docs ++ top :: more) = run_dom (docs ++ more).
Proof. exact run_dom_elementless. Qed.

(* ---------- a failed extension reports an error, not a partial result ---------- *)
(* every stream whatsoever: Err x with x the first fault, or Ok; `outcome` has no third way to
   carry a tree, so an Err carries none *)
Theorem C06_error_not_partial : forall root evs,
  (exists x, extend_struct_ev root evs = Err x /\ first_fault evs = Some x)
  \/ (exists e', extend_struct_ev root evs = Ok e').
Proof. exact extend_total. Qed.

(* streams of the reader (no end tag at depth 0 before the first fault): Err exactly when faulty *)
Theorem C06_error_iff : forall root evs x,
  no_stray_end O evs = true -> (extend_struct_ev root evs = Err x <-> first_fault evs = Some x).
Proof. exact extend_err_iff. Qed.

Theorem C06_error_sticks : forall docs1 d docs2 e x,
  docs1 <> [] -> run_evs docs1 = Ok e -> extend_struct_ev e d = Err x ->
  run_evs (docs1 ++ d :: docs2) = Err x.
Proof. exact run_evs_error_sticks. Qed.

(* ---------- examples: the premises are satisfiable, the comparisons are not trivial ---------- *)
Theorem C06_example_order_trees_differ :
  run_dom [u_d1; u_d2] <> run_dom [u_d2; u_d1]
  /\ (exists e, run_dom [u_d1; u_d2] = Some e
                /\ map (fun c => (cname c, epos (snd c))) (echildren e)
                   = [(s "c", Some 1%nat); (s "d", Some 2%nat); (s "b", Some 0%nat)]
                /\ eattrs e = [(Opt, s "x"); (Opt, s "y")])
  /\ (exists e, run_dom [u_d2; u_d1] = Some e
                /\ map (fun c => (cname c, epos (snd c))) (echildren e)
                   = [(s "c", Some 0%nat); (s "b", Some 2%nat); (s "d", Some 1%nat)]
                /\ eattrs e = [(Opt, s "y"); (Opt, s "x")]).
Proof. exact ex_order_trees_differ. Qed.

Theorem C06_example_order_same_schema :
  exists e e', run_dom [u_d1; u_d2] = Some e /\ run_dom [u_d2; u_d1] = Some e' /\ same_schema e e'.
Proof. exact ex_order_same_schema. Qed.

Theorem C06_example_idem :
  run_dom [u_d1; u_d2] <> run_dom [u_d1; u_d2; u_d1]
  /\ exists e e', run_dom [u_d1; u_d2] = Some e /\ run_dom ([u_d1; u_d2] ++ [u_d1]) = Some e'
                  /\ same_schema e e'.
Proof. exact ex_idem. Qed.

Theorem C06_example_mono :
  exists e e', run_dom [u_d1] = Some e /\ run_dom ([u_d1] ++ [u_d2]) = Some e' /\ le_schema e e'
    /\ map (fun c => (fst c, cname c, estandalone (snd c))) (echildren e)
       = [(Mand, s "b", true); (Mand, s "c", true)]
    /\ map (fun c => (fst c, cname c, estandalone (snd c))) (echildren e')
       = [(Mand, s "c", false); (Opt, s "d", true); (Opt, s "b", true)]
    /\ eattrs e = [(Mand, s "x")] /\ eattrs e' = [(Opt, s "x"); (Opt, s "y")].
Proof. exact ex_mono. Qed.

Theorem C06_example_mono_strict :
  exists e e', run_dom [u_d1] = Some e /\ run_dom [u_d1; u_d2] = Some e' /\ ~ le_schema e' e.
Proof. exact ex_mono_strict. Qed.

Theorem C06_example_elementless :
  run_dom [u_d1; u_none; u_d2] = run_dom [u_d1; u_d2]
  /\ run_dom [u_d1; []; u_d2] = run_dom [u_d1; u_d2]
  /\ run_dom [u_none; u_d1] = None.
Proof. exact ex_elementless_dom. Qed.

Theorem C06_example_failed_extension :
  exists e, into_struct_ev (events_of_forest u_d1) = Ok e
    /\ extend_struct_ev e [EStart (ROk (s "a")) []; EErr 5 2; EEnd] = Err (QuickXmlError 5 2)
    /\ run_evs [events_of_forest u_d1; [EStart (ROk (s "a")) []; EErr 5 2; EEnd]; events_of_forest u_d2]
       = Err (QuickXmlError 5 2).
Proof. exact ex_failed_extension. Qed.

(* the name premise of C06_repr_perm / C06_repr_same_set is needed: Repr does not fix the element's own name *)
Theorem C06_example_name_premise_needed :
  let e := Elem (s "p") false true 0 [] [] None in
  let e' := Elem (s "q") false true 0 [] [] None in
  Repr e [] /\ Repr e' [] /\ Permutation (@nil node) [] /\ ~ same_schema e e'.
Proof. exact ex_name_premise_needed. Qed.

Print Assumptions C06_same_schema_reading.
Print Assumptions C06_le_schema_reading.
Print Assumptions C06_same_schema_refl.
Print Assumptions C06_same_schema_sym.
Print Assumptions C06_same_schema_trans.
Print Assumptions C06_same_schema_le.
Print Assumptions C06_repr_uniq.
Print Assumptions C06_repr_same_set.
Print Assumptions C06_repr_perm.
Print Assumptions C06_repr_idem.
Print Assumptions C06_repr_incl.
Print Assumptions C06_repr_mono.
Print Assumptions C06_union.
Print Assumptions C06_union_fields.
Print Assumptions C06_same_set.
Print Assumptions C06_order.
Print Assumptions C06_idem.
Print Assumptions C06_incl.
Print Assumptions C06_monotone.
Print Assumptions C06_elementless.
Print Assumptions C06_elementless_positioned.
Print Assumptions C06_elementless_dom.
Print Assumptions C06_elementless_run.
Print Assumptions C06_error_not_partial.
Print Assumptions C06_error_iff.
Print Assumptions C06_error_sticks.
Print Assumptions C06_example_order_trees_differ.
Print Assumptions C06_example_order_same_schema.
Print Assumptions C06_example_idem.
Print Assumptions C06_example_mono.
Print Assumptions C06_example_mono_strict.
Print Assumptions C06_example_elementless.
Print Assumptions C06_example_failed_extension.
Print Assumptions C06_example_name_premise_needed.
