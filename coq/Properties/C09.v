(* C09 — Field order follows the document, or the XML name when sorting is requested.
   Renderer part: in every struct the fields are attributes, then text, then children; with
   sort-by-name attributes and children are each ordered by XML name; unsorted, attributes are
   in the internal attribute order and children in `position` order; struct definitions follow
   a pre-order walk in field order; switching Options::sort changes nothing but these orders.
   (That the internal attribute order and `position` are the order of first appearance in the
   documents is the parser part, stated below this block by the document-level theorems.)
   Only statements; every proof is `exact <lemma of Proofs/OrderProofs.v>`.
   Vocabulary (Proofs/RenderProofs.v, Proofs/OrderProofs.v):
     is_attr f / is_child f     f_kind f is FAttr / FChild
     head_struct o tbl e pth    the struct of node e itself (attr_field, text_fields, child_field
                                are the record expressions of Model/Render.v, named)
     sorted_attrs o e           eattrs e, or isort by XML name when sort o = XmlName
     sorted_children o e        isort by_pos / by_name (echildren e) according to sort o
     subnode x e                x is e or a descendant of e
     SameUpToOrder l1 l2        l1 can be rearranged to match l2 struct by struct, matching
                                structs having the same derive, name and a Permutation of fields *)
From Coq Require Import String Permutation Sorted.
From XSG.Model Require Import Strings Necessity Element Render.
From XSG.Proofs Require Import ElementProofs RenderProofs OrderProofs.
Local Open Scope list_scope.

(* ---- 1. attributes, then at most one text field, then children ---- *)
Theorem C09_groups : forall o e,
  Forall (fun d => exists a t c,
            map f_kind (sd_fields d) = repeat FAttr a ++ repeat FText t ++ repeat FChild c
            /\ (t <= 1)%nat)
         (render_abs o e).
Proof. exact render_groups. Qed.

(* with the exact counts, for the struct of a given node *)
Theorem C09_groups_head : forall o tbl e pth,
  map f_kind (sd_fields (head_struct o tbl e pth))
  = repeat FAttr (List.length (eattrs e))
    ++ repeat FText (if etext e then 1 else 0)
    ++ repeat FChild (List.length (echildren e)).
Proof. exact head_groups. Qed.

(* ---- 2. sort-by-name: both groups ascend in the XML name ---- *)
Theorem C09_sorted_attrs : forall o e, sort o = XmlName ->
  Forall (fun d => StronglySorted (fun a b => str_leb a b = true)
                                  (map f_xml (filter is_attr (sd_fields d))))
         (render_abs o e).
Proof. exact render_sorted_attrs. Qed.

Theorem C09_sorted_children : forall o e, sort o = XmlName ->
  Forall (fun d => StronglySorted (fun a b => str_leb a b = true)
                                  (map f_xml (filter is_child (sd_fields d))))
         (render_abs o e).
Proof. exact render_sorted_children. Qed.

(* strictly, when names are unique under every parent (the invariant of C03/C16) *)
Theorem C09_strictly_sorted_attrs : forall o e, sort o = XmlName -> Uniq e ->
  Forall (fun d => StronglySorted (fun a b => str_ltb a b = true)
                                  (map f_xml (filter is_attr (sd_fields d))))
         (render_abs o e).
Proof. exact render_strictly_sorted_attrs. Qed.

Theorem C09_strictly_sorted_children : forall o e, sort o = XmlName -> Uniq e ->
  Forall (fun d => StronglySorted (fun a b => str_ltb a b = true)
                                  (map f_xml (filter is_child (sd_fields d))))
         (render_abs o e).
Proof. exact render_strictly_sorted_children. Qed.

(* ---- 3. unsorted: internal attribute order, children by position ---- *)
(* stated on the first struct of the rendering of a node (which is that node's struct) *)
Theorem C09_unsorted_attrs : forall o tbl e pth d rest,
  sort o = Unsorted -> render_abs_at o tbl e pth = d :: rest ->
  map f_xml (filter is_attr (sd_fields d)) = map snd (eattrs e).
Proof. exact render_at_unsorted_attrs. Qed.

Theorem C09_unsorted_children : forall o tbl e pth d rest,
  sort o = Unsorted -> render_abs_at o tbl e pth = d :: rest ->
  map f_xml (filter is_child (sd_fields d))
  = map (fun c => ename (snd c)) (isort by_pos (echildren e)).
Proof. exact render_at_unsorted_children. Qed.

(* every struct of the output belongs to a node for which both hold *)
Theorem C09_unsorted_everywhere : forall o e, sort o = Unsorted ->
  Forall (fun d => exists x, subnode x e
            /\ map f_xml (filter is_attr (sd_fields d)) = map snd (eattrs x)
            /\ map f_xml (filter is_child (sd_fields d))
               = map (fun c => ename (snd c)) (isort by_pos (echildren x)))
         (render_abs o e).
Proof. exact render_unsorted_everywhere. Qed.

(* what `isort by_pos` does: a rearrangement, ascending in position (None first), stable
   (children whose positions tie keep their internal order), the identity when the positions
   of the internal list already ascend *)
Theorem C09_by_pos_sort_spec : forall l : list (nec * element),
  Permutation l (isort by_pos l)
  /\ StronglySorted (fun a b => by_pos a b = true) (isort by_pos l)
  /\ (forall x, filter (fun y => by_pos x y && by_pos y x) (isort by_pos l)
                = filter (fun y => by_pos x y && by_pos y x) l)
  /\ (Sorted (fun a b => by_pos a b = true) l -> isort by_pos l = l).
Proof. exact by_pos_sort_spec. Qed.

(* ---- 4. structs follow a pre-order walk in field order ---- *)
(* the node's own struct first, then for each child *in the order of the child fields*
   (sorted_children o e indexes both) the rendering of that child, text-only children
   contributing no struct *)
Theorem C09_preorder : forall o tbl e pth,
  render_abs_at o tbl e pth
  = head_struct o tbl e pth
    :: flat_map (fun c => if contains_only_text (snd c) then []
                          else render_abs_at o tbl (snd c) (pth ++ [ename e]))
                (sorted_children o e)
  /\ sd_fields (head_struct o tbl e pth)
     = map (attr_field o (id_new e)) (sorted_attrs o e)
       ++ text_fields o (id_new e) e
       ++ map (child_field tbl (id_new e) (pth ++ [ename e])) (sorted_children o e).
Proof. exact render_preorder. Qed.

Theorem C09_preorder_root : forall o e,
  let tbl := compute_struct_names e (compute_name_hints e) in
  render_abs o e
  = head_struct o tbl e []
    :: flat_map (fun c => if contains_only_text (snd c) then []
                          else render_abs_at o tbl (snd c) [ename e])
                (sorted_children o e).
Proof. exact render_abs_preorder. Qed.

(* ---- 5. switching the option changes nothing but the orders ---- *)
Theorem C09_only_order : forall o1 o2 e,
  text_identifier o1 = text_identifier o2 /\ attribute_prefix o1 = attribute_prefix o2
  /\ derive o1 = derive o2 ->
  exists l, Permutation (render_abs o1 e) l
            /\ Forall2 (fun d1 d2 => sd_derive d1 = sd_derive d2 /\ sd_name d1 = sd_name d2
                                     /\ Permutation (sd_fields d1) (sd_fields d2))
                       l (render_abs o2 e).
Proof. exact render_only_order. Qed.

(* the root struct stays first *)
Theorem C09_only_order_root_first : forall o1 o2 e,
  text_identifier o1 = text_identifier o2 /\ attribute_prefix o1 = attribute_prefix o2
  /\ derive o1 = derive o2 ->
  exists d1 r1 d2 r2,
    render_abs o1 e = d1 :: r1 /\ render_abs o2 e = d2 :: r2
    /\ (sd_derive d1 = sd_derive d2 /\ sd_name d1 = sd_name d2
        /\ Permutation (sd_fields d1) (sd_fields d2))
    /\ SameUpToOrder r1 r2.
Proof. exact render_only_order_head. Qed.

(* the relation used above is an equivalence *)
Theorem C09_same_up_to_order_equivalence :
  (forall l, SameUpToOrder l l)
  /\ (forall l1 l2, SameUpToOrder l1 l2 -> SameUpToOrder l2 l1)
  /\ (forall l1 l2 l3, SameUpToOrder l1 l2 -> SameUpToOrder l2 l3 -> SameUpToOrder l1 l3).
Proof. exact SUO_equivalence. Qed.

(* ---- non-vacuity: <r b a>text<y/><x q p><k/></x><m/></r> with positions x=0, m=1, y=2 ---- *)
Example C09_example_uniq : Uniq ex_tree.
Proof. exact ex_tree_uniq. Qed.

Example C09_example_unsorted :
  sort quick_xml_de = Unsorted /\
  map (fun d => map (fun f => (f_kind f, f_xml f)) (sd_fields d)) (render_abs quick_xml_de ex_tree)
  = [ [(FAttr, s "b"); (FAttr, s "a"); (FText, s "text");
       (FChild, s "x"); (FChild, s "m"); (FChild, s "y")];
      [(FAttr, s "q"); (FAttr, s "p"); (FChild, s "k")] ].
Proof. exact ex_unsorted_view. Qed.

Example C09_example_sorted :
  sort ex_sorted = XmlName /\
  (text_identifier quick_xml_de = text_identifier ex_sorted
   /\ attribute_prefix quick_xml_de = attribute_prefix ex_sorted
   /\ derive quick_xml_de = derive ex_sorted) /\
  map (fun d => map (fun f => (f_kind f, f_xml f)) (sd_fields d)) (render_abs ex_sorted ex_tree)
  = [ [(FAttr, s "a"); (FAttr, s "b"); (FText, s "text");
       (FChild, s "m"); (FChild, s "x"); (FChild, s "y")];
      [(FAttr, s "p"); (FAttr, s "q"); (FChild, s "k")] ].
Proof. exact ex_sorted_view. Qed.

(* the struct blocks move with the child fields, and the two outputs do differ *)
Example C09_example_preorder :
  map sd_name (render_abs quick_xml_de ex_tree2) = [s "R"; s "Z"; s "C"] /\
  map sd_name (render_abs ex_sorted ex_tree2) = [s "R"; s "C"; s "Z"] /\
  render_abs quick_xml_de ex_tree2 <> render_abs ex_sorted ex_tree2.
Proof. exact ex_preorder_view. Qed.

Print Assumptions C09_groups.
Print Assumptions C09_groups_head.
Print Assumptions C09_sorted_attrs.
Print Assumptions C09_sorted_children.
Print Assumptions C09_strictly_sorted_attrs.
Print Assumptions C09_strictly_sorted_children.
Print Assumptions C09_unsorted_attrs.
Print Assumptions C09_unsorted_children.
Print Assumptions C09_unsorted_everywhere.
Print Assumptions C09_by_pos_sort_spec.
Print Assumptions C09_preorder.
Print Assumptions C09_preorder_root.
Print Assumptions C09_only_order.
Print Assumptions C09_only_order_root_first.
Print Assumptions C09_same_up_to_order_equivalence.
Print Assumptions C09_example_uniq.
Print Assumptions C09_example_unsorted.
Print Assumptions C09_example_sorted.
Print Assumptions C09_example_preorder.

(* ====================================================================== *)
(* Document level (Proofs/InferProofs.v): what the internal / position order IS.            *)
(* For documents as in C03 (one root each, same root name, no duplicate attribute), at the  *)
(* tree node x at any path p, with os the occurrences of that path in the documents:        *)
(* the attribute list is in order of first appearance, and the children taken in `position` *)
(* order (what `Unsorted` renders, C09_unsorted_children / C09_by_pos_sort_spec above) are   *)
(* in order of first appearance.                                                            *)
(* ====================================================================== *)
From XSG.Model Require Import Parser Dom Spec.
From XSG.Proofs Require Import ReprDefs InferProofs.

Theorem C09_first_appearance_attrs : forall docs e,
  docs_ok docs = true -> Forall (Forall wf_node) docs -> run_dom docs = Some e ->
  forall p x, node_at e p = Some x ->
  map snd (eattrs (snd x)) = dedup (flat_map oattrs (occs p (doc_roots docs))).
Proof. exact C09_first_appearance_attrs_l. Qed.

Theorem C09_first_appearance_children : forall docs e,
  docs_ok docs = true -> Forall (Forall wf_node) docs -> run_dom docs = Some e ->
  forall p x, node_at e p = Some x ->
  map cname (isort by_pos (echildren (snd x))) = dedup (flat_map okidnames (occs p (doc_roots docs))).
Proof. exact C09_first_appearance_children_l. Qed.

(* <r a b><x/><y>text</y><x k/></r> then <r b c><y/><z><w/></z><x/></r>: the parser's own child
   list is y, x, z; in position order it is x, y, z = first appearance *)
Example C09_example_first_appearance :
  docs_ok ex_docs = true /\ Forall (Forall wf_node) ex_docs /\
  exists e, run_dom ex_docs = Some e
    /\ map cname (echildren e) = [s "y"; s "x"; s "z"]
    /\ map cname (isort by_pos (echildren e)) = [s "x"; s "y"; s "z"]
    /\ dedup (flat_map okidnames (doc_roots ex_docs)) = [s "x"; s "y"; s "z"]
    /\ map snd (eattrs e) = [s "a"; s "b"; s "c"].
Proof. exact ex_first_appearance. Qed.

Print Assumptions C09_first_appearance_attrs.
Print Assumptions C09_first_appearance_children.
Print Assumptions C09_example_first_appearance.
