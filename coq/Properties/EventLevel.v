(* Event level — the document theorems of C06 / C01 / C11 / C02 stated for the event-level parser
   `run_evs` (Model/Parser.v: `build_struct` on reader events, the function tied to the Rust code
   by the differential check), and the recursion-depth bound of C07.

   Part 1.  `run_evs (map events_of_forest docs)` is the event-level run (parse the first
   document, extend with the others) on the reader events of the document trees `docs`.  The
   statements are those of Properties/C06.v, C01.v, C11.v, C02.v with
   `run_evs (map events_of_forest docs) = Ok e` in place of `run_dom docs = Some e`; the bridge is
   `EV_bridge` (from `run_dom_ev`, Properties/DomEquiv.v).
     same_structure d d'   the two documents have the same skeleton once every `<x/>` is written
                           `<x></x>`:  skel_forest (map unempty d) = skel_forest (map unempty d')
                           (text vs CDATA, comments / PIs / prolog, position and multiplicity of
                           character data, and the empty form are not part of the structure)

   Part 2.  C07, "recursion per nesting level, bounded only by the stack".
     build_depth fuel evs d   (Proofs/EventLevel.v) an instrumented copy of the recursion of
                           `build_struct`: same fuel, same events, same faults; a recursive call at
                           depth d+1 for the content of every EStart, the siblings handled by the
                           same call (the `loop` of the Rust function); returns the maximal number
                           of simultaneously active calls and the outcome without the tree
     max_open evs          the maximal number of simultaneously open elements of the stream
                           (running depth from 0: +1 at EStart, -1 at EEnd, never below 0)
   `EV_depth_tie`: the outcome of build_depth is that of build_struct (Ok with the same remaining
   events / the same error / out of fuel), for EVERY stream, fuel, depth and tree state, so it is
   the recursion of the model that is measured.  `EV_depth_bound`: depth <= 1 + max_open, for
   every stream; `EV_depth_exact_dom`: on the events of document trees the depth is exactly
   1 + the nesting depth of the documents (the bound is tight: recursion per nesting level).
   Only statements; every proof is `exact <lemma of Proofs/EventLevel.v>`. *)
From Coq Require Import String.
From XSG.Model Require Import Strings Convert Necessity Element Parser Dom Spec Render Deser.
From XSG.Proofs Require Import ElementProofs SkelProofs SpecProofs ReprDefs ParserFaults UnionProofs
                               AdmitProofs DeserProofs DomEquiv EventLevel.
From XSG.Corr Require Import Common Oracles.
From Coq Require Import List Permutation.
Local Open Scope list_scope.

(* ====================================================================== *)
(* ---------- Part 1 ---------- *)
Theorem EV_bridge : forall docs e,
  run_evs (map events_of_forest docs) = Ok e <-> run_dom docs = Some e.
Proof. exact run_evs_ok_iff. Qed.

(* ---------- C06 ---------- *)
Theorem C06ev_order : forall docs docs' m,
  docs <> [] -> Forall (Forall wf_node) docs -> Forall (fun p => elem_names p = [m]) docs ->
  Permutation docs docs' ->
  exists e e', run_evs (map events_of_forest docs) = Ok e
               /\ run_evs (map events_of_forest docs') = Ok e' /\ same_schema e e'.
Proof. exact ev_order. Qed.

Theorem C06ev_idem : forall docs d m,
  docs <> [] -> Forall (Forall wf_node) docs -> Forall (fun p => elem_names p = [m]) docs ->
  In d docs ->
  exists e e', run_evs (map events_of_forest docs) = Ok e
               /\ run_evs (map events_of_forest (docs ++ [d])) = Ok e' /\ same_schema e e'.
Proof. exact ev_idem. Qed.

Theorem C06ev_monotone : forall docs more m,
  docs <> [] ->
  Forall (Forall wf_node) (docs ++ more) -> Forall (fun p => elem_names p = [m]) (docs ++ more) ->
  exists e e', run_evs (map events_of_forest docs) = Ok e
               /\ run_evs (map events_of_forest (docs ++ more)) = Ok e' /\ le_schema e e'.
Proof. exact ev_monotone. Qed.

(* ---------- C01 ---------- *)
Theorem C01ev_render_admits_quick_xml : forall docs m e,
  docs <> [] -> Forall (Forall wf_node) docs -> Forall (fun p => elem_names p = [m]) docs ->
  run_evs (map events_of_forest docs) = Ok e ->
  clash_free_tree e = true -> names_plain e = true ->
  forall d, In d docs -> admits_b quick_xml_de (map erase (render_abs quick_xml_de e)) d = true.
Proof. exact ev_render_admits_quick_xml. Qed.

(* ---------- C02 ---------- *)
Theorem C02ev_accepts : forall vdocs m e,
  vdocs <> [] -> Forall (Forall wf_vnode) vdocs ->
  Forall (fun p => elem_names (map erase_v p) = [m]) vdocs ->
  run_evs (map events_of_forest (map (map erase_v) vdocs)) = Ok e ->
  clash_free_tree e = true -> names_plain e = true ->
  Forall (Forall data_oriented) vdocs ->
  Forall (Forall (fun v => known_k3_b v = false)) vdocs ->
  forall deny vd, In vd vdocs ->
    exists v, de_doc qx_flavour (render_abs quick_xml_de e) deny vd = Some v.
Proof. exact ev_accepts. Qed.

(* ---------- C11 ---------- *)
Theorem C11ev_same_structure_reading : forall d d',
  same_structure d d' <-> skel_forest (map unempty d) = skel_forest (map unempty d').
Proof. exact same_structure_unfold. Qed.

(* document lists of equal length, pairwise structure-equal: the same event-level outcome
   (the same tree, or the same error) *)
Theorem C11ev_structure_only : forall docs docs',
  Forall2 same_structure docs docs' ->
  run_evs (map events_of_forest docs) = run_evs (map events_of_forest docs').
Proof. exact ev_structure_only. Qed.

(* hence the same rendering under every option value *)
Theorem C11ev_structure_only_render : forall docs docs' o e,
  Forall2 same_structure docs docs' ->
  run_evs (map events_of_forest docs) = Ok e ->
  exists e', run_evs (map events_of_forest docs') = Ok e'
             /\ to_serde_struct o e' = to_serde_struct o e.
Proof. exact ev_structure_only_render_ok. Qed.

(* ---------- examples ---------- *)
(* u_d1 = <a x=""><b/><c>text</c></a>, u_d2 = <a y=""><c/><c k=""/><d><b/></d></a> (UnionProofs.v) *)
Example C06ev_example_order :
  [u_d1; u_d2] <> [] /\ Forall (Forall wf_node) [u_d1; u_d2]
  /\ Forall (fun p => elem_names p = [s "a"]) [u_d1; u_d2]
  /\ Permutation [u_d1; u_d2] [u_d2; u_d1]
  /\ run_evs (map events_of_forest [u_d1; u_d2]) <> run_evs (map events_of_forest [u_d2; u_d1])
  /\ exists e e', run_evs (map events_of_forest [u_d1; u_d2]) = Ok e
                  /\ run_evs (map events_of_forest [u_d2; u_d1]) = Ok e' /\ same_schema e e'.
Proof. exact ex_ev_order. Qed.

Example C06ev_example_idem_mono :
  (exists e e', run_evs (map events_of_forest [u_d1; u_d2]) = Ok e
                /\ run_evs (map events_of_forest ([u_d1; u_d2] ++ [u_d1])) = Ok e'
                /\ same_schema e e')
  /\ (exists e e', run_evs (map events_of_forest [u_d1]) = Ok e
                   /\ run_evs (map events_of_forest ([u_d1] ++ [u_d2])) = Ok e'
                   /\ le_schema e e').
Proof. exact ex_ev_idem_mono. Qed.

Example C01ev_example :
  exists e, run_evs (map events_of_forest ex_docs) = Ok e
            /\ clash_free_tree e = true /\ names_plain e = true
            /\ forall d, In d ex_docs ->
                 admits_b quick_xml_de (map erase (render_abs quick_xml_de e)) d = true.
Proof. exact ex_ev_admits. Qed.

Example C02ev_example :
  exists e, run_evs (map events_of_forest (map (map erase_v) vx_docs)) = Ok e
            /\ forall deny vd, In vd vx_docs ->
                 exists v, de_doc qx_flavour (render_abs quick_xml_de e) deny vd = Some v.
Proof. exact ex_ev_accepts. Qed.

Example C11ev_example :
  map events_of_forest sx_docs <> map events_of_forest sx_docs'
  /\ Forall2 same_structure sx_docs sx_docs'
  /\ run_evs (map events_of_forest sx_docs) = run_evs (map events_of_forest sx_docs')
  /\ exists e, run_evs (map events_of_forest sx_docs) = Ok e /\ ecount e = 2.
Proof. exact ex_ev_structure_only. Qed.

Example C11ev_example_premise_needed :
  let d  := [[NElem (s "a") false [] [NElem (s "b") true [] []]]] in
  let d' := [[NElem (s "a") false [] []]] in
  ~ Forall2 same_structure d d'
  /\ run_evs (map events_of_forest d) <> run_evs (map events_of_forest d').
Proof. exact ex_ev_structure_needed. Qed.

(* ====================================================================== *)
(* ---------- Part 2: recursion depth (C07) ---------- *)

(* the instrumented function, read: one unfolding (`depth_tag` is the Start / Empty case) *)
Theorem EV_build_depth_reading : forall f evs d,
  build_depth (S f) evs d =
  match evs with
  | [] => (d, Ok [])
  | ev :: rest =>
      match ev with
      | EStart n attrs => depth_tag f rest d n attrs false
      | EEmpty n attrs => depth_tag f rest d n attrs true
      | EEnd => (d, Ok rest)
      | EText (ROk _) | ECData (ROk _) => build_depth f rest d
      | EText (RBad id) | ECData (RBad id) => (d, Err (FromUtf8Error id))
      | EMisc => build_depth f rest d
      | EErr p id => (d, Err (QuickXmlError p id))
      end
  end.
Proof. exact build_depth_S. Qed.

Theorem EV_depth_tag_reading : forall f rest d n attrs empty,
  depth_tag f rest d n attrs empty =
  match n with
  | RBad id => (d, Err (FromUtf8Error id))
  | ROk _ =>
      match attr_keys attrs with
      | inl e => (d, Err e)
      | inr _ =>
          if empty then build_depth f rest d                       (* <x/>: no recursive call *)
          else match build_depth f rest (S d) with                 (* content: a call at depth d+1 *)
               | (m1, Ok rest') =>                                 (* siblings: this same call *)
                   let (m2, o) := build_depth f rest' d in (Nat.max m1 m2, o)
               | (m1, Err e) => (m1, Err e)
               | (m1, OutOfFuel) => (m1, OutOfFuel)
               end
      end
  end.
Proof. exact depth_tag_unfold. Qed.

Theorem EV_max_open_reading : forall cur evs,
  max_open_from cur evs =
  match evs with
  | [] => cur
  | EStart _ _ :: r => max_open_from (S cur) r
  | EEnd :: r => Nat.max cur (max_open_from (Nat.pred cur) r)
  | _ :: r => max_open_from cur r
  end.
Proof. exact max_open_from_unfold. Qed.

Theorem EV_call_depth_reading : forall evs,
  call_depth evs = fst (build_depth (fuel_for evs) evs 1) /\ max_open evs = max_open_from 0 evs.
Proof. exact call_depth_unfold. Qed.

(* the tie: the instrumented recursion is the recursion of build_struct — same outcome on the same
   fuel and events, whatever the stream, the depth and the tree state *)
Theorem EV_depth_tie : forall f evs d root known,
  snd (build_depth f evs d)
  = match build_struct f evs root known with
    | Ok (_, rest) => Ok rest | Err e => Err e | OutOfFuel => OutOfFuel end.
Proof. exact build_depth_tie. Qed.

Theorem EV_depth_ok_iff : forall f evs d root known rest,
  snd (build_depth f evs d) = Ok rest <-> exists r, build_struct f evs root known = Ok (r, rest).
Proof. exact build_depth_ok_iff. Qed.

Theorem EV_depth_err_iff : forall f evs d root known x,
  snd (build_depth f evs d) = Err x <-> build_struct f evs root known = Err x.
Proof. exact build_depth_err_iff. Qed.

(* streams without faults, fuel of the entry points: both succeed and leave the same events *)
Theorem EV_depth_faultfree : forall evs d root known,
  first_fault evs = None ->
  exists r rest, build_struct (fuel_for evs) evs root known = Ok (r, rest)
                 /\ snd (build_depth (fuel_for evs) evs d) = Ok rest.
Proof. exact build_depth_faultfree. Qed.

(* the measure does not depend on the fuel once there is one unit per event *)
Theorem EV_depth_fuel : forall f1 f2 evs d,
  (List.length evs < f1)%nat -> (List.length evs < f2)%nat ->
  build_depth f1 evs d = build_depth f2 evs d.
Proof. exact build_depth_fuel. Qed.

(* the bound, for EVERY stream (balanced or not, faulty or not), fuel and starting depth *)
Theorem EV_depth_bound_gen : forall f evs d, (fst (build_depth f evs d) <= d + max_open evs)%nat.
Proof. exact depth_bound_gen. Qed.

Theorem EV_depth_bound : forall evs, (call_depth evs <= 1 + max_open evs)%nat.
Proof. exact depth_bound. Qed.

Theorem EV_depth_bound_200 : forall evs, (max_open evs <= 200)%nat -> (call_depth evs <= 201)%nat.
Proof. exact depth_bound_200. Qed.

(* documents: the bound is reached — one active call per nesting level, plus the first *)
Theorem EV_nest_reading : forall n a ks,
  nest (NElem n false a ks) = S (nest_forest ks) /\ nest (NElem n true a ks) = O
  /\ nest NText = O /\ nest NCData = O /\ nest NMisc = O
  /\ nest_forest [] = O
  /\ forall k, nest_forest (k :: ks) = Nat.max (nest k) (nest_forest ks).
Proof. exact nest_unfold. Qed.

Theorem EV_max_open_dom : forall ks, max_open (events_of_forest ks) = nest_forest ks.
Proof. exact max_open_forest. Qed.

Theorem EV_depth_exact_dom : forall ks, call_depth (events_of_forest ks) = S (nest_forest ks).
Proof. exact call_depth_dom. Qed.

Theorem EV_depth_exact_dom_max_open : forall ks,
  call_depth (events_of_forest ks) = S (max_open (events_of_forest ks)).
Proof. exact call_depth_dom_max_open. Qed.

(* ---------- examples ---------- *)
(* nested_evs k inner = k start tags <a>, inner, k end tags *)
Example EV_example_depth_5 :
  let evs := nested_evs 5 [EText (ROk tt); EEmpty (ROk (s "b")) []] in
  max_open evs = 5%nat /\ call_depth evs = 6%nat
  /\ build_depth (fuel_for evs) evs 1 = (6%nat, Ok [])
  /\ proj_rest (build_struct (fuel_for evs) evs wrapper []) = Ok [].
Proof. exact ex_depth_5. Qed.

Example EV_example_depth_siblings :
  let one := nested_evs 2 [EEmpty (ROk (s "b")) []] in
  let evs := EStart (ROk (s "r")) [] :: one ++ EMisc :: one ++ one ++ [EEnd] in
  max_open evs = 3%nat /\ call_depth evs = 4%nat /\ List.length evs = 18%nat.
Proof. exact ex_depth_siblings. Qed.

Example EV_example_depth_unbalanced :
  let open3 := [EStart (ROk (s "a")) []; EStart (ROk (s "b")) []; EStart (ROk (s "c")) []] in
  let stray := [EStart (ROk (s "a")) []; EEnd; EEnd; EStart (ROk (s "b")) []; EStart (ROk (s "c")) []] in
  (max_open open3 = 3%nat /\ build_depth (fuel_for open3) open3 1 = (4%nat, Ok []))
  /\ (max_open stray = 2%nat
      /\ build_depth (fuel_for stray) stray 1
         = (2%nat, Ok [EStart (ROk (s "b")) []; EStart (ROk (s "c")) []])
      /\ proj_rest (build_struct (fuel_for stray) stray wrapper [])
         = Ok [EStart (ROk (s "b")) []; EStart (ROk (s "c")) []]).
Proof. exact ex_depth_unbalanced. Qed.

Example EV_example_depth_fault :
  let evs := [EStart (ROk (s "a")) []; EStart (ROk (s "b")) []; EErr 7 3; EEnd; EEnd] in
  max_open evs = 2%nat
  /\ build_depth (fuel_for evs) evs 1 = (3%nat, Err (QuickXmlError 7 3))
  /\ build_struct (fuel_for evs) evs wrapper [] = Err (QuickXmlError 7 3).
Proof. exact ex_depth_fault. Qed.

Example EV_example_depth_dom :
  nest_forest [NMisc; nested_doc 5] = 5%nat
  /\ call_depth (events_of_forest [NMisc; nested_doc 5]) = 6%nat
  /\ max_open (events_of_forest [NMisc; nested_doc 5]) = 5%nat
  /\ call_depth (events_of_forest DomEquiv.ex_doc) = 3%nat.
Proof. exact ex_depth_dom. Qed.

Example EV_example_depth_200 :
  let evs := nested_evs 200 [] in
  max_open evs = 200%nat /\ call_depth evs = 201%nat.
Proof. exact ex_depth_200. Qed.

Print Assumptions EV_bridge.
Print Assumptions C06ev_order.
Print Assumptions C06ev_idem.
Print Assumptions C06ev_monotone.
Print Assumptions C01ev_render_admits_quick_xml.
Print Assumptions C02ev_accepts.
Print Assumptions C11ev_same_structure_reading.
Print Assumptions C11ev_structure_only.
Print Assumptions C11ev_structure_only_render.
Print Assumptions C06ev_example_order.
Print Assumptions C06ev_example_idem_mono.
Print Assumptions C01ev_example.
Print Assumptions C02ev_example.
Print Assumptions C11ev_example.
Print Assumptions C11ev_example_premise_needed.
Print Assumptions EV_build_depth_reading.
Print Assumptions EV_depth_tag_reading.
Print Assumptions EV_max_open_reading.
Print Assumptions EV_call_depth_reading.
Print Assumptions EV_depth_tie.
Print Assumptions EV_depth_ok_iff.
Print Assumptions EV_depth_err_iff.
Print Assumptions EV_depth_faultfree.
Print Assumptions EV_depth_fuel.
Print Assumptions EV_depth_bound_gen.
Print Assumptions EV_depth_bound.
Print Assumptions EV_depth_bound_200.
Print Assumptions EV_nest_reading.
Print Assumptions EV_max_open_dom.
Print Assumptions EV_depth_exact_dom.
Print Assumptions EV_depth_exact_dom_max_open.
Print Assumptions EV_example_depth_5.
Print Assumptions EV_example_depth_siblings.
Print Assumptions EV_example_depth_unbalanced.
Print Assumptions EV_example_depth_fault.
Print Assumptions EV_example_depth_dom.
Print Assumptions EV_example_depth_200.
