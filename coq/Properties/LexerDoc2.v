(* Documents as BYTES, continued (see Properties/LexerDoc.v): C06 monotonicity and element-less
   documents, C01 for the rendered structs -- for written byte strings.  Statements only; proofs in
   Proofs/LexerDoc2.v. *)
From Coq Require Import String.
From XSG.Model Require Import Strings Convert Necessity Element Parser Dom Spec Render Lexer.
From XSG.Corr Require Import Common Oracles.
From XSG.Proofs Require Import ElementProofs SkelProofs DomEquiv SpecProofs ReprDefs ExactProofs EventLevel
  InferProofs UnionProofs AdmitProofs LexerProofs LexerSer LexerDoc LexerDoc2.

Theorem C06_bytes_monotone : forall docs more m,
  forallb bdoc_ok (docs ++ more) = true ->
  docs <> [] ->
  Forall (Forall wf_node) (map abs_doc (docs ++ more)) ->
  Forall (fun p => elem_names p = [m]) (map abs_doc (docs ++ more)) ->
  exists e e', run_bytes (map ser_forest docs) = Ok e /\ run_bytes (map ser_forest (docs ++ more)) = Ok e'
               /\ le_schema e e'.
Proof. exact bytes_C06_monotone. Qed.

Theorem C06_bytes_elementless : forall e d p,
  bdoc_ok d = true -> epos e = Some p -> elem_names (abs_doc d) = [] ->
  extend_struct_bytes e (ser_forest d) = Ok e.
Proof. exact bytes_C06_elementless. Qed.

Theorem C01_bytes_render_admits_quick_xml : forall docs m e,
  forallb bdoc_ok docs = true ->
  docs <> [] -> Forall (Forall wf_node) (map abs_doc docs) ->
  Forall (fun p => elem_names p = [m]) (map abs_doc docs) ->
  run_bytes (map ser_forest docs) = Ok e ->
  clash_free_tree e = true -> names_plain e = true ->
  forall d, In d docs ->
    admits_b quick_xml_de (map erase (render_abs quick_xml_de e)) (abs_doc d) = true.
Proof. exact bytes_C01_render_admits_quick_xml. Qed.

(* non-vacuity of the element-less case: a comment and a text, written out *)
Example C06_bytes_example_elementless :
  bdoc_ok [BComment (s "only a comment"); BText (s " ")] = true
  /\ elem_names (abs_doc [BComment (s "only a comment"); BText (s " ")]) = [].
Proof. split; vm_compute; reflexivity. Qed.

Print Assumptions C06_bytes_monotone.
Print Assumptions C06_bytes_elementless.
Print Assumptions C01_bytes_render_admits_quick_xml.
Print Assumptions C06_bytes_example_elementless.
