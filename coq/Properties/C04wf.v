(* C04 — final assembly: the well-formedness oracle is true of the model's output.
   `wf_b : list pstruct -> bool` (Corr/Oracles.v) is the check that the differential harness
   applies to the struct definitions parsed back from the REAL implementation's output:
   non-empty; struct names pairwise distinct and `struct_name_ok`; per struct the field
   identifiers pairwise distinct and `ident_ok`; every rename a safe string literal; every
   `TyStruct n` field type the name of a struct of the output; every non-first struct used by
   exactly one field and the first by none.
   * C04_render_wf: the oracle holds of `map erase (render_abs o e)` for every tree with unique
     sibling / attribute names (`Uniq`, the invariant of the parser and the public operations)
     whose names are acceptable (`tree_names_ok`, Proofs/ConvertProofs.v: characters of the
     model's alphabet that are XID_Continue or `-` `.` `:`, case-closed, first alphanumeric
     character an XID_Start) and for options whose attribute prefix and text identifier contain no
     double quote, backslash or newline (`literal_ok`).  All four hypotheses are needed
     (C04_wf_needs_names, C04_wf_needs_Uniq, C04_wf_needs_literal_options).
   * C04_wf_b_spec: what the boolean says, in Prop form (`WF`, `pfield_wf` of Proofs/WfProofs.v).
   * one Prop-level theorem per conjunct, on the structs themselves (C04_wf_nonempty ...
     C04_wf_used_once); the pairwise distinctness of struct names and of the field identifiers
     of a struct are C04_struct_names_unique / C04_field_idents of Properties/C04.v, restated.
   Vocabulary: `erase` forgets the bookkeeping fields of the model's structs (Oracles.v);
   `rename_literal f` = the rename of f, if any, is `literal_ok`; `count_uses n ps` = number of
   fields of ps of type `TyStruct n`.
   Only statements; every proof is `exact <lemma of Proofs/WfProofs.v>`. *)
From Coq Require Import String.
From XSG.Model Require Import Strings Chars Convert Necessity Element Render.
From XSG.Corr Require Import Common Oracles.
From XSG.Proofs Require Import ElementProofs ConvertProofs WfProofs.
Open Scope list_scope.

(* ---------- the main theorem ---------- *)
Theorem C04_render_wf : forall (o : options) (e : element),
  Uniq e -> tree_names_ok e = true ->
  literal_ok (attribute_prefix o) = true -> literal_ok (text_identifier o) = true ->
  wf_b (map erase (render_abs o e)) = true.
Proof. exact render_wf. Qed.

(* the same in Prop form *)
Theorem C04_render_WF : forall (o : options) (e : element),
  Uniq e -> tree_names_ok e = true ->
  literal_ok (attribute_prefix o) = true -> literal_ok (text_identifier o) = true ->
  WF (map erase (render_abs o e)).
Proof. exact render_WF. Qed.

(* ---------- the meaning of the boolean oracle ---------- *)
Theorem C04_wf_b_spec : forall ps : list pstruct,
  wf_b ps = true <->
  ( ps <> []
    /\ NoDup (map ps_name ps)
    /\ Forall (fun p => Oracles.struct_name_ok (ps_name p) = true) ps
    /\ Forall (fun p => NoDup (map pf_ident (ps_fields p))
                        /\ Forall (fun f => Oracles.ident_ok (pf_ident f) = true
                                            /\ (forall r, pf_rename f = Some r -> literal_ok r = true)
                                            /\ (forall n, pf_ty f = TyStruct n -> In n (map ps_name ps)))
                                  (ps_fields p)) ps
    /\ (forall r others, ps = r :: others ->
          Forall (fun p => count_uses (ps_name p) ps = 1%nat) others
          /\ count_uses (ps_name r) ps = 0%nat) ).
Proof. exact wf_b_spec. Qed.

Theorem C04_nodup_b_spec : forall l : list str, nodup_b str_eqb l = true <-> NoDup l.
Proof. exact nodup_b_spec. Qed.

(* the legality predicates of Proofs/ConvertProofs.v (C04legal.v) are those of the oracle *)
Theorem C04_ident_ok_same : forall x : str, Oracles.ident_ok x = ConvertProofs.ident_ok x.
Proof. exact ident_ok_same. Qed.
Theorem C04_struct_name_ok_same : forall x : str, Oracles.struct_name_ok x = ConvertProofs.struct_name_ok x.
Proof. exact struct_name_ok_same. Qed.

(* ---------- one theorem per conjunct, on the structs of the output ---------- *)
Theorem C04_wf_nonempty : forall (o : options) (e : element), render_abs o e <> [].
Proof. exact wf_nonempty. Qed.

Theorem C04_wf_struct_names_distinct : forall (o : options) (e : element),
  Uniq e -> NoDup (map sd_name (render_abs o e)).
Proof. exact StructTableProofs.struct_names_unique. Qed.

Theorem C04_wf_struct_names_legal : forall (o : options) (e : element),
  tree_names_ok e = true ->
  Forall (fun d => Oracles.struct_name_ok (sd_name d) = true) (render_abs o e).
Proof. exact wf_struct_names_legal. Qed.

Theorem C04_wf_field_idents_distinct : forall (o : options) (e : element),
  Uniq e -> Forall (fun d => NoDup (map f_ident (sd_fields d))) (render_abs o e).
Proof. exact StructTableProofs.field_idents. Qed.

Theorem C04_wf_field_idents_legal : forall (o : options) (e : element),
  tree_names_ok e = true ->
  Forall (fun d => Forall (fun f => Oracles.ident_ok (f_ident f) = true) (sd_fields d)) (render_abs o e).
Proof. exact wf_field_idents_legal. Qed.

Theorem C04_wf_renames_literal : forall (o : options) (e : element),
  tree_names_ok e = true ->
  literal_ok (attribute_prefix o) = true -> literal_ok (text_identifier o) = true ->
  Forall (fun d => Forall (fun f => match f_rename f with
                                    | Some r => literal_ok r = true
                                    | None => True end) (sd_fields d)) (render_abs o e).
Proof. exact wf_renames_literal. Qed.

Theorem C04_name_ok_literal : forall x : str, name_ok x = true -> literal_ok x = true.
Proof. exact name_ok_literal. Qed.

Theorem C04_wf_types_defined : forall (o : options) (e : element) (d : structdef) (f : field) (n : str),
  In d (render_abs o e) -> In f (sd_fields d) -> f_ty f = TyStruct n ->
  In n (map sd_name (render_abs o e)).
Proof. exact wf_types_defined. Qed.

Theorem C04_wf_used_once : forall (o : options) (e : element) (r : structdef) (others : list structdef),
  Uniq e -> render_abs o e = r :: others ->
  Forall (fun d => count_uses (sd_name d) (map erase (r :: others)) = 1%nat) others
  /\ count_uses (sd_name r) (map erase (r :: others)) = 0%nat.
Proof. exact wf_used_once. Qed.

(* ---------- the hypotheses are satisfiable / needed ---------- *)
(* prefixed names, keywords, names colliding after conversion, a struct called String *)
Example C04_wf_example :
  let e :=
    Elem (s "xs:self") true true 1 [(Mand, s "xmlns:xs"); (Opt, s "xs:type"); (Mand, s "type"); (Opt, s "text")]
      [ (Mand, Elem (s "Foo") false true 1 [(Mand, s "fn")]
                 [(Mand, Elem (s "string") false false 2 [(Opt, s "text")] [] (Some 0%nat))] (Some 0%nat));
        (Opt, Elem (s "foo") true false 3 [(Mand, s "a:b")] [] (Some 1%nat));
        (Mand, Elem (s "type") true true 1 [] [] (Some 2%nat));
        (Mand, Elem (s "xs:type") true true 1 [] [] (Some 3%nat)) ] None in
  Uniq e /\ tree_names_ok e = true
  /\ literal_ok (attribute_prefix quick_xml_de) = true /\ literal_ok (text_identifier quick_xml_de) = true
  /\ wf_b (map erase (render_abs quick_xml_de e)) = true
  /\ map (fun d => (sd_name d, map f_ident (sd_fields d))) (render_abs quick_xml_de e)
     = [ (s "XsSelf", [s "xmlns_xs"; s "xs_type_attr"; s "xs_self_type_attr"; s "text"; s "text_content";
                       s "foo"; s "foo_1"; s "xs_self_type"; s "xs_type"]);
         (s "XsSelfFoo", [s "foo_fn"; s "string"]);
         (s "String1", [s "text"]);
         (s "XsSelfFoo1", [s "a_b"; s "text"]) ].
Proof. exact wf_example. Qed.

Example C04_wf_needs_names :
  let e1 := Elem (s "r") false true 1 [] [(Mand, Elem (s "1a") true true 1 [] [] (Some 0%nat))] None in
  let e2 := Elem (s "_") false true 1 [(Mand, s "k")] [] None in
  Uniq e1 /\ tree_names_ok e1 = false /\ wf_b (map erase (render_abs quick_xml_de e1)) = false
  /\ Uniq e2 /\ tree_names_ok e2 = false /\ wf_b (map erase (render_abs quick_xml_de e2)) = false.
Proof. exact wf_needs_names. Qed.

Example C04_wf_needs_Uniq :
  let c := Elem (s "a") true true 1 [] [] None in
  let e := Elem (s "r") false true 1 [] [(Mand, c); (Mand, c)] None in
  tree_names_ok e = true /\ wf_b (map erase (render_abs quick_xml_de e)) = false.
Proof. exact wf_needs_Uniq. Qed.

Example C04_wf_needs_literal_options :
  let e := Elem (s "r") true true 1 [(Mand, s "k")] [] None in
  let o1 := {| text_identifier := s "$text"; attribute_prefix := [34%N]; derive := []; sort := Unsorted |} in
  let o2 := {| text_identifier := [34%N]; attribute_prefix := s "@"; derive := []; sort := Unsorted |} in
  Uniq e /\ tree_names_ok e = true
  /\ wf_b (map erase (render_abs o1 e)) = false /\ wf_b (map erase (render_abs o2 e)) = false.
Proof. exact wf_needs_literal_options. Qed.

Print Assumptions C04_render_wf.
Print Assumptions C04_render_WF.
Print Assumptions C04_wf_b_spec.
Print Assumptions C04_nodup_b_spec.
Print Assumptions C04_ident_ok_same.
Print Assumptions C04_struct_name_ok_same.
Print Assumptions C04_wf_nonempty.
Print Assumptions C04_wf_struct_names_distinct.
Print Assumptions C04_wf_struct_names_legal.
Print Assumptions C04_wf_field_idents_distinct.
Print Assumptions C04_wf_field_idents_legal.
Print Assumptions C04_wf_renames_literal.
Print Assumptions C04_name_ok_literal.
Print Assumptions C04_wf_types_defined.
Print Assumptions C04_wf_used_once.
Print Assumptions C04_wf_example.
Print Assumptions C04_wf_needs_names.
Print Assumptions C04_wf_needs_Uniq.
Print Assumptions C04_wf_needs_literal_options.
