(* C04 at source level — the terms translated from src/element/identifier.rs (Generated/IdentRs.v:
   `create_unused_name_rs`, `map_new_rs`), run in the RustIdent evaluator (Model/RustIdent.v, on fuel),
   compute the model's `create_unused_name` and `id_new` (Model/Render.v) for every input, for every
   fuel above a bound that is linear in the sizes:
     create_unused_name :  2 * |reserved| + 40
     Map::new           :  2 * (#children + #attributes) + 80
   (the proofs need only |reserved| + 18 and #children + #attributes + 30).  In particular the Rust loop
   `while self.reserved_names.contains(&unused_name)`, which has no bound, stops.
   Only statements; every proof is `exact <lemma of Proofs/IdentRsProofs.v>`. *)
From XSG.Model Require Import Strings Convert Necessity Element Render RustIdent.
From XSG.Generated Require Import IdentRs.
From XSG.Proofs Require Import IdentProofs IdentRsProofs.
From Coq Require Import String List NArith.
Import ListNotations.
Open Scope list_scope.
Open Scope nat_scope.

Theorem C04_source_create_unused_name :
  forall (l : list str) (name : str) (t : idty) (fuel : nat),
    2 * List.length l + 40 <= fuel ->
    run_create create_unused_name_rs fuel l name t = Some (create_unused_name l name t).
Proof. exact create_rs_correct. Qed.

Theorem C04_source_map_new :
  forall (e : element) (fuel : nat),
    2 * (List.length (echildren e) + List.length (eattrs e)) + 80 <= fuel ->
    run_new create_unused_name_rs fuel map_new_rs e = Some (id_new e).
Proof. exact map_new_rs_correct. Qed.

(* transported from C04 (id_new_values_nodup): the identifiers the translated source hands out for
   the fields of one struct are pairwise different *)
Theorem C04_source_idents_unique :
  forall (e : element) (fuel : nat),
    2 * (List.length (echildren e) + List.length (eattrs e)) + 80 <= fuel ->
    exists m, run_new create_unused_name_rs fuel map_new_rs e = Some m /\ NoDup (map snd m).
Proof. exact map_new_rs_idents_unique. Qed.

(* both early returns of create_unused_name (`text` -> `text_content`, `k` -> `k_attr`) and the
   numbering loop (`k_attr` -> `k_attr_1`) *)
Example C04_source_create_example :
  let l := [s "text"; s "k"; s "k_attr"] in
  2 * List.length l + 40 <= 46 /\
  run_create create_unused_name_rs 46 l (s "k") TAttr = Some (s "k_attr_1", l ++ [s "k_attr_1"]) /\
  run_create create_unused_name_rs 46 l (s "text") TText = Some (s "text_content", l ++ [s "text_content"]).
Proof. exact create_rs_example. Qed.

Example C04_source_example :
  let e0 := Elem (s "order") true true 1 [(Mand, s "type"); (Opt, s "a_b"); (Mand, s "text")]
              [(Mand, Elem (s "type") false true 1 [] [] (Some 0%nat));
               (Opt, Elem (s "a-b") true false 2 [] [] (Some 1%nat));
               (Mand, Elem (s "a_b") true false 2 [] [] (Some 2%nat))] None in
  2 * (List.length (echildren e0) + List.length (eattrs e0)) + 80 <= 200 /\
  run_new create_unused_name_rs 200 map_new_rs e0 = Some (id_new e0) /\
  id_new e0 =
  [((s "type", TChild), s "order_type"); ((s "a-b", TChild), s "a_b"); ((s "a_b", TChild), s "a_b_1");
   ((s "type", TAttr), s "order_type_attr"); ((s "a_b", TAttr), s "a_b_attr");
   ((s "text", TAttr), s "text"); ((s "text", TText), s "text_content")].
Proof. vm_compute. split; [repeat constructor|]. split; reflexivity. Qed.

Print Assumptions C04_source_create_unused_name.
Print Assumptions C04_source_map_new.
Print Assumptions C04_source_idents_unique.
Print Assumptions C04_source_create_example.
Print Assumptions C04_source_example.
