(* C05 — Rendering is deterministic: no field name, suffix, order or struct name depends on hash
   seeds.  The model threads an arbitrary rearrangement `ord` through the only place where the
   code ITERATES a hash container (the final loop of compute_name_hints; every other HashMap is
   only looked up, and since repair e3f005f tag_optional_children walks the child list).  The
   output does not depend on `ord`.  Threads / processes do not exist in the model: that part of
   the property is decided by the repetition check of bin/check C05 (execution).
   Only statements; every proof is `exact <lemma of Proofs/NamingProofs.v>`. *)
From Coq Require Import String Permutation.
From XSG.Model Require Import Strings Necessity Element Render.
From XSG.Proofs Require Import NamingProofs.
Local Open Scope list_scope.

Theorem C05_hash_order_independent_abs :
  forall ord, (forall b, Permutation (ord b) b) -> forall o e, render_abs_ord ord o e = render_abs o e.
Proof. exact render_abs_ord_independent. Qed.

Theorem C05_hash_order_independent :
  forall ord, (forall b, Permutation (ord b) b) ->
  forall o e, to_serde_struct_ord ord o e = to_serde_struct o e.
Proof. exact to_serde_struct_ord_independent. Qed.

(* any two hash orders give the same bytes *)
Theorem C05_any_two_orders :
  forall ord1 ord2, (forall b, Permutation (ord1 b) b) -> (forall b, Permutation (ord2 b) b) ->
  forall o e, to_serde_struct_ord ord1 o e = to_serde_struct_ord ord2 o e.
Proof.
  intros ord1 ord2 H1 H2 o e.
  exact (eq_trans (to_serde_struct_ord_independent ord1 H1 o e)
                  (eq_sym (to_serde_struct_ord_independent ord2 H2 o e))).
Qed.

(* the buckets the hash map holds have pairwise different keys: look-ups are well defined *)
Theorem C05_bucket_keys_unique : forall e, NoDup (map fst (fill_names e [] [])).
Proof. exact fill_names_root_nodup. Qed.

(* non-vacuity: a lawful non-identity order on a tree with two same-named positions *)
Example C05_example :
  let e := Elem (s "r") false true 1 []
             [(Mand, Elem (s "a") false true 1 [(Mand, s "k")] [(Mand, Elem (s "x") false true 1 [(Mand, s "k")] [] (Some 0%nat))] (Some 0%nat));
              (Mand, Elem (s "b") false true 1 [] [(Mand, Elem (s "x") false true 1 [(Mand, s "k")] [] (Some 0%nat))] (Some 1%nat))] None in
  compute_name_hints_ord (@rev _) e <> compute_name_hints e
  /\ to_serde_struct_ord (@rev _) quick_xml_de e = to_serde_struct quick_xml_de e.
Proof. split; [vm_compute; discriminate | vm_compute; reflexivity]. Qed.

Print Assumptions C05_hash_order_independent_abs.
Print Assumptions C05_hash_order_independent.
Print Assumptions C05_any_two_orders.
Print Assumptions C05_bucket_keys_unique.
Print Assumptions C05_example.
