(* C12 at source level — `run` of src/main.rs, translated statement by statement by
   bin/translate_cli.py on every run of bin/check C12 (Generated/CliRs.v: `run_rs`), together with
   the pinned `main`, the pinned src/args.rs (defaults of --parser / --derive / --sort, the two
   `From` impls) and the pinned `Options::derive`, is the model `cli_run` of Model/Cli.v: same
   effects (stdout text, create + write of the output file, a diagnostic), same exit status, for
   every combination of flags, every outcome of reading the input and of creating the output.
   So the 24 theorems of C12.v are theorems about what src/main.rs says now.  Read as given (not
   translated): fs::read_to_string / File::create as the oracles of Model/Cli.v, into_struct as
   `into_struct_ev` (tied by the correspondence check), to_serde_struct as the model function
   (C09rs.v ties its source).  Only statements; proofs are `exact <lemma of Proofs/CliRsProofs.v>`. *)
From XSG.Model Require Import Strings Necessity Element Parser Render Cli.
From XSG.Generated Require Import CliRs.
From XSG.Proofs Require Import CliRsProofs.
From Coq Require Import String List NArith.
Import ListNotations.
Open Scope list_scope.

Theorem C12_source_options : forall a : args,
  set_sort (options_derive_rs (parser_into_rs (c_parser (resolve a))) (c_derive (resolve a)))
           (sort_into_rs (c_sort (resolve a))) = opts_of a.
Proof. exact options_rs. Qed.

Theorem C12_source_main : forall (a : args) (r : read_result) (create_ok : bool),
  main_rs (resolve a) r create_ok = cli_run a r create_ok.
Proof. exact main_rs_correct. Qed.

(* `?` before the first effect: a run that fails has touched nothing (no file created, nothing on
   stdout) - the clause "neither creates nor modifies the named output file when the input was at
   fault", for the source *)
Theorem C12_source_fail_no_effect : forall (c : config) (r : read_result) (create_ok : bool) (eff : list effect),
  run_rs c r create_ok = (eff, false) -> eff = [].
Proof. exact run_rs_fail_no_effect. Qed.

(* non-vacuity: a run that writes a file, one whose output cannot be created, an unreadable input,
   an input without an element *)
Example C12_source_example :
  let a := {| a_parser := Some PSerdeXmlRs; a_derive := Some (s "Debug"); a_sort := Some XmlName; a_output := true |} in
  let evs := [EStart (ROk (s "a")) [AOk (ROk (s "k"))]; EEnd] in
  main_rs (resolve a) (RText evs) true = cli_run a (RText evs) true
  /\ snd (main_rs (resolve a) (RText evs) true) = 0%N
  /\ List.length (fst (main_rs (resolve a) (RText evs) true)) = 2%nat
  /\ main_rs (resolve a) (RText evs) false = ([Stderr], 1%N)
  /\ main_rs (resolve a) RFail true = ([Stderr], 1%N)
  /\ main_rs (resolve a) (RText [EMisc]) true = ([Stderr], 1%N).
Proof. exact cli_source_example. Qed.

Print Assumptions C12_source_options.
Print Assumptions C12_source_example.
Print Assumptions C12_source_main.
Print Assumptions C12_source_fail_no_effect.
