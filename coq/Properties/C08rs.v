(* C08 / C03 / C06 / C07 / C11 at source level — the event loop.  `build_struct` and `parse_tag` of
   src/parser.rs, translated statement by statement by bin/translate_loop.py on every run of the
   checks of C03, C06, C07, C08, C11 (Generated/LoopRs.v: `build_struct_rs`, `parse_tag_rs`; the
   reader is the list of events it still has to deliver, `?` and `return Err(..)` are the error
   monad, `&mut` parameters are returned, the loop is recursion on fuel), compute the model's
   `build_struct` of Model/Parser.v: same tree, same remaining events, same error, for EVERY fuel,
   event list, start element, list of known names, and every assignment of the four kinds of
   ignorable events (comment, declaration, processing instruction, DOCTYPE) to the EMisc events.
   With Generated/EntryRs.v (`into_struct`, `extend_struct`) the whole parser of the library is then
   a term translated from the current source, and it is equal to `into_struct_ev` /
   `extend_struct_ev` / `run_evs`, which is what every theorem of C01, C03, C06, C07, C08, C11 is
   stated about.  Read as given (not translated here): `count_children`, `tag_optional_children`
   (translated and proved in C03rs.v), the operations of src/element.rs (C16rs.v), `to_str`
   (pinned token by token), quick_xml's reader (the event list; Model/RustLoop.v).
   Only statements; proofs are `exact <lemma of Proofs/LoopRsProofs.v>`. *)
From XSG.Model Require Import Strings Necessity Element Parser RustLoop.
From XSG.Generated Require Import LoopRs EntryRs.
From XSG.Proofs Require Import ParserFaults LoopRsProofs.
From Coq Require Import String List NArith.
Import ListNotations.
Open Scope list_scope.

(* the event loop of the source is the event loop of the model *)
Theorem C08_source_build_struct : forall (mk : nat -> misc_kind) (fuel : nat) (evs : list event)
    (root : element) (known : list str),
  build_struct_rs mk fuel evs root known = build_struct fuel evs root known.
Proof. exact build_struct_rs_model. Qed.

(* parse_tag of the source, for a tag whose name and keys decode, around ANY function in the place
   of the nested loop: the known child is taken out, its attributes merged, `multiple` set when the
   name was seen before in this parent occurrence, the count incremented (a new child is created
   otherwise), the content read into it when a reader is lent, the name remembered, the child put
   back *)
Theorem C08_source_parse_tag : forall bs root name attrs keys known ro,
  attr_keys attrs = inr keys ->
  parse_tag_rs bs root (ROk name, attrs) known ro = parse_tag_spec bs root name keys known ro.
Proof. exact parse_tag_rs_spec. Qed.

(* a tag name or an attribute at fault is the result of parse_tag: nothing of the tag is kept *)
Theorem C08_source_parse_tag_bad_name : forall bs root id attrs known ro,
  parse_tag_rs bs root (RBad id, attrs) known ro = Err (FromUtf8Error id).
Proof. exact parse_tag_rs_bad_name. Qed.
Theorem C08_source_parse_tag_bad_attr : forall bs root name attrs e known ro,
  attr_keys attrs = inl e -> parse_tag_rs bs root (ROk name, attrs) known ro = Err e.
Proof. exact parse_tag_rs_bad_attr. Qed.

(* the library's parser, source terms only *)
Theorem C08_source_into_struct : forall mk evs, into_struct_src mk evs = into_struct_ev evs.
Proof. exact into_struct_src_model. Qed.
Theorem C08_source_extend_struct : forall mk root evs,
  extend_struct_src mk root evs = extend_struct_ev root evs.
Proof. exact extend_struct_src_model. Qed.
Theorem C06_source_run : forall mk docs, run_src mk docs = run_evs docs.
Proof. exact run_src_model. Qed.

(* C11: which kind of ignorable event stands at a place makes no difference *)
Theorem C11_source_misc_kind_irrelevant : forall mk mk' fuel evs root known,
  build_struct_rs mk fuel evs root known = build_struct_rs mk' fuel evs root known.
Proof. exact build_struct_rs_misc_kind. Qed.

(* C07: with one unit of fuel per event (and one to see the end) the source's loop returns *)
Theorem C07_source_into_struct_total : forall mk evs, into_struct_src mk evs <> OutOfFuel.
Proof. exact into_struct_src_total. Qed.
Theorem C07_source_extend_struct_total : forall mk root evs, extend_struct_src mk root evs <> OutOfFuel.
Proof. exact extend_struct_src_total. Qed.
Theorem C07_source_run_total : forall mk docs, run_src mk docs <> OutOfFuel.
Proof. exact run_src_total. Qed.

(* C08 stated for what the source returns: an error exactly when the flat scan finds a fault *)
Theorem C08_source_parse_err_iff : forall mk evs x,
  no_stray_end 0 evs = true ->
  (into_struct_src mk evs = Err x <->
   first_fault evs = Some x
   \/ (first_fault evs = None /\ has_element evs = false /\ x = NoRootError)).
Proof. exact into_struct_src_err_iff. Qed.
Theorem C08_source_extend_err_iff : forall mk root evs x,
  no_stray_end 0 evs = true -> (extend_struct_src mk root evs = Err x <-> first_fault evs = Some x).
Proof. exact extend_struct_src_err_iff. Qed.

Example C08_source_example :
  let mk := fun n : nat => match n with 0%nat => KComment | 1%nat => KDecl | 7%nat => KPI | _ => KDocType end in
  let d1 := [EMisc; EStart (ROk (s "a")) [AOk (ROk (s "k"))]; EMisc; EStart (ROk (s "b")) []; EText (ROk tt); EEnd;
             EEmpty (ROk (s "b")) []; EEnd; EMisc; EMisc] in
  let d2 := [EStart (ROk (s "a")) []; EEmpty (ROk (s "c")) [AOk (ROk (s "x"))]; EEnd] in
  (exists e, into_struct_src mk d1 = Ok e /\ ename e = s "a" /\ eattrs e = [(Mand, s "k")]
     /\ map (fun c => (fst c, ename (snd c), estandalone (snd c), etext (snd c))) (echildren e)
        = [(Mand, s "b", false, true)]
     /\ exists e2, extend_struct_src mk e d2 = Ok e2 /\ eattrs e2 = [(Opt, s "k")]
          /\ map (fun c => (fst c, ename (snd c))) (echildren e2) = [(Opt, s "c"); (Opt, s "b")]
          /\ extend_struct_src mk e [EStart (ROk (s "a")) []; EErr 17 4] = Err (QuickXmlError 17 4)
          /\ extend_struct_src mk e [EStart (ROk (s "a")) [AOk (ROk (s "k")); AErr 9]] = Err (AttrError 9))
  /\ into_struct_src mk [EMisc; EText (ROk tt)] = Err NoRootError
  /\ into_struct_src mk [EStart (RBad 5) []] = Err (FromUtf8Error 5).
Proof. exact loop_source_example. Qed.

Print Assumptions C08_source_build_struct.
Print Assumptions C08_source_parse_tag.
Print Assumptions C08_source_parse_tag_bad_name.
Print Assumptions C08_source_parse_tag_bad_attr.
Print Assumptions C08_source_into_struct.
Print Assumptions C08_source_extend_struct.
Print Assumptions C06_source_run.
Print Assumptions C11_source_misc_kind_irrelevant.
Print Assumptions C07_source_into_struct_total.
Print Assumptions C07_source_extend_struct_total.
Print Assumptions C07_source_run_total.
Print Assumptions C08_source_parse_err_iff.
Print Assumptions C08_source_extend_err_iff.
Print Assumptions C08_source_example.
