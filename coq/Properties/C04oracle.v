(* C04 — the well-formedness oracle exactly as bin/check evaluates it (hypothesis in_hyp_names =
   CoreCorr.tree_names_ok: the literal reading "identifier characters plus - . :, an XID_Start
   character before any ASCII digit").  It holds of the model's rendering for every tree outside
   the known class K2 (a name whose first alphanumeric character is a combining letter); the
   witness shows the class is not empty and that the property fails there (known finding K2).
   Only statements; every proof is `exact <lemma of Proofs/HypBridge.v>`. *)
From Coq Require Import String.
From XSG.Model Require Import Strings Chars Convert Necessity Element Render.
From XSG.Proofs Require Import ElementProofs ConvertProofs HypBridge.
From XSG.Corr Require Import Common Oracles CoreCorr.
Local Open Scope list_scope.

Theorem C04_oracle_wf : forall o e,
  Uniq e -> CoreCorr.tree_names_ok e = true -> tree_no_k2 e = true ->
  literal_ok (attribute_prefix o) = true -> literal_ok (text_identifier o) = true ->
  wf_b (map erase (render_abs o e)) = true.
Proof. exact oracle_wf. Qed.

(* outside the known class the check's hypothesis implies the theorems' hypothesis *)
Theorem C04_hypothesis_bridge_name : forall x,
  CoreCorr.name_ok x = true -> known_k2 x = false -> ConvertProofs.name_ok x = true.
Proof. exact corr_name_ok. Qed.
Theorem C04_hypothesis_bridge_tree : forall e,
  CoreCorr.tree_names_ok e = true -> tree_no_k2 e = true -> ConvertProofs.tree_names_ok e = true.
Proof. exact corr_tree_names_ok. Qed.

(* known finding K2: inside the literal hypothesis, the struct name is not a legal identifier
   (the field identifier is) *)
Example C04_known_K2_witness :
  let x := [95; 867; 97] in
  CoreCorr.name_ok x = true /\ known_k2 x = true
  /\ Oracles.struct_name_ok (to_pascal_case x) = false
  /\ Oracles.ident_ok (to_valid_key x (s "p")) = true.
Proof. exact known_k2_witness. Qed.

Print Assumptions C04_oracle_wf.
Print Assumptions C04_hypothesis_bridge_name.
Print Assumptions C04_hypothesis_bridge_tree.
Print Assumptions C04_known_K2_witness.
