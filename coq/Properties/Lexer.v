(* The step from bytes to reader events (Model/Lexer.v, a model of quick_xml's reader in its default
   configuration, tied to the real reader by the correspondence check of every run) and what it
   gives the byte-level clauses of C07, C08 and C11.  Statements only; proofs in
   Proofs/LexerProofs.v. *)
From XSG.Model Require Import Strings Necessity Element Parser Dom Lexer.
From XSG.Proofs Require Import ElementProofs ParserFaults ParserTotal SkelProofs LexerProofs LexerC11 LexerEmpty LexerMisc LexerCData LexerExpand LexerPos.
From Coq Require Import String.

(* the default-configured reader never delivers an end tag that closes nothing: for EVERY byte
   string.  This is the hypothesis `no_stray_end` of C08_parse_err_iff / C08_extend_err_iff. *)
Theorem LEX_no_stray_end_strict : forall bs, no_stray_end_strict 0 (lex bs) = true.
Proof. exact lex_nse_strict. Qed.
Theorem LEX_no_stray_end : forall bs, no_stray_end 0 (lex bs) = true.
Proof. exact lex_nse. Qed.
Theorem LEX_no_stray_end_from : forall bs x,
  no_stray_end_strict (List.length (opened x)) (lex_from x bs) = true.
Proof. exact lex_from_nse. Qed.

(* C08 for byte strings: an initial parse fails exactly when the reader's stream has a fault (the
   first one is the error returned) or contains no element *)
Theorem C08_bytes_parse_err_iff : forall bs x,
  into_struct_bytes bs = Err x <->
  first_fault (lex bs) = Some x
  \/ (first_fault (lex bs) = None /\ has_element (lex bs) = false /\ x = NoRootError).
Proof. exact bytes_parse_err_iff. Qed.
Theorem C08_bytes_extend_err_iff : forall root bs x,
  extend_struct_bytes root bs = Err x <-> first_fault (lex bs) = Some x.
Proof. exact bytes_extend_err_iff. Qed.
Theorem C08_bytes_ok : forall bs,
  first_fault (lex bs) = None -> has_element (lex bs) = true ->
  exists e, into_struct_bytes bs = Ok e.
Proof. exact bytes_parse_ok. Qed.

(* C07 for byte strings: the lexer is a fold over the bytes (total by construction) and the
   parser never runs out of fuel on its stream *)
Theorem C07_bytes_parse_total : forall bs, into_struct_bytes bs <> OutOfFuel.
Proof. exact bytes_parse_total. Qed.
Theorem C07_bytes_extend_total : forall root bs, extend_struct_bytes root bs <> OutOfFuel.
Proof. exact bytes_extend_total. Qed.
Theorem C07_bytes_run_ok_or_err : forall docs,
  (exists e, run_bytes docs = Ok e) \/ (exists x, run_bytes docs = Err x).
Proof. exact bytes_run_ok_or_err. Qed.

(* the lexer is compositional: what it delivers for a ++ b is what it delivers for a followed by
   what it delivers for b from the state a left it in *)
Theorem LEX_app : forall a b x,
  lex_from x (a ++ b) = snd (lex_run x a) ++ lex_from (fst (lex_run x a)) b.
Proof. exact lex_from_app. Qed.

(* C11 at byte level: a comment without `>` inside, a processing instruction without `>` inside,
   written where character data may stand, is one EMisc event and leaves the lexer where it was
   (only the offset moves on) *)
Theorem C11_bytes_comment : forall c p op,
  forallb (fun b => negb (b =? B_gt)) c = true ->
  lex_run (st (MText []) p op) (lit "<!--" ++ c ++ lit "-->") =
  (st (MText []) (p + N.of_nat (List.length c) + 7) op, [EMisc]).
Proof. exact run_comment. Qed.
Theorem C11_bytes_comment_insert : forall a c b,
  forallb (fun b => negb (b =? B_gt)) c = true ->
  md (fst (lex_run lex_init a)) = MText [] ->
  exists x', md x' = MText [] /\ opened x' = opened (fst (lex_run lex_init a)) /\
  lex_from lex_init (a ++ (lit "<!--" ++ c ++ lit "-->") ++ b) =
  snd (lex_run lex_init a) ++ EMisc :: lex_from x' b.
Proof. exact comment_insert. Qed.

(* ... and end to end.  (1) Events of kind EMisc (comments, processing instructions, the XML
   declaration, a DOCTYPE) can be dropped from ANY stream, wherever they stand: *)
Theorem C11_events_drop_misc : forall evs, into_struct_ev (drop_misc evs) = into_struct_ev evs.
Proof. exact drop_misc_into_struct_ev. Qed.
Theorem C11_events_drop_misc_extend : forall root evs,
  extend_struct_ev root (drop_misc evs) = extend_struct_ev root evs.
Proof. exact drop_misc_extend_struct_ev. Qed.
Theorem C11_events_drop_misc_build : forall f evs root known,
  (List.length evs < f)%nat ->
  build_struct f (drop_misc evs) root known = map_rest drop_misc (build_struct f evs root known).
Proof. exact drop_misc_build_struct. Qed.
Theorem C11_events_misc_anywhere : forall a b,
  into_struct_ev (a ++ EMisc :: b) = into_struct_ev (a ++ b).
Proof. exact misc_anywhere_into_struct_ev. Qed.
(* (2) the lexer does not depend on the offset except in the position of an error: *)
Theorem LEX_offset_only_in_errors : forall bs x y,
  md x = md y /\ opened x = opened y ->
  map erase_pos (lex_from x bs) = map erase_pos (lex_from y bs).
Proof. exact lex_from_pos. Qed.
(* (3) so for every prefix a that ends where character data may stand, every comment body c
   without `>` and every suffix b such that a ++ b has no reader error, inserting the comment
   changes neither the parse nor an extension: *)
Theorem C11_bytes_comment_irrelevant : forall a c b,
  forallb (fun b => negb (b =? B_gt)) c = true ->
  md (fst (lex_run lex_init a)) = MText [] ->
  no_reader_error (lex_from lex_init (a ++ b)) = true ->
  into_struct_ev (lex_from lex_init (a ++ (lit "<!--" ++ c ++ lit "-->") ++ b))
  = into_struct_ev (lex_from lex_init (a ++ b)).
Proof. exact bytes_comment_irrelevant. Qed.
Theorem C11_bytes_comment_irrelevant_extend : forall root a c b,
  forallb (fun b => negb (b =? B_gt)) c = true ->
  md (fst (lex_run lex_init a)) = MText [] ->
  no_reader_error (lex_from lex_init (a ++ b)) = true ->
  extend_struct_ev root (lex_from lex_init (a ++ (lit "<!--" ++ c ++ lit "-->") ++ b))
  = extend_struct_ev root (lex_from lex_init (a ++ b)).
Proof. exact bytes_comment_irrelevant_extend. Qed.
Example C11_bytes_example_comment_place :
  md (fst (lex_run lex_init (s "<a x='1'><b/>"))) = MText []
  /\ no_reader_error (lex_from lex_init (s "<a x='1'><b/>" ++ s "t<b/></a>")) = true
  /\ exists e, into_struct_ev (lex_from lex_init (s "<a x='1'><b/>" ++ s "<!-- note -->" ++ s "t<b/></a>")) = Ok e
               /\ into_struct_ev (lex_from lex_init (s "<a x='1'><b/>" ++ s "t<b/></a>")) = Ok e.
Proof. exact example_comment_place. Qed.

(* The same for ANY piece of bytes that the lexer, where character data may stand, turns into one
   EMisc event and that leaves it where it was (`misc_piece`), with the instances the property names:
   comments, processing instructions and the XML declaration (`<?` c `?>`, c without `>`), a DOCTYPE
   without internal subset (`<!DOCTYPE ` c `>`, c without `<` `>` and not blank) *)
Theorem C11_bytes_misc_irrelevant : forall a m b,
  misc_piece m ->
  md (fst (lex_run lex_init a)) = MText [] ->
  no_reader_error (lex_from lex_init (a ++ b)) = true ->
  into_struct_ev (lex_from lex_init (a ++ m ++ b)) = into_struct_ev (lex_from lex_init (a ++ b)).
Proof. exact bytes_misc_irrelevant. Qed.
Theorem C11_bytes_misc_irrelevant_extend : forall root a m b,
  misc_piece m ->
  md (fst (lex_run lex_init a)) = MText [] ->
  no_reader_error (lex_from lex_init (a ++ b)) = true ->
  extend_struct_ev root (lex_from lex_init (a ++ m ++ b)) = extend_struct_ev root (lex_from lex_init (a ++ b)).
Proof. exact bytes_misc_irrelevant_extend. Qed.
Theorem C11_bytes_piece_comment : forall c,
  forallb (fun b => negb (b =? B_gt)) c = true -> misc_piece (lit "<!--" ++ c ++ lit "-->").
Proof. exact misc_piece_comment. Qed.
Theorem C11_bytes_piece_pi : forall c,
  forallb (fun b => negb (b =? B_gt)) c = true -> misc_piece (lit "<?" ++ c ++ lit "?>").
Proof. exact misc_piece_pi. Qed.
Theorem C11_bytes_piece_doctype : forall c,
  no_angle c = true -> drop_ws c <> [] -> misc_piece (B_lt :: doctype_head ++ 32 :: c ++ [B_gt]).
Proof. exact misc_piece_doctype. Qed.
Example C11_bytes_example_pieces :
  misc_piece (s "<?xml version='1.0' encoding='UTF-8'?>") /\ misc_piece (s "<!-- a - b -- c -->")
  /\ misc_piece (s "<?php echo 1; ?>").
Proof. exact example_misc_pieces. Qed.
Example C11_bytes_example_doctype :
  misc_piece (s "<!DOCTYPE html PUBLIC ""-//W3C//DTD XHTML 1.0//EN"" ""x.dtd"">").
Proof. exact example_doctype_piece. Qed.

(* character data written as text or as a CDATA section.  Event level, any stream: *)
Theorem C11_events_text_cdata_anywhere : forall a r b,
  into_struct_ev (a ++ ECData r :: b) = into_struct_ev (a ++ EText r :: b).
Proof. exact text_cdata_anywhere. Qed.
Theorem C11_events_text_cdata_anywhere_extend : forall root a r b,
  extend_struct_ev root (a ++ ECData r :: b) = extend_struct_ev root (a ++ EText r :: b).
Proof. exact text_cdata_anywhere_extend. Qed.
(* bytes: a non-empty text t without `<` `>` up to the next markup, against `<![CDATA[` t `]]>` *)
Theorem C11_bytes_text : forall t p op,
  no_lt_gt t = true -> t <> [] ->
  exists p', lex_run (st (MText []) p op) (t ++ [B_lt]) = (st MLt p' op, [EText (dec_unit t)]).
Proof. exact run_text. Qed.
Theorem C11_bytes_cdata : forall t p op,
  no_lt_gt t = true ->
  exists p', lex_run (st (MText []) p op) (cdata_open ++ t ++ cdata_close ++ [B_lt])
             = (st MLt p' op, [ECData (dec_unit t)]).
Proof. exact run_cdata. Qed.
Theorem C11_bytes_text_vs_cdata : forall a t b,
  no_lt_gt t = true -> t <> [] ->
  md (fst (lex_run lex_init a)) = MText [] ->
  no_reader_error (lex_from lex_init (a ++ (t ++ [B_lt]) ++ b)) = true ->
  into_struct_ev (lex_from lex_init (a ++ (cdata_open ++ t ++ cdata_close ++ [B_lt]) ++ b))
  = into_struct_ev (lex_from lex_init (a ++ (t ++ [B_lt]) ++ b)).
Proof. exact bytes_text_vs_cdata. Qed.
Example C11_bytes_example_text_cdata :
  md (fst (lex_run lex_init (s "<a x='1'><b>"))) = MText []
  /\ no_reader_error (lex_from lex_init (s "<a x='1'><b>" ++ (s "some text" ++ [B_lt]) ++ s "/b></a>")) = true
  /\ exists e, into_struct_ev (lex_from lex_init (s "<a x='1'><b><![CDATA[some text]]></b></a>")) = Ok e
               /\ into_struct_ev (lex_from lex_init (s "<a x='1'><b>some text</b></a>")) = Ok e.
Proof. exact example_text_cdata. Qed.

(* asking the reader to expand empty elements: that reader is `lex_expanded` = `expand` of the
   default stream (compared with the real reader configured so on every run), and for EVERY byte
   string the parse and every extension of a duplicate-free tree are the same *)
Theorem C11_bytes_expand_empty : forall bs, into_struct_ev (lex_expanded bs) = into_struct_ev (lex bs).
Proof. exact bytes_expand_empty. Qed.
Theorem C11_bytes_expand_empty_extend : forall root bs,
  Uniq root -> extend_struct_ev root (lex_expanded bs) = extend_struct_ev root (lex bs).
Proof. exact bytes_expand_empty_extend. Qed.
Example C11_bytes_example_expanded :
  lex_expanded (s "<a><b x='1'/>t</a>")
  = [EStart (ROk (s "a")) []; EStart (ROk (s "b")) [AOk (ROk (s "x"))]; EEnd; EText (ROk tt); EEnd].
Proof. exact example_expanded. Qed.

(* the end-to-end statements above are written with `lex_from lex_init`: that is `lex` on every
   input that does not begin with a byte-order mark, e.g. whose first byte is not 0xEF *)
Theorem LEX_no_bom : forall bs, fst (strip_bom bs) = bs -> lex bs = lex_from lex_init bs.
Proof. exact lex_no_bom. Qed.
Theorem LEX_no_bom_first_byte : forall b r, b <> 239 -> fst (strip_bom (b :: r)) = b :: r.
Proof. exact strip_bom_markup. Qed.

(* C08: a syntax error is returned with the reader's error kind and byte position, and nothing
   before it in the stream is a fault - for every byte string *)
Theorem C08_bytes_position : forall bs p id,
  first_fault (lex bs) = Some (QuickXmlError p id) ->
  into_struct_bytes bs = Err (QuickXmlError p id)
  /\ exists pre post, lex bs = pre ++ EErr p id :: post /\ first_fault pre = None.
Proof. exact bytes_position. Qed.
(* ... and that position lies inside the input *)
Theorem C08_bytes_error_position_in_input : forall bs p id,
  In (EErr p id) (lex bs) -> p <= N.of_nat (List.length bs).
Proof. exact lex_error_position. Qed.


(* `<n/>` against `<n></n>` for a plain name n (non-empty; no blank, quote, `>`, `/`; not starting
   with `!` or `?`), written where character data may stand: the lexer delivers EEmpty against
   EStart, EEnd with the same decoded name and no attributes and ends in the same state ... *)
Theorem C11_bytes_empty_tag : forall n p op,
  plain_name n = true ->
  lex_run (st (MText []) p op) (empty_tag n) =
  (st (MText []) (p + N.of_nat (List.length n) + 3) op, [EEmpty (dec_str n) []]).
Proof. exact run_empty_tag. Qed.
Theorem C11_bytes_pair_tag : forall n p op,
  plain_name n = true ->
  lex_run (st (MText []) p op) (pair_tag n) =
  (st (MText []) (p + 2 * N.of_nat (List.length n) + 5) op, [EStart (dec_str n) []; EEnd]).
Proof. exact run_pair_tag. Qed.
(* ... and end to end: for every prefix a that ends where character data may stand and every suffix
   b such that the document with `<n/>` has no reader error, the two spellings give the same parse
   and the same extension of any duplicate-free tree *)
Theorem C11_bytes_empty_vs_pair : forall a n b,
  plain_name n = true ->
  md (fst (lex_run lex_init a)) = MText [] ->
  no_reader_error (lex_from lex_init (a ++ empty_tag n ++ b)) = true ->
  into_struct_ev (lex_from lex_init (a ++ pair_tag n ++ b))
  = into_struct_ev (lex_from lex_init (a ++ empty_tag n ++ b)).
Proof. exact bytes_empty_vs_pair. Qed.
Theorem C11_bytes_empty_vs_pair_extend : forall root a n b,
  Uniq root ->
  plain_name n = true ->
  md (fst (lex_run lex_init a)) = MText [] ->
  no_reader_error (lex_from lex_init (a ++ empty_tag n ++ b)) = true ->
  extend_struct_ev root (lex_from lex_init (a ++ pair_tag n ++ b))
  = extend_struct_ev root (lex_from lex_init (a ++ empty_tag n ++ b)).
Proof. exact bytes_empty_vs_pair_extend. Qed.
Example C11_bytes_example_empty_place :
  plain_name (s "ns:b-1") = true
  /\ md (fst (lex_run lex_init (s "<a x='1'>"))) = MText []
  /\ no_reader_error (lex_from lex_init (s "<a x='1'>" ++ empty_tag (s "ns:b-1") ++ s "</a>")) = true
  /\ exists e, into_struct_ev (lex_from lex_init (s "<a x='1'>" ++ pair_tag (s "ns:b-1") ++ s "</a>")) = Ok e.
Proof. exact example_empty_place. Qed.
Example LEX_example_empty_vs_pair :
  lex (s "<a><b/></a>") = [EStart (ROk (s "a")) []; EEmpty (ROk (s "b")) []; EEnd]
  /\ lex (s "<a><b></b></a>") = [EStart (ROk (s "a")) []; EStart (ROk (s "b")) []; EEnd; EEnd]
  /\ into_struct_bytes (s "<a><b/></a>") = into_struct_bytes (s "<a><b></b></a>").
Proof. exact example_empty_vs_pair. Qed.

(* non-vacuity and the shapes of the errors *)
Example LEX_example_stream :
  lex (s "<?xml version='1.0'?><!DOCTYPE a><a x='1' y=""2""><!--c-->t<![CDATA[d]]><b/></a>")
  = [EMisc; EMisc; EStart (ROk (s "a")) [AOk (ROk (s "x")); AOk (ROk (s "y"))]; EMisc; EText (ROk tt);
     ECData (ROk tt); EEmpty (ROk (s "b")) []; EEnd].
Proof. exact example_stream. Qed.
Example LEX_example_errors :
  lex (s "<a></b>") = [EStart (ROk (s "a")) []; EErr 7 E_MismatchedEnd]
  /\ lex (s "</a>") = [EErr 4 E_UnmatchedEnd]
  /\ lex (s "<a x=1>") = [EStart (ROk (s "a")) [AErr A_UnquotedValue]]
  /\ lex (s "<a x='1' x='2'/>") = [EEmpty (ROk (s "a")) [AOk (ROk (s "x")); AErr A_Duplicated]]
  /\ lex (s "<a") = [EErr 2 E_UnclosedTag]
  /\ lex (s "<!x>") = [EErr 1 E_InvalidBang]
  /\ lex [60; 255; 62] = [EStart (RBad 0) []].
Proof. exact example_errors. Qed.
Example C08_bytes_example :
  (exists x, into_struct_bytes (s "<a></b>") = Err x)
  /\ into_struct_bytes (s "<!--only a comment-->") = Err NoRootError
  /\ (exists e, into_struct_bytes (s "<?xml version='1.0'?><a/>") = Ok e).
Proof. exact bytes_example. Qed.

Print Assumptions LEX_no_stray_end_strict.
Print Assumptions LEX_no_stray_end.
Print Assumptions LEX_no_stray_end_from.
Print Assumptions C08_bytes_parse_err_iff.
Print Assumptions C08_bytes_extend_err_iff.
Print Assumptions C08_bytes_ok.
Print Assumptions C07_bytes_parse_total.
Print Assumptions C07_bytes_extend_total.
Print Assumptions C07_bytes_run_ok_or_err.
Print Assumptions LEX_app.
Print Assumptions C11_bytes_comment.
Print Assumptions C11_bytes_comment_insert.
Print Assumptions LEX_example_empty_vs_pair.
Print Assumptions LEX_example_stream.
Print Assumptions LEX_example_errors.
Print Assumptions C08_bytes_example.
Print Assumptions C11_events_drop_misc.
Print Assumptions C11_events_drop_misc_extend.
Print Assumptions C11_events_drop_misc_build.
Print Assumptions C11_events_misc_anywhere.
Print Assumptions LEX_offset_only_in_errors.
Print Assumptions C11_bytes_comment_irrelevant.
Print Assumptions C11_bytes_comment_irrelevant_extend.
Print Assumptions C11_bytes_example_comment_place.
Print Assumptions C11_bytes_empty_tag.
Print Assumptions C11_bytes_pair_tag.
Print Assumptions C11_bytes_empty_vs_pair.
Print Assumptions C11_bytes_empty_vs_pair_extend.
Print Assumptions C11_bytes_example_empty_place.
Print Assumptions C11_bytes_misc_irrelevant.
Print Assumptions C11_bytes_misc_irrelevant_extend.
Print Assumptions C11_bytes_piece_comment.
Print Assumptions C11_bytes_piece_pi.
Print Assumptions C11_bytes_piece_doctype.
Print Assumptions C11_bytes_example_pieces.
Print Assumptions C11_bytes_example_doctype.
Print Assumptions C08_bytes_position.
Print Assumptions C11_events_text_cdata_anywhere.
Print Assumptions C11_events_text_cdata_anywhere_extend.
Print Assumptions C11_bytes_text.
Print Assumptions C11_bytes_cdata.
Print Assumptions C11_bytes_text_vs_cdata.
Print Assumptions C11_bytes_example_text_cdata.
Print Assumptions LEX_no_bom.
Print Assumptions LEX_no_bom_first_byte.
Print Assumptions C11_bytes_expand_empty.
Print Assumptions C11_bytes_expand_empty_extend.
Print Assumptions C11_bytes_example_expanded.
Print Assumptions C08_bytes_error_position_in_input.
