(* C01 — the oracle `admits_b` under exactly the hypotheses with which bin/check evaluates it
   (Corr/CoreCorr.v in_hyp_admits: docs_ok, duplicate-free attributes, clash_free_tree, names_plain_b,
   quick-xml preset): it is true of the model's rendering for every source document.
   Only statements; every proof is `exact <lemma of Proofs/HypBridge.v>`. *)
From Coq Require Import String.
From XSG.Model Require Import Strings Necessity Element Parser Dom Spec Render.
From XSG.Proofs Require Import ElementProofs ReprDefs AdmitProofs HypBridge.
From XSG.Corr Require Import Common Oracles CoreCorr.
Local Open Scope list_scope.

Theorem C01_oracle_hypothesis_same : forall e, CoreCorr.names_plain_b e = AdmitProofs.names_plain e.
Proof. exact names_plain_same. Qed.

Theorem C01_oracle_admits : forall docs m e,
  docs <> [] -> Forall (Forall wf_node) docs -> Forall (fun p => elem_names p = [m]) docs ->
  run_dom docs = Some e ->
  clash_free_tree e = true -> CoreCorr.names_plain_b e = true ->
  forall d, In d docs -> admits_b quick_xml_de (map erase (render_abs quick_xml_de e)) d = true.
Proof. exact oracle_admits. Qed.

Print Assumptions C01_oracle_hypothesis_same.
Print Assumptions C01_oracle_admits.
