(* The library end to end, at source level.  `library_src mk fuel docs o` (Proofs/LibraryProofs.v) is
   nothing but terms translated from the current source: `into_struct` / `extend_struct`
   (Generated/EntryRs.v) around `build_struct` / `parse_tag` (Generated/LoopRs.v) for the first and
   every further document, then `to_serde_struct` (Generated/RenderRs.v) on the result.  The
   theorems below state the properties for THIS composition; each is the model-level theorem of the
   property transported through C08rs.v (parser) and C09rs.v (renderer).  `mk` assigns a kind
   (comment, declaration, PI, DOCTYPE) to each ignorable event; `fuel` bounds the renderer's
   recursion (None = out of fuel, excluded by `esize e <= fuel`).
   Only statements; proofs are `exact <lemma of Proofs/LibraryProofs.v>`. *)
From XSG.Model Require Import Strings Chars Convert Necessity Element Parser Dom Spec Render RustRender RustLoop Reparse.
From XSG.Generated Require Import LoopRs EntryRs RenderRs.
From XSG.Proofs Require Import ElementProofs SkelProofs SpecProofs ReprDefs ParserFaults UnionProofs AdmitProofs
  ConvertProofs WfProofs NamesRsProofs RenderRsProofs ReparseProofs InferProofs EventLevel LoopRsProofs LibraryProofs LibraryOracles.
From XSG.Corr Require Import Common Oracles.
From Coq Require Import String List Permutation.
Import ListNotations.
Open Scope list_scope.

(* the composition computes the model's rendering of the model's tree *)
Theorem LIB_source_is_model : forall mk fuel docs o e,
  run_evs docs = Ok e -> esize e <= fuel ->
  library_src mk fuel docs o = Some (to_serde_struct o e).
Proof. exact library_src_model. Qed.

(* C06 / C08: a failed parse or extension gives nothing, never a rendering of a partial tree *)
Theorem LIB_source_fails : forall mk fuel docs o x,
  run_evs docs = Err x -> library_src mk fuel docs o = None.
Proof. exact library_src_fails. Qed.

(* C01: the structs the source renders (parsed back from its bytes) admit every source document *)
Theorem LIB_C01_admits : forall mk docs m e,
  docs <> [] -> Forall (Forall wf_node) docs -> Forall (fun p => elem_names p = [m]) docs ->
  run_src mk (map events_of_forest docs) = Ok e ->
  clash_free_tree e = true -> names_plain e = true -> tree_names_ok e = true ->
  exists bytes structs,
    library_src mk (esize e) (map events_of_forest docs) quick_xml_de = Some bytes
    /\ reparse bytes = Some structs
    /\ forall d, In d docs -> admits_b quick_xml_de (map to_ps structs) d = true.
Proof. exact library_src_admits. Qed.

(* C04 / C09 / C10 / C14 / C16: the bytes parse back to exactly `render_abs o e`, the object the
   theorems of those properties are stated about *)
Theorem LIB_reparse : forall mk docs o e,
  run_src mk docs = Ok e -> tree_names_ok e = true -> options_printable o = true ->
  exists bytes, library_src mk (esize e) docs o = Some bytes
                /\ bytes = to_serde_struct o e
                /\ reparse bytes = Some (map erase' (render_abs o e)).
Proof. exact library_src_reparse. Qed.

(* the oracles bin/check evaluates on the implementation's output hold of the source's output:
   parsed back from the bytes, the structs reflect the tree field by field (C16 / C03 reading of a
   rendering), carry the derive line (C10), are named as C14 says, and - for option strings that can
   stand in a Rust string literal - are well-formed with unique legal names (C04) *)
Theorem LIB_oracles : forall mk docs o e,
  run_src mk docs = Ok e -> tree_names_ok e = true -> options_printable o = true ->
  exists bytes structs,
    library_src mk (esize e) docs o = Some bytes /\ reparse bytes = Some structs
    /\ reflects_b o e (map to_ps structs) = true
    /\ derive_b o (map to_ps structs) = true
    /\ names_b o e (map to_ps structs) = true
    /\ (literal_ok (attribute_prefix o) = true -> literal_ok (text_identifier o) = true ->
        wf_b (map to_ps structs) = true).
Proof. exact library_src_oracles. Qed.

(* C16 for parsed trees: whatever the source's parser returns has hereditarily unique child and
   attribute names *)
Theorem LIB_C16_parsed_Uniq : forall mk docs e, run_src mk docs = Ok e -> Uniq e.
Proof. exact run_src_Uniq. Qed.

(* C09, first appearance in the documents, for the tree the source's parser returns *)
Theorem LIB_C09_first_appearance : forall mk docs e,
  docs_ok docs = true -> Forall (Forall wf_node) docs ->
  run_src mk (map events_of_forest docs) = Ok e ->
  forall p x, node_at e p = Some x ->
    map snd (eattrs (snd x)) = dedup (flat_map oattrs (occs p (doc_roots docs)))
    /\ map cname (isort by_pos (echildren (snd x))) = dedup (flat_map okidnames (occs p (doc_roots docs))).
Proof. exact library_src_first_appearance. Qed.

(* C03: the tree the source infers is the one the path-indexed specification determines *)
Theorem LIB_C03_exact : forall mk docs,
  docs_ok docs = true -> Forall (Forall wf_node) docs ->
  exists e, run_src mk (map events_of_forest docs) = Ok e /\ infer docs = Some (sort_tree e).
Proof. exact library_src_exact. Qed.

(* C06: the order of the documents is irrelevant up to same_schema *)
Theorem LIB_C06_order : forall mk docs docs' m,
  docs <> [] -> Forall (Forall wf_node) docs -> Forall (fun p => elem_names p = [m]) docs ->
  Permutation docs docs' ->
  exists e e', run_src mk (map events_of_forest docs) = Ok e
               /\ run_src mk (map events_of_forest docs') = Ok e' /\ same_schema e e'.
Proof. exact library_src_order. Qed.

(* C11: structure-equal documents give the same bytes, for every option value and whatever kinds
   the ignorable events have *)
Theorem LIB_C11_structure_only : forall mk mk' fuel docs docs' o,
  Forall2 same_structure docs docs' ->
  library_src mk fuel (map events_of_forest docs) o = library_src mk' fuel (map events_of_forest docs') o.
Proof. exact library_src_structure_only. Qed.

(* C05: a function of the documents and the options only *)
Theorem LIB_C05_deterministic : forall mk mk' fuel docs o,
  library_src mk fuel docs o = library_src mk' fuel docs o.
Proof. exact library_src_deterministic. Qed.

(* C07: parsing returns Ok or Err (never out of fuel), and every Ok result renders *)
Theorem LIB_C07_total : forall mk docs o,
  (exists x, run_src mk docs = Err x /\ library_src mk 0 docs o = None)
  \/ (exists e, run_src mk docs = Ok e
                /\ forall fuel, esize e <= fuel -> library_src mk fuel docs o = Some (to_serde_struct o e)).
Proof. exact library_src_total. Qed.

Example LIB_example :
  let mk := fun n : nat => match n with 0%nat => KComment | 1%nat => KPI | _ => KDocType end in
  let d1 := [NElem (s "a") false [s "k"] [NElem (s "b") false [] [NText]; NElem (s "b") true [] []]] in
  let d2 := [NMisc; NElem (s "a") false [] [NElem (s "c") true [s "x"] []]] in
  exists e bytes,
    run_src mk (map events_of_forest [d1; d2]) = Ok e
    /\ library_src mk (esize e) (map events_of_forest [d1; d2]) quick_xml_de = Some bytes
    /\ reparse bytes = Some (map erase' (render_abs quick_xml_de e))
    /\ List.length (render_abs quick_xml_de e) = 2%nat
    /\ forall d, In d [d1; d2] -> admits_b quick_xml_de (map erase (render_abs quick_xml_de e)) d = true.
Proof. exact library_example. Qed.

Print Assumptions LIB_source_is_model.
Print Assumptions LIB_source_fails.
Print Assumptions LIB_C01_admits.
Print Assumptions LIB_reparse.
Print Assumptions LIB_oracles.
Print Assumptions LIB_C16_parsed_Uniq.
Print Assumptions LIB_C09_first_appearance.
Print Assumptions LIB_C03_exact.
Print Assumptions LIB_C06_order.
Print Assumptions LIB_C11_structure_only.
Print Assumptions LIB_C05_deterministic.
Print Assumptions LIB_C07_total.
Print Assumptions LIB_example.
