(* C13 — the structs rendered with the serde-xml-rs preset deserialize their source documents.
   "For every sequence of namespace-free, data-oriented documents (no prefixed names or xmlns
    attributes, attribute names of an element distinct from its child names, repeated children
    adjacent, no element mixing text with children), the source rendered with the serde-xml-rs
    preset compiles unchanged and serde_xml_rs::from_str into the first rendered struct succeeds
    for each source document.  The deserialized value holds every attribute value and every text
    content of the document."
   "Compiles unchanged" is C04 plus the compile batches of bin/check.  This file is the
   deserialization half, on the model of serde-xml-rs 0.6 in Model/Deser.v (`de_doc sx_flavour`:
   attribute keys = local names in the same key space as children, character data under
   `$value`, repeated children must be adjacent; a model of external code, validated on every run
   of the checks against the real deserializer).
   * hypotheses: those of C02 (documents non-empty, `wf_vnode`, common root name,
     `clash_free_tree e`, `names_plain e`, `data_oriented` = beside a child element only blank
     character data; the known class K3 of C02 does not concern serde-xml-rs, which trims CDATA
     too: C13_data_oriented_sx) plus, on the inferred tree,
     `attrs_plain e` (no attribute name contains '@' or '$'; true of every XML name),
     `namespace_free e` (no ':' in an element or attribute name, no attribute `xmlns`),
     `attrs_vs_children_names e` (at every node the attribute names are disjoint from the child
     names), and on the documents `adjacent_doc` (the occurrences of each child key adjacent).
     Needed: C13_needs_adjacent, C13_needs_attrs_vs_children, C13_needs_attrs_plain.
   * C13_accepts / C13_attrs_held / C13_string_text_held: accepted (deny = false); every
     attribute value is among the leaves of the value; so is the character data of every element
     rendered as `String` (`StringTypedAt`: an element below the root at a text-only tree node).
   * the `_local` versions: `namespace_free` is not needed on the model when the attribute /
     child disjointness is stated on local names (`attrs_vs_children`), which is what both the
     renderer and the model of the deserializer bind (C13_namespace_free_local relates the two).
   * THE KNOWN FINDING K1 (the last sentence of the property fails for the text of struct-typed
     elements): the preset binds the text field to `$text` (pinned by the crate's own test
     `to_serde_struct_with_text_for_serde_xml_rs`), serde-xml-rs delivers character data under
     `$value`.  C13_text_key_mismatch; C13_field_no_value (a field whose bound name is no
     attribute key, no child key and not the text key receives no value); C13_text_field_none
     (so the text field of any struct-typed element comes out as None); C13_root_text_dropped
     (for the root, in every source document); C13_known_text_dropped (the witness
     <a b="c">d</a>); C13_known_deny_rejected (with deny_unknown_fields the witness is even
     rejected).  The contrast: C13_would_hold_with_value / C13_value_accepts_holds — with the
     text identifier `$value` every value of the document is held, deny or not.
   Only statements; every proof is `exact <lemma of Proofs/DeserProofs.v>`. *)
From Coq Require Import String.
From XSG.Model Require Import Strings Convert Necessity Element Dom Spec Render Deser.
From XSG.Proofs Require Import ElementProofs ReprDefs RenderProofs AdmitProofs DeserProofs.
From XSG.Corr Require Import Common Oracles.
Local Open Scope list_scope.

(* ---------- the additional hypotheses, read ---------- *)
(* `data_oriented` (C02_data_oriented_reading) gives what the proofs use, `no_text_beside false`
   (C02_no_text_beside_reading): blank pieces vanish when serde-xml-rs trims the joined run *)
Theorem C13_data_oriented_sx : forall v, data_oriented v -> no_text_beside false v.
Proof. exact data_oriented_sx. Qed.

Theorem C13_adjacent_doc_reading : forall n ef attrs ks,
  adjacent_doc (VElem n ef attrs ks) <->
  (forall b, In b (flat_map vkey (eff ef ks)) -> adjacent b (flat_map vkey (eff ef ks)) = true)
  /\ Forall adjacent_doc (eff ef ks).
Proof. exact adjacent_doc_elem. Qed.

(* a hereditary boolean predicate on the tree: here and at every child *)
Theorem C13_eforallb_reading : forall p e, eforallb p e = true ->
  p e = true /\ Forall (fun c => eforallb p (snd c) = true) (echildren e).
Proof. exact eforallb_inv. Qed.

Theorem C13_hypotheses_reading :
  (forall e, attrs_plain e <->
     eforallb (fun x => forallb (fun a => plain_b (snd a)) (eattrs x)) e = true)
  /\ (forall e, namespace_free e <->
        eforallb (fun x => forallb (fun a => nocolon (snd a) && negb (str_eqb (snd a) (s "xmlns")))
                                   (eattrs x)
                           && forallb (fun c => nocolon (cname c)) (echildren x)) e = true)
  /\ (forall e, attrs_vs_children_names e <->
        eforallb (fun x => forallb (fun a => negb (mem (snd a) (child_names (echildren x))))
                                   (eattrs x)) e = true)
  /\ (forall e, attrs_vs_children e <->
        eforallb (fun x => forallb (fun a => negb (mem (attr_local (snd a))
                                                       (map (fun c => remove_namespace (cname c))
                                                            (echildren x))))
                                   (eattrs x)) e = true).
Proof. exact sx_hypotheses_reading. Qed.

Theorem C13_namespace_free_local : forall e,
  namespace_free e -> attrs_vs_children_names e -> attrs_vs_children e.
Proof. exact namespace_free_local. Qed.

(* ---------- accepted; attribute values and String-typed text held ---------- *)
Theorem C13_accepts : forall vdocs m e,
  vdocs <> [] -> Forall (Forall wf_vnode) vdocs ->
  Forall (fun p => elem_names (map erase_v p) = [m]) vdocs ->
  run_dom (map (map erase_v) vdocs) = Some e ->
  clash_free_tree e = true -> names_plain e = true ->
  Forall (Forall data_oriented) vdocs ->
  attrs_plain e -> namespace_free e -> attrs_vs_children_names e ->
  Forall (Forall adjacent_doc) vdocs ->
  forall vd, In vd vdocs ->
    exists v, de_doc sx_flavour (render_abs serde_xml_rs e) false vd = Some v.
Proof. exact sx_accepts_nsfree. Qed.

(* `attr_values`: every attribute value of the document, hereditarily *)
Theorem C13_attr_values_reading : forall n ef attrs kids0,
  attr_values (VElem n ef attrs kids0) = map snd attrs ++ flat_map attr_values (eff ef kids0).
Proof. exact attr_values_elem. Qed.

Theorem C13_attrs_held : forall vdocs m e,
  vdocs <> [] -> Forall (Forall wf_vnode) vdocs ->
  Forall (fun p => elem_names (map erase_v p) = [m]) vdocs ->
  run_dom (map (map erase_v) vdocs) = Some e ->
  clash_free_tree e = true -> names_plain e = true ->
  Forall (Forall data_oriented) vdocs ->
  attrs_plain e -> namespace_free e -> attrs_vs_children_names e ->
  Forall (Forall adjacent_doc) vdocs ->
  forall vd nd v, In vd vdocs -> vdoc_root vd = Some nd ->
    de_doc sx_flavour (render_abs serde_xml_rs e) false vd = Some v ->
    incl (attr_values nd) (leaves v).
Proof. exact sx_attrs_held_nsfree. Qed.

(* `StringTypedAt x v d`: d is an element below v whose tree node (below x) is text-only,
   i.e. the field it is deserialized into is typed String *)
Theorem C13_StringTypedAt_reading : forall x v d,
  StringTypedAt x v d <->
  exists n ef a ks m kef ka kk c,
    v = VElem n ef a ks /\ In (VElem m kef ka kk) (eff ef ks)
    /\ get_child (echildren x) m = Some c
    /\ ((contains_only_text (snd c) = true /\ d = VElem m kef ka kk)
        \/ StringTypedAt (snd c) (VElem m kef ka kk) d).
Proof. exact StringTypedAt_reading. Qed.

Theorem C13_string_text_held : forall vdocs m e,
  vdocs <> [] -> Forall (Forall wf_vnode) vdocs ->
  Forall (fun p => elem_names (map erase_v p) = [m]) vdocs ->
  run_dom (map (map erase_v) vdocs) = Some e ->
  clash_free_tree e = true -> names_plain e = true ->
  Forall (Forall data_oriented) vdocs ->
  attrs_plain e -> namespace_free e -> attrs_vs_children_names e ->
  Forall (Forall adjacent_doc) vdocs ->
  forall vd nd v dn def da dks,
    In vd vdocs -> vdoc_root vd = Some nd ->
    de_doc sx_flavour (render_abs serde_xml_rs e) false vd = Some v ->
    StringTypedAt e nd (VElem dn def da dks) ->
    incl (text_runs false (eff def dks)) (leaves v).
Proof. exact sx_string_text_held_nsfree. Qed.

(* ---------- the same without namespace-freeness, disjointness on local names ---------- *)
Theorem C13_accepts_local : forall vdocs m e,
  vdocs <> [] -> Forall (Forall wf_vnode) vdocs ->
  Forall (fun p => elem_names (map erase_v p) = [m]) vdocs ->
  run_dom (map (map erase_v) vdocs) = Some e ->
  clash_free_tree e = true -> names_plain e = true ->
  Forall (Forall data_oriented) vdocs ->
  attrs_plain e -> attrs_vs_children e -> Forall (Forall adjacent_doc) vdocs ->
  forall vd, In vd vdocs ->
    exists v, de_doc sx_flavour (render_abs serde_xml_rs e) false vd = Some v.
Proof. exact sx_accepts. Qed.

Theorem C13_attrs_held_local : forall vdocs m e,
  vdocs <> [] -> Forall (Forall wf_vnode) vdocs ->
  Forall (fun p => elem_names (map erase_v p) = [m]) vdocs ->
  run_dom (map (map erase_v) vdocs) = Some e ->
  clash_free_tree e = true -> names_plain e = true ->
  Forall (Forall data_oriented) vdocs ->
  attrs_plain e -> attrs_vs_children e -> Forall (Forall adjacent_doc) vdocs ->
  forall vd nd v, In vd vdocs -> vdoc_root vd = Some nd ->
    de_doc sx_flavour (render_abs serde_xml_rs e) false vd = Some v ->
    incl (attr_values nd) (leaves v).
Proof. exact sx_attrs_held. Qed.

Theorem C13_string_text_held_local : forall vdocs m e,
  vdocs <> [] -> Forall (Forall wf_vnode) vdocs ->
  Forall (fun p => elem_names (map erase_v p) = [m]) vdocs ->
  run_dom (map (map erase_v) vdocs) = Some e ->
  clash_free_tree e = true -> names_plain e = true ->
  Forall (Forall data_oriented) vdocs ->
  attrs_plain e -> attrs_vs_children e -> Forall (Forall adjacent_doc) vdocs ->
  forall vd nd v dn def da dks,
    In vd vdocs -> vdoc_root vd = Some nd ->
    de_doc sx_flavour (render_abs serde_xml_rs e) false vd = Some v ->
    StringTypedAt e nd (VElem dn def da dks) ->
    incl (text_runs false (eff def dks)) (leaves v).
Proof. exact sx_string_text_held. Qed.

(* tree level: any document whose root the tree admits; `held false false false e nd` (C02_held_reading)
   = the attribute values and the character data of the String-typed elements *)
Theorem C13_accepts_tree : forall e vd nd,
  clash_free_tree e = true -> names_plain e = true -> attrs_plain e -> attrs_vs_children e ->
  vdoc_root vd = Some nd -> TreeAdmits e (erase_v nd) -> wf_vnode nd -> data_oriented nd ->
  adjacent_doc nd ->
  exists v, de_doc sx_flavour (render_abs serde_xml_rs e) false vd = Some v
            /\ incl (held false false false e nd) (leaves v).
Proof. exact sx_accepts_tree. Qed.

Theorem C13_keys_ok : forall o x,
  attribute_prefix o = [] -> In 36%N (text_identifier o) ->
  names_plain x = true -> attrs_plain x -> attrs_vs_children x -> KeysOK sx_flavour o x.
Proof. exact keys_ok_sx. Qed.

(* ---------- the known finding K1 ---------- *)
Theorem C13_text_key_mismatch : text_identifier serde_xml_rs <> fl_text_key sx_flavour.
Proof. exact sx_text_key_mismatch. Qed.

(* `field_val`: the entry of one field in the value of an element — the deserializer, unfolded *)
Theorem C13_de_as_reading : forall fl ps deny n ef attrs kids0 sn,
  de_as fl ps deny (VElem n ef attrs kids0) (TyStruct sn) =
  match find_sd ps sn with
  | None => None
  | Some sd =>
      if unknown_ok fl deny attrs (eff ef kids0) sd then
        match all_some (map (field_val fl ps deny attrs (eff ef kids0)) (sd_fields sd)) with
        | Some fs => Some (FStruct fs)
        | None => None
        end
      else None
  end.
Proof. exact de_as_struct. Qed.

Theorem C13_field_no_value : forall fl ps deny attrs kids f,
  (forall a, In a attrs -> attr_key fl (fst a) <> fbound f) ->
  ~ In (fbound f) (flat_map vkey kids) ->
  fbound f <> fl_text_key fl ->
  field_val fl ps deny attrs kids f
  = match wrap_vals (f_wrap f) [] with Some x => Some (f_ident f, x) | None => None end.
Proof. exact field_no_value. Qed.

Theorem C13_text_field_none : forall ps deny x attrs kids f,
  node_keys_ok sx_flavour serde_xml_rs x ->
  (forall a, In a attrs -> exists t, In (t, fst a) (eattrs x)) ->
  (forall m, In m (vnames kids) -> exists c, In c (echildren x) /\ cname c = m) ->
  In f (text_fields serde_xml_rs (id_new x) x) ->
  field_val sx_flavour ps deny attrs kids f = Some (f_ident f, FNone).
Proof. exact sx_text_field_none. Qed.

Theorem C13_root_text_dropped : forall vdocs m e,
  vdocs <> [] -> Forall (Forall wf_vnode) vdocs ->
  Forall (fun p => elem_names (map erase_v p) = [m]) vdocs ->
  run_dom (map (map erase_v) vdocs) = Some e ->
  clash_free_tree e = true -> names_plain e = true ->
  attrs_plain e -> attrs_vs_children e ->
  forall vd v f, In vd vdocs ->
    de_doc sx_flavour (render_abs serde_xml_rs e) false vd = Some v ->
    In f (text_fields serde_xml_rs (id_new e) e) ->
    exists fs, v = FStruct fs /\ In (f_ident f, FNone) fs.
Proof. exact sx_root_text_dropped. Qed.

(* k1_doc = <a b="c">d</a> : the value, the document's values, the value's leaves, is `d` held? *)
Example C13_known_text_dropped :
  match run_dom (map (map erase_v) [k1_doc]) with
  | Some e =>
      let r := de_doc sx_flavour (render_abs serde_xml_rs e) false k1_doc in
      (r, flat_map (doc_values false) k1_doc, option_map leaves r,
       option_map (fun l => mem (s "d") l) (option_map leaves r))
  | None => (None, [], None, None)
  end = (Some (FStruct [(s "b", FStr (s "c")); (s "text", FNone)]),
         [s "c"; s "d"], Some [s "c"], Some false).
Proof. exact k1_text_dropped. Qed.

Example C13_known_deny_rejected :
  match run_dom (map (map erase_v) [k1_doc]) with
  | Some e => de_doc sx_flavour (render_abs serde_xml_rs e) true k1_doc
  | None => Some FNone
  end = None.
Proof. exact k1_deny_rejected. Qed.

(* the contrast: the preset with the text identifier `$value` *)
Theorem C13_value_options_reading :
  text_identifier serde_xml_rs_value = s "$value"
  /\ attribute_prefix serde_xml_rs_value = attribute_prefix serde_xml_rs
  /\ derive serde_xml_rs_value = derive serde_xml_rs /\ sort serde_xml_rs_value = sort serde_xml_rs.
Proof. exact serde_xml_rs_value_reading. Qed.

Example C13_would_hold_with_value :
  match run_dom (map (map erase_v) [k1_doc]) with
  | Some e => map (fun deny => de_doc sx_flavour (render_abs serde_xml_rs_value e) deny k1_doc) [false; true]
  | None => []
  end = [Some (FStruct [(s "b", FStr (s "c")); (s "text", FSome (FStr (s "d")))]);
         Some (FStruct [(s "b", FStr (s "c")); (s "text", FSome (FStr (s "d")))])].
Proof. exact k1_would_hold_with_value. Qed.

Theorem C13_value_accepts_holds : forall vdocs m e,
  vdocs <> [] -> Forall (Forall wf_vnode) vdocs ->
  Forall (fun p => elem_names (map erase_v p) = [m]) vdocs ->
  run_dom (map (map erase_v) vdocs) = Some e ->
  clash_free_tree e = true -> names_plain e = true ->
  Forall (Forall data_oriented) vdocs ->
  attrs_plain e -> attrs_vs_children e -> Forall (Forall adjacent_doc) vdocs ->
  forall deny vd, In vd vdocs ->
    exists v, de_doc sx_flavour (render_abs serde_xml_rs_value e) deny vd = Some v
              /\ incl (flat_map (doc_values false) vd) (leaves v).
Proof. exact sx_value_accepts_holds. Qed.

(* ---------- examples ---------- *)
(* vx_doc1 = <?..?><r id="1"> <a>  hello world </a> <b k="v"><c/></b><b k="w"/></r>
   sx_doc2 = <r id="2"><b k="x"> inner </b><b k="y"/><d><![CDATA[dd]]></d></r> *)
Example C13_example_hypotheses :
  sx_docs <> [] /\ Forall (Forall wf_vnode) sx_docs
  /\ Forall (fun p => elem_names (map erase_v p) = [s "r"]) sx_docs
  /\ Forall (Forall data_oriented) sx_docs /\ Forall (Forall adjacent_doc) sx_docs
  /\ exists e, run_dom (map (map erase_v) sx_docs) = Some e
               /\ clash_free_tree e = true /\ names_plain e = true
               /\ attrs_plain e /\ namespace_free e /\ attrs_vs_children_names e
               /\ attrs_vs_children e.
Proof. exact sx_hypotheses. Qed.

Example C13_example_theorem_applies : forall e, run_dom (map (map erase_v) sx_docs) = Some e ->
  forall vd, In vd sx_docs ->
    exists v, de_doc sx_flavour (render_abs serde_xml_rs e) false vd = Some v.
Proof. exact sx_theorem_applies. Qed.

(* the text ` inner ` of the struct-typed <b> is dropped, everything else is held *)
Example C13_example_values :
  match run_dom (map (map erase_v) sx_docs) with
  | Some e => map (de_doc sx_flavour (render_abs serde_xml_rs e) false) sx_docs
  | None => []
  end =
  [Some (FStruct [(s "id", FStr (s "1")); (s "text", FNone);
                  (s "a", FSome (FStr (s "hello world")));
                  (s "b", FSeq [FStruct [(s "k", FStr (s "v")); (s "text", FNone);
                                         (s "c", FSome (FStruct []))];
                                FStruct [(s "k", FStr (s "w")); (s "text", FNone); (s "c", FNone)]]);
                  (s "d", FNone)]);
   Some (FStruct [(s "id", FStr (s "2")); (s "text", FNone); (s "a", FNone);
                  (s "b", FSeq [FStruct [(s "k", FStr (s "x")); (s "text", FNone); (s "c", FNone)];
                                FStruct [(s "k", FStr (s "y")); (s "text", FNone); (s "c", FNone)]]);
                  (s "d", FSome (FStr (s "dd")))])].
Proof. exact sx_values. Qed.

Example C13_example_doc_values :
  map (flat_map (doc_values false)) sx_docs
  = [[s "1"; s "hello world"; s "v"; s "w"]; [s "2"; s "x"; s "inner"; s "y"; s "dd"]].
Proof. exact sx_doc_values. Qed.

Example C13_example_value_values :
  match run_dom (map (map erase_v) sx_docs) with
  | Some e => map (fun d => option_map leaves (de_doc sx_flavour (render_abs serde_xml_rs_value e) true d)) sx_docs
  | None => []
  end = [Some [s "1"; s "hello world"; s "v"; s "w"]; Some [s "2"; s "x"; s "inner"; s "y"; s "dd"]].
Proof. exact sx_value_values. Qed.

(* sx_interleaved = <r><a/><b/><a/></r> : adjacent false, attrs_vs_children true,
   rejected by serde-xml-rs, accepted by quick_xml::de *)
Example C13_needs_adjacent :
  match run_dom (map (map erase_v) [sx_interleaved]) with
  | Some e => (forallb adjacent_b sx_interleaved, attrs_vs_children_b e,
               de_doc sx_flavour (render_abs serde_xml_rs e) false sx_interleaved,
               option_map leaves (de_doc qx_flavour (render_abs quick_xml_de e) true sx_interleaved))
  | None => (true, false, Some FNone, None)
  end = (false, true, None, Some []).
Proof. exact sx_needs_adjacent. Qed.

(* sx_attr_child = <r a="1"><a>x</a></r> : everything true but attrs_vs_children; rejected *)
Example C13_needs_attrs_vs_children :
  match run_dom (map (map erase_v) [sx_attr_child]) with
  | Some e => (clash_free_tree e, names_plain e, attrs_plain_b e, attrs_vs_children_b e,
               forallb adjacent_b sx_attr_child,
               de_doc sx_flavour (render_abs serde_xml_rs e) false sx_attr_child)
  | None => (false, false, false, true, false, Some FNone)
  end = (true, true, true, false, true, None).
Proof. exact sx_needs_attrs_vs_children. Qed.

(* sx_attr_dollar = <r $value="1">t</r> (not XML): everything true but attrs_plain; rejected *)
Example C13_needs_attrs_plain :
  match run_dom (map (map erase_v) [sx_attr_dollar]) with
  | Some e => (clash_free_tree e, names_plain e, attrs_vs_children_b e, namespace_free_b e,
               forallb adjacent_b sx_attr_dollar, forallb data_oriented_b sx_attr_dollar,
               attrs_plain_b e,
               de_doc sx_flavour (render_abs serde_xml_rs e) false sx_attr_dollar)
  | None => (false, false, false, false, false, false, true, Some FNone)
  end = (true, true, true, true, true, true, false, None).
Proof. exact sx_needs_attrs_plain. Qed.

Print Assumptions C13_data_oriented_sx.
Print Assumptions C13_adjacent_doc_reading.
Print Assumptions C13_eforallb_reading.
Print Assumptions C13_hypotheses_reading.
Print Assumptions C13_namespace_free_local.
Print Assumptions C13_accepts.
Print Assumptions C13_attr_values_reading.
Print Assumptions C13_attrs_held.
Print Assumptions C13_StringTypedAt_reading.
Print Assumptions C13_string_text_held.
Print Assumptions C13_accepts_local.
Print Assumptions C13_attrs_held_local.
Print Assumptions C13_string_text_held_local.
Print Assumptions C13_accepts_tree.
Print Assumptions C13_keys_ok.
Print Assumptions C13_text_key_mismatch.
Print Assumptions C13_de_as_reading.
Print Assumptions C13_field_no_value.
Print Assumptions C13_text_field_none.
Print Assumptions C13_root_text_dropped.
Print Assumptions C13_known_text_dropped.
Print Assumptions C13_known_deny_rejected.
Print Assumptions C13_value_options_reading.
Print Assumptions C13_would_hold_with_value.
Print Assumptions C13_value_accepts_holds.
Print Assumptions C13_example_hypotheses.
Print Assumptions C13_example_theorem_applies.
Print Assumptions C13_example_values.
Print Assumptions C13_example_doc_values.
Print Assumptions C13_example_value_values.
Print Assumptions C13_needs_adjacent.
Print Assumptions C13_needs_attrs_vs_children.
Print Assumptions C13_needs_attrs_plain.
