(* DomEquiv — the bridge between the two presentations of the parser.
   `build_struct` / `into_struct_ev` / `extend_struct_ev` / `run_evs` (Model/Parser.v) work on the
   reader's event stream and are the functions tied to the Rust code by the correspondence;
   `absorb` / `into_struct_dom` / `extend_struct_dom` / `run_dom` (Model/Dom.v) work by structural
   recursion on the document tree and are what the document-level theorems are proved on.
   Proved here: on the events of a document (`events_of_forest`) the two agree exactly — same
   tree, same leftover events, same "no root element" error — for every parent state, every
   `known` list and every amount of fuel above the number of events (no `Uniq` hypothesis).
   Only statements; every proof is `exact <lemma of Proofs/DomEquiv.v>`. *)
From XSG.Model Require Import Strings Necessity Element Parser Dom.
From XSG.Proofs Require Import ElementProofs SkelProofs DomEquiv.
From Coq Require Import String.
From Coq Require Import List.
Local Open Scope list_scope.

(* general form: any continuation `rest` (faulty events, unbalanced tags, anything) *)
Theorem Dom_build_struct_node : forall k rest fuel root known,
  (length (events_of k ++ rest) < fuel)%nat ->
  build_struct fuel (events_of k ++ rest) root known
  = build_struct fuel rest (fst (absorb k root known)) (snd (absorb k root known)).
Proof. exact build_struct_node. Qed.

Theorem Dom_build_struct_forest_k : forall ks rest fuel root known,
  (length (events_of_forest ks ++ rest) < fuel)%nat ->
  build_struct fuel (events_of_forest ks ++ rest) root known
  = build_struct fuel rest (fst (absorb_forest ks root known)) (snd (absorb_forest ks root known)).
Proof. exact build_struct_forest_k. Qed.

(* the content of an element followed by its closing tag (or by end of input) *)
Theorem Dom_build_struct_forest : forall ks rest fuel root known,
  (length (events_of_forest ks ++ rest) < fuel)%nat ->
  (rest = [] \/ exists r', rest = EEnd :: r') ->
  build_struct fuel (events_of_forest ks ++ rest) root known
  = match rest with
    | [] => Ok (fst (absorb_forest ks root known), [])
    | _ :: r' => Ok (fst (absorb_forest ks root known), r')
    end.
Proof. exact build_struct_forest. Qed.

Theorem Dom_into_struct : forall top,
  into_struct_ev (events_of_forest top)
  = match into_struct_dom top with Some e => Ok e | None => Err NoRootError end.
Proof. exact into_struct_dom_ev. Qed.

Theorem Dom_extend_struct : forall root top,
  extend_struct_ev root (events_of_forest top)
  = match extend_struct_dom root top with Some e => Ok e | None => Err NoRootError end.
Proof. exact extend_struct_dom_ev. Qed.

Theorem Dom_run : forall docs,
  run_evs (map events_of_forest docs)
  = match run_dom docs with Some e => Ok e | None => Err NoRootError end.
Proof. exact run_dom_ev. Qed.

(* concrete document (nesting, empty elements, text, CDATA, comments): both sides evaluated *)
Theorem Dom_example_into_struct :
  into_struct_ev (events_of_forest ex_doc)
  = match into_struct_dom ex_doc with Some e => Ok e | None => Err NoRootError end
  /\ exists e, into_struct_dom ex_doc = Some e /\ ename e = s "a"
               /\ map (fun c => ename (snd c)) (echildren e) = [s "b"; s "c"]
               /\ etext e = true.
Proof. exact ex_into_struct. Qed.

Theorem Dom_example_run :
  run_evs (map events_of_forest [ex_doc; ex_doc2])
  = match run_dom [ex_doc; ex_doc2] with Some e => Ok e | None => Err NoRootError end
  /\ exists e, run_dom [ex_doc; ex_doc2] = Some e /\ ecount e = 2.
Proof. exact ex_run. Qed.

Print Assumptions Dom_build_struct_node.
Print Assumptions Dom_build_struct_forest_k.
Print Assumptions Dom_build_struct_forest.
Print Assumptions Dom_into_struct.
Print Assumptions Dom_extend_struct.
Print Assumptions Dom_run.
Print Assumptions Dom_example_into_struct.
Print Assumptions Dom_example_run.
