(* The Coq parser of the rendered source (Model/Reparse.v, proved to invert the printer in
   Proofs/ReparseProofs.v) run on the REAL implementation's output, against the struct definitions
   the harness's Rust parser extracted from the same bytes.  Takes the Rust re-parser, on whose
   output every boolean oracle is evaluated, out of the trusted base for the sampled cases. *)
From XSG.Model Require Import Strings Necessity Element Render Reparse.
From XSG.Corr Require Import Common Oracles.
From Coq Require Import String.
Open Scope list_scope.

Definition conv_field (f : pfield') : pfield := PF (pf_rename' f) (pf_ident' f) (pf_wrap' f) (pf_ty' f).
Definition conv (d : pstruct') : pstruct := PS (ps_derive' d) (ps_name' d) (map conv_field (ps_fields' d)).

Record reparsecase := { rp_text : str; rp_rust : option (list pstruct) }.
Definition ev_reparse (c : reparsecase) : bool :=
  match option_map (map conv) (reparse (rp_text c)), rp_rust c with
  | Some a, Some b => list_eqb pstruct_eqb a b
  | None, None => true
  | _, _ => false
  end.
Definition show_reparse (c : reparsecase) := (option_map (map conv) (reparse (rp_text c)), rp_rust c).
