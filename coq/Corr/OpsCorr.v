From XSG.Model Require Import Strings Chars Convert Necessity Element Parser Dom Spec Render Ops.
From XSG.Corr Require Import Common Oracles CoreCorr.
From Coq Require Import String Uint63.

Record opscase := {
  oc_root : str * list str;                               (* Element::new(name, attrs) *)
  oc_ops : list op;
  oc_states : list element;                               (* implementation state after every step *)
  oc_removed : list (option (nec * element));             (* what remove_child returned, per step *)
  oc_renders : list (options * int * option (list pstruct)) (* renderings of the final state *)
}.

Definition nec_elem_eqb (a b : nec * element) : bool := nec_eqb (fst a) (fst b) && element_eqb (snd a) (snd b).

(* correspondence: the model steps through the same states and observations *)
Fixpoint states_go (e : element) (ops : list op) (sts : list element)
         (obs : list (option (nec * element))) : bool :=
  match ops, sts, obs with
  | [], [], [] => true
  | o :: ops', s :: sts', b :: obs' =>
      let '(e', r) := step e o in
      element_eqb e' s && option_eqb nec_elem_eqb r b && states_go s ops' sts' obs'
  | _, _, _ => false
  end.
Definition ops_initial (c : opscase) : element := new_element (fst (oc_root c)) (snd (oc_root c)).
Definition final_state (c : opscase) : element := last (oc_states c) (ops_initial c).
Definition ev_ops_states (c : opscase) : bool :=
  states_go (ops_initial c) (oc_ops c) (oc_states c) (oc_removed c).
(* as for ev_bytes: renderings are compared for trees whose names lie in Sigma *)
Definition ev_ops_bytes (c : opscase) : bool :=
  negb (tree_in_sigma (final_state c))
  || forallb (fun '(o, h, _) => (hash63 (to_serde_struct o (final_state c)) =? h)%uint63) (oc_renders c).
Definition show_ops (c : opscase) :=
  (run_ops (ops_initial c) (oc_ops c),
   map (fun '(o, h, _) => (show (to_serde_struct o (final_state c)), hash63 (to_serde_struct o (final_state c)), h)) (oc_renders c)).

(* ---- oracles on the implementation's states ---- *)
Fixpoint unique_b (e : element) : bool :=
  match e with
  | Elem _ _ _ _ at_ ch _ =>
      nodup_b str_eqb (map snd at_) && nodup_b str_eqb (map (fun c => ename (snd c)) ch)
      && (fix go (cs : list (nec * element)) : bool :=
            match cs with [] => true | c :: r => unique_b (snd c) && go r end) ch
  end.
Definition or_ops_unique (c : opscase) : bool :=
  unique_b (ops_initial c) && forallb unique_b (oc_states c).

Definition has_child (e : element) (n : str) : bool :=
  match get_child (echildren e) n with Some _ => true | None => false end.
(* one step, read on (state before, operation, state after, observation):
   adding a present name changes nothing; marking optional preserves the subtree, the other
   children and their order up to moving the child; removal returns the first child with
   that name and leaves the others in order; lookup afterwards fails *)
Definition step_ok (prev : element) (o : op) (next : element) (ob : option (nec * element)) : bool :=
  match o with
  | OAdd p n _ =>
      match get_at prev p with
      | Some x => if has_child x n then element_eqb next prev
                  else match get_at next p with
                       | Some y => has_child y n
                                   && (List.length (echildren y) =? S (List.length (echildren x)))%nat
                       | None => false end
      | None => element_eqb next prev end
  | OOpt p n =>
      match get_at prev p, get_at next p with
      | Some x, Some y =>
          match get_child (echildren x) n, get_child (echildren y) n with
          | Some c, Some d => nec_eqb (fst d) Opt && element_eqb (snd c) (snd d)
                              && (List.length (echildren y) =? List.length (echildren x))%nat
          | None, None => element_eqb next prev
          | _, _ => false end
      | None, _ => element_eqb next prev
      | _, _ => false end
  | ORemove p n =>
      match get_at prev p, get_at next p with
      | Some x, Some y =>
          option_eqb nec_elem_eqb ob (get_child (echildren x) n)
          && negb (has_child y n)
          && list_eqb nec_elem_eqb (echildren y) (snd (remove_child (echildren x) n))
      | None, _ => element_eqb next prev
      | _, _ => false end
  | _ => true
  end.
Fixpoint steps_ok (prev : element) (ops : list op) (sts : list element)
         (obs : list (option (nec * element))) : bool :=
  match ops, sts, obs with
  | o :: ops', s :: sts', b :: obs' => step_ok prev o s b && steps_ok s ops' sts' obs'
  | _, _, _ => true
  end.
Definition or_ops_steps (c : opscase) : bool :=
  steps_ok (ops_initial c) (oc_ops c) (oc_states c) (oc_removed c).

Definition or_ops_reflects (c : opscase) : bool :=
  forallb (fun '(o, _, p) => match p with Some ps => reflects_b o (final_state c) ps | None => false end)
          (oc_renders c).
Definition or_ops_wf (c : opscase) : bool :=
  if tree_names_ok (final_state c) then
    forallb (fun '(_, _, p) => match p with Some ps => wf_b ps | None => false end) (oc_renders c)
  else true.
Definition ops_hyp (c : opscase) : bool := tree_names_ok (final_state c).

(* ---- mixed histories: parse, edit by hand, extend ---- *)
Record mixedcase := {
  mx_init : list (list event);        (* documents parsed first (reader events) *)
  mx_ops : list op;                   (* then these operations on the result *)
  mx_more_docs : list (list node);    (* DOM of the documents the edited tree is extended with *)
  mx_more : list (list event);        (* their reader events *)
  mx_impl : iresult;                  (* the implementation's final result *)
  mx_renders : list (options * int * option (list pstruct))
}.
Definition mixed_model (c : mixedcase) : outcome element :=
  match run_evs (mx_init c) with
  | Ok e0 =>
      fold_left (fun acc x => match acc with Ok e => extend_struct_ev e x | o => o end)
                (mx_more c) (Ok (run_ops e0 (mx_ops c)))
  | o => o
  end.
Definition ev_mixed (c : mixedcase) : bool := iresult_eqb (mixed_model c) (mx_impl c).
Definition ev_mixed_bytes (c : mixedcase) : bool :=
  match mx_impl c with
  | ITree e => negb (tree_in_sigma e)
               || forallb (fun '(o, h, _) => (hash63 (to_serde_struct o e) =? h)%uint63) (mx_renders c)
  | _ => true
  end.
(* whatever the tree looked like after the edits, the documents it was then extended with are
   described by the final structs (quick-xml preset); only claimed where the model's own result
   has the property, so that a peculiarity of hand-built trees is never blamed on the code *)
Definition admits_all (e : element) (docs : list (list node)) : bool :=
  forallb (admits_b quick_xml_de (map erase (render_abs quick_xml_de e))) docs.
Definition mixed_hyp (c : mixedcase) : bool :=
  match mixed_model c, mx_impl c with
  | Ok m, ITree e => clash_free_tree m && names_plain_b m && clash_free_tree e && names_plain_b e
                     && admits_all m (mx_more_docs c)
  | _, _ => false
  end.
Definition or_mixed_admits (c : mixedcase) : bool :=
  if mixed_hyp c then match mx_impl c with ITree e => admits_all e (mx_more_docs c) | _ => true end
  else true.
Definition show_mixed (c : mixedcase) := (mixed_model c, mx_impl c).
