(* Correspondence evaluators for document-sequence cases (parser state, rendered bytes) and
   the boolean oracles applied to the implementation's outputs. vm_compute only. *)
From XSG.Model Require Import Strings Chars Convert Necessity Element Parser Dom Spec Render.
From XSG.Corr Require Import Common Oracles.
From Coq Require Import String Ascii Uint63 ZArith.

(* ---- 63-bit polynomial hash of a string; the harness computes the same in u64 ---- *)
Definition hash63 (l : str) : int :=
  fold_left (fun h c => (h * 1000003 + of_Z (Z.of_N c) + 1)%uint63) l 1469598103%uint63.

(* for replay files: a str as a Coq string (UTF-8) *)
Definition byte (n : N) : ascii := ascii_of_N n.
Definition utf8 (c : N) : list ascii :=
  if c <? 128 then [byte c]
  else if c <? 2048 then [byte (192 + c / 64); byte (128 + c mod 64)]
  else if c <? 65536 then [byte (224 + c / 4096); byte (128 + (c / 64) mod 64); byte (128 + c mod 64)]
  else [byte (240 + c / 262144); byte (128 + (c / 4096) mod 64); byte (128 + (c / 64) mod 64); byte (128 + c mod 64)].
Definition show (l : str) : string := string_of_list_ascii (flat_map utf8 l).

(* ---- equality on full internal state ---- *)
Definition opt_nat_eqb (a b : option nat) : bool := option_eqb Nat.eqb a b.
Fixpoint element_eqb (a b : element) {struct a} : bool :=
  match a, b with
  | Elem n1 t1 s1 k1 a1 c1 p1, Elem n2 t2 s2 k2 a2 c2 p2 =>
      str_eqb n1 n2 && Bool.eqb t1 t2 && Bool.eqb s1 s2 && (k1 =? k2)
      && list_eqb (tagged_eqb str_eqb) a1 a2
      && (fix go (x y : list (nec * element)) {struct x} : bool :=
            match x, y with
            | [], [] => true
            | (m1, e1) :: x', (m2, e2) :: y' => nec_eqb m1 m2 && element_eqb e1 e2 && go x' y'
            | _, _ => false
            end) c1 c2
      && opt_nat_eqb p1 p2
  end.

(* ---- implementation results ---- *)
Inductive iresult :=
| ITree (e : element)
| IErrQuickXml (pos : N) (id : N) | IErrUtf8 (id : N) | IErrAttr (id : N) | IErrNoRoot
| IOther.                                     (* panic / hang / unclassified *)

Definition iresult_eqb (m : outcome element) (i : iresult) : bool :=
  match m, i with
  | Ok e, ITree e' => element_eqb e e'
  | Err (QuickXmlError p x), IErrQuickXml p' x' => (p =? p') && (x =? x')
  | Err (FromUtf8Error x), IErrUtf8 x' => x =? x'
  | Err (AttrError x), IErrAttr x' => x =? x'
  | Err NoRootError, IErrNoRoot => true
  | _, _ => false
  end.

Record doccase := {
  dc_docs : list (list node);            (* DOM of each document; [] when the case is raw bytes *)
  dc_events : list (list event);         (* reader events recorded from the bytes of each document *)
  dc_impl : iresult;                     (* parse(D1), extend(D2) ... on the real library *)
  (* option values x hash of the real rendering of that tree x the rendering parsed back
     into struct definitions (None: not of the expected shape) *)
  dc_renders : list (options * int * option (list pstruct))
}.

Definition event_eqb (a b : event) : bool :=
  let res_eqb {A} (f : A -> A -> bool) (x y : res A) :=
    match x, y with ROk u, ROk v => f u v | RBad i, RBad j => i =? j | _, _ => false end in
  let ar_eqb (x y : attr_res) :=
    match x, y with AOk u, AOk v => res_eqb str_eqb u v | AErr i, AErr j => i =? j | _, _ => false end in
  match a, b with
  | EStart n l, EStart n' l' | EEmpty n l, EEmpty n' l' => res_eqb str_eqb n n' && list_eqb ar_eqb l l'
  | EEnd, EEnd | EMisc, EMisc => true
  | EText t, EText t' | ECData t, ECData t' => res_eqb (fun _ _ => true) t t'
  | EErr p i, EErr p' i' => (p =? p') && (i =? i')
  | _, _ => false
  end.

(* the DOM the generator built, serialised by the harness and tokenised by quick_xml,
   gives exactly events_of: ties serializer, tokenizer and events_of together *)
Definition ev_events (c : doccase) : bool :=
  is_nil (dc_docs c)
  || list_eqb (list_eqb event_eqb) (map events_of_forest (dc_docs c)) (dc_events c).

(* parser correspondence: full internal state (or the error) *)
Definition ev_tree (c : doccase) : bool := iresult_eqb (run_evs (dc_events c)) (dc_impl c).

(* document-level presentation agrees too (exercises Dom.absorb) *)
Definition ev_dom (c : doccase) : bool :=
  is_nil (dc_docs c)
  || match run_dom (dc_docs c), dc_impl c with
     | Some e, ITree e' => element_eqb e e'
     | None, IErrNoRoot => true
     | _, _ => false
     end.

(* renderer correspondence, on the implementation's own tree *)
Fixpoint tree_in_sigma (e : element) : bool :=
  match e with
  | Elem n _ _ _ at_ ch _ =>
      forallb in_sigma n && forallb (fun a => forallb in_sigma (snd a)) at_
      && (fix go (cs : list (nec * element)) : bool :=
            match cs with [] => true | c :: r => tree_in_sigma (snd c) && go r end) ch
  end.
(* the character tables are claimed faithful on Sigma only: renderings of trees with a name outside
   Sigma (bit-flipped UTF-8 in the hostile byte strings of C07 / C08) are not compared *)
Definition ev_bytes (c : doccase) : bool :=
  match dc_impl c with
  | ITree e => negb (tree_in_sigma e) || forallb (fun '(o, h, _) => (hash63 (to_serde_struct o e) =? h)%uint63) (dc_renders c)
  | _ => is_nil (dc_renders c)
  end.

(* cases whose rendering is compared (Ok results with every name inside Sigma) *)
Definition in_hyp_sigma (c : doccase) : bool :=
  match dc_impl c with ITree e => tree_in_sigma e | _ => false end.

(* what the model renders, for replay files *)
Definition show_case (c : doccase) :=
  (run_evs (dc_events c),
   match dc_impl c with
   | ITree e => map (fun '(o, h, _) => (show (to_serde_struct o e), hash63 (to_serde_struct o e), h)) (dc_renders c)
   | _ => [] end).

(* ---- oracles ---- *)
(* C03: the implementation's tree, children put in `position` order, is exactly the tree
   inferred from the DOM (names, tags, standalone, count, attribute order, positions) *)
(* the hypotheses of the C03 / C01 / C06 theorems: one root element per document, a common root
   name, and no element with a duplicated attribute name (a reader error, not a document) *)
Fixpoint node_wf_b (nd : node) : bool :=
  match nd with
  | NElem _ _ a ks => nodup_b str_eqb a
                      && (fix go (l : list node) : bool := match l with [] => true | k :: r => node_wf_b k && go r end) ks
  | _ => true
  end.
Definition in_hyp_docs (c : doccase) : bool :=
  negb (is_nil (dc_docs c)) && docs_ok (dc_docs c) && forallb (forallb node_wf_b) (dc_docs c).
Definition or_exact (c : doccase) : bool :=
  if in_hyp_docs c then
    match dc_impl c, infer (dc_docs c) with
    | ITree e, Some x => element_eqb (sort_tree e) x
    | _, _ => false
    end
  else true.

(* the rendered structs mirror the implementation's tree: one field per attribute / text /
   child with the right Option / Vec / String typing, one struct per non-String position *)
Definition or_reflects (c : doccase) : bool :=
  match dc_impl c with
  | ITree e => forallb (fun '(o, _, p) => match p with Some ps => reflects_b o e ps | None => false end)
                       (dc_renders c)
  | _ => true
  end.

(* C04 *)
Definition names_ok_char (c : chr) : bool := xid_continue c || (c =? 45) || (c =? 46) || (c =? 58).
Fixpoint letter_before_digit (x : str) : bool :=
  match x with
  | [] => false
  | c :: r => if a_digit c then false else if xid_start c then true else letter_before_digit r
  end.
Definition name_ok (x : str) : bool :=
  forallb names_ok_char x && forallb in_sigma x && letter_before_digit x.
Fixpoint tree_names_ok (e : element) : bool :=
  match e with
  | Elem n _ _ _ at_ ch _ =>
      name_ok n && forallb (fun a => name_ok (snd a)) at_
      && (fix go (cs : list (nec * element)) : bool :=
            match cs with [] => true | c :: r => tree_names_ok (snd c) && go r end) ch
  end.
Definition in_hyp_names (c : doccase) : bool :=
  match dc_impl c with ITree e => tree_names_ok e | _ => false end.
Definition or_wf (c : doccase) : bool :=
  if in_hyp_names c then
    forallb (fun '(_, _, p) => match p with Some ps => wf_b ps | None => false end) (dc_renders c)
  else true.

(* C01 *)
(* hypothesis of the C01 theorems: no element name below the root contains '@' or '$' (true of
   every XML name; the tokenizer lets such names through).  Same definition as
   Proofs/AdmitProofs.v names_plain (Proofs/HypBridge.v proves them equal). *)
Definition plain_name_b (m : str) : bool := forallb (fun c => negb (c =? 64) && negb (c =? 36)) m.
Fixpoint names_plain_b (e : element) : bool :=
  match e with
  | Elem _ _ _ _ _ ch _ =>
      (fix go (cs : list (nec * element)) : bool :=
         match cs with
         | [] => true
         | c :: r => plain_name_b (ename (snd c)) && names_plain_b (snd c) && go r
         end) ch
  end.
Definition in_hyp_admits (c : doccase) : bool :=
  in_hyp_docs c && match dc_impl c with ITree e => clash_free_tree e && names_plain_b e | _ => false end.
Definition or_admits (c : doccase) : bool :=
  if in_hyp_admits c then
    forallb (fun '(o, _, p) =>
               negb (str_eqb (attribute_prefix o) (s "@"))
               || match p with
                  | Some ps => forallb (admits_b o ps) (dc_docs c)
                  | None => false end) (dc_renders c)
  else true.

(* C14 *)
Definition or_names (c : doccase) : bool :=
  match dc_impl c with
  | ITree e => if tree_in_sigma e then  (* the property restricts no names; the model's case tables do *)
                 forallb (fun '(o, _, p) => match p with Some ps => names_b o e ps | None => false end)
                         (dc_renders c)
               else true
  | _ => true
  end.

(* C09: renderings come in pairs (Unsorted, XmlName) with otherwise equal options *)
Fixpoint pairs_ok {A} (f : A -> A -> bool) (l : list A) : bool :=
  match l with
  | a :: b :: r => f a b && pairs_ok f r
  | _ => true end.
Definition or_only_order (c : doccase) : bool :=
  pairs_ok (fun '(_, _, p) '(_, _, q) =>
              match p, q with Some a, Some b => only_order_b a b | _, _ => false end) (dc_renders c).

(* C10 *)
Definition sort_eqb (a b : sortby) : bool :=
  match a, b with Unsorted, Unsorted | XmlName, XmlName => true | _, _ => false end.
Definition or_derive (c : doccase) : bool :=
  forallb (fun '(o, _, p) => match p with Some ps => derive_b o ps | None => false end) (dc_renders c).
Definition or_orthogonal (c : doccase) : bool :=
  forallb (fun '(o1, _, p1) =>
             forallb (fun '(o2, _, p2) =>
                        negb (sort_eqb (sort o1) (sort o2))
                        || match p1, p2 with
                           | Some a, Some b => erased_eqb (erase_bindings a) (erase_bindings b)
                           | _, _ => false end) (dc_renders c)) (dc_renders c).

(* C08: the verdict is the one of a flat left-to-right scan of the reader events *)
Definition event_fault (ev : event) : option perror :=
  match ev with
  | EStart n attrs | EEmpty n attrs =>
      match n with
      | RBad id => Some (FromUtf8Error id)
      | ROk _ => match attr_keys attrs with inl e => Some e | inr _ => None end
      end
  | EText (RBad id) | ECData (RBad id) => Some (FromUtf8Error id)
  | EErr p id => Some (QuickXmlError p id)
  | _ => None
  end.
Fixpoint first_fault (evs : list event) : option perror :=
  match evs with
  | [] => None
  | ev :: r => match event_fault ev with Some e => Some e | None => first_fault r end
  end.
Definition has_element (evs : list event) : bool :=
  existsb (fun ev => match ev with EStart _ _ | EEmpty _ _ => true | _ => false end) evs.
Definition perror_matches (e : perror) (i : iresult) : bool :=
  match e, i with
  | QuickXmlError p x, IErrQuickXml p' x' => (p =? p') && (x =? x')
  | FromUtf8Error x, IErrUtf8 x' => x =? x'
  | AttrError x, IErrAttr x' => x =? x'
  | NoRootError, IErrNoRoot => true
  | _, _ => false
  end.
(* expected verdict of parse(D1), extend(D2)...: the first document with a fault (or, for
   D1, without any element) decides; otherwise Ok *)
Fixpoint expected_verdict (first : bool) (docs : list (list event)) : option perror :=
  match docs with
  | [] => None
  | d :: r =>
      match first_fault d with
      | Some e => Some e
      | None => if first && negb (has_element d) then Some NoRootError
                else expected_verdict false r
      end
  end.
Definition or_verdict (c : doccase) : bool :=
  match expected_verdict true (dc_events c) with
  | Some e => perror_matches e (dc_impl c)
  | None => match dc_impl c with ITree _ => true | _ => false end
  end.
(* C07: never a panic / hang / unclassifiable outcome *)
Definition or_total (c : doccase) : bool :=
  match dc_impl c with IOther => false | _ => true end.
