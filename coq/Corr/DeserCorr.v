(* The deserializer model (Model/Deser.v) against the real deserializers: for every generated
   program and every document (sources and damaged copies) the verdict, and for accepted
   documents the string leaves of the value in order, must coincide. vm_compute only. *)
From XSG.Model Require Import Strings Necessity Element Parser Dom Render Deser.
From XSG.Corr Require Import Common Oracles.
From Coq Require Import String.
Open Scope list_scope.

Definition unerase_field (f : pfield) : field :=
  {| f_kind := FChild; f_xml := []; f_rename := pf_rename f; f_ident := pf_ident f;
     f_wrap := pf_wrap f; f_ty := pf_ty f |}.
Definition unerase (p : pstruct) : structdef :=
  {| sd_derive := ps_derive p; sd_name := ps_name p; sd_fields := map unerase_field (ps_fields p) |}.

Record desercase := {
  ds_sx : bool;                          (* serde-xml-rs (true) / quick_xml::de (false) *)
  ds_structs : option (list pstruct);    (* the real rendering parsed back *)
  ds_doc : list vnode;
  ds_deny : bool;
  ds_ok : bool;                          (* the real deserializer accepted the document *)
  ds_leaves : option (list str)          (* string literals of the Debug rendering of the value *)
}.

Definition model_of (c : desercase) : option fval :=
  match ds_structs c with
  | None => None
  | Some ps => de_doc (if ds_sx c then sx_flavour else qx_flavour) (map unerase ps) (ds_deny c) (ds_doc c)
  end.

(* character data delivered beside child elements (for quick_xml::de: mixed content, or the blank
   CDATA sections of known finding K3): outside every theorem's hypotheses, and the model does not
   follow quick_xml::de there (a text delivered while a list field is being filled becomes an item
   of the list): such documents are not compared *)
Fixpoint beside_b (vb : bool) (v : vnode) : bool :=
  match v with
  | VElem _ ef _ kids0 =>
      if ef then false else
      (negb (is_nil (velems kids0)) && negb (is_nil (text_runs vb kids0)))
      || (fix go (ks : list vnode) : bool :=
            match ks with [] => false | k :: r => beside_b vb k || go r end) kids0
  | _ => false
  end.
Definition compared (c : desercase) : bool :=
  negb (existsb (beside_b (negb (ds_sx c))) (ds_doc c)).

Definition ev_deser (c : desercase) : bool :=
  if negb (compared c) then true else
  match ds_structs c with
  | None => false
  | Some _ =>
      match model_of c, ds_ok c with
      | Some v, true => match ds_leaves c with
                        | Some l => list_eqb str_eqb (leaves v) l
                        | None => true end
      | None, false => true
      | _, _ => false
      end
  end.

Definition show_deser (c : desercase) := (option_map leaves (model_of c), ds_ok c, ds_leaves c).
