(* The deserializer model (Model/Deser.v) against the real deserializers: for every generated
   program and every document (sources and damaged copies) the verdict, and for accepted
   documents the string leaves of the value in order, must coincide. vm_compute only. *)
From XSG.Model Require Import Strings Necessity Element Parser Dom Render Deser.
From XSG.Corr Require Import Common Oracles.
From Coq Require Import String.
Open Scope list_scope.

Definition unerase_field (f : pfield) : field :=
  {| f_kind := FChild; f_xml := []; f_rename := pf_rename f; f_ident := pf_ident f;
     f_wrap := pf_wrap f; f_ty := pf_ty f |}.
Definition unerase (p : pstruct) : structdef :=
  {| sd_derive := ps_derive p; sd_name := ps_name p; sd_fields := map unerase_field (ps_fields p) |}.

Record desercase := {
  ds_sx : bool;                          (* serde-xml-rs (true) / quick_xml::de (false) *)
  ds_structs : option (list pstruct);    (* the real rendering parsed back *)
  ds_doc : list vnode;
  ds_deny : bool;
  ds_ok : bool;                          (* the real deserializer accepted the document *)
  ds_leaves : option (list str)          (* string literals of the Debug rendering of the value *)
}.

Definition model_of (c : desercase) : option fval :=
  match ds_structs c with
  | None => None
  | Some ps => de_doc (if ds_sx c then sx_flavour else qx_flavour) (map unerase ps) (ds_deny c) (ds_doc c)
  end.

Definition ev_deser (c : desercase) : bool :=
  match ds_structs c with
  | None => false
  | Some _ =>
      match model_of c, ds_ok c with
      | Some v, true => match ds_leaves c with
                        | Some l => list_eqb str_eqb (leaves v) l
                        | None => true end
      | None, false => true
      | _, _ => false
      end
  end.

Definition show_deser (c : desercase) := (option_map leaves (model_of c), ds_ok c, ds_leaves c).
