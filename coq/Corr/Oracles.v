(* Boolean oracles: the properties read on the implementation's rendered output, which the
   harness parses back into struct definitions (pstruct).  vm_compute only. *)
From XSG.Model Require Import Strings Chars Convert Necessity Element Parser Dom Spec Render.
From XSG.Corr Require Import Common.
From Coq Require Import String.
Open Scope list_scope.

Record pfield := PF { pf_rename : option str; pf_ident : str; pf_wrap : wrap; pf_ty : tyname }.
Record pstruct := PS { ps_derive : option str; ps_name : str; ps_fields : list pfield }.

Definition wrap_eqb (a b : wrap) : bool :=
  match a, b with
  | WPlain, WPlain | WOption, WOption | WVec, WVec | WOptionVec, WOptionVec => true
  | _, _ => false end.
Definition ty_eqb (a b : tyname) : bool :=
  match a, b with
  | TyString, TyString => true
  | TyStruct x, TyStruct y => str_eqb x y
  | _, _ => false end.
Definition pfield_eqb (a b : pfield) : bool :=
  option_eqb str_eqb (pf_rename a) (pf_rename b) && str_eqb (pf_ident a) (pf_ident b)
  && wrap_eqb (pf_wrap a) (pf_wrap b) && ty_eqb (pf_ty a) (pf_ty b).
Definition pstruct_eqb (a b : pstruct) : bool :=
  option_eqb str_eqb (ps_derive a) (ps_derive b) && str_eqb (ps_name a) (ps_name b)
  && list_eqb pfield_eqb (ps_fields a) (ps_fields b).

Definition erase_field (f : field) : pfield := PF (f_rename f) (f_ident f) (f_wrap f) (f_ty f).
Definition erase (d : structdef) : pstruct := PS (sd_derive d) (sd_name d) (map erase_field (sd_fields d)).

(* the serde name a field is bound to *)
Definition bound (f : pfield) : str := match pf_rename f with Some r => r | None => pf_ident f end.
Definition is_string (f : pfield) : bool := match pf_ty f with TyString => true | _ => false end.
Definition is_optional (f : pfield) : bool :=
  match pf_wrap f with WOption | WOptionVec => true | _ => false end.
Definition is_vec (f : pfield) : bool :=
  match pf_wrap f with WVec | WOptionVec => true | _ => false end.

(* ---------- children in output order ---------- *)
Fixpoint sort_tree_by (leb : nec * element -> nec * element -> bool) (e : element) : element :=
  match e with
  | Elem n t x k a ch p =>
      Elem n t x k a
           (isort leb ((fix go (cs : list (nec * element)) : list (nec * element) :=
                          match cs with [] => [] | c :: r => (fst c, sort_tree_by leb (snd c)) :: go r end) ch))
           p
  end.
Definition order_of (o : options) := match sort o with Unsorted => by_pos | XmlName => by_name end.

Definition attr_bound (o : options) (a : str) : str :=
  attribute_prefix o ++ (if starts_with_xmlns a then a else remove_namespace a).

(* ---------- reflects: the structs mirror the tree (C03 render clause, C16, C04 types) ---------- *)
(* a rename is emitted exactly when the bound name differs from the identifier *)
Definition rename_ok (f : pfield) : bool :=
  match pf_rename f with Some r => negb (str_eqb r (pf_ident f)) | None => true end.
Definition attr_field_ok (o : options) (a : nec * str) (f : pfield) : bool :=
  str_eqb (bound f) (attr_bound o (snd a)) && is_string f && rename_ok f
  && wrap_eqb (pf_wrap f) (match fst a with Mand => WPlain | Opt => WOption end).
Definition text_field_ok (o : options) (f : pfield) : bool :=
  option_eqb str_eqb (pf_rename f) (Some (text_identifier o)) && is_string f && wrap_eqb (pf_wrap f) WOption.
Definition child_field_ok (c : nec * element) (f : pfield) : bool :=
  str_eqb (bound f) (remove_namespace (ename (snd c))) && rename_ok f
  && wrap_eqb (pf_wrap f) (child_wrap (estandalone (snd c)) (fst c))
  && Bool.eqb (is_string f) (contains_only_text (snd c)).

Fixpoint forall2b {A B} (f : A -> B -> bool) (a : list A) (b : list B) : bool :=
  match a, b with
  | [], [] => true
  | x :: a', y :: b' => f x y && forall2b f a' b'
  | _, _ => false end.

(* consumes the structs of `e` (children already in output order) from the front of `ps` *)
Fixpoint reflects_go (o : options) (e : element) (ps : list pstruct) {struct e} : option (list pstruct) :=
  match e with
  | Elem _ _ _ _ _ ch _ =>
      match ps with
      | [] => None
      | p :: rest =>
          let attrs := match sort o with
                       | XmlName => isort (fun a b => str_leb (snd a) (snd b)) (eattrs e)
                       | Unsorted => eattrs e end in
          let fs := ps_fields p in
          let na := List.length attrs in
          let nt := if etext e then 1%nat else 0%nat in
          let fa := firstn na fs in
          let ft := firstn nt (skipn na fs) in
          let fc := skipn (na + nt) fs in
          if forall2b (attr_field_ok o) attrs fa
             && forallb (text_field_ok o) ft && (List.length ft =? nt)%nat
             && forall2b child_field_ok ch fc
          then
            (fix go (cs : list (nec * element)) (fs : list pfield) (ps : list pstruct) {struct cs}
               : option (list pstruct) :=
               match cs, fs with
               | [], _ => Some ps
               | c :: cs', f :: fs' =>
                   if contains_only_text (snd c) then go cs' fs' ps
                   else match ps with
                        | q :: _ =>
                            if ty_eqb (pf_ty f) (TyStruct (ps_name q)) then
                              match reflects_go o (snd c) ps with
                              | Some ps' => go cs' fs' ps'
                              | None => None end
                            else None
                        | [] => None end
               | _ :: _, [] => None
               end) ch fc rest
          else None
      end
  end.
Definition reflects_b (o : options) (e : element) (ps : list pstruct) : bool :=
  match reflects_go o (sort_tree_by (order_of o) e) ps with Some [] => true | _ => false end.

(* ---------- wf: well-formed Rust with unique, legal names (C04) ---------- *)
Definition ident_chars_ok (x : str) : bool :=
  match x with
  | [] => false
  | c :: r => (xid_start c || (c =? us)) && forallb xid_continue r
  end.
Definition ident_ok (x : str) : bool :=
  ident_chars_ok x && negb (is_keyword x) && negb (str_eqb x [us]).
Definition shadowing : list str := map s ["String"; "Option"; "Vec"]%string.
Definition struct_name_ok (x : str) : bool := ident_ok x && negb (mem x shadowing).
Definition literal_ok (x : str) : bool := forallb (fun c => negb (c =? 34) && negb (c =? 92) && negb (c =? 10)) x.
Definition count_uses (n : str) (ps : list pstruct) : nat :=
  List.length (filter (fun f => ty_eqb (pf_ty f) (TyStruct n)) (flat_map ps_fields ps)).
Definition wf_b (ps : list pstruct) : bool :=
  let names := map ps_name ps in
  negb (is_nil ps)
  && nodup_b str_eqb names && forallb struct_name_ok names
  && forallb (fun p => nodup_b str_eqb (map pf_ident (ps_fields p))
                       && forallb (fun f => ident_ok (pf_ident f)
                                            && match pf_rename f with Some r => literal_ok r | None => true end
                                            && match pf_ty f with TyString => true | TyStruct n => mem n names end)
                                  (ps_fields p)) ps
  && match ps with
     | [] => false
     | r :: others => forallb (fun p => (count_uses (ps_name p) ps =? 1)%nat) others
                      && (count_uses (ps_name r) ps =? 0)%nat
     end.

(* ---------- admits: the structs describe a source document (C01) ---------- *)
Definition find_struct (ps : list pstruct) (n : str) : option pstruct :=
  find (fun p => str_eqb (ps_name p) n) ps.
Definition kid_names (ks : list node) : list str :=
  flat_map (fun k => match k with NElem m _ _ _ => [m] | _ => [] end) ks.
Definition has_chardata (ks : list node) : bool :=
  existsb (fun k => match k with NText | NCData => true | _ => false end) ks.
Definition count_local (m : str) (ks : list node) : nat :=
  List.length (filter (fun x => str_eqb (remove_namespace x) m) (kid_names ks)).

(* only meaningful for a non-empty attribute prefix that cannot start an XML name ('@'):
   then a field is an attribute field iff its bound name starts with the prefix *)
Fixpoint admits_elem (o : options) (ps : list pstruct) (sd : pstruct) (nd : node) {struct nd} : bool :=
  match nd with
  | NElem _ ef attrs kids0 =>
      let kids := if ef then [] else kids0 in
      let fs := ps_fields sd in
      let abound := map (attr_bound o) attrs in
      let cbound := map remove_namespace (kid_names kids) in
      (* every attribute has a String field bound to its name *)
      forallb (fun b => existsb (fun f => str_eqb (bound f) b && is_string f) fs) abound
      (* every field not wrapped in Option is present in this occurrence *)
      && forallb (fun f => is_optional f || mem (bound f) abound || mem (bound f) cbound) fs
      (* a child field not wrapped in Vec occurs at most once *)
      && forallb (fun f => is_vec f || mem (bound f) abound || (count_local (bound f) kids <=? 1)%nat) fs
      (* character data only where there is a text field *)
      && (negb (has_chardata kids) || existsb (fun f => str_eqb (bound f) (text_identifier o)) fs)
      (* every child element has a field bound to its local name, and fits its type *)
      && (if ef then true else
         (fix go (ks : list node) : bool :=
            match ks with
            | [] => true
            | k :: r =>
                match k with
                | NElem m kef kattrs kkids =>
                    match find (fun f => str_eqb (bound f) (remove_namespace m)) fs with
                    | None => false
                    | Some f =>
                        match pf_ty f with
                        | TyString => is_nil kattrs && is_nil (kid_names (if kef then [] else kkids))
                        | TyStruct sn =>
                            match find_struct ps sn with
                            | Some sd' => admits_elem o ps sd' k
                            | None => false end
                        end
                    end
                | _ => true
                end && go r
            end) kids0)
  | _ => true
  end.
Definition admits_b (o : options) (ps : list pstruct) (top : list node) : bool :=
  match ps, doc_root top with
  | r :: _, Some nd => admits_elem o ps r nd
  | _, _ => false
  end.

(* hypothesis of C01: no two sibling element names and no two attribute names of one element
   (across all occurrences at a position) differ only by namespace prefix *)
Fixpoint clash_free_tree (e : element) : bool :=
  match e with
  | Elem _ _ _ _ at_ ch _ =>
      nodup_b str_eqb (map (fun a => if starts_with_xmlns (snd a) then snd a else remove_namespace (snd a)) at_)
      && nodup_b str_eqb (map (fun c => remove_namespace (ename (snd c))) ch)
      && (fix go (cs : list (nec * element)) : bool :=
            match cs with [] => true | c :: r => clash_free_tree (snd c) && go r end) ch
  end.

(* ---------- pairing nodes with their structs (pre-order, output order) ---------- *)
Fixpoint pair_go (e : element) (pth : list str) (ps : list pstruct) {struct e}
  : option (list (list str * element * pstruct) * list pstruct) :=
  match e with
  | Elem _ _ _ _ _ ch _ =>
      match ps with
      | [] => None
      | p :: rest =>
          let path1 := pth ++ [ename e] in
          (fix go (cs : list (nec * element)) (acc : list (list str * element * pstruct))
               (ps : list pstruct) {struct cs} :=
             match cs with
             | [] => Some (acc, ps)
             | c :: cs' =>
                 if contains_only_text (snd c) then go cs' acc ps
                 else match pair_go (snd c) path1 ps with
                      | Some (l, ps') => go cs' (acc ++ l) ps'
                      | None => None end
             end) ch [(path1, e, p)] rest
      end
  end.
Definition pair_structs (o : options) (e : element) (ps : list pstruct)
  : option (list (list str * element * pstruct)) :=
  match pair_go (sort_tree_by (order_of o) e) [] ps with Some (l, []) => Some l | _ => None end.

(* ---------- C14: struct names ---------- *)
Fixpoint is_prefix (a b : str) : option str :=      (* b = a ++ rest *)
  match a, b with
  | [], _ => Some b
  | x :: a', y :: b' => if x =? y then is_prefix a' b' else None
  | _ :: _, [] => None
  end.
Definition digits_only (x : str) : bool := forallb a_digit x.
Definition lastn {A} (m : nat) (l : list A) : list A := skipn (List.length l - m) l.
Definition shape_with (m : nat) (pth : list str) (name : str) : bool :=
  match is_prefix (List.concat (map to_pascal_case (lastn m pth))) name with
  | Some sfx => digits_only sfx
  | None => false end.
Definition shape_ok (pth : list str) (name : str) : bool :=
  existsb (fun m => shape_with m pth name) (seq 1 (List.length pth)).
Fixpoint count_formatted (x : str) (e : element) : nat :=
  match e with
  | Elem _ _ _ _ _ ch _ =>
      (if str_eqb (formatted_name e) x then 1 else 0)%nat
      + (fix go (cs : list (nec * element)) : nat :=
           match cs with [] => O | c :: r => (count_formatted x (snd c) + go r)%nat end) ch
  end.
Definition names_b (o : options) (e : element) (ps : list pstruct) : bool :=
  match pair_structs o e ps with
  | None => false
  | Some l =>
      forallb (fun '(pth, nd, p) =>
                 shape_ok pth (ps_name p)
                 && ((negb (count_formatted (formatted_name nd) e =? 1)%nat) || shape_with 1 pth (ps_name p))) l
      && match l, ps with
         | (_, _, p) :: _, q :: _ => str_eqb (ps_name p) (ps_name q) && shape_with 1 [ename e] (ps_name q)
         | _, _ => false end
  end.

(* ---------- C09: switching the sort option changes nothing but orders ---------- *)
Definition same_fields (a b : list pfield) : bool :=
  (List.length a =? List.length b)%nat
  && forallb (fun f => existsb (pfield_eqb f) b) a && forallb (fun f => existsb (pfield_eqb f) a) b.
Definition only_order_b (a b : list pstruct) : bool :=
  (List.length a =? List.length b)%nat
  && forallb (fun p => existsb (fun q => str_eqb (ps_name p) (ps_name q)
                                        && option_eqb str_eqb (ps_derive p) (ps_derive q)
                                        && same_fields (ps_fields p) (ps_fields q)) b) a.
Definition sorted_b (l : list str) : bool :=
  (fix go (l : list str) : bool :=
     match l with
     | x :: ((y :: _) as r) => str_ltb x y && go r
     | _ => true end) l.

(* ---------- C10 ---------- *)
Definition derive_b (o : options) (ps : list pstruct) : bool :=
  forallb (fun p => option_eqb str_eqb (ps_derive p) (if is_nil (derive o) then None else Some (derive o))) ps.
(* what must not depend on prefix / text identifier / derive / preset *)
Definition erase_bindings (ps : list pstruct) : list (str * list (str * wrap * tyname)) :=
  map (fun p => (ps_name p, map (fun f => (pf_ident f, pf_wrap f, pf_ty f)) (ps_fields p))) ps.
Definition erased_eqb (a b : list (str * list (str * wrap * tyname))) : bool :=
  list_eqb (fun x y => str_eqb (fst x) (fst y)
                       && list_eqb (fun f g => str_eqb (fst (fst f)) (fst (fst g))
                                               && wrap_eqb (snd (fst f)) (snd (fst g))
                                               && ty_eqb (snd f) (snd g)) (snd x) (snd y)) a b.
