From XSG.Model Require Import Strings Chars.
From XSG.Corr Require Import Common.
Record charcase := CC { cc_c : N; cc_alnum : bool; cc_upper : bool; cc_to_upper : str; cc_to_lower : str;
                        cc_xs : bool; cc_xc : bool }.
Definition char_ok (x : charcase) : bool :=
  let c := cc_c x in
  Bool.eqb (is_alphanumeric c) (cc_alnum x) && Bool.eqb (is_uppercase c) (cc_upper x)
  && str_eqb (to_uppercase c) (cc_to_upper x) && str_eqb (to_lowercase c) (cc_to_lower x)
  && Bool.eqb (xid_start c) (cc_xs x) && Bool.eqb (xid_continue c) (cc_xc x) && in_sigma c.
Definition char_show (x : charcase) :=
  let c := cc_c x in (is_alphanumeric c, is_uppercase c, to_uppercase c, to_lowercase c, xid_start c, xid_continue c).
