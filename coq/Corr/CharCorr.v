From XSG.Model Require Import Strings Chars.
From XSG.Corr Require Import Common.
Record charcase := CC { cc_c : N; cc_alnum : bool; cc_upper : bool; cc_to_upper : str; cc_to_lower : str;
                        cc_xs : bool; cc_xc : bool }.
Definition char_ok (x : charcase) : bool :=
  let c := cc_c x in
  Bool.eqb (is_alphanumeric c) (cc_alnum x) && Bool.eqb (is_uppercase c) (cc_upper x)
  && str_eqb (to_uppercase c) (cc_to_upper x) && str_eqb (to_lowercase c) (cc_to_lower x)
  && Bool.eqb (xid_start c) (cc_xs x) && Bool.eqb (xid_continue c) (cc_xc x) && in_sigma c.
Definition char_show (x : charcase) :=
  let c := cc_c x in (is_alphanumeric c, is_uppercase c, to_uppercase c, to_lowercase c, xid_start c, xid_continue c).

(* convert_string called directly *)
From XSG.Model Require Import Convert.
Record convcase := CV { cv_word : str; cv_prefix : str; cv_pascal : str; cv_snake : str; cv_valid : str;
                        cv_nons : str; cv_kw : bool }.
Definition convert_ok (x : convcase) : bool :=
  str_eqb (to_pascal_case (cv_word x)) (cv_pascal x) && str_eqb (to_snake_case (cv_word x)) (cv_snake x)
  && str_eqb (to_valid_key (cv_word x) (cv_prefix x)) (cv_valid x)
  && str_eqb (remove_namespace (cv_word x)) (cv_nons x) && Bool.eqb (is_keyword (cv_word x)) (cv_kw x).
Definition convert_show (x : convcase) :=
  (to_pascal_case (cv_word x), to_snake_case (cv_word x), to_valid_key (cv_word x) (cv_prefix x),
   remove_namespace (cv_word x), is_keyword (cv_word x)).
