(* Correspondence of the byte-level lexer (Model/Lexer.v) with quick_xml's reader: cases written
   by the harness (harness/src/lex.rs) hold a byte string and the events the real reader delivered
   for it (error payloads reduced to their kind, UTF-8 errors to id 0): in its default configuration
   from the slice, with expand_empty_elements, and through a BufReader of a small capacity.
   Evaluated with vm_compute; nothing here is used by a theorem. *)
From XSG.Model Require Import Strings Necessity Element Parser Dom Lexer.
From XSG.Corr Require Import Common CoreCorr.
From XSG.Proofs Require Import ParserFaults SkelProofs LexerExpand.

Definition lexcase := (list N * list event * list event * list event)%type.
Definition lc_bytes (c : lexcase) := fst (fst (fst c)).
Definition lc_events (c : lexcase) := snd (fst (fst c)).
Definition lc_expanded (c : lexcase) := snd (fst c).
Definition lc_buffered (c : lexcase) := snd c.
Definition ev_lex (c : lexcase) : bool := list_eqb event_eqb (lex (lc_bytes c)) (lc_events c).
(* the reader with expand_empty_elements delivers `expand` (Proofs/SkelProofs.v, the function
   C11_expand_empty is about) of what the default reader delivers *)
Definition ev_lex_expand (c : lexcase) : bool :=
  list_eqb event_eqb (lex_expanded (lc_bytes c)) (lc_expanded c).
(* a BufReader of any capacity delivers what the slice delivers *)
Definition ev_lex_buf (c : lexcase) : bool := list_eqb event_eqb (lex (lc_bytes c)) (lc_buffered c).
(* what Properties/Lexer.v proves of `lex`, checked on the REAL reader's stream: it never
   delivers an end tag that closes nothing (the hypothesis of C08_parse_err_iff) *)
Definition or_stream (c : lexcase) : bool := no_stray_end_strict 0 (lc_events c).
Definition show_lex (c : lexcase) := (lex (lc_bytes c), lc_events c, lc_expanded c, lc_buffered c).
