(* Correspondence of the byte-level lexer (Model/Lexer.v) with quick_xml's reader: cases written
   by the harness (harness/src/lex.rs) hold a byte string and the events the real reader, in its
   default configuration, delivered for it (error payloads reduced to their kind, UTF-8 errors to
   id 0).  Evaluated with vm_compute; nothing here is used by a theorem. *)
From XSG.Model Require Import Strings Necessity Element Parser Lexer.
From XSG.Corr Require Import Common CoreCorr.
From XSG.Proofs Require Import ParserFaults.

Definition lexcase := (list N * list event)%type.
Definition ev_lex (c : lexcase) : bool := list_eqb event_eqb (lex (fst c)) (snd c).
(* what Properties/Lexer.v proves of `lex`, checked on the REAL reader's stream: it never
   delivers an end tag that closes nothing (the hypothesis of C08_parse_err_iff) *)
Definition or_stream (c : lexcase) : bool := no_stray_end_strict 0 (snd c).
Definition show_lex (c : lexcase) := (lex (fst c), snd c).
