(* Correspondence check, shared helpers: evaluated with vm_compute on case files written by
   the harness. Nothing here is used by a theorem. *)
From XSG.Model Require Import Strings Necessity.

Fixpoint failing_from {A} (i : N) (f : A -> bool) (l : list A) : list N :=
  match l with
  | [] => []
  | x :: r => if f x then failing_from (i + 1) f r else i :: failing_from (i + 1) f r
  end.
Definition failing {A} (f : A -> bool) (l : list A) : list N := failing_from 0 f l.

Fixpoint list_eqb {A} (eqb : A -> A -> bool) (a b : list A) : bool :=
  match a, b with
  | [], [] => true
  | x :: a', y :: b' => eqb x y && list_eqb eqb a' b'
  | _, _ => false
  end.
Definition option_eqb {A} (eqb : A -> A -> bool) (a b : option A) : bool :=
  match a, b with
  | None, None => true
  | Some x, Some y => eqb x y
  | _, _ => false
  end.
Definition tagged_eqb {A} (eqb : A -> A -> bool) (a b : nec * A) : bool :=
  nec_eqb (fst a) (fst b) && eqb (snd a) (snd b).
Fixpoint nodup_b {A} (eqb : A -> A -> bool) (l : list A) : bool :=
  match l with [] => true | x :: r => negb (existsb (eqb x) r) && nodup_b eqb r end.
