From XSG.Model Require Import Strings Necessity.
From XSG.Corr Require Import Common.

Section C15.
  Context {A : Type} (eqb : A -> A -> bool).
  Record c15case := { c_v : list (nec * A); c_o : list (nec * A); c_impl : list (nec * A) }.

  (* correspondence: the model function returns what the implementation returned *)
  Definition c15_corr (c : c15case) : bool :=
    list_eqb (tagged_eqb eqb) (merge_necessity eqb (c_v c) (c_o c)) (c_impl c).

  (* the same when the items' equality is coarser than identity (a key with a payload): the
     merge runs on `eqb`, the results are compared with the full equality — which of two equal
     items survives is part of the behaviour *)
  Definition c15_corr2 (full : A -> A -> bool) (c : c15case) : bool :=
    list_eqb (tagged_eqb full) (merge_necessity eqb (c_v c) (c_o c)) (c_impl c).

  (* oracle: the property itself, as a boolean, on the implementation's output; only
     meaningful when both inputs are duplicate-free (else vacuously true) *)
  Definition mem_item (x : A) (l : list (nec * A)) := existsb (fun it => eqb (snd it) x) l.
  Definition has (t : nec) (x : A) (l : list (nec * A)) :=
    existsb (fun it => nec_eqb (fst it) t && eqb (snd it) x) l.
  Definition c15_oracle (c : c15case) : bool :=
    let v := c_v c in let o := c_o c in let r := c_impl c in
    if nodup_b eqb (map snd v) && nodup_b eqb (map snd o) then
      (* order + union + once: items = items v ++ second-only items in original order *)
      list_eqb eqb (map snd r)
               (map snd v ++ filter (fun y => negb (mem_item y v)) (map snd o))
      (* mandatory iff mandatory in both *)
      && forallb (fun it => nec_eqb (fst it)
                              (if has Mand (snd it) v && has Mand (snd it) o then Mand else Opt)) r
    else true.
  Definition c15_in_hyp (c : c15case) : bool :=
    nodup_b eqb (map snd (c_v c)) && nodup_b eqb (map snd (c_o c)).
End C15.
Arguments Build_c15case {A}.
Definition key_eqb (a b : N * N) : bool := N.eqb (fst a) (fst b).
Definition pair_eqb (a b : N * N) : bool := N.eqb (fst a) (fst b) && N.eqb (snd a) (snd b).
