From XSG.Model Require Import Strings Necessity Element Parser Render Cli.
From XSG.Corr Require Import Common Oracles CoreCorr.
From Coq Require Import String Uint63.

(* what one run of the built binary was observed to do *)
Record cli_obs := {
  ob_exit : N;
  ob_stdout : option int;        (* None = empty, Some h = hash of the bytes *)
  ob_stderr_nonempty : bool;
  ob_file : option (option int)  (* None = output path untouched (absent, or sentinel content intact);
                                    Some None = exists and empty; Some (Some h) = hash of its content *)
}.
Record clicase := { cl_args : args; cl_read : read_result; cl_create_ok : bool; cl_obs : cli_obs }.

Definition opt_int_eqb (a b : option int) : bool := option_eqb (fun x y => (x =? y)%uint63) a b.
Definition hash_or_empty (t : str) : option int := if is_nil t then None else Some (hash63 t).

Definition expected_obs (c : clicase) : cli_obs :=
  let '(effs, code) := cli_run (cl_args c) (cl_read c) (cl_create_ok c) in
  {| ob_exit := code;
     ob_stdout := hash_or_empty (flat_map (fun e => match e with Stdout t => t | _ => [] end) effs);
     ob_stderr_nonempty := existsb (fun e => match e with Stderr => true | _ => false end) effs;
     ob_file := if existsb (fun e => match e with CreateTruncate => true | _ => false end) effs
                then Some (hash_or_empty (flat_map (fun e => match e with WriteFile t => t | _ => [] end) effs))
                else None |}.
Definition obs_eqb (a b : cli_obs) : bool :=
  (ob_exit a =? ob_exit b) && opt_int_eqb (ob_stdout a) (ob_stdout b)
  && ((ob_exit a =? 0) || Bool.eqb (ob_stderr_nonempty a) (ob_stderr_nonempty b))
  && option_eqb opt_int_eqb (ob_file a) (ob_file b).
Definition ev_cli (c : clicase) : bool := obs_eqb (expected_obs c) (cl_obs c).
Definition show_cli (c : clicase) := (expected_obs c, cli_run (cl_args c) (cl_read c) (cl_create_ok c)).
