From XSG.Model Require Import Strings Necessity Element Parser Render Cli.
From XSG.Corr Require Import Common Oracles CoreCorr.
From Coq Require Import String Uint63.

(* what one run of the built binary was observed to do *)
Record cli_obs := {
  ob_exit : N;
  ob_stdout : option int;        (* None = empty, Some h = hash of the bytes *)
  ob_stderr_nonempty : bool;
  ob_file : option (option int)  (* None = output path untouched (absent, or sentinel content intact);
                                    Some None = exists and empty; Some (Some h) = hash of its content *)
}.
Record clicase := { cl_args : args; cl_read : read_result; cl_create_ok : bool; cl_obs : cli_obs }.

Definition opt_int_eqb (a b : option int) : bool := option_eqb (fun x y => (x =? y)%uint63) a b.
Definition hash_or_empty (t : str) : option int := if is_nil t then None else Some (hash63 t).

Definition expected_obs (c : clicase) : cli_obs :=
  let '(effs, code) := cli_run (cl_args c) (cl_read c) (cl_create_ok c) in
  {| ob_exit := code;
     ob_stdout := hash_or_empty (flat_map (fun e => match e with Stdout t => t | _ => [] end) effs);
     ob_stderr_nonempty := existsb (fun e => match e with Stderr => true | _ => false end) effs;
     ob_file := if existsb (fun e => match e with CreateTruncate => true | _ => false end) effs
                then Some (hash_or_empty (flat_map (fun e => match e with WriteFile t => t | _ => [] end) effs))
                else None |}.
Definition obs_eqb (a b : cli_obs) : bool :=
  (ob_exit a =? ob_exit b) && opt_int_eqb (ob_stdout a) (ob_stdout b)
  && ((ob_exit a =? 0) || Bool.eqb (ob_stderr_nonempty a) (ob_stderr_nonempty b))
  && option_eqb opt_int_eqb (ob_file a) (ob_file b).
(* the character tables are claimed faithful on Sigma only: when the inferred tree has a name outside
   Sigma the text itself is not compared (the harness compares it with the library's own rendering),
   only exit status, stderr and where the text went *)
Definition presence (o : option int) : option int := match o with Some _ => Some 0%uint63 | None => None end.
Definition coarse (o : cli_obs) : cli_obs :=
  {| ob_exit := ob_exit o; ob_stdout := presence (ob_stdout o); ob_stderr_nonempty := ob_stderr_nonempty o;
     ob_file := option_map presence (ob_file o) |}.
Definition cli_in_sigma (c : clicase) : bool :=
  match cl_read c with
  | RText evs => match into_struct_ev evs with Ok e => tree_in_sigma e | _ => true end
  | RFail => true
  end.
Definition ev_cli (c : clicase) : bool :=
  if cli_in_sigma c then obs_eqb (expected_obs c) (cl_obs c)
  else obs_eqb (coarse (expected_obs c)) (coarse (cl_obs c)).
Definition show_cli (c : clicase) := (expected_obs c, cli_run (cl_args c) (cl_read c) (cl_create_ok c)).
