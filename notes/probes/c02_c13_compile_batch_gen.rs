use quick_xml::reader::Reader;
use xml_schema_generator::{extend_struct, into_struct, Options};
#[derive(Clone, Debug)]
enum Item { E(Tree), T(String), C(String), O }
#[derive(Clone, Debug)]
struct Tree { name: String, attrs: Vec<(String,String)>, items: Vec<Item>, empty: bool }
struct Rng(u64);
impl Rng { fn next(&mut self) -> u64 { self.0 ^= self.0 << 13; self.0 ^= self.0 >> 7; self.0 ^= self.0 << 17; self.0 }
  fn below(&mut self, n: u64) -> u64 { (self.next() >> 11) % n } }
const NAMES: [&str; 30] = ["a", "b", "a-b", "a_b", "A.B", "type", "Foo", "foo", "FOO", "self", "Self", "string", "String", "option", "vec", "Total", "Price", "TotalPrice", "text", "text_content", "x_attr", "ns:item", "p:Foo", "loop", "crate", "h1", "Классификатор", "Straße", "İd", "r"];
const ANAMES: [&str; 14] = ["x", "y", "X", "type", "a", "text", "xmlns", "xmlns:p", "p:k", "xml:lang", "a_attr", "self", "Ид", "a-b"];
fn local(n: &str) -> &str { match n.find(':') { Some(i) => &n[i+1..], None => n } }
fn gen_tree(r: &mut Rng, name: &str, depth: u32, ctr: &mut u32) -> Tree {
    let sx = std::env::args().nth(1).as_deref() == Some("s");
    let mut attrs: Vec<(String,String)> = vec![];
    for _ in 0..r.below(4) { let a = ANAMES[r.below(ANAMES.len() as u64) as usize]; if sx && (a.contains(':') || a.starts_with("xmlns")) { continue; }
        if !attrs.iter().any(|(k,_)| local(k) == local(a)) { *ctr += 1; attrs.push((a.to_string(), format!("av{}&amp;", ctr))); } }
    let mut items = vec![];
    let mode = r.below(3); // 0: text only, 1: children only (with whitespace), 2: empty
    if mode == 0 || depth == 0 { if r.below(4) != 0 { *ctr += 1; if r.below(3)==0 { items.push(Item::C(format!("cd{}", ctr))); } else { items.push(Item::T(format!(" tx{} &lt; ", ctr))); } } }
    else if mode == 1 {
        let n = 1 + r.below(5);
        let mut used: Vec<String> = vec![];
        for _ in 0..n {
            let nm = NAMES[r.below(NAMES.len() as u64) as usize]; if sx && (nm.contains(':') || attrs.iter().any(|(k,_)| k == nm)) { continue; }
            // avoid local-name clash with different full name
            if used.iter().any(|u| local(u) == local(nm) && u != nm) { continue; }
            used.push(nm.to_string());
            if r.below(3) == 0 { items.push(Item::T("\n  ".into())); }
            if r.below(6) == 0 { items.push(Item::O); }
            items.push(Item::E(gen_tree(r, nm, depth - 1, ctr)));
        }
    }
    if sx { // make repeated children adjacent
        let mut order: Vec<String> = vec![]; for i in &items { if let Item::E(c) = i { if !order.contains(&c.name) { order.push(c.name.clone()); } } }
        let mut ni = vec![]; for n in order { for i in &items { if let Item::E(c) = i { if c.name == n { ni.push(i.clone()); } } } } items = if ni.is_empty() { items } else { ni };
    }
    let empty = items.is_empty() && r.below(2) == 0;
    Tree { name: name.to_string(), attrs, items, empty }
}
fn ser(t: &Tree, out: &mut String) {
    out.push('<'); out.push_str(&t.name);
    for (a,v) in &t.attrs { out.push_str(&format!(" {}=\"{}\"", a, v)); }
    if t.empty { out.push_str("/>"); return; }
    out.push('>');
    for i in &t.items { match i {
        Item::E(c) => ser(c, out), Item::T(s) => out.push_str(s), Item::C(s) => out.push_str(&format!("<![CDATA[{}]]>", s)), Item::O => out.push_str("<!--o-->"), } }
    out.push_str("</"); out.push_str(&t.name); out.push('>');
}
fn values(t: &Tree, out: &mut Vec<String>) {
    for (_,v) in &t.attrs { out.push(v.replace("&amp;", "&")); }
    for i in &t.items { match i { Item::E(c) => values(c, out), Item::T(s) => { let s = s.trim().replace("&lt;", "<"); if !s.is_empty() { out.push(s) } }, Item::C(s) => out.push(s.clone()), _ => {} } }
}
fn root_name(s: &str) -> String { let i = s.find("pub struct ").unwrap() + 11; let j = s[i..].find(' ').unwrap() + i; s[i..j].to_string() }
fn main() {
    let preset = std::env::args().nth(1).unwrap_or("q".into());
    let mut r = Rng(0xABCDEF12345);
    let mut out = String::new(); let mut calls = String::new();
    for i in 0..250 {
        let k = 1 + r.below(3) as usize; let mut ctr = 0;
        let docs: Vec<Tree> = (0..k).map(|_| gen_tree(&mut r, "root-el", 3, &mut ctr)).collect();
        let xmls: Vec<String> = docs.iter().map(|d| { let mut s = String::new(); ser(d, &mut s); s }).collect();
        let mut root = into_struct(&mut Reader::from_str(&xmls[0])).expect("parse");
        for d in &xmls[1..] { root = extend_struct(&mut Reader::from_str(d), root).expect("extend"); }
        let o = if preset == "q" { Options::quick_xml_de() } else { Options::serde_xml_rs() }.derive("Debug, Deserialize");
        let code = root.to_serde_struct(&o).replace("#[derive(Debug, Deserialize)]\n", "#[derive(Debug, Deserialize)]\n#[serde(deny_unknown_fields)]\n");
        let rn = root_name(&code);
        out.push_str(&format!("pub mod m{} {{\nuse serde_derive::Deserialize;\n{}\n}}\n", i, code));
        for (d, t) in xmls.iter().zip(docs.iter()) {
            let mut vals = vec![]; values(t, &mut vals);
            let f = if preset == "q" { "quick_xml::de::from_str" } else { "serde_xml_rs::from_str" };
            calls.push_str(&format!("    chk({}, {:?}, {}::<m{}::{}>({:?}).map(|v| format!(\"{{:?}}\", v)).map_err(|e| e.to_string()), &{:?});\n", i, d, f, i, rn, d, vals));
        }
    }
    println!("#![allow(warnings)]\n{}\nfn chk(i: usize, d: &str, r: Result<String,String>, vals: &[&str]) {{ match r {{ Err(e) => println!(\"FAIL m{{}} {{}} :: {{}}\", i, e, d), Ok(s) => {{ for v in vals {{ let dv = format!(\"{{:?}}\", v); if !s.contains(&dv[1..dv.len()-1]) {{ println!(\"DROP m{{}} {{}} missing in {{}} :: {{}}\", i, v, s, d); break; }} }} }} }} }}\nfn main() {{\n{}println!(\"done\");}}", out, calls);
}
