fn main() {
    let mut alnum_ranges = 0; let mut upper_ranges = 0; let mut up_map = 0; let mut lo_map = 0; let mut up_multi=0; let mut lo_multi=0;
    let mut pa = false; let mut pu = false;
    let mut alnum_not_xid = 0u32;
    for cp in 0u32..0x110000 {
        let c = match char::from_u32(cp) { Some(c) => c, None => { pa=false; pu=false; continue } };
        let a = c.is_alphanumeric(); let u = c.is_uppercase();
        if a && !pa { alnum_ranges += 1; } if u && !pu { upper_ranges += 1; }
        pa = a; pu = u;
        let up: Vec<char> = c.to_uppercase().collect(); let lo: Vec<char> = c.to_lowercase().collect();
        if up != vec![c] { up_map += 1; if up.len()>1 { up_multi+=1; } }
        if lo != vec![c] { lo_map += 1; if lo.len()>1 { lo_multi+=1; } }
        let _ = &mut alnum_not_xid;
    }
    println!("alnum_ranges={} upper_ranges={} up_map={} (multi {}) lo_map={} (multi {})", alnum_ranges, upper_ranges, up_map, up_multi, lo_map, lo_multi);
    // below 0x530
    let mut n=0; for cp in 0x80u32..0x530 { if let Some(c)=char::from_u32(cp){ if c.is_alphanumeric(){n+=1;} } } println!("alnum in 0x80..0x530: {}", n);
}
