use quick_xml::reader::Reader;
use xml_schema_generator::{extend_struct, into_struct, Options, SortBy};
#[derive(Clone, Debug)]
enum Item { E(Tree), T, C, O }
#[derive(Clone, Debug)]
struct Tree { name: String, attrs: Vec<String>, items: Vec<Item>, empty: bool }
struct Rng(u64);
impl Rng { fn next(&mut self) -> u64 { self.0 ^= self.0 << 13; self.0 ^= self.0 >> 7; self.0 ^= self.0 << 17; self.0 }
  fn below(&mut self, n: u64) -> u64 { (self.next() >> 11) % n } }
const NAMES: [&str; 12] = ["a", "b", "a-b", "a_b", "A.B", "type", "Foo", "foo", "ns:item", "text", "x_attr", "TotalPrice"];
const ANAMES: [&str; 9] = ["x", "y", "X", "type", "a", "text", "xmlns:p", "p:k", "x_attr"];
fn gen_tree(r: &mut Rng, name: &str, depth: u32) -> Tree {
    let mut attrs: Vec<String> = vec![];
    for a in ANAMES { if r.below(4) == 0 { attrs.push(a.to_string()); } }
    if attrs.len() > 1 { let k = r.below(attrs.len() as u64) as usize; attrs.rotate_left(k); }
    let mut items = vec![];
    let n = if depth == 0 { 0 } else { r.below(5) };
    for _ in 0..n { match r.below(8) { 0 => items.push(Item::T), 1 => items.push(Item::C), 2 => items.push(Item::O),
        _ => { let nm = NAMES[r.below(NAMES.len() as u64) as usize]; items.push(Item::E(gen_tree(r, nm, depth - 1))); } } }
    let empty = items.is_empty() && r.below(2) == 0;
    Tree { name: name.to_string(), attrs, items, empty }
}
fn ser(t: &Tree, out: &mut String) {
    out.push('<'); out.push_str(&t.name);
    for a in &t.attrs { out.push_str(&format!(" {}=\"v\"", a)); }
    if t.empty { out.push_str("/>"); return; }
    out.push('>');
    let mut last_text = false;
    for i in &t.items { match i {
        Item::E(c) => { ser(c, out); last_text = false; }
        Item::T => { if last_text { out.push_str("<!--s-->"); } out.push_str("t"); last_text = true; }
        Item::C => { out.push_str("<![CDATA[c]]>"); last_text = false; }
        Item::O => { out.push_str("<!--o-->"); }
    } }
    out.push_str("</"); out.push_str(&t.name); out.push('>');
}
fn coq(t: &Tree, out: &mut String) {
    out.push_str(&format!("NElem (s \"{}\") {} [{}] [", t.name, t.empty, t.attrs.iter().map(|a| format!("s \"{}\"", a)).collect::<Vec<_>>().join("; ")));
    let mut first = true;
    for i in &t.items { if !first { out.push_str("; "); } first = false; match i { Item::E(c) => coq(c, out), Item::T => out.push_str("NText"), Item::C => out.push_str("NCData"), Item::O => out.push_str("NMisc") } }
    out.push(']');
}
fn main() {
    let mut r = Rng(0x5151_7777);
    println!("Require Import Pipeline. Import ListNotations. Open Scope string_scope. Open Scope list_scope.\nDefinition cases : list (list node * bool * string) := [");
    let n = 400;
    for it in 0..n {
        let k = 1 + r.below(3) as usize;
        let docs: Vec<Tree> = (0..k).map(|_| gen_tree(&mut r, "r", 3)).collect();
        let xmls: Vec<String> = docs.iter().map(|d| { let mut s = String::new(); ser(d, &mut s); s }).collect();
        let mut root = into_struct(&mut Reader::from_str(&xmls[0])).expect("parse");
        for d in &xmls[1..] { root = extend_struct(&mut Reader::from_str(d), root).expect("extend"); }
        let sorted = r.below(2) == 0;
        let mut o = Options::quick_xml_de(); if sorted { o.sort = SortBy::XmlName; }
        let out = root.to_serde_struct(&o);
        let mut ds = String::new();
        for (i, d) in docs.iter().enumerate() { if i > 0 { ds.push_str("; "); } coq(d, &mut ds); }
        println!("  ([{}], {}, \"{}\"){}", ds, sorted, out.replace('"', "\"\""), if it + 1 < n { ";" } else { "" });
    }
    println!("].");
    println!("Eval vm_compute in (List.length cases, failing cases).");
}
