From Coq Require Import List NArith Bool Arith Lia.
Import ListNotations.
Open Scope N_scope.

(* names: abstract with decidable equality; here N for the sketch *)
Definition name := N.
Definition name_eqb := N.eqb.

Inductive nec := Opt | Mand.
Definition nec_eqb a b := match a, b with Opt, Opt | Mand, Mand => true | _, _ => false end.

(* merge_necessity, post-F1 (no rev) *)
Fixpoint find_nec (x : name) (l : list (nec * name)) : option nec :=
  match l with [] => None | (n, y) :: r => if name_eqb x y then Some n else find_nec x r end.
Definition merge_first (v other : list (nec * name)) : list (nec * name) :=
  map (fun it => match find_nec (snd it) other with
                 | Some Mand => (match fst it with Mand => Mand | Opt => Opt end, snd it)
                 | _ => (Opt, snd it) end) v.
Fixpoint merge_second (res other : list (nec * name)) : list (nec * name) :=
  match other with
  | [] => res
  | (_, y) :: r => match find_nec y res with
                   | Some _ => merge_second res r
                   | None => merge_second (res ++ [(Opt, y)]) r end
  end.
Definition merge_necessity v other := merge_second (merge_first v other) other.

Inductive element := Elem (ename : name) (etext : bool) (standalone : bool) (count : N)
                          (attrs : list (nec * name)) (children : list (nec * element)) (pos : option nat).
Definition ename e := match e with Elem n _ _ _ _ _ _ => n end.
Definition etext e := match e with Elem _ t _ _ _ _ _ => t end.
Definition estandalone e := match e with Elem _ _ s _ _ _ _ => s end.
Definition ecount e := match e with Elem _ _ _ c _ _ _ => c end.
Definition eattrs e := match e with Elem _ _ _ _ a _ _ => a end.
Definition echildren e := match e with Elem _ _ _ _ _ c _ => c end.
Definition epos e := match e with Elem _ _ _ _ _ _ p => p end.
Definition set_children e c := match e with Elem n t s k a _ p => Elem n t s k a c p end.
Definition set_text e := match e with Elem n _ s k a c p => Elem n true s k a c p end.
Definition set_multiple e := match e with Elem n t _ k a c p => Elem n t false k a c p end.
Definition increment e := match e with Elem n t s k a c p => Elem n t s (k + 1) a c p end.
Definition set_pos e p := match e with Elem n t s k a c _ => Elem n t s k a c p end.
Definition merge_attr e l := match e with Elem n t s k a c p => Elem n t s k (merge_necessity a l) c p end.
Definition new_element n (a : list name) := Elem n false true 1 (map (fun x => (Mand, x)) a) [] None.

Fixpoint get_child (l : list (nec * element)) (n : name) : option (nec * element) :=
  match l with [] => None | c :: r => if name_eqb (ename (snd c)) n then Some c else get_child r n end.
Fixpoint remove_child (l : list (nec * element)) (n : name) : option (nec * element) * list (nec * element) :=
  match l with
  | [] => (None, [])
  | c :: r => if name_eqb (ename (snd c)) n then (Some c, r)
              else let (f, r') := remove_child r n in (f, c :: r') end.
(* post-F3 *)
Definition add_unique_child (e child : element) : element :=
  match get_child (echildren e) (ename child) with
  | Some _ => e
  | None => let child' := match epos child with None => set_pos child (Some (length (echildren e))) | Some _ => child end in
            set_children e (echildren e ++ [(Mand, child')]) end.
Definition set_child_optional (e : element) (n : name) : element :=
  match remove_child (echildren e) n with
  | (Some c, r) => set_children e (r ++ [(Opt, snd c)])   (* add_unique: cannot be contained *)
  | (None, _) => e end.

(* DOM *)
Inductive node := NElem (n : name) (emptyform : bool) (attrs : list name) (kids : list node) | NText | NCData | NMisc.

Definition snapshot (tag : option (nec * element)) : list (name * N) * bool :=
  match tag with
  | None => ([], false)
  | Some c => (flat_map (fun ch => match fst ch with Mand => [(ename (snd ch), ecount (snd ch))] | Opt => [] end) (echildren (snd c)), true)
  end.
Fixpoint assoc (n : name) (l : list (name * N)) : option N :=
  match l with [] => None | (k, v) :: r => if name_eqb k n then Some v else assoc n r end.
(* post-F2 *)
Definition to_optional (parent : element) (cc : list (name * N)) : list name :=
  flat_map (fun ch => match assoc (ename (snd ch)) cc with
                      | Some k => if k =? ecount (snd ch) then [ename (snd ch)] else []
                      | None => [] end) (echildren parent)
  ++ flat_map (fun ch => match fst ch with
                         | Mand => match assoc (ename (snd ch)) cc with None => [ename (snd ch)] | Some _ => [] end
                         | Opt => [] end) (echildren parent).
Definition update_child (root : element) (n : name) (f : element -> element) : element :=
  set_children root (map (fun c => if name_eqb (ename (snd c)) n then (fst c, f (snd c)) else c) (echildren root)).
  (* get_child_mut finds the FIRST; names unique under invariant *)
Definition tag_optional_children (root : element) (n : name) (cc : list (name * N)) : element :=
  match get_child (echildren root) n with
  | None => root
  | Some c =>
      let todo := rev (to_optional (snd c) cc) in   (* pop from the end *)
      update_child root n (fun p => fold_left set_child_optional todo p)
  end.
Definition mem (n : name) (l : list name) := existsb (name_eqb n) l.

Fixpoint absorb (nd : node) (root : element) (known : list name) {struct nd} : element * list name :=
  match nd with
  | NText | NCData => (set_text root, known)
  | NMisc => (root, known)
  | NElem n ef attrs kids =>
      let go := fix go (ks : list node) (r : element) (kn : list name) {struct ks} : element :=
                  match ks with [] => r | k :: ks' => let (r', kn') := absorb k r kn in go ks' r' kn' end in
      let (cc, chk) := snapshot (get_child (echildren root) n) in
      let (found, rest) := remove_child (echildren root) n in
      let root1 := set_children root rest in
      let new_child :=
        match found with
        | Some c =>
            let c1 := merge_attr (snd c) (map (fun a => (Mand, a)) attrs) in
            let c2 := if mem n known then set_multiple c1 else c1 in
            let c3 := increment c2 in
            if ef then c3 else go kids c3 []
        | None =>
            let c1 := new_element n attrs in
            let c2 := if mem n known then set_multiple c1 else c1 in
            if ef then c2 else go kids c2 []
        end in
      let known' := if mem n known then known else known ++ [n] in
      let root2 := add_unique_child root1 new_child in
      let root3 := if ef then tag_optional_children root2 n []
                   else if chk then tag_optional_children root2 n cc else root2 in
      (root3, known')
  end.

Definition wrapper := new_element 0 [].
Definition parse_doc (wr : element) (top : list node) : element :=
  (fix go (ks : list node) (r : element) (kn : list name) {struct ks} : element :=
     match ks with [] => r | k :: ks' => let (r', kn') := absorb k r kn in go ks' r' kn' end) top wr [].
Definition first_child (e : element) : option element :=
  match echildren e with [] => None | c :: _ => Some (snd c) end.
Definition into_struct (top : list node) : option element := first_child (parse_doc wrapper top).
Definition extend_struct (root : element) (top : list node) : option element :=
  first_child (parse_doc (add_unique_child wrapper root) top).

