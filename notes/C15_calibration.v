From Coq Require Import List Bool Lia.
Import ListNotations.
Section Merge.
Variable A : Type.
Variable eqb : A -> A -> bool.
Hypothesis eqb_spec : forall x y, reflect (x = y) (eqb x y).
Inductive nec := Opt | Mand.
Definition item := (nec * A)%type.
Definition items (l : list item) := map snd l.
Fixpoint find_nec (x : A) (l : list item) : option nec :=
  match l with [] => None | (n, y) :: r => if eqb y x then Some n else find_nec x r end.
Definition conj_tag (it : item) (o : list item) : nec :=
  match find_nec (snd it) o, fst it with Some Mand, Mand => Mand | _, _ => Opt end.
Definition merge_first (v o : list item) := map (fun it => (conj_tag it o, snd it)) v.
Fixpoint merge_second (res o : list item) : list item :=
  match o with
  | [] => res
  | (_, y) :: r => match find_nec y res with Some _ => merge_second res r | None => merge_second (res ++ [(Opt, y)]) r end
  end.
Definition merge v o := merge_second (merge_first v o) o.
Definition mem x l := existsb (eqb x) l.

Lemma find_nec_none x l : find_nec x l = None <-> ~ In x (items l).
Proof. induction l as [|[n y] l IH]; simpl; [tauto|]. destruct (eqb_spec y x) as [e|ne].
  - split; [discriminate| intros H; exfalso; apply H; auto].
  - rewrite IH. tauto. Qed.
Lemma mem_spec x l : mem x l = true <-> In x l.
Proof. unfold mem. rewrite existsb_exists. split; [intros [y [H1 H2]]; destruct (eqb_spec x y); congruence| intros; exists x; split; auto; destruct (eqb_spec x x); congruence]. Qed.
Lemma items_app a b : items (a ++ b) = items a ++ items b. Proof. apply map_app. Qed.

Lemma merge_second_spec : forall o res, NoDup (items o) ->
  merge_second res o = res ++ map (pair Opt) (filter (fun y => negb (mem y (items res))) (items o)).
Proof.
  induction o as [|[n y] o IH]; intros res Hnd; simpl; [now rewrite app_nil_r|].
  inversion Hnd as [|? ? Hy Hnd']; subst.
  destruct (find_nec y res) eqn:E.
  - assert (In y (items res)) by (destruct (in_dec (fun a b => match eqb_spec a b with ReflectT _ p => left p | ReflectF _ p => right p end) y (items res)); auto; apply find_nec_none in n1; congruence).
    apply mem_spec in H. rewrite H. simpl. auto.
  - apply find_nec_none in E. assert (mem y (items res) = false) by (destruct (mem y (items res)) eqn:M; auto; apply mem_spec in M; tauto).
    rewrite H. simpl. rewrite IH by auto. rewrite <- app_assoc. simpl. f_equal. f_equal. f_equal.
    apply filter_ext_in. intros a Ha. rewrite items_app. simpl. f_equal.
    unfold mem. rewrite existsb_app. simpl. destruct (eqb_spec a y); [subst; tauto|]. now rewrite !orb_false_r.
Qed.
Lemma items_merge_first v o : items (merge_first v o) = items v.
Proof. unfold items, merge_first. rewrite map_map. reflexivity. Qed.
Theorem C15_characterisation v o : NoDup (items o) ->
  merge v o = map (fun it => (conj_tag it o, snd it)) v ++ map (pair Opt) (filter (fun y => negb (mem y (items v))) (items o)).
Proof. intros. unfold merge. rewrite merge_second_spec by auto. now rewrite items_merge_first. Qed.
Theorem C15_order v o : NoDup (items o) -> items (merge v o) = items v ++ filter (fun y => negb (mem y (items v))) (items o).
Proof. intros. rewrite C15_characterisation by auto. rewrite items_app. f_equal. unfold items. now rewrite map_map. unfold items. rewrite map_map. simpl. now rewrite map_id. Qed.
End Merge.
Print Assumptions C15_characterisation.
