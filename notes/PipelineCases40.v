From Coq Require Import List String. Require Import Pipeline. Import ListNotations. Open Scope string_scope. Open Scope list_scope.
Definition cases : list (list node * bool * string) := [
  ([NElem (s "r") false [s "type"; s "a"; s "y"] [NElem (s "TotalPrice") false [s "a"] [NElem (s "a_b") false [s "x_attr"; s "X"; s "a"; s "text"] [NElem (s "a_b") false [s "text"; s "y"] []; NText; NElem (s "TotalPrice") false [s "type"] []]]; NMisc]], false, "#[derive(Serialize, Deserialize)]
pub struct R {
    #[serde(rename = ""@type"")]
    pub r_type: String,
    #[serde(rename = ""@a"")]
    pub a: String,
    #[serde(rename = ""@y"")]
    pub y: String,
    #[serde(rename = ""TotalPrice"")]
    pub total_price: RTotalPrice,
}

#[derive(Serialize, Deserialize)]
pub struct RTotalPrice {
    #[serde(rename = ""@a"")]
    pub a: String,
    pub a_b: TotalPriceAB,
}

#[derive(Serialize, Deserialize)]
pub struct TotalPriceAB {
    #[serde(rename = ""@x_attr"")]
    pub x_attr: String,
    #[serde(rename = ""@X"")]
    pub x: String,
    #[serde(rename = ""@a"")]
    pub a: String,
    #[serde(rename = ""@text"")]
    pub text: String,
    #[serde(rename = ""$text"")]
    pub text_content: Option<String>,
    pub a_b: ABAB,
    #[serde(rename = ""TotalPrice"")]
    pub total_price: ABTotalPrice,
}

#[derive(Serialize, Deserialize)]
pub struct ABAB {
    #[serde(rename = ""@text"")]
    pub text: String,
    #[serde(rename = ""@y"")]
    pub y: String,
}

#[derive(Serialize, Deserialize)]
pub struct ABTotalPrice {
    #[serde(rename = ""@type"")]
    pub total_price_type: String,
}

");
  ([NElem (s "r") false [] [NText; NText; NText]; NElem (s "r") false [s "type"; s "xmlns:p"] [NText; NElem (s "b") false [s "y"; s "X"] [NElem (s "TotalPrice") false [s "type"; s "text"; s "p:k"; s "x_attr"; s "y"] [NText; NCData; NText; NMisc]]]; NElem (s "r") false [s "X"; s "xmlns:p"] [NElem (s "ns:item") false [s "x_attr"; s "x"] [NMisc; NElem (s "TotalPrice") false [s "X"] []; NCData; NCData]; NText]], false, "#[derive(Serialize, Deserialize)]
pub struct R {
    #[serde(rename = ""@type"")]
    pub r_type: Option<String>,
    #[serde(rename = ""@xmlns:p"")]
    pub xmlns_p: Option<String>,
    #[serde(rename = ""@X"")]
    pub x: Option<String>,
    #[serde(rename = ""$text"")]
    pub text: Option<String>,
    pub b: Option<B>,
    #[serde(rename = ""item"")]
    pub ns_item: Option<NsItem>,
}

#[derive(Serialize, Deserialize)]
pub struct B {
    #[serde(rename = ""@y"")]
    pub y: String,
    #[serde(rename = ""@X"")]
    pub x: String,
    #[serde(rename = ""TotalPrice"")]
    pub total_price: BTotalPrice,
}

#[derive(Serialize, Deserialize)]
pub struct BTotalPrice {
    #[serde(rename = ""@type"")]
    pub total_price_type: String,
    #[serde(rename = ""@text"")]
    pub text: String,
    #[serde(rename = ""@k"")]
    pub p_k: String,
    #[serde(rename = ""@x_attr"")]
    pub x_attr: String,
    #[serde(rename = ""@y"")]
    pub y: String,
    #[serde(rename = ""$text"")]
    pub text_content: Option<String>,
}

#[derive(Serialize, Deserialize)]
pub struct NsItem {
    #[serde(rename = ""@x_attr"")]
    pub x_attr: String,
    #[serde(rename = ""@x"")]
    pub x: String,
    #[serde(rename = ""$text"")]
    pub text: Option<String>,
    #[serde(rename = ""TotalPrice"")]
    pub total_price: NsItemTotalPrice,
}

#[derive(Serialize, Deserialize)]
pub struct NsItemTotalPrice {
    #[serde(rename = ""@X"")]
    pub x: String,
}

");
  ([NElem (s "r") false [s "x"; s "a"; s "x_attr"] [NElem (s "A.B") false [s "xmlns:p"] [NElem (s "x_attr") false [s "x_attr"; s "x"; s "a"] [NMisc; NElem (s "a_b") false [s "X"; s "type"; s "xmlns:p"; s "y"] []; NCData; NElem (s "type") false [s "xmlns:p"; s "X"] []]; NElem (s "b") false [s "text"; s "p:k"; s "x"] [NElem (s "ns:item") true [s "y"] []]; NElem (s "TotalPrice") false [s "p:k"] [NElem (s "Foo") false [s "a"; s "p:k"; s "X"] []; NElem (s "TotalPrice") false [s "p:k"] []; NCData; NElem (s "TotalPrice") true [] []]]; NCData]; NElem (s "r") false [s "x"; s "y"; s "xmlns:p"] [NElem (s "a") false [s "x"; s "X"] [NMisc; NElem (s "a") false [s "x"] [NElem (s "TotalPrice") true [s "p:k"; s "x"; s "text"] []]]]; NElem (s "r") false [s "p:k"; s "x"; s "a"] []], true, "#[derive(Serialize, Deserialize)]
pub struct R {
    #[serde(rename = ""@a"")]
    pub a_attr: Option<String>,
    #[serde(rename = ""@k"")]
    pub p_k: Option<String>,
    #[serde(rename = ""@x"")]
    pub x: String,
    #[serde(rename = ""@x_attr"")]
    pub x_attr: Option<String>,
    #[serde(rename = ""@xmlns:p"")]
    pub xmlns_p: Option<String>,
    #[serde(rename = ""@y"")]
    pub y: Option<String>,
    #[serde(rename = ""$text"")]
    pub text: Option<String>,
    #[serde(rename = ""A.B"")]
    pub a_b: Option<RAB>,
    pub a: Option<RA>,
}

#[derive(Serialize, Deserialize)]
pub struct RAB {
    #[serde(rename = ""@xmlns:p"")]
    pub xmlns_p: String,
    #[serde(rename = ""TotalPrice"")]
    pub total_price: ABTotalPrice,
    pub b: B,
    pub x_attr: XAttr,
}

#[derive(Serialize, Deserialize)]
pub struct ABTotalPrice {
    #[serde(rename = ""@k"")]
    pub p_k: String,
    #[serde(rename = ""$text"")]
    pub text: Option<String>,
    #[serde(rename = ""Foo"")]
    pub foo: Foo,
    #[serde(rename = ""TotalPrice"")]
    pub total_price: Vec<TotalPriceTotalPrice>,
}

#[derive(Serialize, Deserialize)]
pub struct Foo {
    #[serde(rename = ""@X"")]
    pub x: String,
    #[serde(rename = ""@a"")]
    pub a: String,
    #[serde(rename = ""@k"")]
    pub p_k: String,
}

#[derive(Serialize, Deserialize)]
pub struct TotalPriceTotalPrice {
    #[serde(rename = ""@k"")]
    pub p_k: Option<String>,
}

#[derive(Serialize, Deserialize)]
pub struct B {
    #[serde(rename = ""@k"")]
    pub p_k: String,
    #[serde(rename = ""@text"")]
    pub text: String,
    #[serde(rename = ""@x"")]
    pub x: String,
    #[serde(rename = ""item"")]
    pub ns_item: NsItem,
}

#[derive(Serialize, Deserialize)]
pub struct NsItem {
    #[serde(rename = ""@y"")]
    pub y: String,
}

#[derive(Serialize, Deserialize)]
pub struct XAttr {
    #[serde(rename = ""@a"")]
    pub a: String,
    #[serde(rename = ""@x"")]
    pub x: String,
    #[serde(rename = ""@x_attr"")]
    pub x_attr: String,
    #[serde(rename = ""$text"")]
    pub text: Option<String>,
    pub a_b: XAttrAB,
    #[serde(rename = ""type"")]
    pub x_attr_type: Type,
}

#[derive(Serialize, Deserialize)]
pub struct XAttrAB {
    #[serde(rename = ""@X"")]
    pub x: String,
    #[serde(rename = ""@type"")]
    pub a_b_type: String,
    #[serde(rename = ""@xmlns:p"")]
    pub xmlns_p: String,
    #[serde(rename = ""@y"")]
    pub y: String,
}

#[derive(Serialize, Deserialize)]
pub struct Type {
    #[serde(rename = ""@X"")]
    pub x: String,
    #[serde(rename = ""@xmlns:p"")]
    pub xmlns_p: String,
}

#[derive(Serialize, Deserialize)]
pub struct RA {
    #[serde(rename = ""@X"")]
    pub x_attr: String,
    #[serde(rename = ""@x"")]
    pub x: String,
    pub a: AA,
}

#[derive(Serialize, Deserialize)]
pub struct AA {
    #[serde(rename = ""@x"")]
    pub x: String,
    #[serde(rename = ""TotalPrice"")]
    pub total_price: ATotalPrice,
}

#[derive(Serialize, Deserialize)]
pub struct ATotalPrice {
    #[serde(rename = ""@k"")]
    pub p_k: String,
    #[serde(rename = ""@text"")]
    pub text: String,
    #[serde(rename = ""@x"")]
    pub x: String,
}

");
  ([NElem (s "r") false [s "text"; s "a"] [NElem (s "Foo") true [s "a"; s "x_attr"] []]], true, "#[derive(Serialize, Deserialize)]
pub struct R {
    #[serde(rename = ""@a"")]
    pub a: String,
    #[serde(rename = ""@text"")]
    pub text: String,
    #[serde(rename = ""Foo"")]
    pub foo: Foo,
}

#[derive(Serialize, Deserialize)]
pub struct Foo {
    #[serde(rename = ""@a"")]
    pub a: String,
    #[serde(rename = ""@x_attr"")]
    pub x_attr: String,
}

");
  ([NElem (s "r") false [s "y"; s "p:k"] [NElem (s "b") false [s "y"] [NElem (s "x_attr") false [s "a"; s "x"] [NMisc]; NElem (s "a") false [s "xmlns:p"] [NElem (s "a_b") true [s "type"] []; NMisc]; NCData]]; NElem (s "r") true [s "a"; s "text"; s "x_attr"] []], false, "#[derive(Serialize, Deserialize)]
pub struct R {
    #[serde(rename = ""@y"")]
    pub y: Option<String>,
    #[serde(rename = ""@k"")]
    pub p_k: Option<String>,
    #[serde(rename = ""@a"")]
    pub a: Option<String>,
    #[serde(rename = ""@text"")]
    pub text: Option<String>,
    #[serde(rename = ""@x_attr"")]
    pub x_attr: Option<String>,
    pub b: Option<B>,
}

#[derive(Serialize, Deserialize)]
pub struct B {
    #[serde(rename = ""@y"")]
    pub y: String,
    #[serde(rename = ""$text"")]
    pub text: Option<String>,
    pub x_attr: XAttr,
    pub a: A,
}

#[derive(Serialize, Deserialize)]
pub struct XAttr {
    #[serde(rename = ""@a"")]
    pub a: String,
    #[serde(rename = ""@x"")]
    pub x: String,
}

#[derive(Serialize, Deserialize)]
pub struct A {
    #[serde(rename = ""@xmlns:p"")]
    pub xmlns_p: String,
    pub a_b: AB,
}

#[derive(Serialize, Deserialize)]
pub struct AB {
    #[serde(rename = ""@type"")]
    pub a_b_type: String,
}

");
  ([NElem (s "r") false [s "type"; s "p:k"; s "x_attr"] [NElem (s "A.B") false [] [NElem (s "A.B") false [s "text"; s "p:k"; s "x"; s "X"; s "a"] [NElem (s "text") true [s "y"; s "x_attr"] []; NMisc]; NElem (s "ns:item") false [s "X"; s "type"; s "xmlns:p"] [NElem (s "text") false [s "text"; s "p:k"] []]; NCData]]; NElem (s "r") false [s "text"; s "xmlns:p"; s "a"] [NElem (s "type") false [] [NElem (s "ns:item") false [s "y"; s "type"; s "xmlns:p"] [NElem (s "a_b") true [s "text"; s "xmlns:p"; s "y"; s "X"; s "a"] []; NCData]; NElem (s "A.B") false [s "xmlns:p"] [NText]; NElem (s "TotalPrice") false [s "X"] [NElem (s "ns:item") false [s "xmlns:p"; s "x_attr"; s "text"] []; NElem (s "a-b") false [s "y"; s "xmlns:p"] []]; NElem (s "x_attr") false [] [NElem (s "A.B") false [s "x_attr"; s "X"; s "p:k"] []]]; NElem (s "A.B") false [s "text"; s "x_attr"; s "a"] [NElem (s "x_attr") false [s "X"; s "a"] [NElem (s "ns:item") true [s "p:k"; s "text"] []; NElem (s "text") false [s "type"; s "text"] []; NElem (s "text") true [s "x_attr"; s "y"; s "X"; s "a"] []]; NCData; NElem (s "text") true [s "x"; s "text"; s "p:k"; s "x_attr"] []]]], false, "#[derive(Serialize, Deserialize)]
pub struct R {
    #[serde(rename = ""@type"")]
    pub r_type_attr: Option<String>,
    #[serde(rename = ""@k"")]
    pub p_k: Option<String>,
    #[serde(rename = ""@x_attr"")]
    pub x_attr: Option<String>,
    #[serde(rename = ""@text"")]
    pub text: Option<String>,
    #[serde(rename = ""@xmlns:p"")]
    pub xmlns_p: Option<String>,
    #[serde(rename = ""@a"")]
    pub a: Option<String>,
    #[serde(rename = ""A.B"")]
    pub a_b: RAB,
    #[serde(rename = ""type"")]
    pub r_type: Option<Type>,
}

#[derive(Serialize, Deserialize)]
pub struct RAB {
    #[serde(rename = ""@text"")]
    pub text_attr: Option<String>,
    #[serde(rename = ""@x_attr"")]
    pub x_attr_1: Option<String>,
    #[serde(rename = ""@a"")]
    pub a: Option<String>,
    #[serde(rename = ""$text"")]
    pub text_content: Option<String>,
    #[serde(rename = ""A.B"")]
    pub a_b: Option<ABAB>,
    #[serde(rename = ""item"")]
    pub ns_item: Option<ABNsItem>,
    pub x_attr: Option<ABXAttr>,
    pub text: Option<RABText>,
}

#[derive(Serialize, Deserialize)]
pub struct ABAB {
    #[serde(rename = ""@text"")]
    pub text_attr: String,
    #[serde(rename = ""@k"")]
    pub p_k: String,
    #[serde(rename = ""@x"")]
    pub x: String,
    #[serde(rename = ""@X"")]
    pub x_attr: String,
    #[serde(rename = ""@a"")]
    pub a: String,
    pub text: ABABText,
}

#[derive(Serialize, Deserialize)]
pub struct ABABText {
    #[serde(rename = ""@y"")]
    pub y: String,
    #[serde(rename = ""@x_attr"")]
    pub x_attr: String,
}

#[derive(Serialize, Deserialize)]
pub struct ABNsItem {
    #[serde(rename = ""@X"")]
    pub x: String,
    #[serde(rename = ""@type"")]
    pub ns_item_type: String,
    #[serde(rename = ""@xmlns:p"")]
    pub xmlns_p: String,
    pub text: ABNsItemText,
}

#[derive(Serialize, Deserialize)]
pub struct ABNsItemText {
    #[serde(rename = ""@text"")]
    pub text: String,
    #[serde(rename = ""@k"")]
    pub p_k: String,
}

#[derive(Serialize, Deserialize)]
pub struct ABXAttr {
    #[serde(rename = ""@X"")]
    pub x: String,
    #[serde(rename = ""@a"")]
    pub a: String,
    #[serde(rename = ""item"")]
    pub ns_item: XAttrNsItem,
    pub text: Vec<ABXAttrText>,
}

#[derive(Serialize, Deserialize)]
pub struct XAttrNsItem {
    #[serde(rename = ""@k"")]
    pub p_k: String,
    #[serde(rename = ""@text"")]
    pub text: String,
}

#[derive(Serialize, Deserialize)]
pub struct ABXAttrText {
    #[serde(rename = ""@type"")]
    pub text_type: Option<String>,
    #[serde(rename = ""@text"")]
    pub text: Option<String>,
    #[serde(rename = ""@x_attr"")]
    pub x_attr: Option<String>,
    #[serde(rename = ""@y"")]
    pub y: Option<String>,
    #[serde(rename = ""@X"")]
    pub x: Option<String>,
    #[serde(rename = ""@a"")]
    pub a: Option<String>,
}

#[derive(Serialize, Deserialize)]
pub struct RABText {
    #[serde(rename = ""@x"")]
    pub x: String,
    #[serde(rename = ""@text"")]
    pub text: String,
    #[serde(rename = ""@k"")]
    pub p_k: String,
    #[serde(rename = ""@x_attr"")]
    pub x_attr: String,
}

#[derive(Serialize, Deserialize)]
pub struct Type {
    #[serde(rename = ""item"")]
    pub ns_item: TypeNsItem,
    #[serde(rename = ""A.B"")]
    pub a_b: TypeAB,
    #[serde(rename = ""TotalPrice"")]
    pub total_price: TotalPrice,
    pub x_attr: TypeXAttr,
}

#[derive(Serialize, Deserialize)]
pub struct TypeNsItem {
    #[serde(rename = ""@y"")]
    pub y: String,
    #[serde(rename = ""@type"")]
    pub ns_item_type: String,
    #[serde(rename = ""@xmlns:p"")]
    pub xmlns_p: String,
    #[serde(rename = ""$text"")]
    pub text: Option<String>,
    pub a_b: NsItemAB,
}

#[derive(Serialize, Deserialize)]
pub struct NsItemAB {
    #[serde(rename = ""@text"")]
    pub text: String,
    #[serde(rename = ""@xmlns:p"")]
    pub xmlns_p: String,
    #[serde(rename = ""@y"")]
    pub y: String,
    #[serde(rename = ""@X"")]
    pub x: String,
    #[serde(rename = ""@a"")]
    pub a: String,
}

#[derive(Serialize, Deserialize)]
pub struct TypeAB {
    #[serde(rename = ""@xmlns:p"")]
    pub xmlns_p: String,
    #[serde(rename = ""$text"")]
    pub text: Option<String>,
}

#[derive(Serialize, Deserialize)]
pub struct TotalPrice {
    #[serde(rename = ""@X"")]
    pub x: String,
    #[serde(rename = ""item"")]
    pub ns_item: TotalPriceNsItem,
    #[serde(rename = ""a-b"")]
    pub a_b: TotalPriceAB,
}

#[derive(Serialize, Deserialize)]
pub struct TotalPriceNsItem {
    #[serde(rename = ""@xmlns:p"")]
    pub xmlns_p: String,
    #[serde(rename = ""@x_attr"")]
    pub x_attr: String,
    #[serde(rename = ""@text"")]
    pub text: String,
}

#[derive(Serialize, Deserialize)]
pub struct TotalPriceAB {
    #[serde(rename = ""@y"")]
    pub y: String,
    #[serde(rename = ""@xmlns:p"")]
    pub xmlns_p: String,
}

#[derive(Serialize, Deserialize)]
pub struct TypeXAttr {
    #[serde(rename = ""A.B"")]
    pub a_b: XAttrAB,
}

#[derive(Serialize, Deserialize)]
pub struct XAttrAB {
    #[serde(rename = ""@x_attr"")]
    pub x_attr: String,
    #[serde(rename = ""@X"")]
    pub x: String,
    #[serde(rename = ""@k"")]
    pub p_k: String,
}

");
  ([NElem (s "r") false [s "text"; s "type"] []], false, "#[derive(Serialize, Deserialize)]
pub struct R {
    #[serde(rename = ""@text"")]
    pub text: String,
    #[serde(rename = ""@type"")]
    pub r_type: String,
}

");
  ([NElem (s "r") false [s "y"; s "type"; s "a"] [NElem (s "a") true [s "type"] []; NCData; NElem (s "a_b") false [s "x_attr"; s "text"; s "p:k"] [NMisc]]], true, "#[derive(Serialize, Deserialize)]
pub struct R {
    #[serde(rename = ""@a"")]
    pub a_attr: String,
    #[serde(rename = ""@type"")]
    pub r_type: String,
    #[serde(rename = ""@y"")]
    pub y: String,
    #[serde(rename = ""$text"")]
    pub text: Option<String>,
    pub a: A,
    pub a_b: AB,
}

#[derive(Serialize, Deserialize)]
pub struct A {
    #[serde(rename = ""@type"")]
    pub a_type: String,
}

#[derive(Serialize, Deserialize)]
pub struct AB {
    #[serde(rename = ""@k"")]
    pub p_k: String,
    #[serde(rename = ""@text"")]
    pub text: String,
    #[serde(rename = ""@x_attr"")]
    pub x_attr: String,
}

");
  ([NElem (s "r") false [s "p:k"; s "x_attr"; s "text"] [NText; NMisc; NCData; NElem (s "Foo") false [s "X"; s "a"; s "xmlns:p"; s "x"] [NElem (s "A.B") false [s "x"] [NElem (s "A.B") true [s "text"] []; NText; NElem (s "text") true [s "a"] []]; NMisc; NElem (s "a-b") false [s "p:k"; s "x"] [NElem (s "Foo") true [s "X"; s "x_attr"] []]; NElem (s "A.B") false [s "xmlns:p"; s "x_attr"] [NElem (s "type") true [s "p:k"; s "X"; s "text"; s "xmlns:p"] []; NElem (s "TotalPrice") true [s "x"; s "y"] []]]]], false, "#[derive(Serialize, Deserialize)]
pub struct R {
    #[serde(rename = ""@k"")]
    pub p_k: String,
    #[serde(rename = ""@x_attr"")]
    pub x_attr: String,
    #[serde(rename = ""@text"")]
    pub text: String,
    #[serde(rename = ""$text"")]
    pub text_content: Option<String>,
    #[serde(rename = ""Foo"")]
    pub foo: RFoo,
}

#[derive(Serialize, Deserialize)]
pub struct RFoo {
    #[serde(rename = ""@X"")]
    pub x: String,
    #[serde(rename = ""@a"")]
    pub a: String,
    #[serde(rename = ""@xmlns:p"")]
    pub xmlns_p: String,
    #[serde(rename = ""@x"")]
    pub x_attr: String,
    #[serde(rename = ""A.B"")]
    pub a_b_1: Vec<RFooAB>,
    #[serde(rename = ""a-b"")]
    pub a_b: RFooAB,
}

#[derive(Serialize, Deserialize)]
pub struct RFooAB {
    #[serde(rename = ""@x"")]
    pub x: Option<String>,
    #[serde(rename = ""@xmlns:p"")]
    pub xmlns_p: Option<String>,
    #[serde(rename = ""@x_attr"")]
    pub x_attr: Option<String>,
    #[serde(rename = ""$text"")]
    pub text_content: Option<String>,
    #[serde(rename = ""A.B"")]
    pub a_b: Option<RFooABAB>,
    pub text: Option<Text>,
    #[serde(rename = ""type"")]
    pub a_b_type: Option<Type>,
    #[serde(rename = ""TotalPrice"")]
    pub total_price: Option<TotalPrice>,
}

#[derive(Serialize, Deserialize)]
pub struct RFooABAB {
    #[serde(rename = ""@text"")]
    pub text: String,
}

#[derive(Serialize, Deserialize)]
pub struct Text {
    #[serde(rename = ""@a"")]
    pub a: String,
}

#[derive(Serialize, Deserialize)]
pub struct Type {
    #[serde(rename = ""@k"")]
    pub p_k: String,
    #[serde(rename = ""@X"")]
    pub x: String,
    #[serde(rename = ""@text"")]
    pub text: String,
    #[serde(rename = ""@xmlns:p"")]
    pub xmlns_p: String,
}

#[derive(Serialize, Deserialize)]
pub struct TotalPrice {
    #[serde(rename = ""@x"")]
    pub x: String,
    #[serde(rename = ""@y"")]
    pub y: String,
}

#[derive(Serialize, Deserialize)]
pub struct RFooAB {
    #[serde(rename = ""@k"")]
    pub p_k: String,
    #[serde(rename = ""@x"")]
    pub x: String,
    #[serde(rename = ""Foo"")]
    pub foo: ABFoo,
}

#[derive(Serialize, Deserialize)]
pub struct ABFoo {
    #[serde(rename = ""@X"")]
    pub x: String,
    #[serde(rename = ""@x_attr"")]
    pub x_attr: String,
}

");
  ([NElem (s "r") false [s "X"; s "p:k"; s "y"] [NElem (s "a_b") false [s "a"; s "text"] [NElem (s "type") false [s "x_attr"; s "y"; s "X"] [NElem (s "a") true [s "y"] []; NElem (s "TotalPrice") false [s "x"] []]; NText; NElem (s "foo") false [s "X"; s "type"; s "xmlns:p"; s "p:k"] [NElem (s "a-b") true [] []; NMisc; NElem (s "A.B") true [s "xmlns:p"; s "x_attr"] []]; NElem (s "foo") false [s "X"; s "type"; s "p:k"] [NText]]]], false, "#[derive(Serialize, Deserialize)]
pub struct R {
    #[serde(rename = ""@X"")]
    pub x: String,
    #[serde(rename = ""@k"")]
    pub p_k: String,
    #[serde(rename = ""@y"")]
    pub y: String,
    pub a_b: RAB,
}

#[derive(Serialize, Deserialize)]
pub struct RAB {
    #[serde(rename = ""@a"")]
    pub a: String,
    #[serde(rename = ""@text"")]
    pub text: String,
    #[serde(rename = ""$text"")]
    pub text_content: Option<String>,
    #[serde(rename = ""type"")]
    pub a_b_type: Type,
    pub foo: Vec<Foo>,
}

#[derive(Serialize, Deserialize)]
pub struct Type {
    #[serde(rename = ""@x_attr"")]
    pub x_attr: String,
    #[serde(rename = ""@y"")]
    pub y: String,
    #[serde(rename = ""@X"")]
    pub x: String,
    pub a: A,
    #[serde(rename = ""TotalPrice"")]
    pub total_price: TotalPrice,
}

#[derive(Serialize, Deserialize)]
pub struct A {
    #[serde(rename = ""@y"")]
    pub y: String,
}

#[derive(Serialize, Deserialize)]
pub struct TotalPrice {
    #[serde(rename = ""@x"")]
    pub x: String,
}

#[derive(Serialize, Deserialize)]
pub struct Foo {
    #[serde(rename = ""@X"")]
    pub x: String,
    #[serde(rename = ""@type"")]
    pub foo_type: String,
    #[serde(rename = ""@xmlns:p"")]
    pub xmlns_p: Option<String>,
    #[serde(rename = ""@k"")]
    pub p_k: String,
    #[serde(rename = ""$text"")]
    pub text: Option<String>,
    #[serde(rename = ""a-b"")]
    pub a_b_1: Option<RABFooAB>,
    #[serde(rename = ""A.B"")]
    pub a_b: Option<RABFooAB>,
}

#[derive(Serialize, Deserialize)]
pub struct RABFooAB {
}

#[derive(Serialize, Deserialize)]
pub struct RABFooAB {
    #[serde(rename = ""@xmlns:p"")]
    pub xmlns_p: String,
    #[serde(rename = ""@x_attr"")]
    pub x_attr: String,
}

");
  ([NElem (s "r") false [s "a"; s "p:k"] [NText]; NElem (s "r") true [] []], true, "#[derive(Serialize, Deserialize)]
pub struct R {
    #[serde(rename = ""@a"")]
    pub a: Option<String>,
    #[serde(rename = ""@k"")]
    pub p_k: Option<String>,
    #[serde(rename = ""$text"")]
    pub text: Option<String>,
}

");
  ([NElem (s "r") false [s "xmlns:p"] [NElem (s "Foo") false [s "a"; s "x_attr"] [NMisc; NMisc; NElem (s "type") false [s "text"; s "x"; s "type"] [NMisc; NElem (s "a-b") false [s "xmlns:p"; s "x_attr"; s "x"; s "type"] []]; NElem (s "Foo") false [] [NElem (s "ns:item") false [s "p:k"] []; NElem (s "text") false [s "a"; s "xmlns:p"; s "p:k"; s "x_attr"] []; NElem (s "x_attr") false [s "text"; s "xmlns:p"; s "X"; s "type"; s "a"] []; NElem (s "b") false [s "xmlns:p"; s "text"] []]]]; NElem (s "r") false [s "x_attr"] [NElem (s "text") false [s "a"; s "text"; s "p:k"; s "x_attr"; s "type"] [NElem (s "type") false [s "X"; s "a"; s "xmlns:p"; s "p:k"] [NElem (s "a-b") true [] []; NElem (s "Foo") false [] []; NCData; NElem (s "a_b") true [s "a"; s "X"] []]; NElem (s "TotalPrice") false [s "y"; s "a"] [NCData; NElem (s "foo") true [s "xmlns:p"; s "x_attr"; s "x"; s "X"] []]; NElem (s "TotalPrice") false [s "a"; s "xmlns:p"; s "x_attr"; s "X"] [NElem (s "foo") true [s "x"; s "xmlns:p"] []]]]; NElem (s "r") false [s "type"; s "a"; s "xmlns:p"; s "X"] [NMisc; NElem (s "text") false [s "xmlns:p"; s "type"] [NElem (s "a-b") false [s "text"; s "x"; s "a"] [NElem (s "A.B") false [s "x"] []; NElem (s "Foo") true [s "p:k"; s "X"; s "type"; s "xmlns:p"] []; NCData; NElem (s "Foo") false [s "a"; s "xmlns:p"; s "x_attr"; s "x"] []]; NElem (s "foo") false [s "a"; s "x_attr"; s "type"] [NElem (s "ns:item") true [s "xmlns:p"; s "X"] []; NElem (s "TotalPrice") false [s "x_attr"; s "y"; s "X"; s "p:k"] []]]]], false, "#[derive(Serialize, Deserialize)]
pub struct R {
    #[serde(rename = ""@xmlns:p"")]
    pub xmlns_p: Option<String>,
    #[serde(rename = ""@x_attr"")]
    pub x_attr: Option<String>,
    #[serde(rename = ""@type"")]
    pub r_type: Option<String>,
    #[serde(rename = ""@a"")]
    pub a: Option<String>,
    #[serde(rename = ""@X"")]
    pub x: Option<String>,
    #[serde(rename = ""Foo"")]
    pub foo: Option<RFoo>,
    pub text: Option<RText>,
}

#[derive(Serialize, Deserialize)]
pub struct RFoo {
    #[serde(rename = ""@a"")]
    pub a: String,
    #[serde(rename = ""@x_attr"")]
    pub x_attr: String,
    #[serde(rename = ""type"")]
    pub foo_type: FooType,
    #[serde(rename = ""Foo"")]
    pub foo: FooFoo,
}

#[derive(Serialize, Deserialize)]
pub struct FooType {
    #[serde(rename = ""@text"")]
    pub text: String,
    #[serde(rename = ""@x"")]
    pub x: String,
    #[serde(rename = ""@type"")]
    pub type_type: String,
    #[serde(rename = ""a-b"")]
    pub a_b: RFooTypeAB,
}

#[derive(Serialize, Deserialize)]
pub struct RFooTypeAB {
    #[serde(rename = ""@xmlns:p"")]
    pub xmlns_p: String,
    #[serde(rename = ""@x_attr"")]
    pub x_attr: String,
    #[serde(rename = ""@x"")]
    pub x: String,
    #[serde(rename = ""@type"")]
    pub a_b_type: String,
}

#[derive(Serialize, Deserialize)]
pub struct FooFoo {
    #[serde(rename = ""item"")]
    pub ns_item: FooFooNsItem,
    pub text: FooText,
    pub x_attr: XAttr,
    pub b: B,
}

#[derive(Serialize, Deserialize)]
pub struct FooFooNsItem {
    #[serde(rename = ""@k"")]
    pub p_k: String,
}

#[derive(Serialize, Deserialize)]
pub struct FooText {
    #[serde(rename = ""@a"")]
    pub a: String,
    #[serde(rename = ""@xmlns:p"")]
    pub xmlns_p: String,
    #[serde(rename = ""@k"")]
    pub p_k: String,
    #[serde(rename = ""@x_attr"")]
    pub x_attr: String,
}

#[derive(Serialize, Deserialize)]
pub struct XAttr {
    #[serde(rename = ""@text"")]
    pub text: String,
    #[serde(rename = ""@xmlns:p"")]
    pub xmlns_p: String,
    #[serde(rename = ""@X"")]
    pub x: String,
    #[serde(rename = ""@type"")]
    pub x_attr_type: String,
    #[serde(rename = ""@a"")]
    pub a: String,
}

#[derive(Serialize, Deserialize)]
pub struct B {
    #[serde(rename = ""@xmlns:p"")]
    pub xmlns_p: String,
    #[serde(rename = ""@text"")]
    pub text: String,
}

#[derive(Serialize, Deserialize)]
pub struct RText {
    #[serde(rename = ""@a"")]
    pub a: Option<String>,
    #[serde(rename = ""@text"")]
    pub text: Option<String>,
    #[serde(rename = ""@k"")]
    pub p_k: Option<String>,
    #[serde(rename = ""@x_attr"")]
    pub x_attr: Option<String>,
    #[serde(rename = ""@type"")]
    pub text_type_attr: String,
    #[serde(rename = ""@xmlns:p"")]
    pub xmlns_p: Option<String>,
    #[serde(rename = ""type"")]
    pub text_type: Option<TextType>,
    #[serde(rename = ""TotalPrice"")]
    pub total_price: Option<Vec<TextTotalPrice>>,
    #[serde(rename = ""a-b"")]
    pub a_b: Option<RTextAB>,
    pub foo: Option<TextFoo>,
}

#[derive(Serialize, Deserialize)]
pub struct TextType {
    #[serde(rename = ""@X"")]
    pub x: String,
    #[serde(rename = ""@a"")]
    pub a: String,
    #[serde(rename = ""@xmlns:p"")]
    pub xmlns_p: String,
    #[serde(rename = ""@k"")]
    pub p_k: String,
    #[serde(rename = ""$text"")]
    pub text: Option<String>,
    #[serde(rename = ""a-b"")]
    pub a_b: RTextTypeAB,
    #[serde(rename = ""Foo"")]
    pub foo: TypeFoo,
    #[serde(rename = ""a_b"")]
    pub a_b_1: RTextTypeAB,
}

#[derive(Serialize, Deserialize)]
pub struct RTextTypeAB {
}

#[derive(Serialize, Deserialize)]
pub struct TypeFoo {
}

#[derive(Serialize, Deserialize)]
pub struct RTextTypeAB {
    #[serde(rename = ""@a"")]
    pub a: String,
    #[serde(rename = ""@X"")]
    pub x: String,
}

#[derive(Serialize, Deserialize)]
pub struct TextTotalPrice {
    #[serde(rename = ""@y"")]
    pub y: Option<String>,
    #[serde(rename = ""@a"")]
    pub a: String,
    #[serde(rename = ""@xmlns:p"")]
    pub xmlns_p: Option<String>,
    #[serde(rename = ""@x_attr"")]
    pub x_attr: Option<String>,
    #[serde(rename = ""@X"")]
    pub x: Option<String>,
    #[serde(rename = ""$text"")]
    pub text: Option<String>,
    pub foo: TotalPriceFoo,
}

#[derive(Serialize, Deserialize)]
pub struct TotalPriceFoo {
    #[serde(rename = ""@xmlns:p"")]
    pub xmlns_p: String,
    #[serde(rename = ""@x_attr"")]
    pub x_attr: Option<String>,
    #[serde(rename = ""@x"")]
    pub x: String,
    #[serde(rename = ""@X"")]
    pub x_attr_1: Option<String>,
}

#[derive(Serialize, Deserialize)]
pub struct RTextAB {
    #[serde(rename = ""@text"")]
    pub text: String,
    #[serde(rename = ""@x"")]
    pub x: String,
    #[serde(rename = ""@a"")]
    pub a: String,
    #[serde(rename = ""$text"")]
    pub text_content: Option<String>,
    #[serde(rename = ""A.B"")]
    pub a_b: RTextABAB,
    #[serde(rename = ""Foo"")]
    pub foo: Vec<ABFoo>,
}

#[derive(Serialize, Deserialize)]
pub struct RTextABAB {
    #[serde(rename = ""@x"")]
    pub x: String,
}

#[derive(Serialize, Deserialize)]
pub struct ABFoo {
    #[serde(rename = ""@k"")]
    pub p_k: Option<String>,
    #[serde(rename = ""@X"")]
    pub x: Option<String>,
    #[serde(rename = ""@type"")]
    pub foo_type: Option<String>,
    #[serde(rename = ""@xmlns:p"")]
    pub xmlns_p: String,
    #[serde(rename = ""@a"")]
    pub a: Option<String>,
    #[serde(rename = ""@x_attr"")]
    pub x_attr: Option<String>,
    #[serde(rename = ""@x"")]
    pub x_attr_1: Option<String>,
}

#[derive(Serialize, Deserialize)]
pub struct TextFoo {
    #[serde(rename = ""@a"")]
    pub a: String,
    #[serde(rename = ""@x_attr"")]
    pub x_attr: String,
    #[serde(rename = ""@type"")]
    pub foo_type: String,
    #[serde(rename = ""item"")]
    pub ns_item: TextFooNsItem,
    #[serde(rename = ""TotalPrice"")]
    pub total_price: FooTotalPrice,
}

#[derive(Serialize, Deserialize)]
pub struct TextFooNsItem {
    #[serde(rename = ""@xmlns:p"")]
    pub xmlns_p: String,
    #[serde(rename = ""@X"")]
    pub x: String,
}

#[derive(Serialize, Deserialize)]
pub struct FooTotalPrice {
    #[serde(rename = ""@x_attr"")]
    pub x_attr: String,
    #[serde(rename = ""@y"")]
    pub y: String,
    #[serde(rename = ""@X"")]
    pub x: String,
    #[serde(rename = ""@k"")]
    pub p_k: String,
}

");
  ([NElem (s "r") false [s "x_attr"; s "x"; s "y"; s "type"; s "a"] [NElem (s "TotalPrice") false [s "X"; s "type"; s "p:k"] [NMisc; NElem (s "text") false [s "a"; s "text"; s "y"; s "type"] [NElem (s "a-b") true [s "X"; s "x_attr"] []; NCData; NText]; NElem (s "TotalPrice") false [s "text"; s "x_attr"; s "y"; s "type"] [NElem (s "a_b") false [s "a"; s "p:k"] []; NElem (s "text") false [s "x"; s "a"; s "text"; s "xmlns:p"; s "p:k"] []]]]; NElem (s "r") false [s "X"] [NElem (s "A.B") false [s "type"; s "X"] [NMisc]; NText]; NElem (s "r") true [s "x_attr"; s "text"] []], false, "#[derive(Serialize, Deserialize)]
pub struct R {
    #[serde(rename = ""@x_attr"")]
    pub x_attr: Option<String>,
    #[serde(rename = ""@x"")]
    pub x: Option<String>,
    #[serde(rename = ""@y"")]
    pub y: Option<String>,
    #[serde(rename = ""@type"")]
    pub r_type: Option<String>,
    #[serde(rename = ""@a"")]
    pub a: Option<String>,
    #[serde(rename = ""@X"")]
    pub x_attr_1: Option<String>,
    #[serde(rename = ""@text"")]
    pub text: Option<String>,
    #[serde(rename = ""$text"")]
    pub text_content: Option<String>,
    #[serde(rename = ""TotalPrice"")]
    pub total_price: Option<RTotalPrice>,
    #[serde(rename = ""A.B"")]
    pub a_b: Option<RAB>,
}

#[derive(Serialize, Deserialize)]
pub struct RTotalPrice {
    #[serde(rename = ""@X"")]
    pub x: String,
    #[serde(rename = ""@type"")]
    pub total_price_type: String,
    #[serde(rename = ""@k"")]
    pub p_k: String,
    pub text: RTotalPriceText,
    #[serde(rename = ""TotalPrice"")]
    pub total_price: TotalPriceTotalPrice,
}

#[derive(Serialize, Deserialize)]
pub struct RTotalPriceText {
    #[serde(rename = ""@a"")]
    pub a: String,
    #[serde(rename = ""@text"")]
    pub text: String,
    #[serde(rename = ""@y"")]
    pub y: String,
    #[serde(rename = ""@type"")]
    pub text_type: String,
    #[serde(rename = ""$text"")]
    pub text_content: Option<String>,
    #[serde(rename = ""a-b"")]
    pub a_b: TextAB,
}

#[derive(Serialize, Deserialize)]
pub struct TextAB {
    #[serde(rename = ""@X"")]
    pub x: String,
    #[serde(rename = ""@x_attr"")]
    pub x_attr: String,
}

#[derive(Serialize, Deserialize)]
pub struct TotalPriceTotalPrice {
    #[serde(rename = ""@text"")]
    pub text_attr: String,
    #[serde(rename = ""@x_attr"")]
    pub x_attr: String,
    #[serde(rename = ""@y"")]
    pub y: String,
    #[serde(rename = ""@type"")]
    pub total_price_type: String,
    pub a_b: TotalPriceAB,
    pub text: TotalPriceTotalPriceText,
}

#[derive(Serialize, Deserialize)]
pub struct TotalPriceAB {
    #[serde(rename = ""@a"")]
    pub a: String,
    #[serde(rename = ""@k"")]
    pub p_k: String,
}

#[derive(Serialize, Deserialize)]
pub struct TotalPriceTotalPriceText {
    #[serde(rename = ""@x"")]
    pub x: String,
    #[serde(rename = ""@a"")]
    pub a: String,
    #[serde(rename = ""@text"")]
    pub text: String,
    #[serde(rename = ""@xmlns:p"")]
    pub xmlns_p: String,
    #[serde(rename = ""@k"")]
    pub p_k: String,
}

#[derive(Serialize, Deserialize)]
pub struct RAB {
    #[serde(rename = ""@type"")]
    pub a_b_type: String,
    #[serde(rename = ""@X"")]
    pub x: String,
}

");
  ([NElem (s "r") true [s "xmlns:p"; s "x_attr"; s "x"; s "X"] []], false, "#[derive(Serialize, Deserialize)]
pub struct R {
    #[serde(rename = ""@xmlns:p"")]
    pub xmlns_p: String,
    #[serde(rename = ""@x_attr"")]
    pub x_attr: String,
    #[serde(rename = ""@x"")]
    pub x: String,
    #[serde(rename = ""@X"")]
    pub x_attr_1: String,
}

");
  ([NElem (s "r") false [s "x_attr"; s "a"] [NElem (s "TotalPrice") false [s "y"] [NText; NText; NCData; NElem (s "a_b") true [s "type"; s "x_attr"] []]; NCData; NElem (s "A.B") true [s "type"; s "x"; s "y"] []]; NElem (s "r") false [s "X"; s "a"; s "text"; s "xmlns:p"; s "y"] [NElem (s "x_attr") true [s "X"; s "a"; s "text"] []; NElem (s "A.B") false [s "x_attr"; s "a"] [NElem (s "b") false [s "y"] [NElem (s "a") true [s "p:k"; s "xmlns:p"] []]]; NText; NMisc]], false, "#[derive(Serialize, Deserialize)]
pub struct R {
    #[serde(rename = ""@x_attr"")]
    pub x_attr_1: Option<String>,
    #[serde(rename = ""@a"")]
    pub a: String,
    #[serde(rename = ""@X"")]
    pub x: Option<String>,
    #[serde(rename = ""@text"")]
    pub text: Option<String>,
    #[serde(rename = ""@xmlns:p"")]
    pub xmlns_p: Option<String>,
    #[serde(rename = ""@y"")]
    pub y: Option<String>,
    #[serde(rename = ""$text"")]
    pub text_content: Option<String>,
    #[serde(rename = ""TotalPrice"")]
    pub total_price: Option<TotalPrice>,
    #[serde(rename = ""A.B"")]
    pub a_b: RAB,
    pub x_attr: Option<XAttr>,
}

#[derive(Serialize, Deserialize)]
pub struct TotalPrice {
    #[serde(rename = ""@y"")]
    pub y: String,
    #[serde(rename = ""$text"")]
    pub text: Option<String>,
    pub a_b: TotalPriceAB,
}

#[derive(Serialize, Deserialize)]
pub struct TotalPriceAB {
    #[serde(rename = ""@type"")]
    pub a_b_type: String,
    #[serde(rename = ""@x_attr"")]
    pub x_attr: String,
}

#[derive(Serialize, Deserialize)]
pub struct RAB {
    #[serde(rename = ""@type"")]
    pub a_b_type: Option<String>,
    #[serde(rename = ""@x"")]
    pub x: Option<String>,
    #[serde(rename = ""@y"")]
    pub y: Option<String>,
    #[serde(rename = ""@x_attr"")]
    pub x_attr: Option<String>,
    #[serde(rename = ""@a"")]
    pub a: Option<String>,
    pub b: Option<B>,
}

#[derive(Serialize, Deserialize)]
pub struct B {
    #[serde(rename = ""@y"")]
    pub y: String,
    pub a: A,
}

#[derive(Serialize, Deserialize)]
pub struct A {
    #[serde(rename = ""@k"")]
    pub p_k: String,
    #[serde(rename = ""@xmlns:p"")]
    pub xmlns_p: String,
}

#[derive(Serialize, Deserialize)]
pub struct XAttr {
    #[serde(rename = ""@X"")]
    pub x: String,
    #[serde(rename = ""@a"")]
    pub a: String,
    #[serde(rename = ""@text"")]
    pub text: String,
}

");
  ([NElem (s "r") false [] [NElem (s "TotalPrice") false [s "p:k"; s "X"; s "text"] [NText]; NText; NMisc]; NElem (s "r") false [s "y"; s "xmlns:p"; s "p:k"; s "x_attr"] [NElem (s "a_b") false [s "x_attr"] [NCData; NElem (s "type") false [s "p:k"; s "a"; s "xmlns:p"] [NMisc; NElem (s "text") true [s "type"] []; NElem (s "ns:item") false [s "y"; s "type"; s "a"; s "x_attr"; s "x"] []]; NElem (s "type") false [s "X"; s "a"] [NElem (s "a-b") false [s "a"] []]; NCData]; NElem (s "TotalPrice") false [s "p:k"; s "text"] [NElem (s "a") false [s "y"] [NElem (s "x_attr") true [] []]]]; NElem (s "r") false [s "x_attr"; s "y"; s "X"; s "p:k"] [NElem (s "text") false [s "X"; s "type"; s "text"; s "xmlns:p"] [NElem (s "a") false [s "text"; s "xmlns:p"; s "X"] [NText; NElem (s "b") false [s "x_attr"; s "X"; s "text"; s "p:k"] []; NElem (s "Foo") false [s "a"; s "x_attr"; s "x"; s "type"] []; NText]; NElem (s "type") false [s "y"; s "xmlns:p"] [NText; NMisc; NElem (s "foo") false [s "a"; s "X"] []; NMisc]; NElem (s "Foo") false [s "text"; s "X"; s "type"] [NCData; NElem (s "b") true [s "x_attr"; s "p:k"] []]; NElem (s "b") true [s "text"] []]; NElem (s "text") false [s "a"] [NCData; NElem (s "ns:item") true [s "a"; s "text"; s "y"] []]]], true, "#[derive(Serialize, Deserialize)]
pub struct R {
    #[serde(rename = ""@X"")]
    pub x: Option<String>,
    #[serde(rename = ""@k"")]
    pub p_k: Option<String>,
    #[serde(rename = ""@x_attr"")]
    pub x_attr: Option<String>,
    #[serde(rename = ""@xmlns:p"")]
    pub xmlns_p: Option<String>,
    #[serde(rename = ""@y"")]
    pub y: Option<String>,
    #[serde(rename = ""$text"")]
    pub text_content: Option<String>,
    #[serde(rename = ""TotalPrice"")]
    pub total_price: Option<TotalPrice>,
    pub a_b: Option<RAB>,
    pub text: Option<Vec<RText>>,
}

#[derive(Serialize, Deserialize)]
pub struct TotalPrice {
    #[serde(rename = ""@X"")]
    pub x: Option<String>,
    #[serde(rename = ""@k"")]
    pub p_k: String,
    #[serde(rename = ""@text"")]
    pub text: String,
    #[serde(rename = ""$text"")]
    pub text_content: Option<String>,
    pub a: Option<TotalPriceA>,
}

#[derive(Serialize, Deserialize)]
pub struct TotalPriceA {
    #[serde(rename = ""@y"")]
    pub y: String,
    pub x_attr: XAttr,
}

#[derive(Serialize, Deserialize)]
pub struct XAttr {
}

#[derive(Serialize, Deserialize)]
pub struct RAB {
    #[serde(rename = ""@x_attr"")]
    pub x_attr: String,
    #[serde(rename = ""$text"")]
    pub text: Option<String>,
    #[serde(rename = ""type"")]
    pub a_b_type: Vec<ABType>,
}

#[derive(Serialize, Deserialize)]
pub struct ABType {
    #[serde(rename = ""@X"")]
    pub x: Option<String>,
    #[serde(rename = ""@a"")]
    pub a: String,
    #[serde(rename = ""@k"")]
    pub p_k: Option<String>,
    #[serde(rename = ""@xmlns:p"")]
    pub xmlns_p: Option<String>,
    #[serde(rename = ""a-b"")]
    pub a_b: Option<TypeAB>,
    #[serde(rename = ""item"")]
    pub ns_item: Option<TypeNsItem>,
    pub text: Option<TypeText>,
}

#[derive(Serialize, Deserialize)]
pub struct TypeAB {
    #[serde(rename = ""@a"")]
    pub a: String,
}

#[derive(Serialize, Deserialize)]
pub struct TypeNsItem {
    #[serde(rename = ""@a"")]
    pub a: String,
    #[serde(rename = ""@type"")]
    pub ns_item_type: String,
    #[serde(rename = ""@x"")]
    pub x: String,
    #[serde(rename = ""@x_attr"")]
    pub x_attr: String,
    #[serde(rename = ""@y"")]
    pub y: String,
}

#[derive(Serialize, Deserialize)]
pub struct TypeText {
    #[serde(rename = ""@type"")]
    pub text_type: String,
}

#[derive(Serialize, Deserialize)]
pub struct RText {
    #[serde(rename = ""@X"")]
    pub x: Option<String>,
    #[serde(rename = ""@a"")]
    pub a_attr: Option<String>,
    #[serde(rename = ""@text"")]
    pub text: Option<String>,
    #[serde(rename = ""@type"")]
    pub text_type_attr: Option<String>,
    #[serde(rename = ""@xmlns:p"")]
    pub xmlns_p: Option<String>,
    #[serde(rename = ""$text"")]
    pub text_content: Option<String>,
    #[serde(rename = ""Foo"")]
    pub foo: Option<TextFoo>,
    pub a: Option<TextA>,
    pub b: Option<TextB>,
    #[serde(rename = ""item"")]
    pub ns_item: Option<TextNsItem>,
    #[serde(rename = ""type"")]
    pub text_type: Option<TextType>,
}

#[derive(Serialize, Deserialize)]
pub struct TextFoo {
    #[serde(rename = ""@X"")]
    pub x: String,
    #[serde(rename = ""@text"")]
    pub text: String,
    #[serde(rename = ""@type"")]
    pub foo_type: String,
    #[serde(rename = ""$text"")]
    pub text_content: Option<String>,
    pub b: FooB,
}

#[derive(Serialize, Deserialize)]
pub struct FooB {
    #[serde(rename = ""@k"")]
    pub p_k: String,
    #[serde(rename = ""@x_attr"")]
    pub x_attr: String,
}

#[derive(Serialize, Deserialize)]
pub struct TextA {
    #[serde(rename = ""@X"")]
    pub x: String,
    #[serde(rename = ""@text"")]
    pub text: String,
    #[serde(rename = ""@xmlns:p"")]
    pub xmlns_p: String,
    #[serde(rename = ""$text"")]
    pub text_content: Option<String>,
    #[serde(rename = ""Foo"")]
    pub foo: AFoo,
    pub b: AB,
}

#[derive(Serialize, Deserialize)]
pub struct AFoo {
    #[serde(rename = ""@a"")]
    pub a: String,
    #[serde(rename = ""@type"")]
    pub foo_type: String,
    #[serde(rename = ""@x"")]
    pub x: String,
    #[serde(rename = ""@x_attr"")]
    pub x_attr: String,
}

#[derive(Serialize, Deserialize)]
pub struct AB {
    #[serde(rename = ""@X"")]
    pub x: String,
    #[serde(rename = ""@k"")]
    pub p_k: String,
    #[serde(rename = ""@text"")]
    pub text: String,
    #[serde(rename = ""@x_attr"")]
    pub x_attr: String,
}

#[derive(Serialize, Deserialize)]
pub struct TextB {
    #[serde(rename = ""@text"")]
    pub text: String,
}

#[derive(Serialize, Deserialize)]
pub struct TextNsItem {
    #[serde(rename = ""@a"")]
    pub a: String,
    #[serde(rename = ""@text"")]
    pub text: String,
    #[serde(rename = ""@y"")]
    pub y: String,
}

#[derive(Serialize, Deserialize)]
pub struct TextType {
    #[serde(rename = ""@xmlns:p"")]
    pub xmlns_p: String,
    #[serde(rename = ""@y"")]
    pub y: String,
    #[serde(rename = ""$text"")]
    pub text: Option<String>,
    pub foo: TypeFoo,
}

#[derive(Serialize, Deserialize)]
pub struct TypeFoo {
    #[serde(rename = ""@X"")]
    pub x: String,
    #[serde(rename = ""@a"")]
    pub a: String,
}

");
  ([NElem (s "r") false [s "X"; s "a"; s "p:k"; s "x_attr"] []; NElem (s "r") false [s "p:k"] [NElem (s "A.B") false [s "xmlns:p"; s "p:k"; s "type"] [NText; NElem (s "foo") false [s "x_attr"; s "text"; s "xmlns:p"] [NElem (s "x_attr") true [s "p:k"; s "y"] []]]; NElem (s "type") false [s "p:k"; s "x_attr"; s "y"; s "xmlns:p"] [NCData; NElem (s "text") false [s "type"; s "text"] [NCData; NCData]; NCData]; NElem (s "Foo") false [s "y"; s "a"; s "xmlns:p"; s "p:k"] [NElem (s "a_b") false [s "text"; s "x"] [NElem (s "TotalPrice") true [s "y"] []; NCData]; NText; NElem (s "Foo") false [s "x_attr"; s "a"] [NCData; NElem (s "text") true [s "p:k"; s "a"] []; NMisc; NText]]]; NElem (s "r") false [s "text"] [NElem (s "ns:item") false [s "a"] [NText; NCData; NElem (s "A.B") false [s "text"] [NCData; NElem (s "text") false [s "y"] []]]; NElem (s "a") false [s "x"; s "X"; s "p:k"] [NElem (s "a-b") false [s "y"; s "type"; s "p:k"] [NElem (s "b") true [s "x_attr"; s "p:k"] []; NMisc; NText; NElem (s "ns:item") false [s "y"; s "x_attr"] []]]; NMisc; NText]], false, "#[derive(Serialize, Deserialize)]
pub struct R {
    #[serde(rename = ""@X"")]
    pub x: Option<String>,
    #[serde(rename = ""@a"")]
    pub a_attr: Option<String>,
    #[serde(rename = ""@k"")]
    pub p_k: Option<String>,
    #[serde(rename = ""@x_attr"")]
    pub x_attr: Option<String>,
    #[serde(rename = ""@text"")]
    pub text: Option<String>,
    #[serde(rename = ""$text"")]
    pub text_content: Option<String>,
    #[serde(rename = ""A.B"")]
    pub a_b: Option<RAB>,
    #[serde(rename = ""type"")]
    pub r_type: Option<Type>,
    #[serde(rename = ""Foo"")]
    pub foo: Option<RFoo>,
    #[serde(rename = ""item"")]
    pub ns_item: Option<RNsItem>,
    pub a: Option<A>,
}

#[derive(Serialize, Deserialize)]
pub struct RAB {
    #[serde(rename = ""@xmlns:p"")]
    pub xmlns_p: String,
    #[serde(rename = ""@k"")]
    pub p_k: String,
    #[serde(rename = ""@type"")]
    pub a_b_type: String,
    #[serde(rename = ""$text"")]
    pub text: Option<String>,
    pub foo: ABFoo,
}

#[derive(Serialize, Deserialize)]
pub struct ABFoo {
    #[serde(rename = ""@x_attr"")]
    pub x_attr_1: String,
    #[serde(rename = ""@text"")]
    pub text: String,
    #[serde(rename = ""@xmlns:p"")]
    pub xmlns_p: String,
    pub x_attr: XAttr,
}

#[derive(Serialize, Deserialize)]
pub struct XAttr {
    #[serde(rename = ""@k"")]
    pub p_k: String,
    #[serde(rename = ""@y"")]
    pub y: String,
}

#[derive(Serialize, Deserialize)]
pub struct Type {
    #[serde(rename = ""@k"")]
    pub p_k: String,
    #[serde(rename = ""@x_attr"")]
    pub x_attr: String,
    #[serde(rename = ""@y"")]
    pub y: String,
    #[serde(rename = ""@xmlns:p"")]
    pub xmlns_p: String,
    #[serde(rename = ""$text"")]
    pub text_content: Option<String>,
    pub text: TypeText,
}

#[derive(Serialize, Deserialize)]
pub struct TypeText {
    #[serde(rename = ""@type"")]
    pub text_type: String,
    #[serde(rename = ""@text"")]
    pub text: String,
    #[serde(rename = ""$text"")]
    pub text_content: Option<String>,
}

#[derive(Serialize, Deserialize)]
pub struct RFoo {
    #[serde(rename = ""@y"")]
    pub y: String,
    #[serde(rename = ""@a"")]
    pub a: String,
    #[serde(rename = ""@xmlns:p"")]
    pub xmlns_p: String,
    #[serde(rename = ""@k"")]
    pub p_k: String,
    #[serde(rename = ""$text"")]
    pub text: Option<String>,
    pub a_b: FooAB,
    #[serde(rename = ""Foo"")]
    pub foo: FooFoo,
}

#[derive(Serialize, Deserialize)]
pub struct FooAB {
    #[serde(rename = ""@text"")]
    pub text: String,
    #[serde(rename = ""@x"")]
    pub x: String,
    #[serde(rename = ""$text"")]
    pub text_content: Option<String>,
    #[serde(rename = ""TotalPrice"")]
    pub total_price: TotalPrice,
}

#[derive(Serialize, Deserialize)]
pub struct TotalPrice {
    #[serde(rename = ""@y"")]
    pub y: String,
}

#[derive(Serialize, Deserialize)]
pub struct FooFoo {
    #[serde(rename = ""@x_attr"")]
    pub x_attr: String,
    #[serde(rename = ""@a"")]
    pub a: String,
    #[serde(rename = ""$text"")]
    pub text_content: Option<String>,
    pub text: FooText,
}

#[derive(Serialize, Deserialize)]
pub struct FooText {
    #[serde(rename = ""@k"")]
    pub p_k: String,
    #[serde(rename = ""@a"")]
    pub a: String,
}

#[derive(Serialize, Deserialize)]
pub struct RNsItem {
    #[serde(rename = ""@a"")]
    pub a: String,
    #[serde(rename = ""$text"")]
    pub text: Option<String>,
    #[serde(rename = ""A.B"")]
    pub a_b: NsItemAB,
}

#[derive(Serialize, Deserialize)]
pub struct NsItemAB {
    #[serde(rename = ""@text"")]
    pub text_attr: String,
    #[serde(rename = ""$text"")]
    pub text_content: Option<String>,
    pub text: ABText,
}

#[derive(Serialize, Deserialize)]
pub struct ABText {
    #[serde(rename = ""@y"")]
    pub y: String,
}

#[derive(Serialize, Deserialize)]
pub struct A {
    #[serde(rename = ""@x"")]
    pub x: String,
    #[serde(rename = ""@X"")]
    pub x_attr: String,
    #[serde(rename = ""@k"")]
    pub p_k: String,
    #[serde(rename = ""a-b"")]
    pub a_b: AAB,
}

#[derive(Serialize, Deserialize)]
pub struct AAB {
    #[serde(rename = ""@y"")]
    pub y: String,
    #[serde(rename = ""@type"")]
    pub a_b_type: String,
    #[serde(rename = ""@k"")]
    pub p_k: String,
    #[serde(rename = ""$text"")]
    pub text: Option<String>,
    pub b: B,
    #[serde(rename = ""item"")]
    pub ns_item: ABNsItem,
}

#[derive(Serialize, Deserialize)]
pub struct B {
    #[serde(rename = ""@x_attr"")]
    pub x_attr: String,
    #[serde(rename = ""@k"")]
    pub p_k: String,
}

#[derive(Serialize, Deserialize)]
pub struct ABNsItem {
    #[serde(rename = ""@y"")]
    pub y: String,
    #[serde(rename = ""@x_attr"")]
    pub x_attr: String,
}

");
  ([NElem (s "r") false [s "x"; s "X"; s "xmlns:p"] []; NElem (s "r") false [s "xmlns:p"; s "p:k"; s "a"] []], true, "#[derive(Serialize, Deserialize)]
pub struct R {
    #[serde(rename = ""@X"")]
    pub x_attr: Option<String>,
    #[serde(rename = ""@a"")]
    pub a: Option<String>,
    #[serde(rename = ""@k"")]
    pub p_k: Option<String>,
    #[serde(rename = ""@x"")]
    pub x: Option<String>,
    #[serde(rename = ""@xmlns:p"")]
    pub xmlns_p: String,
}

");
  ([NElem (s "r") false [s "X"; s "xmlns:p"] [NElem (s "text") false [s "text"] [NElem (s "a") false [s "type"; s "x_attr"] [NElem (s "foo") true [s "a"] []; NElem (s "b") true [s "xmlns:p"; s "p:k"; s "text"] []; NMisc; NElem (s "a") true [s "a"; s "x_attr"; s "x"; s "type"] []]; NElem (s "TotalPrice") false [s "x"; s "X"; s "text"; s "p:k"] [NElem (s "type") false [s "a"; s "xmlns:p"; s "p:k"] []; NMisc]]]; NElem (s "r") false [s "xmlns:p"; s "x_attr"; s "type"] [NElem (s "A.B") false [s "x_attr"; s "X"; s "a"] [NElem (s "text") false [s "x"] [NText; NElem (s "Foo") true [s "x"; s "X"; s "a"; s "xmlns:p"] []; NMisc]; NElem (s "foo") false [s "y"; s "xmlns:p"; s "x"] [NCData; NElem (s "x_attr") false [s "x"; s "y"; s "type"] []; NElem (s "a_b") false [s "xmlns:p"; s "type"] []; NElem (s "text") false [s "X"; s "p:k"] []]; NElem (s "b") false [s "x"] [NCData; NElem (s "text") false [s "p:k"; s "X"; s "xmlns:p"] []]; NText]; NMisc; NElem (s "foo") false [s "x"; s "y"; s "type"] [NMisc; NElem (s "a-b") false [] [NElem (s "A.B") true [] []; NElem (s "b") true [s "type"] []; NElem (s "foo") true [s "text"; s "type"] []]; NMisc]; NElem (s "text") false [s "y"; s "X"; s "p:k"; s "x_attr"] [NElem (s "TotalPrice") false [s "type"; s "text"; s "xmlns:p"] []; NText]]; NElem (s "r") false [s "a"; s "xmlns:p"; s "x_attr"] [NMisc; NElem (s "b") false [s "text"; s "X"] [NElem (s "A.B") false [s "y"; s "type"] [NText; NElem (s "type") false [] []]; NElem (s "TotalPrice") false [s "y"; s "a"; s "p:k"] [NElem (s "b") false [s "p:k"; s "type"; s "xmlns:p"] []; NText; NElem (s "A.B") false [s "a"] []; NCData]; NElem (s "x_attr") false [s "xmlns:p"] [NElem (s "a-b") true [s "a"; s "p:k"; s "x"] []]; NElem (s "foo") false [s "text"; s "y"] [NMisc; NText]]; NMisc; NMisc]], false, "#[derive(Serialize, Deserialize)]
pub struct R {
    #[serde(rename = ""@X"")]
    pub x: Option<String>,
    #[serde(rename = ""@xmlns:p"")]
    pub xmlns_p: String,
    #[serde(rename = ""@x_attr"")]
    pub x_attr: Option<String>,
    #[serde(rename = ""@type"")]
    pub r_type: Option<String>,
    #[serde(rename = ""@a"")]
    pub a: Option<String>,
    pub text: Option<RText>,
    #[serde(rename = ""A.B"")]
    pub a_b: Option<RAB>,
    pub foo: Option<RFoo>,
    pub b: Option<RB>,
}

#[derive(Serialize, Deserialize)]
pub struct RText {
    #[serde(rename = ""@text"")]
    pub text: Option<String>,
    #[serde(rename = ""@y"")]
    pub y: Option<String>,
    #[serde(rename = ""@X"")]
    pub x: Option<String>,
    #[serde(rename = ""@k"")]
    pub p_k: Option<String>,
    #[serde(rename = ""@x_attr"")]
    pub x_attr: Option<String>,
    #[serde(rename = ""$text"")]
    pub text_content: Option<String>,
    pub a: Option<TextA>,
    #[serde(rename = ""TotalPrice"")]
    pub total_price: TextTotalPrice,
}

#[derive(Serialize, Deserialize)]
pub struct TextA {
    #[serde(rename = ""@type"")]
    pub a_type: String,
    #[serde(rename = ""@x_attr"")]
    pub x_attr: String,
    pub foo: RTextAFoo,
    pub b: RTextAB,
    pub a: AA,
}

#[derive(Serialize, Deserialize)]
pub struct RTextAFoo {
    #[serde(rename = ""@a"")]
    pub a: String,
}

#[derive(Serialize, Deserialize)]
pub struct RTextAB {
    #[serde(rename = ""@xmlns:p"")]
    pub xmlns_p: String,
    #[serde(rename = ""@k"")]
    pub p_k: String,
    #[serde(rename = ""@text"")]
    pub text: String,
}

#[derive(Serialize, Deserialize)]
pub struct AA {
    #[serde(rename = ""@a"")]
    pub a: String,
    #[serde(rename = ""@x_attr"")]
    pub x_attr: String,
    #[serde(rename = ""@x"")]
    pub x: String,
    #[serde(rename = ""@type"")]
    pub a_type: String,
}

#[derive(Serialize, Deserialize)]
pub struct TextTotalPrice {
    #[serde(rename = ""@x"")]
    pub x: Option<String>,
    #[serde(rename = ""@X"")]
    pub x_attr: Option<String>,
    #[serde(rename = ""@text"")]
    pub text: String,
    #[serde(rename = ""@k"")]
    pub p_k: Option<String>,
    #[serde(rename = ""@type"")]
    pub total_price_type_attr: Option<String>,
    #[serde(rename = ""@xmlns:p"")]
    pub xmlns_p: Option<String>,
    #[serde(rename = ""type"")]
    pub total_price_type: Option<TotalPriceType>,
}

#[derive(Serialize, Deserialize)]
pub struct TotalPriceType {
    #[serde(rename = ""@a"")]
    pub a: String,
    #[serde(rename = ""@xmlns:p"")]
    pub xmlns_p: String,
    #[serde(rename = ""@k"")]
    pub p_k: String,
}

#[derive(Serialize, Deserialize)]
pub struct RAB {
    #[serde(rename = ""@x_attr"")]
    pub x_attr: String,
    #[serde(rename = ""@X"")]
    pub x: String,
    #[serde(rename = ""@a"")]
    pub a: String,
    #[serde(rename = ""$text"")]
    pub text_content: Option<String>,
    pub text: ABText,
    pub foo: RABFoo,
    pub b: RABB,
}

#[derive(Serialize, Deserialize)]
pub struct ABText {
    #[serde(rename = ""@x"")]
    pub x: String,
    #[serde(rename = ""$text"")]
    pub text: Option<String>,
    #[serde(rename = ""Foo"")]
    pub foo: RABTextFoo,
}

#[derive(Serialize, Deserialize)]
pub struct RABTextFoo {
    #[serde(rename = ""@x"")]
    pub x: String,
    #[serde(rename = ""@X"")]
    pub x_attr: String,
    #[serde(rename = ""@a"")]
    pub a: String,
    #[serde(rename = ""@xmlns:p"")]
    pub xmlns_p: String,
}

#[derive(Serialize, Deserialize)]
pub struct RABFoo {
    #[serde(rename = ""@y"")]
    pub y: String,
    #[serde(rename = ""@xmlns:p"")]
    pub xmlns_p: String,
    #[serde(rename = ""@x"")]
    pub x: String,
    #[serde(rename = ""$text"")]
    pub text_content: Option<String>,
    pub x_attr: FooXAttr,
    pub a_b: RABFooAB,
    pub text: FooText,
}

#[derive(Serialize, Deserialize)]
pub struct FooXAttr {
    #[serde(rename = ""@x"")]
    pub x: String,
    #[serde(rename = ""@y"")]
    pub y: String,
    #[serde(rename = ""@type"")]
    pub x_attr_type: String,
}

#[derive(Serialize, Deserialize)]
pub struct RABFooAB {
    #[serde(rename = ""@xmlns:p"")]
    pub xmlns_p: String,
    #[serde(rename = ""@type"")]
    pub a_b_type: String,
}

#[derive(Serialize, Deserialize)]
pub struct FooText {
    #[serde(rename = ""@X"")]
    pub x: String,
    #[serde(rename = ""@k"")]
    pub p_k: String,
}

#[derive(Serialize, Deserialize)]
pub struct RABB {
    #[serde(rename = ""@x"")]
    pub x: String,
    #[serde(rename = ""$text"")]
    pub text_content: Option<String>,
    pub text: BText,
}

#[derive(Serialize, Deserialize)]
pub struct BText {
    #[serde(rename = ""@k"")]
    pub p_k: String,
    #[serde(rename = ""@X"")]
    pub x: String,
    #[serde(rename = ""@xmlns:p"")]
    pub xmlns_p: String,
}

#[derive(Serialize, Deserialize)]
pub struct RFoo {
    #[serde(rename = ""@x"")]
    pub x: String,
    #[serde(rename = ""@y"")]
    pub y: String,
    #[serde(rename = ""@type"")]
    pub foo_type: String,
    #[serde(rename = ""a-b"")]
    pub a_b: RFooAB,
}

#[derive(Serialize, Deserialize)]
pub struct RFooAB {
    #[serde(rename = ""A.B"")]
    pub a_b: RFooABAB,
    pub b: RFooABB,
    pub foo: RFooABFoo,
}

#[derive(Serialize, Deserialize)]
pub struct RFooABAB {
}

#[derive(Serialize, Deserialize)]
pub struct RFooABB {
    #[serde(rename = ""@type"")]
    pub b_type: String,
}

#[derive(Serialize, Deserialize)]
pub struct RFooABFoo {
    #[serde(rename = ""@text"")]
    pub text: String,
    #[serde(rename = ""@type"")]
    pub foo_type: String,
}

#[derive(Serialize, Deserialize)]
pub struct RB {
    #[serde(rename = ""@text"")]
    pub text: String,
    #[serde(rename = ""@X"")]
    pub x: String,
    #[serde(rename = ""A.B"")]
    pub a_b: RBAB,
    #[serde(rename = ""TotalPrice"")]
    pub total_price: BTotalPrice,
    pub x_attr: BXAttr,
    pub foo: RBFoo,
}

#[derive(Serialize, Deserialize)]
pub struct RBAB {
    #[serde(rename = ""@y"")]
    pub y: String,
    #[serde(rename = ""@type"")]
    pub a_b_type_attr: String,
    #[serde(rename = ""$text"")]
    pub text: Option<String>,
    #[serde(rename = ""type"")]
    pub a_b_type: ABType,
}

#[derive(Serialize, Deserialize)]
pub struct ABType {
}

#[derive(Serialize, Deserialize)]
pub struct BTotalPrice {
    #[serde(rename = ""@y"")]
    pub y: String,
    #[serde(rename = ""@a"")]
    pub a: String,
    #[serde(rename = ""@k"")]
    pub p_k: String,
    #[serde(rename = ""$text"")]
    pub text: Option<String>,
    pub b: RBTotalPriceB,
    #[serde(rename = ""A.B"")]
    pub a_b: RBTotalPriceAB,
}

#[derive(Serialize, Deserialize)]
pub struct RBTotalPriceB {
    #[serde(rename = ""@k"")]
    pub p_k: String,
    #[serde(rename = ""@type"")]
    pub b_type: String,
    #[serde(rename = ""@xmlns:p"")]
    pub xmlns_p: String,
}

#[derive(Serialize, Deserialize)]
pub struct RBTotalPriceAB {
    #[serde(rename = ""@a"")]
    pub a: String,
}

#[derive(Serialize, Deserialize)]
pub struct BXAttr {
    #[serde(rename = ""@xmlns:p"")]
    pub xmlns_p: String,
    #[serde(rename = ""a-b"")]
    pub a_b: RBXAttrAB,
}

#[derive(Serialize, Deserialize)]
pub struct RBXAttrAB {
    #[serde(rename = ""@a"")]
    pub a: String,
    #[serde(rename = ""@k"")]
    pub p_k: String,
    #[serde(rename = ""@x"")]
    pub x: String,
}

#[derive(Serialize, Deserialize)]
pub struct RBFoo {
    #[serde(rename = ""@text"")]
    pub text: String,
    #[serde(rename = ""@y"")]
    pub y: String,
    #[serde(rename = ""$text"")]
    pub text_content: Option<String>,
}

");
  ([NElem (s "r") false [s "text"] [NElem (s "x_attr") true [] []; NElem (s "b") false [s "xmlns:p"; s "x_attr"] [NElem (s "Foo") false [s "x"] [NMisc]]; NElem (s "type") false [s "text"; s "p:k"] [NElem (s "TotalPrice") false [s "p:k"; s "a"; s "text"] [NCData; NElem (s "A.B") true [s "x_attr"; s "p:k"] []; NElem (s "b") false [s "y"; s "x"] []]; NText; NElem (s "x_attr") false [s "x"; s "text"; s "xmlns:p"; s "p:k"] []; NElem (s "text") true [s "x_attr"; s "p:k"] []]; NCData]], true, "#[derive(Serialize, Deserialize)]
pub struct R {
    #[serde(rename = ""@text"")]
    pub text: String,
    #[serde(rename = ""$text"")]
    pub text_content: Option<String>,
    pub b: RB,
    #[serde(rename = ""type"")]
    pub r_type: Type,
    pub x_attr: RXAttr,
}

#[derive(Serialize, Deserialize)]
pub struct RB {
    #[serde(rename = ""@x_attr"")]
    pub x_attr: String,
    #[serde(rename = ""@xmlns:p"")]
    pub xmlns_p: String,
    #[serde(rename = ""Foo"")]
    pub foo: Foo,
}

#[derive(Serialize, Deserialize)]
pub struct Foo {
    #[serde(rename = ""@x"")]
    pub x: String,
}

#[derive(Serialize, Deserialize)]
pub struct Type {
    #[serde(rename = ""@k"")]
    pub p_k: String,
    #[serde(rename = ""@text"")]
    pub text_attr: String,
    #[serde(rename = ""$text"")]
    pub text_content: Option<String>,
    #[serde(rename = ""TotalPrice"")]
    pub total_price: TotalPrice,
    pub text: Text,
    pub x_attr: TypeXAttr,
}

#[derive(Serialize, Deserialize)]
pub struct TotalPrice {
    #[serde(rename = ""@a"")]
    pub a: String,
    #[serde(rename = ""@k"")]
    pub p_k: String,
    #[serde(rename = ""@text"")]
    pub text: String,
    #[serde(rename = ""$text"")]
    pub text_content: Option<String>,
    #[serde(rename = ""A.B"")]
    pub a_b: AB,
    pub b: TotalPriceB,
}

#[derive(Serialize, Deserialize)]
pub struct AB {
    #[serde(rename = ""@k"")]
    pub p_k: String,
    #[serde(rename = ""@x_attr"")]
    pub x_attr: String,
}

#[derive(Serialize, Deserialize)]
pub struct TotalPriceB {
    #[serde(rename = ""@x"")]
    pub x: String,
    #[serde(rename = ""@y"")]
    pub y: String,
}

#[derive(Serialize, Deserialize)]
pub struct Text {
    #[serde(rename = ""@k"")]
    pub p_k: String,
    #[serde(rename = ""@x_attr"")]
    pub x_attr: String,
}

#[derive(Serialize, Deserialize)]
pub struct TypeXAttr {
    #[serde(rename = ""@k"")]
    pub p_k: String,
    #[serde(rename = ""@text"")]
    pub text: String,
    #[serde(rename = ""@x"")]
    pub x: String,
    #[serde(rename = ""@xmlns:p"")]
    pub xmlns_p: String,
}

#[derive(Serialize, Deserialize)]
pub struct RXAttr {
}

");
  ([NElem (s "r") false [] [NMisc; NText; NElem (s "a") false [s "x"; s "a"; s "text"] [NCData; NElem (s "type") true [s "xmlns:p"] []; NElem (s "type") false [s "a"; s "p:k"] [NElem (s "ns:item") true [s "x"] []; NCData]; NText]]; NElem (s "r") false [s "text"] [NElem (s "text") false [s "x"] [NCData; NElem (s "x_attr") false [s "y"; s "type"; s "a"] [NMisc]; NElem (s "Foo") false [s "x_attr"; s "x"] [NCData]]; NMisc]; NElem (s "r") false [s "y"; s "text"] [NElem (s "a-b") false [s "x"; s "y"; s "type"; s "a"] [NElem (s "a_b") false [s "x_attr"; s "X"] [NElem (s "a-b") true [] []; NElem (s "a_b") true [s "text"; s "xmlns:p"; s "x_attr"; s "x"; s "y"; s "X"; s "type"; s "a"] []]; NCData; NText; NText]; NElem (s "a_b") false [s "xmlns:p"] [NElem (s "type") false [s "x_attr"; s "xmlns:p"; s "p:k"] [NElem (s "A.B") true [s "X"] []; NElem (s "Foo") false [s "X"] []; NElem (s "b") true [s "y"; s "a"; s "text"] []]]; NElem (s "b") true [s "y"] []; NText]], true, "#[derive(Serialize, Deserialize)]
pub struct R {
    #[serde(rename = ""@text"")]
    pub text_attr: Option<String>,
    #[serde(rename = ""@y"")]
    pub y: Option<String>,
    #[serde(rename = ""$text"")]
    pub text_content: Option<String>,
    pub a: Option<A>,
    #[serde(rename = ""a-b"")]
    pub a_b_1: Option<RAB>,
    pub a_b: Option<RAB>,
    pub b: Option<RB>,
    pub text: Option<Text>,
}

#[derive(Serialize, Deserialize)]
pub struct A {
    #[serde(rename = ""@a"")]
    pub a: String,
    #[serde(rename = ""@text"")]
    pub text: String,
    #[serde(rename = ""@x"")]
    pub x: String,
    #[serde(rename = ""$text"")]
    pub text_content: Option<String>,
    #[serde(rename = ""type"")]
    pub a_type: Vec<AType>,
}

#[derive(Serialize, Deserialize)]
pub struct AType {
    #[serde(rename = ""@a"")]
    pub a: Option<String>,
    #[serde(rename = ""@k"")]
    pub p_k: Option<String>,
    #[serde(rename = ""@xmlns:p"")]
    pub xmlns_p: Option<String>,
    #[serde(rename = ""$text"")]
    pub text: Option<String>,
    #[serde(rename = ""item"")]
    pub ns_item: Option<NsItem>,
}

#[derive(Serialize, Deserialize)]
pub struct NsItem {
    #[serde(rename = ""@x"")]
    pub x: String,
}

#[derive(Serialize, Deserialize)]
pub struct RAB {
    #[serde(rename = ""@a"")]
    pub a: String,
    #[serde(rename = ""@type"")]
    pub a_b_type: String,
    #[serde(rename = ""@x"")]
    pub x: String,
    #[serde(rename = ""@y"")]
    pub y: String,
    #[serde(rename = ""$text"")]
    pub text: Option<String>,
    pub a_b: RABAB,
}

#[derive(Serialize, Deserialize)]
pub struct RABAB {
    #[serde(rename = ""@X"")]
    pub x: String,
    #[serde(rename = ""@x_attr"")]
    pub x_attr: String,
    #[serde(rename = ""a-b"")]
    pub a_b: RABABAB,
    #[serde(rename = ""a_b"")]
    pub a_b_1: RABABAB,
}

#[derive(Serialize, Deserialize)]
pub struct RABABAB {
}

#[derive(Serialize, Deserialize)]
pub struct RABABAB {
    #[serde(rename = ""@X"")]
    pub x_attr_1: String,
    #[serde(rename = ""@a"")]
    pub a: String,
    #[serde(rename = ""@text"")]
    pub text: String,
    #[serde(rename = ""@type"")]
    pub a_b_type: String,
    #[serde(rename = ""@x"")]
    pub x: String,
    #[serde(rename = ""@x_attr"")]
    pub x_attr: String,
    #[serde(rename = ""@xmlns:p"")]
    pub xmlns_p: String,
    #[serde(rename = ""@y"")]
    pub y: String,
}

#[derive(Serialize, Deserialize)]
pub struct RAB {
    #[serde(rename = ""@xmlns:p"")]
    pub xmlns_p: String,
    #[serde(rename = ""type"")]
    pub a_b_type: ABType,
}

#[derive(Serialize, Deserialize)]
pub struct ABType {
    #[serde(rename = ""@k"")]
    pub p_k: String,
    #[serde(rename = ""@x_attr"")]
    pub x_attr: String,
    #[serde(rename = ""@xmlns:p"")]
    pub xmlns_p: String,
    #[serde(rename = ""A.B"")]
    pub a_b: RABTypeAB,
    #[serde(rename = ""Foo"")]
    pub foo: TypeFoo,
    pub b: TypeB,
}

#[derive(Serialize, Deserialize)]
pub struct RABTypeAB {
    #[serde(rename = ""@X"")]
    pub x: String,
}

#[derive(Serialize, Deserialize)]
pub struct TypeFoo {
    #[serde(rename = ""@X"")]
    pub x: String,
}

#[derive(Serialize, Deserialize)]
pub struct TypeB {
    #[serde(rename = ""@a"")]
    pub a: String,
    #[serde(rename = ""@text"")]
    pub text: String,
    #[serde(rename = ""@y"")]
    pub y: String,
}

#[derive(Serialize, Deserialize)]
pub struct RB {
    #[serde(rename = ""@y"")]
    pub y: String,
}

#[derive(Serialize, Deserialize)]
pub struct Text {
    #[serde(rename = ""@x"")]
    pub x: String,
    #[serde(rename = ""$text"")]
    pub text: Option<String>,
    #[serde(rename = ""Foo"")]
    pub foo: TextFoo,
    pub x_attr: XAttr,
}

#[derive(Serialize, Deserialize)]
pub struct TextFoo {
    #[serde(rename = ""@x"")]
    pub x: String,
    #[serde(rename = ""@x_attr"")]
    pub x_attr: String,
    #[serde(rename = ""$text"")]
    pub text: Option<String>,
}

#[derive(Serialize, Deserialize)]
pub struct XAttr {
    #[serde(rename = ""@a"")]
    pub a: String,
    #[serde(rename = ""@type"")]
    pub x_attr_type: String,
    #[serde(rename = ""@y"")]
    pub y: String,
}

");
  ([NElem (s "r") true [s "p:k"; s "xmlns:p"] []; NElem (s "r") true [s "y"; s "X"] []; NElem (s "r") false [s "text"; s "xmlns:p"; s "p:k"; s "x_attr"] [NText; NCData; NElem (s "x_attr") false [s "p:k"; s "x_attr"; s "a"] [NElem (s "x_attr") false [s "x"; s "X"; s "type"] [NElem (s "foo") true [s "x"; s "X"; s "a"; s "xmlns:p"; s "x_attr"] []; NElem (s "a") true [] []]]; NMisc]], true, "#[derive(Serialize, Deserialize)]
pub struct R {
    #[serde(rename = ""@X"")]
    pub x: Option<String>,
    #[serde(rename = ""@k"")]
    pub p_k: Option<String>,
    #[serde(rename = ""@text"")]
    pub text: Option<String>,
    #[serde(rename = ""@x_attr"")]
    pub x_attr_1: Option<String>,
    #[serde(rename = ""@xmlns:p"")]
    pub xmlns_p: Option<String>,
    #[serde(rename = ""@y"")]
    pub y: Option<String>,
    #[serde(rename = ""$text"")]
    pub text_content: Option<String>,
    pub x_attr: Option<RXAttr>,
}

#[derive(Serialize, Deserialize)]
pub struct RXAttr {
    #[serde(rename = ""@a"")]
    pub a: String,
    #[serde(rename = ""@k"")]
    pub p_k: String,
    #[serde(rename = ""@x_attr"")]
    pub x_attr_1: String,
    pub x_attr: XAttrXAttr,
}

#[derive(Serialize, Deserialize)]
pub struct XAttrXAttr {
    #[serde(rename = ""@X"")]
    pub x_attr: String,
    #[serde(rename = ""@type"")]
    pub x_attr_type: String,
    #[serde(rename = ""@x"")]
    pub x: String,
    pub a: A,
    pub foo: Foo,
}

#[derive(Serialize, Deserialize)]
pub struct A {
}

#[derive(Serialize, Deserialize)]
pub struct Foo {
    #[serde(rename = ""@X"")]
    pub x_attr: String,
    #[serde(rename = ""@a"")]
    pub a: String,
    #[serde(rename = ""@x"")]
    pub x: String,
    #[serde(rename = ""@x_attr"")]
    pub x_attr_1: String,
    #[serde(rename = ""@xmlns:p"")]
    pub xmlns_p: String,
}

");
  ([NElem (s "r") false [s "X"; s "text"] []; NElem (s "r") false [s "text"; s "x"; s "type"] []; NElem (s "r") false [s "p:k"] []], true, "#[derive(Serialize, Deserialize)]
pub struct R {
    #[serde(rename = ""@X"")]
    pub x: Option<String>,
    #[serde(rename = ""@k"")]
    pub p_k: Option<String>,
    #[serde(rename = ""@text"")]
    pub text: Option<String>,
    #[serde(rename = ""@type"")]
    pub r_type: Option<String>,
    #[serde(rename = ""@x"")]
    pub x_attr: Option<String>,
}

");
  ([NElem (s "r") false [s "xmlns:p"; s "x_attr"] [NElem (s "type") false [s "xmlns:p"; s "y"; s "type"] []]], false, "#[derive(Serialize, Deserialize)]
pub struct R {
    #[serde(rename = ""@xmlns:p"")]
    pub xmlns_p: String,
    #[serde(rename = ""@x_attr"")]
    pub x_attr: String,
    #[serde(rename = ""type"")]
    pub r_type: Type,
}

#[derive(Serialize, Deserialize)]
pub struct Type {
    #[serde(rename = ""@xmlns:p"")]
    pub xmlns_p: String,
    #[serde(rename = ""@y"")]
    pub y: String,
    #[serde(rename = ""@type"")]
    pub type_type: String,
}

");
  ([NElem (s "r") false [s "type"] [NElem (s "TotalPrice") false [s "xmlns:p"] [NElem (s "a") false [s "p:k"; s "x"; s "X"] [NMisc; NMisc; NText]; NElem (s "text") false [s "p:k"; s "type"] []; NElem (s "ns:item") false [s "type"; s "text"; s "y"] [NCData; NMisc]]; NMisc]; NElem (s "r") false [s "X"; s "type"; s "text"] [NElem (s "x_attr") false [s "X"; s "p:k"; s "x_attr"; s "x"] [NElem (s "b") false [s "type"] [NElem (s "a_b") true [s "type"; s "text"; s "xmlns:p"; s "p:k"; s "x_attr"] []; NElem (s "type") false [s "text"; s "xmlns:p"; s "type"] []; NElem (s "a_b") false [s "type"; s "a"; s "xmlns:p"; s "x_attr"; s "X"] []]; NElem (s "a-b") false [s "type"; s "text"] [NElem (s "Foo") false [s "p:k"; s "y"; s "a"] []; NCData; NElem (s "b") true [s "p:k"; s "type"] []; NElem (s "text") true [] []]; NElem (s "b") false [s "X"; s "xmlns:p"; s "x"] [NMisc]]; NElem (s "foo") false [s "x"; s "y"; s "X"; s "type"; s "x_attr"] [NElem (s "type") true [s "x"] []; NMisc]; NElem (s "text") false [s "type"] [NElem (s "Foo") false [s "xmlns:p"; s "x_attr"; s "x"; s "y"; s "a"] [NElem (s "x_attr") true [s "p:k"; s "text"; s "xmlns:p"] []; NElem (s "a") false [s "X"] []]; NElem (s "a_b") false [s "type"; s "xmlns:p"; s "X"] []; NElem (s "a_b") false [s "type"] [NElem (s "b") true [s "x"; s "type"; s "xmlns:p"] []]; NMisc]; NText]; NElem (s "r") false [s "type"] [NCData]], false, "#[derive(Serialize, Deserialize)]
pub struct R {
    #[serde(rename = ""@type"")]
    pub r_type: String,
    #[serde(rename = ""@X"")]
    pub x: Option<String>,
    #[serde(rename = ""@text"")]
    pub text_attr: Option<String>,
    #[serde(rename = ""$text"")]
    pub text_content: Option<String>,
    #[serde(rename = ""TotalPrice"")]
    pub total_price: Option<TotalPrice>,
    pub x_attr: Option<RXAttr>,
    pub foo: Option<RFoo>,
    pub text: Option<RText>,
}

#[derive(Serialize, Deserialize)]
pub struct TotalPrice {
    #[serde(rename = ""@xmlns:p"")]
    pub xmlns_p: String,
    pub a: TotalPriceA,
    pub text: TotalPriceText,
    #[serde(rename = ""item"")]
    pub ns_item: NsItem,
}

#[derive(Serialize, Deserialize)]
pub struct TotalPriceA {
    #[serde(rename = ""@k"")]
    pub p_k: String,
    #[serde(rename = ""@x"")]
    pub x: String,
    #[serde(rename = ""@X"")]
    pub x_attr: String,
    #[serde(rename = ""$text"")]
    pub text: Option<String>,
}

#[derive(Serialize, Deserialize)]
pub struct TotalPriceText {
    #[serde(rename = ""@k"")]
    pub p_k: String,
    #[serde(rename = ""@type"")]
    pub text_type: String,
}

#[derive(Serialize, Deserialize)]
pub struct NsItem {
    #[serde(rename = ""@type"")]
    pub ns_item_type: String,
    #[serde(rename = ""@text"")]
    pub text: String,
    #[serde(rename = ""@y"")]
    pub y: String,
    #[serde(rename = ""$text"")]
    pub text_content: Option<String>,
}

#[derive(Serialize, Deserialize)]
pub struct RXAttr {
    #[serde(rename = ""@X"")]
    pub x: String,
    #[serde(rename = ""@k"")]
    pub p_k: String,
    #[serde(rename = ""@x_attr"")]
    pub x_attr: String,
    #[serde(rename = ""@x"")]
    pub x_attr_1: String,
    pub b: Vec<RXAttrB>,
    #[serde(rename = ""a-b"")]
    pub a_b: XAttrAB,
}

#[derive(Serialize, Deserialize)]
pub struct RXAttrB {
    #[serde(rename = ""@type"")]
    pub b_type_attr: Option<String>,
    #[serde(rename = ""@X"")]
    pub x: Option<String>,
    #[serde(rename = ""@xmlns:p"")]
    pub xmlns_p: Option<String>,
    #[serde(rename = ""@x"")]
    pub x_attr: Option<String>,
    pub a_b: Option<Vec<BAB>>,
    #[serde(rename = ""type"")]
    pub b_type: Option<BType>,
}

#[derive(Serialize, Deserialize)]
pub struct BAB {
    #[serde(rename = ""@type"")]
    pub a_b_type: String,
    #[serde(rename = ""@text"")]
    pub text: Option<String>,
    #[serde(rename = ""@xmlns:p"")]
    pub xmlns_p: String,
    #[serde(rename = ""@k"")]
    pub p_k: Option<String>,
    #[serde(rename = ""@x_attr"")]
    pub x_attr: String,
    #[serde(rename = ""@a"")]
    pub a: Option<String>,
    #[serde(rename = ""@X"")]
    pub x: Option<String>,
}

#[derive(Serialize, Deserialize)]
pub struct BType {
    #[serde(rename = ""@text"")]
    pub text: String,
    #[serde(rename = ""@xmlns:p"")]
    pub xmlns_p: String,
    #[serde(rename = ""@type"")]
    pub type_type: String,
}

#[derive(Serialize, Deserialize)]
pub struct XAttrAB {
    #[serde(rename = ""@type"")]
    pub a_b_type: String,
    #[serde(rename = ""@text"")]
    pub text_attr: String,
    #[serde(rename = ""$text"")]
    pub text_content: Option<String>,
    #[serde(rename = ""Foo"")]
    pub foo: ABFoo,
    pub b: XAttrABB,
    pub text: ABText,
}

#[derive(Serialize, Deserialize)]
pub struct ABFoo {
    #[serde(rename = ""@k"")]
    pub p_k: String,
    #[serde(rename = ""@y"")]
    pub y: String,
    #[serde(rename = ""@a"")]
    pub a: String,
}

#[derive(Serialize, Deserialize)]
pub struct XAttrABB {
    #[serde(rename = ""@k"")]
    pub p_k: String,
    #[serde(rename = ""@type"")]
    pub b_type: String,
}

#[derive(Serialize, Deserialize)]
pub struct ABText {
}

#[derive(Serialize, Deserialize)]
pub struct RFoo {
    #[serde(rename = ""@x"")]
    pub x: String,
    #[serde(rename = ""@y"")]
    pub y: String,
    #[serde(rename = ""@X"")]
    pub x_attr: String,
    #[serde(rename = ""@type"")]
    pub foo_type_attr: String,
    #[serde(rename = ""@x_attr"")]
    pub x_attr_1: String,
    #[serde(rename = ""type"")]
    pub foo_type: FooType,
}

#[derive(Serialize, Deserialize)]
pub struct FooType {
    #[serde(rename = ""@x"")]
    pub x: String,
}

#[derive(Serialize, Deserialize)]
pub struct RText {
    #[serde(rename = ""@type"")]
    pub text_type: String,
    #[serde(rename = ""Foo"")]
    pub foo: TextFoo,
    pub a_b: Vec<TextAB>,
}

#[derive(Serialize, Deserialize)]
pub struct TextFoo {
    #[serde(rename = ""@xmlns:p"")]
    pub xmlns_p: String,
    #[serde(rename = ""@x_attr"")]
    pub x_attr_1: String,
    #[serde(rename = ""@x"")]
    pub x: String,
    #[serde(rename = ""@y"")]
    pub y: String,
    #[serde(rename = ""@a"")]
    pub a_attr: String,
    pub x_attr: FooXAttr,
    pub a: FooA,
}

#[derive(Serialize, Deserialize)]
pub struct FooXAttr {
    #[serde(rename = ""@k"")]
    pub p_k: String,
    #[serde(rename = ""@text"")]
    pub text: String,
    #[serde(rename = ""@xmlns:p"")]
    pub xmlns_p: String,
}

#[derive(Serialize, Deserialize)]
pub struct FooA {
    #[serde(rename = ""@X"")]
    pub x: String,
}

#[derive(Serialize, Deserialize)]
pub struct TextAB {
    #[serde(rename = ""@type"")]
    pub a_b_type: String,
    #[serde(rename = ""@xmlns:p"")]
    pub xmlns_p: Option<String>,
    #[serde(rename = ""@X"")]
    pub x: Option<String>,
    pub b: Option<TextABB>,
}

#[derive(Serialize, Deserialize)]
pub struct TextABB {
    #[serde(rename = ""@x"")]
    pub x: String,
    #[serde(rename = ""@type"")]
    pub b_type: String,
    #[serde(rename = ""@xmlns:p"")]
    pub xmlns_p: String,
}

");
  ([NElem (s "r") false [] [NMisc]], true, "#[derive(Serialize, Deserialize)]
pub struct R {
}

");
  ([NElem (s "r") false [s "text"; s "X"; s "a"] [NElem (s "a-b") false [s "x_attr"] [NText]]], false, "#[derive(Serialize, Deserialize)]
pub struct R {
    #[serde(rename = ""@text"")]
    pub text: String,
    #[serde(rename = ""@X"")]
    pub x: String,
    #[serde(rename = ""@a"")]
    pub a: String,
    #[serde(rename = ""a-b"")]
    pub a_b: AB,
}

#[derive(Serialize, Deserialize)]
pub struct AB {
    #[serde(rename = ""@x_attr"")]
    pub x_attr: String,
    #[serde(rename = ""$text"")]
    pub text: Option<String>,
}

");
  ([NElem (s "r") false [s "x"; s "a"] [NElem (s "a") false [s "a"; s "xmlns:p"; s "X"] []; NElem (s "TotalPrice") false [s "y"; s "text"] [NElem (s "text") false [s "type"] [NElem (s "A.B") true [s "y"; s "a"; s "x_attr"] []; NElem (s "b") false [] []; NText; NElem (s "text") true [] []]]]; NElem (s "r") false [s "text"; s "xmlns:p"; s "type"; s "a"] []; NElem (s "r") false [s "a"; s "p:k"; s "type"] [NCData; NElem (s "a") false [s "a"] [NCData; NElem (s "text") false [s "a"] [NText; NElem (s "text") false [s "x"; s "p:k"] []; NElem (s "text") false [s "text"; s "type"] []]]; NElem (s "a_b") false [s "y"; s "X"; s "type"; s "a"; s "p:k"; s "x_attr"] [NElem (s "A.B") true [s "text"; s "X"] []; NMisc; NCData]; NMisc]], false, "#[derive(Serialize, Deserialize)]
pub struct R {
    #[serde(rename = ""@x"")]
    pub x: Option<String>,
    #[serde(rename = ""@a"")]
    pub a_attr: String,
    #[serde(rename = ""@text"")]
    pub text: Option<String>,
    #[serde(rename = ""@xmlns:p"")]
    pub xmlns_p: Option<String>,
    #[serde(rename = ""@type"")]
    pub r_type: Option<String>,
    #[serde(rename = ""@k"")]
    pub p_k: Option<String>,
    #[serde(rename = ""$text"")]
    pub text_content: Option<String>,
    pub a: Option<A>,
    #[serde(rename = ""TotalPrice"")]
    pub total_price: Option<TotalPrice>,
    pub a_b: Option<RAB>,
}

#[derive(Serialize, Deserialize)]
pub struct A {
    #[serde(rename = ""@a"")]
    pub a: String,
    #[serde(rename = ""@xmlns:p"")]
    pub xmlns_p: Option<String>,
    #[serde(rename = ""@X"")]
    pub x: Option<String>,
    #[serde(rename = ""$text"")]
    pub text_content: Option<String>,
    pub text: Option<RAText>,
}

#[derive(Serialize, Deserialize)]
pub struct RAText {
    #[serde(rename = ""@a"")]
    pub a: String,
    #[serde(rename = ""$text"")]
    pub text_content: Option<String>,
    pub text: Vec<ATextText>,
}

#[derive(Serialize, Deserialize)]
pub struct ATextText {
    #[serde(rename = ""@x"")]
    pub x: Option<String>,
    #[serde(rename = ""@k"")]
    pub p_k: Option<String>,
    #[serde(rename = ""@text"")]
    pub text: Option<String>,
    #[serde(rename = ""@type"")]
    pub text_type: Option<String>,
}

#[derive(Serialize, Deserialize)]
pub struct TotalPrice {
    #[serde(rename = ""@y"")]
    pub y: String,
    #[serde(rename = ""@text"")]
    pub text_attr: String,
    pub text: RTotalPriceText,
}

#[derive(Serialize, Deserialize)]
pub struct RTotalPriceText {
    #[serde(rename = ""@type"")]
    pub text_type: String,
    #[serde(rename = ""$text"")]
    pub text_content: Option<String>,
    #[serde(rename = ""A.B"")]
    pub a_b: TextAB,
    pub b: B,
    pub text: TotalPriceTextText,
}

#[derive(Serialize, Deserialize)]
pub struct TextAB {
    #[serde(rename = ""@y"")]
    pub y: String,
    #[serde(rename = ""@a"")]
    pub a: String,
    #[serde(rename = ""@x_attr"")]
    pub x_attr: String,
}

#[derive(Serialize, Deserialize)]
pub struct B {
}

#[derive(Serialize, Deserialize)]
pub struct TotalPriceTextText {
}

#[derive(Serialize, Deserialize)]
pub struct RAB {
    #[serde(rename = ""@y"")]
    pub y: String,
    #[serde(rename = ""@X"")]
    pub x: String,
    #[serde(rename = ""@type"")]
    pub a_b_type: String,
    #[serde(rename = ""@a"")]
    pub a: String,
    #[serde(rename = ""@k"")]
    pub p_k: String,
    #[serde(rename = ""@x_attr"")]
    pub x_attr: String,
    #[serde(rename = ""$text"")]
    pub text: Option<String>,
    #[serde(rename = ""A.B"")]
    pub a_b: ABAB,
}

#[derive(Serialize, Deserialize)]
pub struct ABAB {
    #[serde(rename = ""@text"")]
    pub text: String,
    #[serde(rename = ""@X"")]
    pub x: String,
}

");
  ([NElem (s "r") false [] [NElem (s "a-b") false [s "X"; s "x_attr"; s "y"] [NText]; NMisc]], true, "#[derive(Serialize, Deserialize)]
pub struct R {
    #[serde(rename = ""a-b"")]
    pub a_b: AB,
}

#[derive(Serialize, Deserialize)]
pub struct AB {
    #[serde(rename = ""@X"")]
    pub x: String,
    #[serde(rename = ""@x_attr"")]
    pub x_attr: String,
    #[serde(rename = ""@y"")]
    pub y: String,
    #[serde(rename = ""$text"")]
    pub text: Option<String>,
}

");
  ([NElem (s "r") true [s "x"; s "a"] []], false, "#[derive(Serialize, Deserialize)]
pub struct R {
    #[serde(rename = ""@x"")]
    pub x: String,
    #[serde(rename = ""@a"")]
    pub a: String,
}

");
  ([NElem (s "r") false [s "x"; s "xmlns:p"] []], true, "#[derive(Serialize, Deserialize)]
pub struct R {
    #[serde(rename = ""@x"")]
    pub x: String,
    #[serde(rename = ""@xmlns:p"")]
    pub xmlns_p: String,
}

");
  ([NElem (s "r") false [s "x"; s "y"] [NElem (s "Foo") false [s "xmlns:p"] [NText; NCData; NElem (s "a_b") false [s "X"; s "type"; s "p:k"; s "x"] [NText]; NElem (s "text") false [s "x"] [NElem (s "type") true [s "xmlns:p"; s "p:k"; s "text"] []]]; NMisc; NElem (s "A.B") false [s "type"; s "p:k"; s "x"] [NElem (s "Foo") false [s "x_attr"; s "y"; s "xmlns:p"] [NCData; NElem (s "ns:item") true [s "X"] []; NElem (s "a") true [s "text"; s "xmlns:p"; s "p:k"; s "x_attr"; s "X"; s "a"] []; NCData]; NCData; NElem (s "a_b") false [] [NText; NElem (s "ns:item") false [s "y"; s "text"] []; NCData]]; NCData]], true, "#[derive(Serialize, Deserialize)]
pub struct R {
    #[serde(rename = ""@x"")]
    pub x: String,
    #[serde(rename = ""@y"")]
    pub y: String,
    #[serde(rename = ""$text"")]
    pub text: Option<String>,
    #[serde(rename = ""A.B"")]
    pub a_b: RAB,
    #[serde(rename = ""Foo"")]
    pub foo: RFoo,
}

#[derive(Serialize, Deserialize)]
pub struct RAB {
    #[serde(rename = ""@k"")]
    pub p_k: String,
    #[serde(rename = ""@type"")]
    pub a_b_type: String,
    #[serde(rename = ""@x"")]
    pub x: String,
    #[serde(rename = ""$text"")]
    pub text: Option<String>,
    #[serde(rename = ""Foo"")]
    pub foo: ABFoo,
    pub a_b: ABAB,
}

#[derive(Serialize, Deserialize)]
pub struct ABFoo {
    #[serde(rename = ""@x_attr"")]
    pub x_attr: String,
    #[serde(rename = ""@xmlns:p"")]
    pub xmlns_p: String,
    #[serde(rename = ""@y"")]
    pub y: String,
    #[serde(rename = ""$text"")]
    pub text: Option<String>,
    pub a: A,
    #[serde(rename = ""item"")]
    pub ns_item: FooNsItem,
}

#[derive(Serialize, Deserialize)]
pub struct A {
    #[serde(rename = ""@X"")]
    pub x: String,
    #[serde(rename = ""@a"")]
    pub a: String,
    #[serde(rename = ""@k"")]
    pub p_k: String,
    #[serde(rename = ""@text"")]
    pub text: String,
    #[serde(rename = ""@x_attr"")]
    pub x_attr: String,
    #[serde(rename = ""@xmlns:p"")]
    pub xmlns_p: String,
}

#[derive(Serialize, Deserialize)]
pub struct FooNsItem {
    #[serde(rename = ""@X"")]
    pub x: String,
}

#[derive(Serialize, Deserialize)]
pub struct ABAB {
    #[serde(rename = ""$text"")]
    pub text: Option<String>,
    #[serde(rename = ""item"")]
    pub ns_item: ABNsItem,
}

#[derive(Serialize, Deserialize)]
pub struct ABNsItem {
    #[serde(rename = ""@text"")]
    pub text: String,
    #[serde(rename = ""@y"")]
    pub y: String,
}

#[derive(Serialize, Deserialize)]
pub struct RFoo {
    #[serde(rename = ""@xmlns:p"")]
    pub xmlns_p: String,
    #[serde(rename = ""$text"")]
    pub text_content: Option<String>,
    pub a_b: FooAB,
    pub text: Text,
}

#[derive(Serialize, Deserialize)]
pub struct FooAB {
    #[serde(rename = ""@X"")]
    pub x: String,
    #[serde(rename = ""@k"")]
    pub p_k: String,
    #[serde(rename = ""@type"")]
    pub a_b_type: String,
    #[serde(rename = ""@x"")]
    pub x_attr: String,
    #[serde(rename = ""$text"")]
    pub text: Option<String>,
}

#[derive(Serialize, Deserialize)]
pub struct Text {
    #[serde(rename = ""@x"")]
    pub x: String,
    #[serde(rename = ""type"")]
    pub text_type: Type,
}

#[derive(Serialize, Deserialize)]
pub struct Type {
    #[serde(rename = ""@k"")]
    pub p_k: String,
    #[serde(rename = ""@text"")]
    pub text: String,
    #[serde(rename = ""@xmlns:p"")]
    pub xmlns_p: String,
}

");
  ([NElem (s "r") false [s "y"] [NElem (s "a_b") false [s "a"; s "p:k"] [NElem (s "foo") true [s "a"; s "type"] []]; NElem (s "b") false [s "a"; s "type"] [NElem (s "A.B") false [s "y"; s "type"] [NElem (s "A.B") false [] []; NElem (s "TotalPrice") false [s "a"; s "x"] []; NElem (s "a-b") false [s "y"; s "a"; s "text"; s "x_attr"] []; NMisc]; NElem (s "a") false [s "y"; s "type"; s "p:k"] [NElem (s "ns:item") false [s "p:k"; s "X"; s "a"] []; NElem (s "x_attr") true [s "X"] []]; NElem (s "a") false [s "a"; s "x"] [NText]]; NElem (s "foo") false [s "y"; s "X"; s "type"; s "xmlns:p"] [NMisc; NElem (s "type") false [s "p:k"] [NText; NElem (s "b") false [s "text"] []]; NElem (s "a") true [s "a"; s "p:k"; s "x_attr"; s "X"] []; NText]]], false, "#[derive(Serialize, Deserialize)]
pub struct R {
    #[serde(rename = ""@y"")]
    pub y: String,
    pub a_b: RAB,
    pub b: RB,
    pub foo: RFoo,
}

#[derive(Serialize, Deserialize)]
pub struct RAB {
    #[serde(rename = ""@a"")]
    pub a: String,
    #[serde(rename = ""@k"")]
    pub p_k: String,
    pub foo: ABFoo,
}

#[derive(Serialize, Deserialize)]
pub struct ABFoo {
    #[serde(rename = ""@a"")]
    pub a: String,
    #[serde(rename = ""@type"")]
    pub foo_type: String,
}

#[derive(Serialize, Deserialize)]
pub struct RB {
    #[serde(rename = ""@a"")]
    pub a_attr: String,
    #[serde(rename = ""@type"")]
    pub b_type: String,
    #[serde(rename = ""A.B"")]
    pub a_b: RBAB,
    pub a: Vec<BA>,
}

#[derive(Serialize, Deserialize)]
pub struct RBAB {
    #[serde(rename = ""@y"")]
    pub y: String,
    #[serde(rename = ""@type"")]
    pub a_b_type: String,
    #[serde(rename = ""A.B"")]
    pub a_b: RBABAB,
    #[serde(rename = ""TotalPrice"")]
    pub total_price: TotalPrice,
    #[serde(rename = ""a-b"")]
    pub a_b_1: RBABAB,
}

#[derive(Serialize, Deserialize)]
pub struct RBABAB {
}

#[derive(Serialize, Deserialize)]
pub struct TotalPrice {
    #[serde(rename = ""@a"")]
    pub a: String,
    #[serde(rename = ""@x"")]
    pub x: String,
}

#[derive(Serialize, Deserialize)]
pub struct RBABAB {
    #[serde(rename = ""@y"")]
    pub y: String,
    #[serde(rename = ""@a"")]
    pub a: String,
    #[serde(rename = ""@text"")]
    pub text: String,
    #[serde(rename = ""@x_attr"")]
    pub x_attr: String,
}

#[derive(Serialize, Deserialize)]
pub struct BA {
    #[serde(rename = ""@y"")]
    pub y: Option<String>,
    #[serde(rename = ""@type"")]
    pub a_type: Option<String>,
    #[serde(rename = ""@k"")]
    pub p_k: Option<String>,
    #[serde(rename = ""@a"")]
    pub a: Option<String>,
    #[serde(rename = ""@x"")]
    pub x: Option<String>,
    #[serde(rename = ""$text"")]
    pub text: Option<String>,
    #[serde(rename = ""item"")]
    pub ns_item: Option<NsItem>,
    pub x_attr: Option<XAttr>,
}

#[derive(Serialize, Deserialize)]
pub struct NsItem {
    #[serde(rename = ""@k"")]
    pub p_k: String,
    #[serde(rename = ""@X"")]
    pub x: String,
    #[serde(rename = ""@a"")]
    pub a: String,
}

#[derive(Serialize, Deserialize)]
pub struct XAttr {
    #[serde(rename = ""@X"")]
    pub x: String,
}

#[derive(Serialize, Deserialize)]
pub struct RFoo {
    #[serde(rename = ""@y"")]
    pub y: String,
    #[serde(rename = ""@X"")]
    pub x: String,
    #[serde(rename = ""@type"")]
    pub foo_type_attr: String,
    #[serde(rename = ""@xmlns:p"")]
    pub xmlns_p: String,
    #[serde(rename = ""$text"")]
    pub text: Option<String>,
    #[serde(rename = ""type"")]
    pub foo_type: Type,
    pub a: FooA,
}

#[derive(Serialize, Deserialize)]
pub struct Type {
    #[serde(rename = ""@k"")]
    pub p_k: String,
    #[serde(rename = ""$text"")]
    pub text: Option<String>,
    pub b: TypeB,
}

#[derive(Serialize, Deserialize)]
pub struct TypeB {
    #[serde(rename = ""@text"")]
    pub text: String,
}

#[derive(Serialize, Deserialize)]
pub struct FooA {
    #[serde(rename = ""@a"")]
    pub a: String,
    #[serde(rename = ""@k"")]
    pub p_k: String,
    #[serde(rename = ""@x_attr"")]
    pub x_attr: String,
    #[serde(rename = ""@X"")]
    pub x: String,
}

");
  ([NElem (s "r") false [s "p:k"] [NMisc; NText]], false, "#[derive(Serialize, Deserialize)]
pub struct R {
    #[serde(rename = ""@k"")]
    pub p_k: String,
    #[serde(rename = ""$text"")]
    pub text: Option<String>,
}

");
  ([NElem (s "r") false [s "X"; s "p:k"; s "x"] [NElem (s "b") false [s "y"; s "X"] [NElem (s "ns:item") false [] [NMisc; NCData]; NText; NElem (s "text") false [s "y"; s "p:k"; s "x_attr"] [NMisc; NElem (s "b") true [s "a"; s "text"] []; NElem (s "TotalPrice") true [s "a"; s "type"] []]; NText]]; NElem (s "r") false [s "a"; s "xmlns:p"] [NElem (s "Foo") false [s "x"; s "y"] [NElem (s "x_attr") false [s "x"; s "y"; s "X"] [NElem (s "foo") true [s "p:k"; s "x_attr"] []; NText]; NCData; NCData]]; NElem (s "r") false [s "text"; s "x"] [NElem (s "A.B") false [s "p:k"; s "y"] [NElem (s "TotalPrice") false [s "X"] [NElem (s "ns:item") true [s "p:k"] []; NText; NElem (s "a-b") true [s "p:k"] []]; NMisc]; NElem (s "type") false [] [NElem (s "a") false [s "x_attr"; s "X"; s "a"; s "p:k"] [NElem (s "TotalPrice") false [s "x_attr"; s "a"] []]; NElem (s "TotalPrice") false [s "x"; s "xmlns:p"] [NElem (s "text") false [s "type"; s "a"; s "p:k"; s "x_attr"] []]]; NElem (s "Foo") false [s "y"; s "a"; s "x_attr"] [NMisc; NElem (s "text") false [s "x"; s "type"; s "text"; s "xmlns:p"] [NElem (s "ns:item") true [s "x_attr"; s "x"; s "y"] []; NMisc; NElem (s "TotalPrice") false [s "type"; s "x"] []; NCData]; NCData]]], false, "#[derive(Serialize, Deserialize)]
pub struct R {
    #[serde(rename = ""@X"")]
    pub x: Option<String>,
    #[serde(rename = ""@k"")]
    pub p_k: Option<String>,
    #[serde(rename = ""@x"")]
    pub x_attr: Option<String>,
    #[serde(rename = ""@a"")]
    pub a: Option<String>,
    #[serde(rename = ""@xmlns:p"")]
    pub xmlns_p: Option<String>,
    #[serde(rename = ""@text"")]
    pub text: Option<String>,
    pub b: Option<RB>,
    #[serde(rename = ""Foo"")]
    pub foo: Option<RFoo>,
    #[serde(rename = ""A.B"")]
    pub a_b: Option<RAB>,
    #[serde(rename = ""type"")]
    pub r_type: Option<Type>,
}

#[derive(Serialize, Deserialize)]
pub struct RB {
    #[serde(rename = ""@y"")]
    pub y: String,
    #[serde(rename = ""@X"")]
    pub x: String,
    #[serde(rename = ""$text"")]
    pub text_content: Option<String>,
    #[serde(rename = ""item"")]
    pub ns_item: String,
    pub text: BText,
}

#[derive(Serialize, Deserialize)]
pub struct BText {
    #[serde(rename = ""@y"")]
    pub y: String,
    #[serde(rename = ""@k"")]
    pub p_k: String,
    #[serde(rename = ""@x_attr"")]
    pub x_attr: String,
    pub b: TextB,
    #[serde(rename = ""TotalPrice"")]
    pub total_price: BTextTotalPrice,
}

#[derive(Serialize, Deserialize)]
pub struct TextB {
    #[serde(rename = ""@a"")]
    pub a: String,
    #[serde(rename = ""@text"")]
    pub text: String,
}

#[derive(Serialize, Deserialize)]
pub struct BTextTotalPrice {
    #[serde(rename = ""@a"")]
    pub a: String,
    #[serde(rename = ""@type"")]
    pub total_price_type: String,
}

#[derive(Serialize, Deserialize)]
pub struct RFoo {
    #[serde(rename = ""@x"")]
    pub x: Option<String>,
    #[serde(rename = ""@y"")]
    pub y: String,
    #[serde(rename = ""@a"")]
    pub a: Option<String>,
    #[serde(rename = ""@x_attr"")]
    pub x_attr_1: Option<String>,
    #[serde(rename = ""$text"")]
    pub text_content: Option<String>,
    pub x_attr: Option<XAttr>,
    pub text: Option<FooText>,
}

#[derive(Serialize, Deserialize)]
pub struct XAttr {
    #[serde(rename = ""@x"")]
    pub x: String,
    #[serde(rename = ""@y"")]
    pub y: String,
    #[serde(rename = ""@X"")]
    pub x_attr: String,
    #[serde(rename = ""$text"")]
    pub text: Option<String>,
    pub foo: XAttrFoo,
}

#[derive(Serialize, Deserialize)]
pub struct XAttrFoo {
    #[serde(rename = ""@k"")]
    pub p_k: String,
    #[serde(rename = ""@x_attr"")]
    pub x_attr: String,
}

#[derive(Serialize, Deserialize)]
pub struct FooText {
    #[serde(rename = ""@x"")]
    pub x: String,
    #[serde(rename = ""@type"")]
    pub text_type: String,
    #[serde(rename = ""@text"")]
    pub text: String,
    #[serde(rename = ""@xmlns:p"")]
    pub xmlns_p: String,
    #[serde(rename = ""$text"")]
    pub text_content: Option<String>,
    #[serde(rename = ""item"")]
    pub ns_item: TextNsItem,
    #[serde(rename = ""TotalPrice"")]
    pub total_price: FooTextTotalPrice,
}

#[derive(Serialize, Deserialize)]
pub struct TextNsItem {
    #[serde(rename = ""@x_attr"")]
    pub x_attr: String,
    #[serde(rename = ""@x"")]
    pub x: String,
    #[serde(rename = ""@y"")]
    pub y: String,
}

#[derive(Serialize, Deserialize)]
pub struct FooTextTotalPrice {
    #[serde(rename = ""@type"")]
    pub total_price_type: String,
    #[serde(rename = ""@x"")]
    pub x: String,
}

#[derive(Serialize, Deserialize)]
pub struct RAB {
    #[serde(rename = ""@k"")]
    pub p_k: String,
    #[serde(rename = ""@y"")]
    pub y: String,
    #[serde(rename = ""TotalPrice"")]
    pub total_price: RABTotalPrice,
}

#[derive(Serialize, Deserialize)]
pub struct RABTotalPrice {
    #[serde(rename = ""@X"")]
    pub x: String,
    #[serde(rename = ""$text"")]
    pub text: Option<String>,
    #[serde(rename = ""item"")]
    pub ns_item: TotalPriceNsItem,
    #[serde(rename = ""a-b"")]
    pub a_b: TotalPriceAB,
}

#[derive(Serialize, Deserialize)]
pub struct TotalPriceNsItem {
    #[serde(rename = ""@k"")]
    pub p_k: String,
}

#[derive(Serialize, Deserialize)]
pub struct TotalPriceAB {
    #[serde(rename = ""@k"")]
    pub p_k: String,
}

#[derive(Serialize, Deserialize)]
pub struct Type {
    pub a: A,
    #[serde(rename = ""TotalPrice"")]
    pub total_price: RTypeTotalPrice,
}

#[derive(Serialize, Deserialize)]
pub struct A {
    #[serde(rename = ""@x_attr"")]
    pub x_attr: String,
    #[serde(rename = ""@X"")]
    pub x: String,
    #[serde(rename = ""@a"")]
    pub a: String,
    #[serde(rename = ""@k"")]
    pub p_k: String,
    #[serde(rename = ""TotalPrice"")]
    pub total_price: TypeATotalPrice,
}

#[derive(Serialize, Deserialize)]
pub struct TypeATotalPrice {
    #[serde(rename = ""@x_attr"")]
    pub x_attr: String,
    #[serde(rename = ""@a"")]
    pub a: String,
}

#[derive(Serialize, Deserialize)]
pub struct RTypeTotalPrice {
    #[serde(rename = ""@x"")]
    pub x: String,
    #[serde(rename = ""@xmlns:p"")]
    pub xmlns_p: String,
    pub text: TotalPriceText,
}

#[derive(Serialize, Deserialize)]
pub struct TotalPriceText {
    #[serde(rename = ""@type"")]
    pub text_type: String,
    #[serde(rename = ""@a"")]
    pub a: String,
    #[serde(rename = ""@k"")]
    pub p_k: String,
    #[serde(rename = ""@x_attr"")]
    pub x_attr: String,
}

");
  ([NElem (s "r") true [s "x_attr"; s "type"; s "text"; s "p:k"] []; NElem (s "r") false [s "p:k"] [NElem (s "a-b") false [] [NMisc; NElem (s "TotalPrice") false [s "x_attr"] [NElem (s "foo") true [s "x_attr"; s "y"; s "type"] []; NElem (s "type") true [s "x"; s "y"; s "xmlns:p"; s "x_attr"] []; NElem (s "x_attr") false [s "xmlns:p"] []; NElem (s "ns:item") false [s "a"; s "text"; s "y"; s "X"] []]; NElem (s "foo") false [s "a"; s "x_attr"; s "X"] [NMisc; NElem (s "foo") false [s "x"; s "X"] []]; NElem (s "Foo") false [s "xmlns:p"; s "X"] [NElem (s "A.B") false [s "x"] []; NElem (s "ns:item") true [s "x"; s "X"; s "text"] []]]; NElem (s "a") false [s "xmlns:p"; s "a"] [NElem (s "A.B") false [s "y"; s "X"] [NElem (s "Foo") false [s "a"; s "y"] []]]; NText; NElem (s "foo") false [s "a"] [NText; NElem (s "a") false [s "p:k"] [NElem (s "foo") false [s "type"; s "y"] []; NElem (s "type") true [s "xmlns:p"; s "p:k"] []; NElem (s "type") false [s "X"; s "xmlns:p"; s "x"] []]; NText; NMisc]]; NElem (s "r") false [s "x_attr"; s "x"; s "text"; s "xmlns:p"] [NText; NCData; NElem (s "a") false [s "text"; s "xmlns:p"] []; NText]], false, "#[derive(Serialize, Deserialize)]
pub struct R {
    #[serde(rename = ""@x_attr"")]
    pub x_attr: Option<String>,
    #[serde(rename = ""@type"")]
    pub r_type: Option<String>,
    #[serde(rename = ""@text"")]
    pub text: Option<String>,
    #[serde(rename = ""@k"")]
    pub p_k: Option<String>,
    #[serde(rename = ""@x"")]
    pub x: Option<String>,
    #[serde(rename = ""@xmlns:p"")]
    pub xmlns_p: Option<String>,
    #[serde(rename = ""$text"")]
    pub text_content: Option<String>,
    #[serde(rename = ""a-b"")]
    pub a_b: Option<RAB>,
    pub a: Option<RA>,
    pub foo: Option<RFoo>,
}

#[derive(Serialize, Deserialize)]
pub struct RAB {
    #[serde(rename = ""TotalPrice"")]
    pub total_price: TotalPrice,
    pub foo: RABFoo,
    #[serde(rename = ""Foo"")]
    pub foo_1: RABFoo,
}

#[derive(Serialize, Deserialize)]
pub struct TotalPrice {
    #[serde(rename = ""@x_attr"")]
    pub x_attr_1: String,
    pub foo: RABTotalPriceFoo,
    #[serde(rename = ""type"")]
    pub total_price_type: TotalPriceType,
    pub x_attr: XAttr,
    #[serde(rename = ""item"")]
    pub ns_item: TotalPriceNsItem,
}

#[derive(Serialize, Deserialize)]
pub struct RABTotalPriceFoo {
    #[serde(rename = ""@x_attr"")]
    pub x_attr: String,
    #[serde(rename = ""@y"")]
    pub y: String,
    #[serde(rename = ""@type"")]
    pub foo_type: String,
}

#[derive(Serialize, Deserialize)]
pub struct TotalPriceType {
    #[serde(rename = ""@x"")]
    pub x: String,
    #[serde(rename = ""@y"")]
    pub y: String,
    #[serde(rename = ""@xmlns:p"")]
    pub xmlns_p: String,
    #[serde(rename = ""@x_attr"")]
    pub x_attr: String,
}

#[derive(Serialize, Deserialize)]
pub struct XAttr {
    #[serde(rename = ""@xmlns:p"")]
    pub xmlns_p: String,
}

#[derive(Serialize, Deserialize)]
pub struct TotalPriceNsItem {
    #[serde(rename = ""@a"")]
    pub a: String,
    #[serde(rename = ""@text"")]
    pub text: String,
    #[serde(rename = ""@y"")]
    pub y: String,
    #[serde(rename = ""@X"")]
    pub x: String,
}

#[derive(Serialize, Deserialize)]
pub struct RABFoo {
    #[serde(rename = ""@a"")]
    pub a: String,
    #[serde(rename = ""@x_attr"")]
    pub x_attr: String,
    #[serde(rename = ""@X"")]
    pub x: String,
    pub foo: RABFooFoo,
}

#[derive(Serialize, Deserialize)]
pub struct RABFooFoo {
    #[serde(rename = ""@x"")]
    pub x: String,
    #[serde(rename = ""@X"")]
    pub x_attr: String,
}

#[derive(Serialize, Deserialize)]
pub struct RABFoo {
    #[serde(rename = ""@xmlns:p"")]
    pub xmlns_p: String,
    #[serde(rename = ""@X"")]
    pub x: String,
    #[serde(rename = ""A.B"")]
    pub a_b: FooAB,
    #[serde(rename = ""item"")]
    pub ns_item: FooNsItem,
}

#[derive(Serialize, Deserialize)]
pub struct FooAB {
    #[serde(rename = ""@x"")]
    pub x: String,
}

#[derive(Serialize, Deserialize)]
pub struct FooNsItem {
    #[serde(rename = ""@x"")]
    pub x: String,
    #[serde(rename = ""@X"")]
    pub x_attr: String,
    #[serde(rename = ""@text"")]
    pub text: String,
}

#[derive(Serialize, Deserialize)]
pub struct RA {
    #[serde(rename = ""@xmlns:p"")]
    pub xmlns_p: String,
    #[serde(rename = ""@a"")]
    pub a: Option<String>,
    #[serde(rename = ""@text"")]
    pub text: Option<String>,
    #[serde(rename = ""A.B"")]
    pub a_b: Option<AAB>,
}

#[derive(Serialize, Deserialize)]
pub struct AAB {
    #[serde(rename = ""@y"")]
    pub y: String,
    #[serde(rename = ""@X"")]
    pub x: String,
    #[serde(rename = ""Foo"")]
    pub foo: RAABFoo,
}

#[derive(Serialize, Deserialize)]
pub struct RAABFoo {
    #[serde(rename = ""@a"")]
    pub a: String,
    #[serde(rename = ""@y"")]
    pub y: String,
}

#[derive(Serialize, Deserialize)]
pub struct RFoo {
    #[serde(rename = ""@a"")]
    pub a_attr: String,
    #[serde(rename = ""$text"")]
    pub text: Option<String>,
    pub a: FooA,
}

#[derive(Serialize, Deserialize)]
pub struct FooA {
    #[serde(rename = ""@k"")]
    pub p_k: String,
    pub foo: RFooAFoo,
    #[serde(rename = ""type"")]
    pub a_type: Vec<AType>,
}

#[derive(Serialize, Deserialize)]
pub struct RFooAFoo {
    #[serde(rename = ""@type"")]
    pub foo_type: String,
    #[serde(rename = ""@y"")]
    pub y: String,
}

#[derive(Serialize, Deserialize)]
pub struct AType {
    #[serde(rename = ""@xmlns:p"")]
    pub xmlns_p: String,
    #[serde(rename = ""@k"")]
    pub p_k: Option<String>,
    #[serde(rename = ""@X"")]
    pub x: Option<String>,
    #[serde(rename = ""@x"")]
    pub x_attr: Option<String>,
}

");
  ([NElem (s "r") false [s "xmlns:p"; s "text"] [NElem (s "TotalPrice") false [s "y"; s "a"; s "text"; s "p:k"] [NElem (s "type") false [] []]; NElem (s "b") false [s "type"; s "a"] [NElem (s "a") false [s "p:k"; s "X"] [NText]; NCData; NCData; NElem (s "text") false [s "a"; s "xmlns:p"; s "x_attr"; s "x"] []]]], false, "#[derive(Serialize, Deserialize)]
pub struct R {
    #[serde(rename = ""@xmlns:p"")]
    pub xmlns_p: String,
    #[serde(rename = ""@text"")]
    pub text: String,
    #[serde(rename = ""TotalPrice"")]
    pub total_price: TotalPrice,
    pub b: B,
}

#[derive(Serialize, Deserialize)]
pub struct TotalPrice {
    #[serde(rename = ""@y"")]
    pub y: String,
    #[serde(rename = ""@a"")]
    pub a: String,
    #[serde(rename = ""@text"")]
    pub text: String,
    #[serde(rename = ""@k"")]
    pub p_k: String,
    #[serde(rename = ""type"")]
    pub total_price_type: Type,
}

#[derive(Serialize, Deserialize)]
pub struct Type {
}

#[derive(Serialize, Deserialize)]
pub struct B {
    #[serde(rename = ""@type"")]
    pub b_type: String,
    #[serde(rename = ""@a"")]
    pub a_attr: String,
    #[serde(rename = ""$text"")]
    pub text_content: Option<String>,
    pub a: A,
    pub text: Text,
}

#[derive(Serialize, Deserialize)]
pub struct A {
    #[serde(rename = ""@k"")]
    pub p_k: String,
    #[serde(rename = ""@X"")]
    pub x: String,
    #[serde(rename = ""$text"")]
    pub text: Option<String>,
}

#[derive(Serialize, Deserialize)]
pub struct Text {
    #[serde(rename = ""@a"")]
    pub a: String,
    #[serde(rename = ""@xmlns:p"")]
    pub xmlns_p: String,
    #[serde(rename = ""@x_attr"")]
    pub x_attr: String,
    #[serde(rename = ""@x"")]
    pub x: String,
}

");
  ([NElem (s "r") false [s "X"; s "xmlns:p"; s "x_attr"; s "y"] [NCData]], false, "#[derive(Serialize, Deserialize)]
pub struct R {
    #[serde(rename = ""@X"")]
    pub x: String,
    #[serde(rename = ""@xmlns:p"")]
    pub xmlns_p: String,
    #[serde(rename = ""@x_attr"")]
    pub x_attr: String,
    #[serde(rename = ""@y"")]
    pub y: String,
    #[serde(rename = ""$text"")]
    pub text: Option<String>,
}

");
  ([NElem (s "r") true [] []; NElem (s "r") true [s "type"; s "text"; s "x"; s "y"] []; NElem (s "r") false [s "type"; s "p:k"] [NCData]], false, "#[derive(Serialize, Deserialize)]
pub struct R {
    #[serde(rename = ""@type"")]
    pub r_type: Option<String>,
    #[serde(rename = ""@text"")]
    pub text: Option<String>,
    #[serde(rename = ""@x"")]
    pub x: Option<String>,
    #[serde(rename = ""@y"")]
    pub y: Option<String>,
    #[serde(rename = ""@k"")]
    pub p_k: Option<String>,
    #[serde(rename = ""$text"")]
    pub text_content: Option<String>,
}

");
  ([NElem (s "r") false [s "type"] [NElem (s "ns:item") true [s "xmlns:p"; s "p:k"; s "type"] []]; NElem (s "r") false [] [NElem (s "foo") false [s "p:k"; s "x_attr"; s "text"] [NElem (s "a") false [s "X"; s "p:k"; s "x"] [NElem (s "a-b") true [s "X"; s "a"; s "y"] []; NMisc; NText; NElem (s "a-b") true [s "xmlns:p"; s "p:k"; s "x_attr"; s "x"; s "text"] []]; NElem (s "a_b") false [s "X"; s "a"; s "p:k"; s "x"] [NCData]]]], false, "#[derive(Serialize, Deserialize)]
pub struct R {
    #[serde(rename = ""@type"")]
    pub r_type: Option<String>,
    #[serde(rename = ""item"")]
    pub ns_item: Option<NsItem>,
    pub foo: Option<Foo>,
}

#[derive(Serialize, Deserialize)]
pub struct NsItem {
    #[serde(rename = ""@xmlns:p"")]
    pub xmlns_p: String,
    #[serde(rename = ""@k"")]
    pub p_k: String,
    #[serde(rename = ""@type"")]
    pub ns_item_type: String,
}

#[derive(Serialize, Deserialize)]
pub struct Foo {
    #[serde(rename = ""@k"")]
    pub p_k: String,
    #[serde(rename = ""@x_attr"")]
    pub x_attr: String,
    #[serde(rename = ""@text"")]
    pub text: String,
    pub a: A,
    pub a_b: FooAB,
}

#[derive(Serialize, Deserialize)]
pub struct A {
    #[serde(rename = ""@X"")]
    pub x: String,
    #[serde(rename = ""@k"")]
    pub p_k: String,
    #[serde(rename = ""@x"")]
    pub x_attr: String,
    #[serde(rename = ""$text"")]
    pub text: Option<String>,
    #[serde(rename = ""a-b"")]
    pub a_b: Vec<AAB>,
}

#[derive(Serialize, Deserialize)]
pub struct AAB {
    #[serde(rename = ""@X"")]
    pub x: Option<String>,
    #[serde(rename = ""@a"")]
    pub a: Option<String>,
    #[serde(rename = ""@y"")]
    pub y: Option<String>,
    #[serde(rename = ""@xmlns:p"")]
    pub xmlns_p: Option<String>,
    #[serde(rename = ""@k"")]
    pub p_k: Option<String>,
    #[serde(rename = ""@x_attr"")]
    pub x_attr: Option<String>,
    #[serde(rename = ""@x"")]
    pub x_attr_1: Option<String>,
    #[serde(rename = ""@text"")]
    pub text: Option<String>,
}

#[derive(Serialize, Deserialize)]
pub struct FooAB {
    #[serde(rename = ""@X"")]
    pub x: String,
    #[serde(rename = ""@a"")]
    pub a: String,
    #[serde(rename = ""@k"")]
    pub p_k: String,
    #[serde(rename = ""@x"")]
    pub x_attr: String,
    #[serde(rename = ""$text"")]
    pub text: Option<String>,
}

")
].
Eval vm_compute in (List.length cases, failing cases).
