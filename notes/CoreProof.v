From Coq Require Import List NArith Bool Arith Lia.
Import ListNotations.
Require Import CoreModel.
Open Scope N_scope.

Definition cname (c : nec * element) := ename (snd c).

Lemma name_eqb_eq a b : name_eqb a b = true <-> a = b. Proof. apply N.eqb_eq. Qed.
Lemma name_eqb_refl a : name_eqb a a = true. Proof. apply N.eqb_refl. Qed.

Lemma get_child_none l n : get_child l n = None <-> ~ In n (map cname l).
Proof.
  induction l as [|c l IH]; simpl; [tauto|]. unfold cname at 1.
  destruct (name_eqb (ename (snd c)) n) eqn:E.
  - apply name_eqb_eq in E. split; [discriminate| intros H; exfalso; apply H; auto].
  - rewrite IH. split; intros H; [intros [H1|H1]; [subst; rewrite name_eqb_refl in E; discriminate | tauto] | tauto].
Qed.
Lemma get_child_some l n c : get_child l n = Some c -> In c l /\ cname c = n.
Proof.
  induction l as [|d l IH]; simpl; [discriminate|].
  destruct (name_eqb (ename (snd d)) n) eqn:E; intros H.
  - inversion H; subst. split; auto. now apply name_eqb_eq.
  - destruct (IH H); auto.
Qed.
Lemma remove_child_none l n : get_child l n = None -> remove_child l n = (None, l).
Proof.
  induction l as [|d l IH]; simpl; auto.
  destruct (name_eqb (ename (snd d)) n); [discriminate|]. intros H. now rewrite IH.
Qed.
Lemma remove_child_some l n c : get_child l n = Some c ->
  exists l1 l2, l = l1 ++ c :: l2 /\ remove_child l n = (Some c, l1 ++ l2) /\ ~ In n (map cname l1).
Proof.
  induction l as [|d l IH]; simpl; [discriminate|].
  destruct (name_eqb (ename (snd d)) n) eqn:E; intros H.
  - inversion H; subst. exists [], l. simpl. auto.
  - destruct (IH H) as (l1 & l2 & -> & R & Hn). exists (d :: l1), l2. simpl. rewrite R. repeat split; auto.
    intros [H1|H1]; [unfold cname in H1; subst; rewrite name_eqb_refl in E; discriminate | tauto].
Qed.

(* the per-child step, independent of the parent *)
Definition gokids := fix go (ks : list node) (r : element) (kn : list name) {struct ks} : element :=
  match ks with [] => r | k :: ks' => let (r', kn') := absorb k r kn in go ks' r' kn' end.
Definition demote (p : element) (cc : list (name * N)) : element := fold_left set_child_optional (rev (to_optional p cc)) p.
Definition occ_step (found : option (nec * element)) (n : name) (ef : bool) (attrs : list name) (kids : list node) (known : list name) : element :=
  match found with
  | Some c =>
      let cc := fst (snapshot (Some c)) in
      let c1 := merge_attr (snd c) (map (fun a => (Mand, a)) attrs) in
      let c2 := if mem n known then set_multiple c1 else c1 in
      let c3 := increment c2 in
      let c4 := if ef then c3 else gokids kids c3 [] in
      if ef then demote c4 [] else demote c4 cc
  | None =>
      let c1 := new_element n attrs in
      let c2 := if mem n known then set_multiple c1 else c1 in
      let c4 := if ef then c2 else gokids kids c2 [] in
      if ef then demote c4 [] else c4
  end.
Definition with_pos (c : element) (k : nat) := match epos c with None => set_pos c (Some k) | Some _ => c end.
Definition place (root : element) (n : name) (c : element) : element :=
  let rest := snd (remove_child (echildren root) n) in
  set_children root (rest ++ [(Mand, with_pos c (length rest))]).

(* names and positions are preserved by the child-level operations *)
Lemma ename_set_children e c : ename (set_children e c) = ename e. Proof. now destruct e. Qed.
Lemma echildren_set_children e c : echildren (set_children e c) = c. Proof. now destruct e. Qed.
Lemma set_children_set_children e c d : set_children (set_children e c) d = set_children e d. Proof. now destruct e. Qed.
Lemma ename_set_child_optional p m : ename (set_child_optional p m) = ename p.
Proof. unfold set_child_optional. destruct (remove_child (echildren p) m) as [[c|] r]; auto. apply ename_set_children. Qed.
Lemma epos_set_child_optional p m : epos (set_child_optional p m) = epos p.
Proof. unfold set_child_optional. destruct (remove_child (echildren p) m) as [[c|] r]; auto. now destruct p. Qed.
Lemma ename_fold l : forall p, ename (fold_left set_child_optional l p) = ename p.
Proof. induction l; simpl; auto. intros. rewrite IHl. apply ename_set_child_optional. Qed.
Lemma epos_fold l : forall p, epos (fold_left set_child_optional l p) = epos p.
Proof. induction l; simpl; auto. intros. rewrite IHl. apply epos_set_child_optional. Qed.

Lemma update_child_last rest c n f :
  ~ In n (map cname rest) -> ename c = n ->
  map (fun x : nec * element => if name_eqb (ename (snd x)) n then (fst x, f (snd x)) else x) (rest ++ [(Mand, c)])
  = rest ++ [(Mand, f c)].
Proof.
  intros Hn Hc. rewrite map_app. simpl. rewrite Hc, name_eqb_refl. f_equal.
  induction rest as [|d rest IH]; simpl; auto.
  simpl in Hn. destruct (name_eqb (ename (snd d)) n) eqn:E.
  - apply name_eqb_eq in E. exfalso. apply Hn. left. exact E.
  - rewrite IH; auto.
Qed.

(* nested induction principle for node *)
Section NodeInd.
  Variable P : node -> Prop.
  Hypothesis Htext : P NText.
  Hypothesis Hcdata : P NCData.
  Hypothesis Hmisc : P NMisc.
  Hypothesis Helem : forall n ef attrs kids, Forall P kids -> P (NElem n ef attrs kids).
  Fixpoint node_ind' (nd : node) : P nd :=
    match nd with
    | NText => Htext | NCData => Hcdata | NMisc => Hmisc
    | NElem n ef attrs kids =>
        Helem n ef attrs kids ((fix all (ks : list node) : Forall P ks :=
                                 match ks with [] => Forall_nil _ | k :: r => Forall_cons _ (node_ind' k) (all r) end) kids)
    end.
End NodeInd.

Lemma ename_misc e : ename (set_text e) = ename e /\ ename (set_multiple e) = ename e /\ ename (increment e) = ename e
  /\ (forall l, ename (merge_attr e l) = ename e) /\ (forall p, ename (set_pos e p) = ename e).
Proof. destruct e; simpl; auto. Qed.
Lemma epos_misc e : epos (set_text e) = epos e /\ epos (set_multiple e) = epos e /\ epos (increment e) = epos e
  /\ (forall l, epos (merge_attr e l) = epos e) /\ (forall c, epos (set_children e c) = epos e).
Proof. destruct e; simpl; auto. Qed.

Lemma ename_add_unique_child e c : ename (add_unique_child e c) = ename e.
Proof. unfold add_unique_child. destruct (get_child (echildren e) (ename c)); auto. apply ename_set_children. Qed.
Lemma epos_add_unique_child e c : epos (add_unique_child e c) = epos e.
Proof. unfold add_unique_child. destruct (get_child (echildren e) (ename c)); auto. apply epos_misc. Qed.
Lemma ename_tag_optional r n cc : ename (tag_optional_children r n cc) = ename r.
Proof. unfold tag_optional_children. destruct (get_child (echildren r) n); auto. unfold update_child. apply ename_set_children. Qed.
Lemma epos_tag_optional r n cc : epos (tag_optional_children r n cc) = epos r.
Proof. unfold tag_optional_children. destruct (get_child (echildren r) n); auto. unfold update_child. apply epos_misc. Qed.

Lemma absorb_name_pos : forall nd root known,
  ename (fst (absorb nd root known)) = ename root /\ epos (fst (absorb nd root known)) = epos root.
Proof.
  induction nd using node_ind'; intros root known; simpl;
    try (split; [apply ename_misc | apply epos_misc]); auto.
  destruct (snapshot (get_child (echildren root) n)) as [cc chk].
  destruct (remove_child (echildren root) n) as [found rest]. simpl.
  match goal with |- context [add_unique_child ?a ?b] => set (r2 := add_unique_child a b) end.
  assert (ename r2 = ename root /\ epos r2 = epos root) as [E1 E2].
  { unfold r2. rewrite ename_add_unique_child, epos_add_unique_child. rewrite ename_set_children. split; auto. apply epos_misc. }
  destruct ef; [| destruct chk]; rewrite ?ename_tag_optional, ?epos_tag_optional; auto.
Qed.
Lemma gokids_name_pos : forall kids r kn, ename (gokids kids r kn) = ename r /\ epos (gokids kids r kn) = epos r.
Proof.
  induction kids as [|k kids IH]; intros r kn; simpl; auto.
  destruct (absorb k r kn) as [r' kn'] eqn:E. destruct (IH r' kn') as [A B]. rewrite A, B.
  pose proof (absorb_name_pos k r kn) as [C D]. rewrite E in C, D. auto.
Qed.

(* position of the parent does not influence demotion *)
Lemma echildren_set_pos c p : echildren (set_pos c p) = echildren c. Proof. now destruct c. Qed.
Lemma to_optional_set_pos c p cc : to_optional (set_pos c p) cc = to_optional c cc.
Proof. unfold to_optional. now rewrite echildren_set_pos. Qed.
Lemma set_child_optional_set_pos c p m : set_child_optional (set_pos c p) m = set_pos (set_child_optional c m) p.
Proof. unfold set_child_optional. rewrite echildren_set_pos. destruct (remove_child (echildren c) m) as [[x|] r]; auto. now destruct c. Qed.
Lemma fold_set_pos l : forall c p, fold_left set_child_optional l (set_pos c p) = set_pos (fold_left set_child_optional l c) p.
Proof. induction l; simpl; auto. intros. now rewrite set_child_optional_set_pos, IHl. Qed.
Lemma demote_with_pos c k cc : demote (with_pos c k) cc = with_pos (demote c cc) k.
Proof.
  unfold demote, with_pos. rewrite epos_fold. destruct (epos c); auto.
  now rewrite to_optional_set_pos, fold_set_pos.
Qed.
Lemma ename_with_pos c k : ename (with_pos c k) = ename c.
Proof. unfold with_pos. destruct (epos c); auto. apply ename_misc. Qed.

Lemma get_child_app_last rest c n : ~ In n (map cname rest) -> ename (snd c) = n -> get_child (rest ++ [c]) n = Some c.
Proof.
  intros Hn Hc. induction rest as [|d rest IH]; simpl.
  - now rewrite Hc, name_eqb_refl.
  - simpl in Hn. destruct (name_eqb (ename (snd d)) n) eqn:E.
    + apply name_eqb_eq in E. exfalso. apply Hn. now left.
    + apply IH. tauto.
Qed.

Lemma tag_optional_last root rest c n cc :
  ~ In n (map cname rest) -> ename c = n ->
  tag_optional_children (set_children root (rest ++ [(Mand, c)])) n cc
  = set_children root (rest ++ [(Mand, demote c cc)]).
Proof.
  intros Hn Hc. unfold tag_optional_children. rewrite echildren_set_children.
  rewrite (get_child_app_last rest (Mand, c) n) by auto. simpl.
  unfold update_child. rewrite echildren_set_children, set_children_set_children.
  f_equal. now apply update_child_last.
Qed.

Lemma remove_rest_notin l n found rest : NoDup (map cname l) -> remove_child l n = (found, rest) -> ~ In n (map cname rest).
Proof.
  intros Hnd H. destruct (get_child l n) as [c|] eqn:G.
  - destruct (remove_child_some _ _ _ G) as (l1 & l2 & -> & R & Hn1). rewrite R in H. inversion H; subst.
    destruct (get_child_some _ _ _ G) as [_ Hc].
    rewrite map_app in *. simpl in Hnd. apply NoDup_remove_2 in Hnd. rewrite Hc in Hnd. exact Hnd.
  - rewrite (remove_child_none _ _ G) in H. inversion H; subst. now apply get_child_none.
Qed.

Lemma absorb_factor n ef attrs kids root known :
  NoDup (map cname (echildren root)) ->
  absorb (NElem n ef attrs kids) root known =
    (place root n (occ_step (get_child (echildren root) n) n ef attrs kids known),
     if mem n known then known else known ++ [n]).
Proof.
  intros Hnd. cbn [absorb]. fold gokids.
  destruct (get_child (echildren root) n) as [c|] eqn:G.
  - destruct (remove_child_some _ _ _ G) as (l1 & l2 & Hl & R & Hn1).
    pose proof (remove_rest_notin _ _ _ _ Hnd R) as Hrest.
    destruct (get_child_some _ _ _ G) as [_ Hc]. unfold cname in Hc.
    unfold place. rewrite R. cbn [snd fst snapshot].
    f_equal.
    set (cc := flat_map _ (echildren (snd c))).
    set (c3 := increment _).
    set (c4 := if ef then c3 else gokids kids c3 []).
    assert (Hc4 : ename c4 = n).
    { unfold c4. destruct ef; [| rewrite (proj1 (gokids_name_pos _ _ _))]; unfold c3;
        rewrite (proj1 (proj2 (proj2 (ename_misc _)))); destruct (mem n known);
        rewrite ?(proj1 (proj2 (ename_misc _))), ?(proj1 (proj2 (proj2 (proj2 (ename_misc _))))); auto. }
    unfold add_unique_child. rewrite echildren_set_children.
    replace (if ef then c3 else gokids kids c3 []) with c4 by reflexivity.
    rewrite Hc4. rewrite (proj2 (get_child_none _ _) Hrest).
    fold (with_pos c4 (length (l1 ++ l2))). rewrite set_children_set_children.
    unfold occ_step. cbn [snd fst snapshot]. fold cc. fold c3. fold c4.
    destruct ef.
    + rewrite tag_optional_last by (auto; now rewrite ename_with_pos). now rewrite demote_with_pos.
    + rewrite tag_optional_last by (auto; now rewrite ename_with_pos). now rewrite demote_with_pos.
  - rewrite (remove_child_none _ _ G). unfold place. rewrite (remove_child_none _ _ G). cbn [snd fst snapshot].
    f_equal.
    set (c2 := if mem n known then _ else _).
    set (c4 := if ef then c2 else gokids kids c2 []).
    assert (Hc4 : ename c4 = n).
    { unfold c4. destruct ef; [| rewrite (proj1 (gokids_name_pos _ _ _))]; unfold c2; destruct (mem n known);
        rewrite ?(proj1 (proj2 (ename_misc _))); auto. }
    apply get_child_none in G.
    unfold add_unique_child. rewrite echildren_set_children.
    replace (if ef then c2 else gokids kids c2 []) with c4 by reflexivity.
    rewrite Hc4. rewrite (proj2 (get_child_none _ _) G).
    fold (with_pos c4 (length (echildren root))). rewrite set_children_set_children.
    unfold occ_step. fold c2. fold c4.
    destruct ef.
    + rewrite tag_optional_last by (auto; now rewrite ename_with_pos). now rewrite demote_with_pos.
    + reflexivity.
Qed.
Print Assumptions absorb_factor.
