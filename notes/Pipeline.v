(* Design-time sketch: the renderer of xml_schema_generator 0.6.18 (pinned tree, no F5), ASCII character classes only.
   Validated below against expected strings copied from the repository's own unit tests. *)
From Coq Require Import List NArith Bool Arith String Ascii Lia.
Import ListNotations.
Open Scope string_scope.
Open Scope list_scope.
Open Scope N_scope.

Definition str := list N.
Definition s (x : string) : str := map N_of_ascii (list_ascii_of_string x).
Fixpoint str_eqb (a b : str) : bool :=
  match a, b with [], [] => true | x :: a', y :: b' => (x =? y) && str_eqb a' b' | _, _ => false end.
Fixpoint str_ltb (a b : str) : bool :=   (* lexicographic on code points = Rust String Ord *)
  match a, b with
  | _, [] => false | [], _ :: _ => true
  | x :: a', y :: b' => if x <? y then true else if y <? x then false else str_ltb a' b' end.
Definition mem (x : str) (l : list str) := existsb (str_eqb x) l.

(* ---- chars (ASCII only in this sketch) ---- *)
Definition is_upper c := (65 <=? c) && (c <=? 90).
Definition is_lower c := (97 <=? c) && (c <=? 122).
Definition is_digit c := (48 <=? c) && (c <=? 57).
Definition is_alnum c := is_upper c || is_lower c || is_digit c.
Definition to_upper c : str := if is_lower c then [c - 32] else [c].
Definition to_lower c : str := if is_upper c then [c + 32] else [c].
Definition colon := 58. Definition us := 95.

(* ---- convert_string ---- *)
Fixpoint pascal_go (cs : str) (cap_next last_upper : bool) : str :=
  match cs with
  | [] => []
  | c :: r =>
      if is_alnum c then
        if cap_next || (is_upper c && negb last_upper) then to_upper c ++ pascal_go r false (is_upper c)
        else to_lower c ++ pascal_go r cap_next (is_upper c)
      else pascal_go r true (is_upper c)
  end.
Definition to_pascal_case cs := pascal_go cs true false.
Fixpoint snake_go (cs : str) (empty last_upper last_us : bool) : str :=
  match cs with
  | [] => []
  | c :: r =>
      if is_upper c then
        (if negb empty && negb last_upper && negb last_us then [us] else []) ++ to_lower c ++ snake_go r false true false
      else if negb (is_alnum c) then
        (if negb last_us then [us] else []) ++ snake_go r (empty && last_us) false true
      else c :: snake_go r false false false
  end.
Definition to_snake_case cs := snake_go cs true false false.
Definition keywords : list str := map s
 ["as";"break";"const";"continue";"crate";"else";"enum";"extern";"false";"fn";"for";"if";"impl";"in";"let";"loop";"match";
  "mod";"move";"mut";"pub";"ref";"return";"self";"Self";"static";"struct";"super";"trait";"true";"type";"unsafe";"use";
  "where";"while";"async";"await";"dyn";"abstract";"become";"box";"do";"final";"macro";"override";"priv";"typeof";
  "unsized";"virtual";"yield";"try"]%string.
Definition is_keyword x := mem x keywords.
Definition to_valid_key (name prefix : str) : str :=
  let n1 := to_snake_case (map (fun c => if c =? colon then us else c) name) in
  if is_keyword n1 then to_snake_case prefix ++ [us] ++ n1 else n1.
Fixpoint after_colon (l : str) : option str := match l with [] => None | c :: r => if c =? colon then Some r else after_colon r end.
Definition remove_namespace (x : str) : str := match after_colon x with Some r => r | None => x end.
Fixpoint upto_colon (l : str) : option str :=
  match l with [] => None | c :: r => if c =? colon then Some [c] else option_map (cons c) (upto_colon r) end.
Definition starts_with_xmlns (x : str) : bool :=
  match upto_colon x with Some p => str_eqb p (s "xmlns:") | None => false end.
Definition ends_with (x suf : str) : bool :=
  (List.length suf <=? List.length x)%nat && str_eqb (skipn (List.length x - List.length suf) x) suf.
(* decimal rendering of a nat (small) *)
Fixpoint dec_go (fuel : nat) (n : N) (acc : str) : str :=
  match fuel with O => acc | S f => let acc' := (48 + n mod 10) :: acc in if n / 10 =? 0 then acc' else dec_go f (n / 10) acc' end.
Definition dec (n : nat) : str := dec_go 20 (N.of_nat n) [].

(* ---- element ---- *)
Inductive nec := Opt | Mand.
Inductive element := Elem (ename : str) (etext : bool) (standalone : bool) (count : N)
                          (attrs : list (nec * str)) (children : list (nec * element)) (pos : option nat).
Definition ename e := match e with Elem n _ _ _ _ _ _ => n end.
Definition etext e := match e with Elem _ t _ _ _ _ _ => t end.
Definition estandalone e := match e with Elem _ _ x _ _ _ _ => x end.
Definition eattrs e := match e with Elem _ _ _ _ a _ _ => a end.
Definition echildren e := match e with Elem _ _ _ _ _ c _ => c end.
Definition epos e := match e with Elem _ _ _ _ _ _ p => p end.
Definition set_children e c := match e with Elem n t x k a _ p => Elem n t x k a c p end.
Definition set_text e := match e with Elem n _ x k a c p => Elem n true x k a c p end.
Definition set_multiple e := match e with Elem n t _ k a c p => Elem n t false k a c p end.
Definition set_pos e p := match e with Elem n t x k a c _ => Elem n t x k a c p end.
Definition new_element n (a : list str) := Elem n false true 1 (map (fun x => (Mand, x)) a) [] None.
Fixpoint get_child (l : list (nec * element)) (n : str) : option (nec * element) :=
  match l with [] => None | c :: r => if str_eqb (ename (snd c)) n then Some c else get_child r n end.
Fixpoint remove_child (l : list (nec * element)) (n : str) : option (nec * element) * list (nec * element) :=
  match l with [] => (None, [])
  | c :: r => if str_eqb (ename (snd c)) n then (Some c, r) else let (f, r') := remove_child r n in (f, c :: r') end.
Definition add_unique_child (e child : element) : element :=
  match get_child (echildren e) (ename child) with
  | Some _ => e
  | None => let child' := match epos child with None => set_pos child (Some (List.length (echildren e))) | Some _ => child end in
            set_children e (echildren e ++ [(Mand, child')]) end.
Definition set_child_optional (e : element) (n : str) : element :=
  match remove_child (echildren e) n with (Some c, r) => set_children e (r ++ [(Opt, snd c)]) | (None, _) => e end.
Fixpoint find_nec (x : str) (l : list (nec * str)) : option nec :=
  match l with [] => None | (n, y) :: r => if str_eqb x y then Some n else find_nec x r end.
Definition merge_first (v other : list (nec * str)) :=
  map (fun it => match find_nec (snd it) other, fst it with Some Mand, Mand => (Mand, snd it) | _, _ => (Opt, snd it) end) v.
Fixpoint merge_second (res other : list (nec * str)) :=
  match other with [] => res | (_, y) :: r => match find_nec y res with Some _ => merge_second res r | None => merge_second (res ++ [(Opt, y)]) r end end.
Definition merge_attr e l := match e with Elem n t x k a c p => Elem n t x k (merge_second (merge_first a l) l) c p end.
Definition contains_only_text e := etext e && match eattrs e with [] => true | _ => false end && match echildren e with [] => true | _ => false end.
Definition formatted_name e := to_pascal_case (ename e).

(* ---- identifier map ---- *)
Inductive ty := TText | TAttr | TChild.
Definition ty_eqb a b := match a, b with TText, TText | TAttr, TAttr | TChild, TChild => true | _, _ => false end.
Fixpoint unused_loop (fuel i : nat) (name : str) (reserved : list str) : str :=
  let cand := match i with O => name | _ => name ++ [us] ++ dec i end in
  match fuel with O => cand | S f => if mem cand reserved then unused_loop f (S i) name reserved else cand end.
Definition create_unused_name (reserved : list str) (name : str) (t : ty) : str * list str :=
  let name1 :=
    if ty_eqb t TText && str_eqb name (s "text") && mem name reserved then s "text_content"
    else if ty_eqb t TAttr && mem name reserved && negb (ends_with name (s "_attr")) then name ++ s "_attr"
    else name in
  let u := unused_loop (S (List.length reserved)) 0 name1 reserved in (u, reserved ++ [u]).
Definition idmap := list ((str * ty) * str).
Definition id_get (m : idmap) (n : str) (t : ty) : option str :=
  (fix go (l : idmap) (acc : option str) := match l with [] => acc | ((k, kt), v) :: r => go r (if str_eqb k n && ty_eqb kt t then Some v else acc) end) m None.
Definition id_new (e : element) : idmap :=
  let nm := ename e in
  let '(m1, r1) := fold_left (fun '(m, r) c => let real := ename (snd c) in
                     let '(u, r') := create_unused_name r (to_valid_key real nm) TChild in (m ++ [((real, TChild), u)], r'))
                   (echildren e) ([], []) in
  let '(m2, r2) := fold_left (fun '(m, r) a => let real := snd a in
                     let '(u, r') := create_unused_name r (to_valid_key real nm) TAttr in (m ++ [((real, TAttr), u)], r'))
                   (eattrs e) (m1, r1) in
  let '(u, _) := create_unused_name r2 (s "text") TText in m2 ++ [((s "text", TText), u)].

(* ---- name hints ---- *)
Definition buckets := list (str * list (list str)).
Fixpoint bucket_add (b : buckets) (k : str) (tr : list str) : buckets :=
  match b with [] => [(k, [tr])] | (k', l) :: r => if str_eqb k k' then (k', l ++ [tr]) :: r else (k', l) :: bucket_add r k tr end.
Fixpoint fill_names (e : element) (trace : list str) (b : buckets) {struct e} : buckets :=
  match e with Elem _ _ _ _ _ ch _ =>
    let name := formatted_name e in
    let trace' := name :: trace in
    let b1 := bucket_add b name trace' in
    (fix go (cs : list (nec * element)) (b : buckets) {struct cs} : buckets :=
       match cs with [] => b | c :: r => go r (fill_names (snd c) trace' b) end) ch b1
  end.
Fixpoint all_distinct (l : list str) : bool := match l with [] => true | x :: r => negb (mem x r) && all_distinct r end.
Fixpoint mdl_loop (fuel i : nat) (vecs : list (list str)) (buffer : list str) (maxlen : nat) : nat :=
  match fuel with
  | O => maxlen
  | S f => let buffer' := map (fun '(b, v) => b ++ nth i v []) (combine buffer vecs) in
           if all_distinct buffer' then S i else mdl_loop f (S i) vecs buffer' maxlen
  end.
Definition minimal_different_lengths (vecs : list (list str)) : nat :=
  let lens := map (@List.length str) vecs in
  mdl_loop (fold_right Nat.min (hd 0%nat lens) lens) 0 vecs (map (fun _ => []) vecs) (fold_right Nat.max 0%nat lens).
Definition hints := list (str * nat).
Definition compute_name_hints (e : element) : hints :=
  map (fun '(k, trs) => (k, match trs with [_] => 1%nat | _ => minimal_different_lengths trs end)) (fill_names e [] []).
Definition hint_get (h : hints) (k : str) : option nat :=
  (fix go l := match l with [] => None | (k', v) :: r => if str_eqb k k' then Some v else go r end) h.
Definition expand_name (e : element) (trace : list str) (h : hints) : str :=   (* trace: root first *)
  match hint_get h (formatted_name e) with
  | Some n => List.concat (skipn (List.length trace - n) trace)
  | None => [] end.

(* ---- renderer ---- *)
Inductive sortby := Unsorted | XmlName.
Record options := { text_identifier : str; attribute_prefix : str; derive : str; sort : sortby }.
Definition quick_xml_de := {| text_identifier := s "$text"; attribute_prefix := s "@"; derive := s "Serialize, Deserialize"; sort := Unsorted |}.
Definition serde_xml_rs := {| text_identifier := s "$text"; attribute_prefix := []; derive := s "Serialize, Deserialize"; sort := Unsorted |}.
Fixpoint insert {A} (leb : A -> A -> bool) (x : A) (l : list A) : list A :=
  match l with [] => [x] | y :: r => if leb x y then x :: l else y :: insert leb x r end.
Definition isort {A} (leb : A -> A -> bool) (l : list A) : list A := fold_right (insert leb) [] l.
Definition pos_leb (a b : option nat) : bool :=
  match a, b with None, _ => true | Some _, None => false | Some x, Some y => (x <=? y)%nat end.
Definition str_leb a b := negb (str_ltb b a).
Definition nl := [10]. Definition quote := [34].

Fixpoint render (o : options) (h : hints) (e : element) (trace : list str) {struct e} : str :=
  match e with Elem _ _ _ _ _ ch _ =>
    let trace1 := trace ++ [formatted_name e] in
    let m := id_new e in
    let head := (match derive o with [] => [] | d => s "#[derive(" ++ d ++ s ")]" ++ nl end)
                ++ s "pub struct " ++ expand_name e trace1 h ++ s " {" ++ nl in
    let attrs := match sort o with XmlName => isort (fun a b => str_leb (snd a) (snd b)) (eattrs e) | Unsorted => eattrs e end in
    let attr_lines := flat_map (fun a =>
        let real := snd a in
        let an := match id_get m real TAttr with Some x => x | None => real end in
        let local := if starts_with_xmlns real then real else remove_namespace real in
        let serde_name := attribute_prefix o ++ local in
        (if str_eqb an serde_name then [] else s "    #[serde(rename = " ++ quote ++ serde_name ++ quote ++ s ")]" ++ nl)
        ++ s "    pub " ++ an ++ s ": " ++ (match fst a with Mand => s "String" | Opt => s "Option<String>" end) ++ s "," ++ nl) attrs in
    let text_lines := if etext e then
        s "    #[serde(rename = " ++ quote ++ text_identifier o ++ quote ++ s ")]" ++ nl
        ++ s "    pub " ++ (match id_get m (s "text") TText with Some x => x | None => s "text" end) ++ s ": Option<String>," ++ nl
      else [] in
    let rendered : list ((nec * element) * (str * str)) :=
      (fix go (cs : list (nec * element)) {struct cs} : list ((nec * element) * (str * str)) :=
         match cs with
         | [] => []
         | c :: r =>
             let ce := snd c in
             let real := ename ce in
             let plain := remove_namespace real in
             let cn := match id_get m real TChild with Some x => x | None => real end in
             let only_text := contains_only_text ce in
             let tname := if only_text then s "String" else expand_name ce (trace1 ++ [formatted_name ce]) h in
             let line := (if str_eqb cn plain then [] else s "    #[serde(rename = " ++ quote ++ plain ++ quote ++ s ")]" ++ nl)
                         ++ s "    pub " ++ cn ++ s ": "
                         ++ (match estandalone ce, fst c with
                             | true, Mand => tname | true, Opt => s "Option<" ++ tname ++ s ">"
                             | false, Opt => s "Option<Vec<" ++ tname ++ s ">>" | false, Mand => s "Vec<" ++ tname ++ s ">" end)
                         ++ s "," ++ nl in
             let sub := if only_text then [] else render o h ce trace1 in
             (c, (line, sub)) :: go r
         end) ch in
    (* the real code sorts the children first and then walks them; rendering one child does not depend on the walk order,
       so sorting the per-child results is the same thing and keeps the recursion structural *)
    let sorted := match sort o with
                  | XmlName => isort (fun a b => str_leb (ename (snd (fst a))) (ename (snd (fst b)))) rendered
                  | Unsorted => isort (fun a b => pos_leb (epos (snd (fst a))) (epos (snd (fst b)))) rendered end in
    let child_lines := flat_map (fun x => fst (snd x)) sorted in
    let child_structs := flat_map (fun x => snd (snd x)) sorted in
    head ++ attr_lines ++ text_lines ++ child_lines ++ s "}" ++ nl ++ nl ++ child_structs
  end.

Definition to_serde_struct (o : options) (e : element) : str := render o (compute_name_hints e) e [].


Definition ecount e := match e with Elem _ _ _ c _ _ _ => c end.
Definition increment e := match e with Elem n t x k a c p => Elem n t x (k + 1) a c p end.
Definition merge_necessity := fun v other => merge_second (merge_first v other) other.
(* DOM *)
Inductive node := NElem (n : str) (emptyform : bool) (attrs : list str) (kids : list node) | NText | NCData | NMisc.

Definition snapshot (tag : option (nec * element)) : list (str * N) * bool :=
  match tag with
  | None => ([], false)
  | Some c => (flat_map (fun ch => match fst ch with Mand => [(ename (snd ch), ecount (snd ch))] | Opt => [] end) (echildren (snd c)), true)
  end.
Fixpoint assoc (n : str) (l : list (str * N)) : option N :=
  match l with [] => None | (k, v) :: r => if str_eqb k n then Some v else assoc n r end.
(* post-F2 *)
Definition to_optional (parent : element) (cc : list (str * N)) : list str :=
  flat_map (fun ch => match assoc (ename (snd ch)) cc with
                      | Some k => if k =? ecount (snd ch) then [ename (snd ch)] else []
                      | None => [] end) (echildren parent)
  ++ flat_map (fun ch => match fst ch with
                         | Mand => match assoc (ename (snd ch)) cc with None => [ename (snd ch)] | Some _ => [] end
                         | Opt => [] end) (echildren parent).
Definition update_child (root : element) (n : str) (f : element -> element) : element :=
  set_children root (map (fun c => if str_eqb (ename (snd c)) n then (fst c, f (snd c)) else c) (echildren root)).
  (* get_child_mut finds the FIRST; names unique under invariant *)
Definition tag_optional_children (root : element) (n : str) (cc : list (str * N)) : element :=
  match get_child (echildren root) n with
  | None => root
  | Some c =>
      let todo := rev (to_optional (snd c) cc) in   (* pop from the end *)
      update_child root n (fun p => fold_left set_child_optional todo p)
  end.

Fixpoint absorb (nd : node) (root : element) (known : list str) {struct nd} : element * list str :=
  match nd with
  | NText | NCData => (set_text root, known)
  | NMisc => (root, known)
  | NElem n ef attrs kids =>
      let go := fix go (ks : list node) (r : element) (kn : list str) {struct ks} : element :=
                  match ks with [] => r | k :: ks' => let (r', kn') := absorb k r kn in go ks' r' kn' end in
      let (cc, chk) := snapshot (get_child (echildren root) n) in
      let (found, rest) := remove_child (echildren root) n in
      let root1 := set_children root rest in
      let new_child :=
        match found with
        | Some c =>
            let c1 := merge_attr (snd c) (map (fun a => (Mand, a)) attrs) in
            let c2 := if mem n known then set_multiple c1 else c1 in
            let c3 := increment c2 in
            if ef then c3 else go kids c3 []
        | None =>
            let c1 := new_element n attrs in
            let c2 := if mem n known then set_multiple c1 else c1 in
            if ef then c2 else go kids c2 []
        end in
      let known' := if mem n known then known else known ++ [n] in
      let root2 := add_unique_child root1 new_child in
      let root3 := if ef then tag_optional_children root2 n []
                   else if chk then tag_optional_children root2 n cc else root2 in
      (root3, known')
  end.

Definition wrapper := new_element (s "root") [].
Definition parse_doc (wr : element) (top : list node) : element :=
  (fix go (ks : list node) (r : element) (kn : list str) {struct ks} : element :=
     match ks with [] => r | k :: ks' => let (r', kn') := absorb k r kn in go ks' r' kn' end) top wr [].
Definition first_child (e : element) : option element :=
  match echildren e with [] => None | c :: _ => Some (snd c) end.
Definition into_struct (top : list node) : option element := first_child (parse_doc wrapper top).
Definition extend_struct (root : element) (top : list node) : option element :=
  first_child (parse_doc (add_unique_child wrapper root) top).


Definition run (docs : list node) : option element :=
  match docs with
  | [] => None
  | d :: r => fold_left (fun acc x => match acc with Some e => extend_struct e [x] | None => None end) r (into_struct [d])
  end.
Definition check_case (c : list node * bool * string) : bool :=
  let '(docs, sorted, expected) := c in
  match run docs with
  | Some e => str_eqb (to_serde_struct (if sorted then {| text_identifier := s "$text"; attribute_prefix := s "@"; derive := s "Serialize, Deserialize"; sort := XmlName |} else quick_xml_de) e) (s expected)
  | None => false end.
Definition failing (cs : list (list node * bool * string)) : list nat :=
  (fix go (i : nat) (l : list (list node * bool * string)) := match l with [] => [] | c :: r => if check_case c then go (S i) r else i :: go (S i) r end) 0%nat cs.
