From Coq Require Import List NArith Bool Arith Lia.
Import ListNotations.
Open Scope N_scope.

(* names: abstract with decidable equality; here N for the sketch *)
Definition name := N.
Definition name_eqb := N.eqb.

Inductive nec := Opt | Mand.
Definition nec_eqb a b := match a, b with Opt, Opt | Mand, Mand => true | _, _ => false end.

(* merge_necessity, post-F1 (no rev) *)
Fixpoint find_nec (x : name) (l : list (nec * name)) : option nec :=
  match l with [] => None | (n, y) :: r => if name_eqb x y then Some n else find_nec x r end.
Definition merge_first (v other : list (nec * name)) : list (nec * name) :=
  map (fun it => match find_nec (snd it) other with
                 | Some Mand => (match fst it with Mand => Mand | Opt => Opt end, snd it)
                 | _ => (Opt, snd it) end) v.
Fixpoint merge_second (res other : list (nec * name)) : list (nec * name) :=
  match other with
  | [] => res
  | (_, y) :: r => match find_nec y res with
                   | Some _ => merge_second res r
                   | None => merge_second (res ++ [(Opt, y)]) r end
  end.
Definition merge_necessity v other := merge_second (merge_first v other) other.

Inductive element := Elem (ename : name) (etext : bool) (standalone : bool) (count : N)
                          (attrs : list (nec * name)) (children : list (nec * element)) (pos : option nat).
Definition ename e := match e with Elem n _ _ _ _ _ _ => n end.
Definition etext e := match e with Elem _ t _ _ _ _ _ => t end.
Definition estandalone e := match e with Elem _ _ s _ _ _ _ => s end.
Definition ecount e := match e with Elem _ _ _ c _ _ _ => c end.
Definition eattrs e := match e with Elem _ _ _ _ a _ _ => a end.
Definition echildren e := match e with Elem _ _ _ _ _ c _ => c end.
Definition epos e := match e with Elem _ _ _ _ _ _ p => p end.
Definition set_children e c := match e with Elem n t s k a _ p => Elem n t s k a c p end.
Definition set_text e := match e with Elem n _ s k a c p => Elem n true s k a c p end.
Definition set_multiple e := match e with Elem n t _ k a c p => Elem n t false k a c p end.
Definition increment e := match e with Elem n t s k a c p => Elem n t s (k + 1) a c p end.
Definition set_pos e p := match e with Elem n t s k a c _ => Elem n t s k a c p end.
Definition merge_attr e l := match e with Elem n t s k a c p => Elem n t s k (merge_necessity a l) c p end.
Definition new_element n (a : list name) := Elem n false true 1 (map (fun x => (Mand, x)) a) [] None.

Fixpoint get_child (l : list (nec * element)) (n : name) : option (nec * element) :=
  match l with [] => None | c :: r => if name_eqb (ename (snd c)) n then Some c else get_child r n end.
Fixpoint remove_child (l : list (nec * element)) (n : name) : option (nec * element) * list (nec * element) :=
  match l with
  | [] => (None, [])
  | c :: r => if name_eqb (ename (snd c)) n then (Some c, r)
              else let (f, r') := remove_child r n in (f, c :: r') end.
(* post-F3 *)
Definition add_unique_child (e child : element) : element :=
  match get_child (echildren e) (ename child) with
  | Some _ => e
  | None => let child' := match epos child with None => set_pos child (Some (length (echildren e))) | Some _ => child end in
            set_children e (echildren e ++ [(Mand, child')]) end.
Definition set_child_optional (e : element) (n : name) : element :=
  match remove_child (echildren e) n with
  | (Some c, r) => set_children e (r ++ [(Opt, snd c)])   (* add_unique: cannot be contained *)
  | (None, _) => e end.

(* DOM *)
Inductive node := NElem (n : name) (emptyform : bool) (attrs : list name) (kids : list node) | NText | NCData | NMisc.

Definition snapshot (tag : option (nec * element)) : list (name * N) * bool :=
  match tag with
  | None => ([], false)
  | Some c => (flat_map (fun ch => match fst ch with Mand => [(ename (snd ch), ecount (snd ch))] | Opt => [] end) (echildren (snd c)), true)
  end.
Fixpoint assoc (n : name) (l : list (name * N)) : option N :=
  match l with [] => None | (k, v) :: r => if name_eqb k n then Some v else assoc n r end.
(* post-F2 *)
Definition to_optional (parent : element) (cc : list (name * N)) : list name :=
  flat_map (fun ch => match assoc (ename (snd ch)) cc with
                      | Some k => if k =? ecount (snd ch) then [ename (snd ch)] else []
                      | None => [] end) (echildren parent)
  ++ flat_map (fun ch => match fst ch with
                         | Mand => match assoc (ename (snd ch)) cc with None => [ename (snd ch)] | Some _ => [] end
                         | Opt => [] end) (echildren parent).
Definition update_child (root : element) (n : name) (f : element -> element) : element :=
  set_children root (map (fun c => if name_eqb (ename (snd c)) n then (fst c, f (snd c)) else c) (echildren root)).
  (* get_child_mut finds the FIRST; names unique under invariant *)
Definition tag_optional_children (root : element) (n : name) (cc : list (name * N)) : element :=
  match get_child (echildren root) n with
  | None => root
  | Some c =>
      let todo := rev (to_optional (snd c) cc) in   (* pop from the end *)
      update_child root n (fun p => fold_left set_child_optional todo p)
  end.
Definition mem (n : name) (l : list name) := existsb (name_eqb n) l.

Fixpoint absorb (nd : node) (root : element) (known : list name) {struct nd} : element * list name :=
  match nd with
  | NText | NCData => (set_text root, known)
  | NMisc => (root, known)
  | NElem n ef attrs kids =>
      let go := fix go (ks : list node) (r : element) (kn : list name) {struct ks} : element :=
                  match ks with [] => r | k :: ks' => let (r', kn') := absorb k r kn in go ks' r' kn' end in
      let (cc, chk) := snapshot (get_child (echildren root) n) in
      let (found, rest) := remove_child (echildren root) n in
      let root1 := set_children root rest in
      let new_child :=
        match found with
        | Some c =>
            let c1 := merge_attr (snd c) (map (fun a => (Mand, a)) attrs) in
            let c2 := if mem n known then set_multiple c1 else c1 in
            let c3 := increment c2 in
            if ef then c3 else go kids c3 []
        | None =>
            let c1 := new_element n attrs in
            let c2 := if mem n known then set_multiple c1 else c1 in
            if ef then c2 else go kids c2 []
        end in
      let known' := if mem n known then known else known ++ [n] in
      let root2 := add_unique_child root1 new_child in
      let root3 := if ef then tag_optional_children root2 n []
                   else if chk then tag_optional_children root2 n cc else root2 in
      (root3, known')
  end.

Definition wrapper := new_element 0 [].
Definition parse_doc (wr : element) (top : list node) : element :=
  (fix go (ks : list node) (r : element) (kn : list name) {struct ks} : element :=
     match ks with [] => r | k :: ks' => let (r', kn') := absorb k r kn in go ks' r' kn' end) top wr [].
Definition first_child (e : element) : option element :=
  match echildren e with [] => None | c :: _ => Some (snd c) end.
Definition into_struct (top : list node) : option element := first_child (parse_doc wrapper top).
Definition extend_struct (root : element) (top : list node) : option element :=
  first_child (parse_doc (add_unique_child wrapper root) top).

(* ---------- declarative spec, path-indexed ---------- *)
Definition kids_named (n : name) (o : node) : list node :=
  match o with NElem _ _ _ ks => filter (fun k => match k with NElem m _ _ _ => name_eqb m n | _ => false end) ks | _ => [] end.
Definition has_text (o : node) : bool :=
  match o with NElem _ _ _ ks => existsb (fun k => match k with NText | NCData => true | _ => false end) ks | _ => false end.
Definition oattrs (o : node) := match o with NElem _ _ a _ => a | _ => [] end.
Definition okidnames (o : node) : list name :=
  match o with NElem _ _ _ ks => flat_map (fun k => match k with NElem m _ _ _ => [m] | _ => [] end) ks | _ => [] end.
Fixpoint occs (path : list name) (cur : list node) : list node :=   (* cur = occurrences at the current position; path = remaining child names *)
  match path with [] => cur | n :: p => occs p (flat_map (kids_named n) cur) end.
Fixpoint lookup (path : list name) (e : element) : option (nec * element) :=
  match path with
  | [] => Some (Mand, e)
  | [n] => get_child (echildren e) n
  | n :: p => match get_child (echildren e) n with Some c => lookup p (snd c) | None => None end
  end.
Fixpoint dedup (l : list name) : list name :=
  match l with [] => [] | x :: r => x :: filter (fun y => negb (name_eqb x y)) (dedup r) end.

(* boolean check of the exactness statement at one path *)
Definition check_at (e : element) (roots : list node) (path : list name) : bool :=
  let os := occs path roots in
  match lookup path e with
  | None => match os with [] => true | _ => false end
  | Some (nc, x) =>
      match os with [] => false | _ =>
        (* text *)
        Bool.eqb (etext x) (existsb has_text os)
        (* attrs: names in first-appearance order, mandatory iff in all *)
        && (if list_eq_dec N.eq_dec (map snd (eattrs x)) (dedup (flat_map oattrs os)) then true else false)
        && forallb (fun a => nec_eqb (fst a) (if forallb (fun o => mem (snd a) (oattrs o)) os then Mand else Opt)) (eattrs x)
        (* children: names = first-appearance set; position = index in first-appearance order *)
        && (let cn := dedup (flat_map okidnames os) in
            forallb (fun n => match get_child (echildren x) n with Some _ => true | None => false end) cn
            && (length (echildren x) =? length cn)%nat
            && forallb (fun c => let n := ename (snd c) in
                   nec_eqb (fst c) (if forallb (fun o => negb (length (kids_named n o) =? 0)%nat) os then Mand else Opt)
                   && Bool.eqb (estandalone (snd c)) (negb (existsb (fun o => (2 <=? length (kids_named n o))%nat) os))
                   && (ecount (snd c) =? N.of_nat (length (flat_map (kids_named n) os)))
                   && match epos (snd c) with Some p => match nth_error cn p with Some m => name_eqb m n | None => false end | None => false end)
                 (echildren x))
      end
  end.
(* all paths up to depth 3 over alphabet {1,2} *)
Definition paths : list (list name) :=
  [[]] ++ map (fun a => [a]) [1;2] ++ flat_map (fun a => map (fun b => [a;b]) [1;2]) [1;2]
  ++ flat_map (fun a => flat_map (fun b => map (fun c => [a;b;c]) [1;2]) [1;2]) [1;2].

(* enumerate small documents *)
Fixpoint trees (d : nat) : list node :=
  match d with
  | O => []
  | S d' =>
      let sub := trees d' in
      let leafs := [NText; NMisc] in
      let kidlists : list (list node) :=
        [[]] ++ map (fun k => [k]) (leafs ++ sub)
        ++ (if (d' <=? 1)%nat then flat_map (fun k1 => map (fun k2 => [k1; k2]) (leafs ++ sub)) (leafs ++ sub) else []) in
      flat_map (fun n => flat_map (fun at_ => flat_map (fun ks =>
          (match ks with [] => [NElem n true at_ []] | _ => [] end) ++ [NElem n false at_ ks]) kidlists) [[]; [7]]) [1; 2]
  end.
Definition roots_of (d : nat) := filter (fun t => match t with NElem 1 _ _ _ => true | _ => false end) (trees d).
Eval vm_compute in (length (trees 1), length (trees 2), length (roots_of 2)).

Definition run (docs : list node) : option element :=
  match docs with
  | [] => None
  | d :: r => fold_left (fun acc x => match acc with Some e => extend_struct e [x] | None => None end) r (into_struct [d])
  end.
Definition check_docs (docs : list node) : bool :=
  match run docs with
  | None => false
  | Some e => forallb (fun p => check_at e docs p) paths
  end.

(* ---- in-flight invariant, tested by computation ---- *)
Definition go := fix go (ks : list node) (r : element) (kn : list name) {struct ks} : element * list name :=
     match ks with [] => (r, kn) | k :: ks' => let (r', kn') := absorb k r kn in go ks' r' kn' end.
Definition cnt (n : name) (ks : list node) : nat := length (filter (fun k => match k with NElem m _ _ _ => name_eqb m n | _ => false end) ks).
Definition is_text k := match k with NText | NCData => true | _ => false end.
Definition knames (ks : list node) := flat_map (fun k => match k with NElem m _ _ _ => [m] | _ => [] end) ks.
Fixpoint prefixes {A} (l : list A) : list (list A) := match l with [] => [[]] | x :: r => [] :: map (cons x) (prefixes r) end.
(* whole-tree equality on the observable record (structural) *)
Fixpoint elem_eqb (a b : element) {struct a} : bool :=
  match a, b with Elem n1 t1 s1 c1 a1 ch1 p1, Elem n2 t2 s2 c2 a2 ch2 p2 =>
    name_eqb n1 n2 && Bool.eqb t1 t2 && Bool.eqb s1 s2 && (c1 =? c2)
    && (if list_eq_dec (fun x y : nec * name => ltac:(decide equality; [apply N.eq_dec | decide equality])) a1 a2 then true else false)
    && ((fix all (x : list (nec * element)) (y : list (nec * element)) {struct x} : bool :=
          match x, y with [], [] => true | (na, ea) :: x', (nb, eb) :: y' => nec_eqb na nb && elem_eqb ea eb && all x' y' | _, _ => false end) ch1 ch2)
    && (match p1, p2 with Some u, Some v => (u =? v)%nat | None, None => true | _, _ => false end)
  end.
(* final-state check of a node against an occurrence list, hereditarily = check_at on all paths below; reuse check_docs-like: *)
Definition repr_b (e : element) (os : list node) : bool := forallb (fun p => check_at e os p) paths.

Definition partial_b (e0 : element) (os : list node) (o : node) (done : list node) (e : element) : bool :=
  (ecount e =? N.of_nat (length os) + 1)
  && Bool.eqb (etext e) (existsb has_text os || existsb is_text done)
  && (let cn := dedup (flat_map okidnames os ++ knames done) in
      (length (echildren e) =? length cn)%nat
      && forallb (fun n => match get_child (echildren e) n with
           | None => false
           | Some c =>
             let k := cnt n done in
             let subs := flat_map (kids_named n) os in
             (match epos (snd c) with Some p => match nth_error cn p with Some m => name_eqb m n | None => false end | None => false end)
             && (if (k =? 0)%nat then
                   match get_child (echildren e0) n with Some c0 => nec_eqb (fst c) (fst c0) && elem_eqb (snd c) (snd c0) | None => false end
                 else
                   nec_eqb (fst c) Mand
                   && (ecount (snd c) =? N.of_nat (length subs + k))
                   && Bool.eqb (estandalone (snd c)) (negb (existsb (fun o' => (2 <=? length (kids_named n o'))%nat) os) && (k <? 2)%nat)
                   && repr_b (snd c) (subs ++ filter (fun kd => match kd with NElem m _ _ _ => name_eqb m n | _ => false end) done))
           end) cn).
Definition known_b (done : list node) (kn : list name) : bool :=
  if list_eq_dec N.eq_dec kn (dedup (knames done)) then true else false.

Definition test_pair (d1 d2 : node) : bool :=
  match into_struct [d1], d2 with
  | Some e0, NElem n ef attrs kids =>
      let start := increment (merge_attr e0 (map (fun a => (Mand, a)) attrs)) in
      forallb (fun done => let (e, kn) := go done start [] in partial_b e0 [d1] d2 done e && known_b done kn) (prefixes kids)
  | _, _ => false end.
Fixpoint every (k : nat) (i : nat) (l : list node) : list node :=
  match l with [] => [] | x :: r => match i with O => x :: every k k r | S i' => every k i' r end end.
Definition rs := every 22 0 (roots_of 2).
Time Eval vm_compute in (length rs, forallb (fun a => forallb (fun b => test_pair a b) rs) rs).
Definition rs2 := every 9 4 (roots_of 2).
Time Eval vm_compute in (length rs2, forallb (fun a => forallb (fun b => test_pair a b) rs2) rs2).
