"""expand_name / fill_struct_names / compute_struct_names of src/element.rs -> terms of
coq/Model/RustNames.v (used by bin/translate --only names).  Refuses anything outside the fragment."""
import re
from translate_ident import Refuse, tokenize, P, find_fn, coq_str, q, seq


def strs_lit(p):
    """vec!["a", "b"].into_iter().map(String::from).collect()"""
    p.take("vec", "!", "[")
    items = []
    while p.peek() != "]":
        t = p.peek()
        if not p.is_str():
            raise Refuse("vec![..] with something other than string literals")
        p.i += 1
        items.append(coq_str(t))
        p.opt(",")
    p.take("]", ".", "into_iter", "(", ")", ".", "map", "(", "String", "::", "from", ")", ".", "collect", "(", ")")
    return "(EStrsLit [%s])" % "; ".join(items)


def value(p):
    p.opt("&")
    p.opt("mut")
    t = p.peek()
    if t == "!":
        p.take("!")
        return "(ENot %s)" % value(p)
    if t == "String":
        p.take("String", "::", "new", "(", ")")
        return "(EStr [])"
    if t == "Vec":
        p.take("Vec", "::", "new", "(", ")")
        return "ENewVec"
    if t == "HashMap":
        p.take("HashMap", "::", "new", "(", ")")
        return "ENewTable"
    if t == "vec":
        return strs_lit(p)
    if t == "0":
        p.i += 1
        return "EZero"
    if t == "*":
        p.take("*")
        return value(p)
    if t == "format":
        p.take("format", "!", "(")
        fmt = p.peek()
        if not p.is_str():
            raise Refuse("format! without a literal format string")
        p.i += 1
        args = []
        while p.opt(","):
            args.append(value(p))
        p.take(")")
        body = fmt[1:-1]
        if "\\" in body or "{{" in body or "}}" in body:
            raise Refuse("format string %s is outside the fragment" % fmt)
        pieces = body.split("{}")
        if len(pieces) != len(args) + 1:
            raise Refuse("format string %s does not match its %d arguments" % (fmt, len(args)))
        parts = []
        for k, pc in enumerate(pieces):
            if pc:
                parts.append("FLit' (s \"%s\")" % pc)
            if k < len(args):
                parts.append("FArg' %s" % args[k])
        return "(EFormat [%s])" % "; ".join(parts)
    x = "self" if p.opt("self") else p.ident()
    if p.peek() == "[":
        # v[start..].join("")
        p.take("[")
        st = "(EVar %s)" % q(p.ident())
        p.take(".", ".", "]", ".", "join", "(")
        if p.peek() != '""':
            raise Refuse("join with a separator other than the empty string")
        p.i += 1
        p.take(")")
        return "(EJoinFrom %s %s)" % (q(x), st)
    if p.peek() != ".":
        return "(EVar %s)" % q(x)
    p.take(".")
    m = p.ident()
    if m == "clone":
        p.take("(", ")")
        return "(EVar %s)" % q(x)
    if m == "formatted_name":
        p.take("(", ")")
        return "(EFormattedName %s)" % q(x)
    if m == "name":
        p.take(".", "to_string", "(", ")")
        return "(EElemName %s)" % q(x)
    if m == "contains_only_text":
        p.take("(", ")")
        return "(EContainsOnlyText %s)" % q(x)
    if m == "get":
        p.take("(")
        k = value(p)
        p.take(")")
        return "(EHintsGet %s %s)" % (q(x), k)
    if m == "contains":
        p.take("(")
        a = value(p)
        p.take(")")
        return "(EContains %s %s)" % (q(x), a)
    if m == "len":
        p.take("(", ")")
        e = "(ELen %s)" % q(x)
        if p.peek() == "." and p.peek(1) == "saturating_sub":
            p.take(".", "saturating_sub", "(")
            b = value(p)
            p.take(")")
            return "(ESatSub %s %s)" % (e, b)
        return e
    if m == "expand_name":
        p.take("(")
        tr = p.ident()
        p.take(",")
        h = p.ident()
        p.take(")")
        return "(ECallExpand %s %s %s)" % (q(x), q(tr), q(h))
    raise Refuse("`%s.%s` is outside the fragment" % (x, m))


def block(p):
    p.take("{")
    out = []
    while p.peek() != "}":
        out.append(stmt(p))
    p.take("}")
    return seq(out)


def stmt(p):
    t = p.peek()
    if t == "let":
        p.take("let")
        p.opt("mut")
        x = p.ident()
        if p.opt(":"):
            # the sorted-children idiom:  let mut children: Vec<&Element<T>> = EL.children.iter().map(|c| c.inner_t()).collect();
            #                            children.sort_by_key(|c| c.position);
            p.take("Vec", "<", "&", "Element", "<", "T", ">", ">", "=")
            el = p.ident()
            p.take(".", "children", ".", "iter", "(", ")", ".", "map", "(", "|")
            c = p.ident()
            p.take("|", c, ".", "inner_t", "(", ")", ")", ".", "collect", "(", ")", ";")
            p.take(x, ".", "sort_by_key", "(", "|")
            c2 = p.ident()
            p.take("|", c2, ".", "position", ")", ";")
            return "(SLet %s (ESortedChildren %s))" % (q(x), q(el))
        p.take("=")
        e = value(p)
        p.take(";")
        return "(SLet %s %s)" % (q(x), e)
    if t == "while":
        p.take("while")
        c = value(p)
        return "(SWhile %s %s)" % (c, block(p))
    if t == "if":
        p.take("if")
        if p.peek() == "let":
            p.take("let", "Some", "(")
            x = p.ident()
            p.take(")", "=")
            e = value(p)
            return "(SIfLetSome %s %s %s)" % (q(x), e, block(p))
        c = value(p)
        return "(SIf %s %s)" % (c, block(p))
    if t == "for":
        p.take("for")
        x = p.ident()
        p.take("in")
        v = p.ident()
        return "(SForElems %s %s %s)" % (q(x), q(v), block(p))
    if t == "fill_struct_names":
        p.take("fill_struct_names", "(")
        args = []
        pre = []
        while p.peek() != ")":
            if p.peek() == "&" and p.peek(1) == "mut" and p.peek(2) == "Vec":
                p.take("&", "mut", "Vec", "::", "new", "(", ")")
                tmp = "_tmp%d" % len(pre)
                pre.append("(SLet %s ENewVec)" % q(tmp))
                args.append(tmp)
            else:
                p.opt("&")
                p.opt("mut")
                args.append("self" if p.opt("self") else p.ident())
            p.opt(",")
        p.take(")", ";")
        if len(args) != 6:
            raise Refuse("fill_struct_names called with %d arguments" % len(args))
        return seq(pre + ["(SCallFill %s)" % " ".join(q(a) for a in args)])
    x = "self" if p.opt("self") else p.ident()
    if p.peek() == "+=":
        p.take("+=", "1", ";")
        return "(SAddOne %s)" % q(x)
    if p.peek() == "=":
        p.take("=")
        e = value(p)
        p.opt(";")
        return "(SAssign %s %s)" % (q(x), e)
    if p.peek() == ".":
        p.take(".")
        m = p.ident()
        if m == "push":
            p.take("(")
            e = value(p)
            p.take(")", ";")
            return "(SPush %s %s)" % (q(x), e)
        if m == "pop":
            p.take("(", ")", ";")
            return "(SPop %s)" % q(x)
        if m == "insert":
            p.take("(")
            k = p.ident()
            p.take(".", "clone", "(", ")", ",")
            v = value(p)
            p.take(")", ";")
            return "(SInsert %s %s %s)" % (q(x), q(k), v)
    raise Refuse("statement starting with `%s %s` is outside the fragment" % (x, p.peek()))


def params_of(toks, i, j, name):
    hp = P(toks[i:j])
    hp.take("fn", name)
    if hp.peek() == "<":
        depth = 0
        while True:
            t = hp.peek()
            hp.i += 1
            if t == "<":
                depth += 1
            elif t == ">":
                depth -= 1
                if depth == 0:
                    break
            elif t is None:
                raise Refuse("unterminated generics")
    hp.take("(")
    params = []
    while hp.peek() != ")":
        if hp.peek() == "&":
            hp.take("&")
            hp.opt("mut")
        if hp.peek() == "self":
            hp.i += 1
            params.append("self")
        else:
            x = hp.ident()
            hp.take(":")
            depth = 0
            while not (hp.peek() in (",", ")") and depth == 0):
                t = hp.peek()
                hp.i += 1
                if t in ("<", "["):
                    depth += 1
                elif t in (">", "]"):
                    depth -= 1
                elif t is None:
                    raise Refuse("unterminated parameter type")
            params.append(x)
        hp.opt(",")
    return params


def body_of(toks, j, k, skip_nested=None):
    """statements of the body toks[j:k]; an optional nested fn definition is skipped; the tail
    expression (an identifier before the closing brace), if any, is the result"""
    body = P(toks[j:k])
    body.take("{")
    stmts = []
    result = None
    while True:
        if skip_nested and body.peek() == "fn" and body.peek(1) == skip_nested:
            # skip to the end of the nested definition
            d = 0
            while True:
                t = body.peek()
                body.i += 1
                if t == "{":
                    d += 1
                elif t == "}":
                    d -= 1
                    if d == 0:
                        break
                elif t is None:
                    raise Refuse("unterminated nested function")
            continue
        if body.peek() == "}":
            break
        if body.peek(1) == "}" and body.i + 2 == len(body.t):
            result = "(EVar %s)" % q(body.ident())
            break
        stmts.append(stmt(body))
    body.take("}")
    return seq(stmts), result


def generate(src_text):
    m = re.search(r"#\[cfg\(test\)\]\s*mod\s+tests\b", src_text)
    toks = tokenize(src_text[:m.start()] if m else src_text)
    if "fn formatted_name ( & self ) -> String { format ! ( \"{}\" , self . name ) . to_pascal_case ( ) }" not in " ".join(toks):
        raise Refuse("`formatted_name` is not the expected text (PascalCase of the printed name)")
    out = {}
    for name, nested in (("expand_name", None), ("fill_struct_names", None), ("compute_struct_names", "fill_struct_names")):
        i, j, k = find_fn(toks, name)
        params = params_of(toks, i, j, name)
        body, result = body_of(toks, j, k, nested)
        out[name] = (params, body, result)

    def fn_def(name, t):
        params, body, result = t
        return ("Definition %s : fn :=\n  {| fn_params := [%s];\n     fn_body :=\n       %s;\n     fn_result := %s |}.\n"
                % (name, "; ".join(q(p) for p in params), body, ("Some %s" % result) if result else "None"))
    return (
        "(* GENERATED by bin/translate from src/element.rs of the working tree - do not edit.\n"
        "   Regenerated on every run of bin/check C14; Proofs/NamesRsProofs.v is about these terms. *)\n"
        "From XSG.Model Require Import Strings Render RustNames.\n"
        "From Coq Require Import String List.\nImport ListNotations.\n\n"
        + fn_def("expand_name_rs", out["expand_name"]) + "\n"
        + fn_def("fill_struct_names_rs", out["fill_struct_names"]) + "\n"
        + fn_def("compute_struct_names_rs", out["compute_struct_names"]))
